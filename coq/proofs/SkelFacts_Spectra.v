(* Proofs of the control-skeleton tie of emd/spectra.py (see model/SkelPrims_Spectra.v, notes/TIE_SPECTRA.md). *)
From Coq Require Import String List Bool Arith ZArith Lia.
From EmdV Require Import lib.NpLite lib.PyLoop lib.PyLoopTools model.Spectra proofs.SpectraFacts
     gen.Gen_Skel_Spectra model.SkelPrims_Spectra.
Import ListNotations.
Close Scope Z_scope.
Open Scope nat_scope.
Open Scope string_scope.


(* ================================================================================================ *)
(* list facts                                                                                        *)
(* ================================================================================================ *)
Lemma zip_with_map_same : forall A B C D (f : B -> C -> D) (g : A -> B) (h : A -> C) l,
  zip_with f (map g l) (map h l) = map (fun x => f (g x) (h x)) l.
Proof.
  intros A B C D f g h l. unfold zip_with. induction l as [|a t IH]; [reflexivity|].
  cbn [map combine fst snd]. f_equal. exact IH.
Qed.

Lemma shape1_map2d : forall A B (f : A -> B) m, shape1 (map2d f m) = shape1 m.
Proof. intros A B f m. destruct m as [|r t]; [reflexivity|]. unfold shape1, map2d. cbn [map hd]. apply map_length. Qed.

Lemma length_map2d : forall A B (f : A -> B) m, length (map2d f m) = length m.
Proof. intros. unfold map2d. apply map_length. Qed.

Lemma map2d_map2d : forall A B C (f : A -> B) (g : B -> C) m, map2d g (map2d f m) = map2d (fun x => g (f x)) m.
Proof.
  intros A B C f g m. unfold map2d. rewrite map_map. apply map_ext. intros r. apply map_map.
Qed.

Lemma map2d_ext : forall A B (f g : A -> B) m, (forall x, f x = g x) -> map2d f m = map2d g m.
Proof. intros A B f g m H. unfold map2d. apply map_ext. intros r. apply map_ext. exact H. Qed.

Lemma map2d_id : forall A (f : A -> A) m, (forall x, f x = x) -> map2d f m = m.
Proof.
  intros A f m H. unfold map2d. rewrite <- (map_id m) at 2. apply map_ext. intros r.
  rewrite <- (map_id r) at 2. apply map_ext. exact H.
Qed.

Lemma forallb_mask_self : forall A (p : A -> bool) l, forallb p (mask_select (map p l) l) = true.
Proof.
  intros A p l. unfold mask_select. induction l as [|a t IH]; [reflexivity|].
  cbn [map combine filter fst]. destruct (p a) eqn:E; cbn [map snd forallb]; [rewrite E|]; exact IH.
Qed.

Lemma forallb_mask_sub : forall A (p : A -> bool) g l, forallb p l = true -> forallb p (mask_select g l) = true.
Proof.
  intros A p g l. unfold mask_select. revert g. induction l as [|a t IH]; intros g H.
  - destruct g; reflexivity.
  - destruct g as [|b g]; [reflexivity|]. cbn [forallb] in H. apply andb_true_iff in H. destruct H as [Ha Ht].
    cbn [combine filter fst]. destruct b; cbn [map snd forallb]; [rewrite Ha|]; apply IH; exact Ht.
Qed.

(* the three coordinate lists as projections of one list of (row, col, value) triples *)
Definition tri_y (p : Z * Z * Z) : Z := fst (fst p).
Definition tri_x (p : Z * Z * Z) : Z := snd (fst p).
Definition tri_d (p : Z * Z * Z) : Z := snd p.

Lemma coo_triplets_select : forall (gf : Z -> bool) tr,
  coo_triplets (mask_select (map gf (map tri_y tr)) (map tri_d tr))
               (mask_select (map gf (map tri_y tr)) (map tri_y tr))
               (mask_select (map gf (map tri_y tr)) (map tri_x tr))
  = flat_map (fun p => if gf (tri_y p) then [(Z.to_nat (tri_y p), Z.to_nat (tri_x p), tri_d p)] else []) tr.
Proof.
  intros gf tr. unfold coo_triplets, mask_select. induction tr as [|p t IH]; [reflexivity|].
  cbn [map combine filter fst flat_map]. destruct (gf (tri_y p)); cbn [map combine snd fst app]; rewrite IH; reflexivity.
Qed.

Lemma coo_triplets_all : forall tr,
  coo_triplets (map tri_d tr) (map tri_y tr) (map tri_x tr)
  = map (fun p => (Z.to_nat (tri_y p), Z.to_nat (tri_x p), tri_d p)) tr.
Proof.
  intros tr. unfold coo_triplets. induction tr as [|p t IH]; [reflexivity|].
  cbn [map combine fst snd]. rewrite IH. reflexivity.
Qed.

(* ---- the samples of model/Spectra.v, with the time index starting anywhere ---- *)
Definition s_t (s : nat * nat * Z * Z) : nat := fst (fst (fst s)).
Definition s_f (s : nat * nat * Z * Z) : Z := snd (fst s).
Definition s_a (s : nat * nat * Z * Z) : Z := snd s.

Definition row_samples (t : nat) (i : nat) (fr ar : list Z) : list (nat * nat * Z * Z) :=
  map (fun ja => let '(j, (f, a)) := ja in (t, j, f, a)) (enum_from i (combine fr ar)).

Definition samples2_from (k : nat) (infr inam : list (list Z)) : list (nat * nat * Z * Z) :=
  flat_map (fun tr => let '(t, (fr, ar)) := tr in row_samples t 0 fr ar) (enum_from k (combine infr inam)).

Lemma samples2_is_from : forall infr inam, samples2 infr inam = samples2_from 0 infr inam.
Proof. reflexivity. Qed.

Lemma row_samples_f : forall A (g : Z -> A) t fr ar i, length fr = length ar ->
  map (fun s => g (s_f s)) (row_samples t i fr ar) = map g fr.
Proof.
  intros A g t fr. unfold row_samples. induction fr as [|x fr IH]; intros ar i H.
  - reflexivity.
  - destruct ar as [|y ar]; [discriminate|]. cbn [combine enum_from map s_f fst snd]. f_equal.
    apply IH. cbn [length] in H. lia.
Qed.

Lemma row_samples_a : forall A (g : Z -> A) t fr ar i, length fr = length ar ->
  map (fun s => g (s_a s)) (row_samples t i fr ar) = map g ar.
Proof.
  intros A g t fr. unfold row_samples. induction fr as [|x fr IH]; intros ar i H.
  - destruct ar; [reflexivity|discriminate].
  - destruct ar as [|y ar]; [discriminate|]. cbn [combine enum_from map s_a fst snd]. f_equal.
    apply IH. cbn [length] in H. lia.
Qed.

Lemma row_samples_t : forall A (g : nat -> A) t fr ar i, length fr = length ar ->
  map (fun s => g (s_t s)) (row_samples t i fr ar) = repeat (g t) (length fr).
Proof.
  intros A g t fr. unfold row_samples. induction fr as [|x fr IH]; intros ar i H.
  - reflexivity.
  - destruct ar as [|y ar]; [discriminate|]. cbn [combine enum_from map s_t fst snd length repeat]. f_equal.
    apply IH. cbn [length] in H. lia.
Qed.

Section Samples2.
  Variable M : nat.

  Lemma samples2_f : forall A (g : Z -> A) infr inam k,
    rectangular infr M -> rectangular inam M -> length infr = length inam ->
    map (fun s => g (s_f s)) (samples2_from k infr inam) = concat (map (map g) infr).
  Proof.
    intros A g infr. unfold samples2_from. induction infr as [|fr infr IH]; intros inam k Hf Ha Hl.
    - reflexivity.
    - destruct inam as [|ar inam]; [discriminate|]. inversion Hf; subst. inversion Ha; subst.
      cbn [combine enum_from flat_map map concat]. rewrite map_app. f_equal.
      + apply row_samples_f. congruence.
      + apply IH; [assumption|assumption|]. cbn [length] in Hl. lia.
  Qed.

  Lemma samples2_a : forall A (g : Z -> A) infr inam k,
    rectangular infr M -> rectangular inam M -> length infr = length inam ->
    map (fun s => g (s_a s)) (samples2_from k infr inam) = concat (map (map g) inam).
  Proof.
    intros A g infr. unfold samples2_from. induction infr as [|fr infr IH]; intros inam k Hf Ha Hl.
    - destruct inam; [reflexivity|discriminate].
    - destruct inam as [|ar inam]; [discriminate|]. inversion Hf; subst. inversion Ha; subst.
      cbn [combine enum_from flat_map map concat]. rewrite map_app. f_equal.
      + apply row_samples_a. congruence.
      + apply IH; [assumption|assumption|]. cbn [length] in Hl. lia.
  Qed.

  Lemma samples2_t : forall A (g : nat -> A) infr inam k,
    rectangular infr M -> rectangular inam M -> length infr = length inam ->
    map (fun s => g (s_t s)) (samples2_from k infr inam)
    = concat (map (fun t => repeat (g t) M) (seq k (length infr))).
  Proof.
    intros A g infr. unfold samples2_from. induction infr as [|fr infr IH]; intros inam k Hf Ha Hl.
    - reflexivity.
    - destruct inam as [|ar inam]; [discriminate|]. inversion Hf; subst. inversion Ha; subst.
      cbn [combine enum_from flat_map map concat length seq]. rewrite map_app. f_equal.
      + apply row_samples_t. congruence.
      + apply IH; [assumption|assumption|]. cbn [length] in Hl. lia.
  Qed.
End Samples2.

Lemma flat_map_map : forall A B C (f : A -> B) (g : B -> list C) l, flat_map g (map f l) = flat_map (fun x => g (f x)) l.
Proof. intros A B C f g l. induction l as [|a t IH]; [reflexivity|]. cbn [map flat_map]. rewrite IH. reflexivity. Qed.

Lemma rectangular_shape1 : forall A (m : list (list A)) M, rectangular m M -> m <> [] -> shape1 m = M.
Proof. intros A m M H Hn. destruct m as [|r t]; [congruence|]. inversion H; subst. reflexivity. Qed.

(* ================================================================================================ *)
(* hilberthuang                                                                                      *)
(* ================================================================================================ *)
(* the (row, col, value) triple that the code builds for the sample s *)
Definition hht_triple (energy : bool) (edges : list Z) (s : nat * nat * Z * Z) : Z * Z * Z :=
  ((dig edges (s_f s) - Z.of_nat 1)%Z, Z.of_nat (s_t s), weight energy (s_a s)).

Lemma hht_entries_triples : forall energy edges infr inam,
  flat_map (fun p => if band (Z.of_nat 0 <=? tri_y p)%Z (tri_y p <? Z.of_nat (length edges - 1))%Z
                     then [(Z.to_nat (tri_y p), Z.to_nat (tri_x p), tri_d p)] else [])
           (map (hht_triple energy edges) (samples2 infr inam))
  = hht_entries energy edges infr inam.
Proof.
  intros energy edges infr inam. rewrite flat_map_map. unfold hht_entries. apply flat_map_ext.
  intros [[[t j] f] a]. unfold hht_triple, tri_y, tri_x, tri_d, s_f, s_t, s_a, dig, band. cbn [fst snd].
  set (d := digitize f edges). set (nb := length edges - 1).
  rewrite Nat2Z.id.
  destruct (1 <=? d)%nat eqn:E1; destruct (d <=? nb)%nat eqn:E2;
    [apply Nat.leb_le in E1; apply Nat.leb_le in E2
    |apply Nat.leb_le in E1; apply Nat.leb_gt in E2
    |apply Nat.leb_gt in E1; apply Nat.leb_le in E2
    |apply Nat.leb_gt in E1; apply Nat.leb_gt in E2]; cbn [andb].
  - replace ((Z.of_nat 0 <=? Z.of_nat d - Z.of_nat 1)%Z) with true by (symmetry; apply Z.leb_le; lia).
    replace ((Z.of_nat d - Z.of_nat 1 <? Z.of_nat nb)%Z) with true by (symmetry; apply Z.ltb_lt; lia).
    cbn [andb]. replace (Z.to_nat (Z.of_nat d - Z.of_nat 1)) with (d - 1) by lia. reflexivity.
  - replace ((Z.of_nat d - Z.of_nat 1 <? Z.of_nat nb)%Z) with false by (symmetry; apply Z.ltb_ge; lia).
    rewrite andb_false_r. reflexivity.
  - replace ((Z.of_nat 0 <=? Z.of_nat d - Z.of_nat 1)%Z) with false by (symmetry; apply Z.leb_gt; lia).
    reflexivity.
  - replace ((Z.of_nat 0 <=? Z.of_nat d - Z.of_nat 1)%Z) with false by (symmetry; apply Z.leb_gt; lia).
    reflexivity.
Qed.

Lemma forallb_time_ok : forall M k n T, k + n <= T ->
  forallb (idx_ok T) (concat (map (fun t => repeat (Z.of_nat t) M) (seq k n))) = true.
Proof.
  intros M k n. revert k. induction n as [|n IH]; intros k T H; [reflexivity|].
  cbn [seq map concat]. rewrite forallb_app. apply andb_true_iff. split.
  - apply forallb_forall. intros x Hx. apply repeat_spec in Hx. subst x. unfold idx_ok.
    apply andb_true_iff. split; [apply Z.leb_le; lia | apply Z.ltb_lt; lia].
  - apply IH. lia.
Qed.

(* THE COMPOSITION of hilberthuang: digitize - 1 of infr, the tiled time index, the weighted amplitudes, all
   flattened, filtered by goods and handed to coo_matrix = the model's entries, and no index is out of range *)
Lemma coo_build_hht : forall energy edges infr inam data,
  rectangular infr (shape1 infr) -> rectangular inam (shape1 infr) -> length infr = length inam ->
  data = map2d (weight energy) inam ->
  let ys := concat (map2d (fun y => (y - Z.of_nat 1)%Z) (map2d (dig edges) infr)) in
  let goods := zip_with band (map (fun y => (Z.of_nat 0 <=? y)%Z) ys)
                             (map (fun y => (y <? Z.of_nat (length edges - 1))%Z) ys) in
  coo_build (mask_select goods (concat data)) (mask_select goods ys)
            (mask_select goods (concat (map (fun t => repeat (Z.of_nat t) (shape1 infr)) (seq 0 (length infr)))))
            (length edges - 1) (length infr)
  = Ok (VSig (Coo (hht_entries energy edges infr inam) (length edges - 1) (length infr))).
Proof.
  intros energy edges infr inam data Hf Ha Hl Hd ys goods.
  set (gf := fun y : Z => band (Z.of_nat 0 <=? y)%Z (y <? Z.of_nat (length edges - 1))%Z).
  set (tr := map (hht_triple energy edges) (samples2 infr inam)).
  assert (Hy : ys = map tri_y tr).
  { unfold ys, tr. rewrite map_map, map2d_map2d, samples2_is_from.
    symmetry. apply (samples2_f (shape1 infr) _ (fun f => (dig edges f - Z.of_nat 1)%Z)); assumption. }
  assert (Hx : concat (map (fun t => repeat (Z.of_nat t) (shape1 infr)) (seq 0 (length infr))) = map tri_x tr).
  { unfold tr. rewrite map_map, samples2_is_from.
    symmetry. apply (samples2_t (shape1 infr) _ (fun t => Z.of_nat t)); assumption. }
  assert (Hdt : concat data = map tri_d tr).
  { unfold tr. rewrite map_map, samples2_is_from, Hd.
    symmetry. apply (samples2_a (shape1 infr) _ (fun a => weight energy a)); assumption. }
  assert (Hg : goods = map gf (map tri_y tr)).
  { unfold goods. rewrite Hy. rewrite zip_with_map_same. reflexivity. }
  unfold coo_build.
  assert (Hok1 : forallb (idx_ok (length edges - 1)) (mask_select goods ys) = true).
  { rewrite Hg, Hy. apply (forallb_mask_self _ gf). }
  assert (Hok2 : forallb (idx_ok (length infr))
                   (mask_select goods (concat (map (fun t => repeat (Z.of_nat t) (shape1 infr)) (seq 0 (length infr))))) = true).
  { apply forallb_mask_sub. apply forallb_time_ok. lia. }
  rewrite Hok1, Hok2. cbn [andb].
  rewrite Hx, Hdt, Hg. rewrite Hy.
  rewrite coo_triplets_select. unfold tr, gf. rewrite hht_entries_triples. reflexivity.
Qed.

Section HHT.
  Variables (infr inam : list (list Z)) (edges : list Z).
  Local Notation P := hht_prims.
  Definition hht_spine : list stmt := Eval cbv in spine prog_hilberthuang.
  Ltac ev := cbv beta iota zeta delta
      [exec final_env eval eval_truth bind map_res truthy do_cmp do_arith do_index nat_cmp nat_arith iter_list
       upd lookup env_of assign_all cmp_name ar_name frame overlay normal_env
       try_finish try_finish_env exn_matches exec_list
       prims_of table_lookup keys_are is_opaque0 range_handler range_val
       hht_prims hht_table
       h_ensure_2d h_ensure_equal_dims h_square h_digitize h_sub h_tile_T h_flatten h_ge h_lt h_gt h_len
       h_logical_and h_getitem h_last h_coo_matrix h_shape h_toarray to2d
       hht_names hht_env0 params_hilberthuang mode_str hht_spine
       String.eqb Ascii.eqb Bool.eqb fst snd nth_error andb negb orb].
  Ltac ev1 := ev; repeat (progress (cbn [Nat.eqb]; oracle_rw); ev).

  Theorem skeleton_hilberthuang : forall (m : smode) (rs : bool) (f : nat),
    rectangular infr (shape1 infr) -> rectangular inam (shape1 inam) -> edges <> [] ->
    exec P prog_hilberthuang f (hht_env0 infr inam edges m rs) = hht_render infr inam edges m rs.
  Proof.
    intros m rs f Hf Ha He.
    assert (Hle : Nat.leb 1 (length edges) = true).
    { destruct edges; [congruence|reflexivity]. }
    rewrite exec_spine. change (spine prog_hilberthuang) with hht_spine.
    unfold hht_render.
    set (K := exec_list P).
    assert (K_cons : forall s t f e, K (s :: t) f e =
                       match exec P s f e with Normal e' => K t f e' | o => o end) by reflexivity.
    assert (K_nil : forall f e, K [] f e = Normal e) by reflexivity.
    destruct (same_shape2 infr inam) eqn:Esh.
    2:{ unfold hht_spine. repeat (rewrite K_cons; ev1). reflexivity. }
    assert (Hs : length infr = length inam /\ shape1 infr = shape1 inam).
    { unfold same_shape2 in Esh. apply andb_true_iff in Esh. destruct Esh as [E1 E2].
      apply Nat.eqb_eq in E1. apply Nat.eqb_eq in E2. split; assumption. }
    destruct Hs as [Hl Hc]. rewrite <- Hc in Ha.
    assert (Hamp : inam = map2d (weight false) inam) by (symmetry; apply map2d_id; reflexivity).
    pose proof (coo_build_hht true edges infr inam (map2d sq inam) Hf Ha Hl eq_refl) as Cen. cbv zeta in Cen.
    pose proof (coo_build_hht false edges infr inam inam Hf Ha Hl Hamp) as Cam. cbv zeta in Cam.
    destruct m, rs; unfold hht_spine; repeat (rewrite K_cons; ev1);
      rewrite ?map_length, ?seq_length, ?length_map2d, ?shape1_map2d;
      first [rewrite Cen | rewrite Cam];
      repeat (rewrite K_cons; ev1); rewrite ?K_nil; ev1; reflexivity.
  Qed.
End HHT.

(* ================================================================================================ *)
(* hilberthuang_1d                                                                                   *)
(* ================================================================================================ *)
Lemma zip2d_map_same : forall A B C D (f : B -> C -> D) (g : A -> B) (h : A -> C) m,
  zip_with (zip_with f) (map2d g m) (map2d h m) = map2d (fun x => f (g x) (h x)) m.
Proof.
  intros A B C D f g h m. unfold map2d. rewrite zip_with_map_same. apply map_ext. intros r.
  apply zip_with_map_same.
Qed.

Lemma zip_with_map_right : forall A C D (f : A -> C -> D) (h : A -> C) l,
  zip_with f l (map h l) = map (fun x => f x (h x)) l.
Proof.
  intros A C D f h l. unfold zip_with. induction l as [|a t IH]; [reflexivity|].
  cbn [map combine fst snd]. f_equal. exact IH.
Qed.

Lemma zip2d_map_right : forall A C D (f : A -> C -> D) (h : A -> C) m,
  zip_with (zip_with f) m (map2d h m) = map2d (fun x => f x (h x)) m.
Proof.
  intros A C D f h m. unfold map2d. rewrite zip_with_map_right. apply map_ext. intros r.
  apply zip_with_map_right.
Qed.

Lemma column_map2d : forall (g : Z -> Z) m M j, rectangular m M -> j < M ->
  column 0%Z (map2d g m) j = map g (column 0%Z m j).
Proof.
  intros g m M j H Hj. unfold column, map2d. rewrite !map_map. apply map_ext_in. intros r Hr.
  unfold rectangular in H. rewrite Forall_forall in H. specialize (H r Hr).
  rewrite (nth_indep (map g r) 0%Z (g 0%Z)) by (rewrite map_length; lia). apply map_nth.
Qed.

Lemma zsum_select : forall (w : Z -> Z) (g : Z -> nat) k fcol acol,
  zsum (map w (map snd (filter (fun da : Z * Z => (fst da =? Z.of_nat k)%Z)
                               (combine (map (fun f => Z.of_nat (g f)) fcol) acol))))
  = zsum (map (fun fa : Z * Z => if Nat.eqb (g (fst fa)) k then w (snd fa) else 0%Z) (combine fcol acol)).
Proof.
  intros w g k fcol. induction fcol as [|f t IH]; intros acol; [reflexivity|].
  destruct acol as [|a acol]; [reflexivity|]. cbn [map combine filter fst snd].
  assert (E : (Z.of_nat (g f) =? Z.of_nat k)%Z = Nat.eqb (g f) k).
  { destruct (Nat.eqb_spec (g f) k) as [->|N]; [apply Z.eqb_refl | apply Z.eqb_neq; lia]. }
  rewrite E. destruct (Nat.eqb (g f) k); cbn [map snd zsum]; rewrite IH; reflexivity.
Qed.

Section HHT1D.
  Variables (infr inam : list (list Z)) (e0 : Z) (et : list Z).
  Local Notation edges := (e0 :: et).
  Local Notation P := hht1d_prims.
  Local Notation M := (shape1 infr).
  Local Notation nb := (length edges - 1).

  Definition hht1d_pre : list stmt := Eval cbv in firstn 5 (spine prog_hilberthuang_1d).
  Definition hht1d_for : stmt := Eval cbv in nth 5 (spine prog_hilberthuang_1d) SSkip.
  Definition hht1d_post : list stmt := Eval cbv in skipn 6 (spine prog_hilberthuang_1d).
  Definition hht1d_inner : stmt := Eval cbv in match hht1d_for with SFor _ _ b => b | _ => SSkip end.
  Definition hht1d_body : stmt := Eval cbv in match hht1d_inner with SFor _ _ b => b | _ => SSkip end.

  Ltac ev := cbv beta iota zeta delta
      [exec final_env eval eval_truth bind map_res truthy do_cmp do_arith do_index nat_cmp nat_arith iter_list
       upd lookup env_of assign_all cmp_name ar_name frame overlay normal_env
       try_finish try_finish_env exn_matches exec_list
       prims_of table_lookup keys_are is_opaque0 range_handler range_val
       hht1d_prims hht1d_table
       h_zeros h_len h_shape h_copy h_array_float h_float h_lt h_gt h_getitem h_last h_add h_nan h_store_nan h_digitize
       h_col_select h_nansum h_power h_store_cell
       hht1d_names hht1d_env0 params_hilberthuang_1d mode_str
       hht1d_pre hht1d_for hht1d_post hht1d_inner hht1d_body
       String.eqb Ascii.eqb Bool.eqb fst snd nth_error andb negb orb].
  Ltac ev1 := ev; repeat (progress (cbn [Nat.eqb]; oracle_rw); ev).

  Definition outside (f : Z) : bool := bor (f <? e0)%Z (last edges 0%Z <? f)%Z.
  Definition Out : list (list bool) := zip_with (zip_with bor) (map2d (fun f => (f <? e0)%Z) infr)
                                                (map2d (fun f => (last edges 0%Z <? f)%Z) infr).
  Definition Nn : list (list (option Z)) := map2d (fun f => nan_out f (outside f)) infr.
  Definition Fn : list (list Z) := map2d (fun f => Z.of_nat (finds_1d edges f)) infr.

  Definition head1d (m : smode) (S : list (list Z)) (junk : string -> option (val arr)) : env arr :=
    env_of hht1d_names
      (overlay [ ("infr", VSig (N2 Nn)); ("inam", VSig (A2 inam)); ("freq_edges", VSig (A1 edges));
                 ("mode", VStr (mode_str m)); ("specs", VSig (A2 S)); ("outside_inds", VSig (M2 Out));
                 ("finds", VSig (A2 Fn)) ] junk).

  Lemma dig_nan_finds : forall f, dig_nan edges (nan_out f (outside f)) = Z.of_nat (finds_1d edges f).
  Proof.
    intros f. unfold dig_nan, nan_out, finds_1d, outside, bor. cbn [hd].
    destruct ((f <? e0)%Z || (last edges 0%Z <? f)%Z)%bool; reflexivity.
  Qed.

  Lemma hht1d_prefix : forall m f,
    exec_list P hht1d_pre f (hht1d_env0 infr inam edges m)
    = Normal (head1d m (repeat (repeat 0%Z M) nb) (fun _ => None)).
  Proof.
    intros m f. unfold head1d.
    assert (Hle : Nat.leb 1 (length edges) = true) by reflexivity.
    ev1.
    assert (HN : zip_with (zip_with nan_out) infr
                   (zip_with (zip_with bor) (map2d (fun f0 : Z => (f0 <? e0)%Z) infr)
                      (map2d (fun f0 : Z => (last edges 0 <? f0)%Z) infr)) = Nn).
    { unfold Nn. rewrite zip2d_map_same, zip2d_map_right. reflexivity. }
    rewrite HN.
    assert (HF : map2d (dig_nan edges) Nn = Fn).
    { unfold Nn, Fn. rewrite map2d_map2d. apply map2d_ext. exact dig_nan_finds. }
    rewrite HF. reflexivity.
  Qed.

  (* ---- the state of specs ---- *)
  Section Mode.
    Variable energy : bool.
    (* the model's cell [b][j] *)
    Definition cellf (b j : nat) : Z :=
      zsum (map (fun fa : Z * Z => if Nat.eqb (finds_1d edges (fst fa)) (S b) then weight energy (snd fa) else 0%Z)
                (combine (column 0%Z infr j) (column 0%Z inam j))).
    Definition rowf (b : nat) : list Z := map (cellf b) (seq 0 M).
    Definition zrow : list Z := repeat 0%Z M.
    Definition row_at_j (b j : nat) : list Z := (map (cellf b) (seq 0 j) ++ repeat 0%Z (M - j))%list.
    (* rows < b are final, row b is filled up to column j *)
    Definition spec_in (b j : nat) : list (list Z) :=
      (map rowf (seq 0 b) ++ row_at_j b j :: repeat zrow (nb - S b))%list.
    Definition spec_out (b : nat) : list (list Z) := (map rowf (seq 0 b) ++ repeat zrow (nb - b))%list.

    Lemma spec_model : spec_out nb = hilberthuang_1d energy edges infr inam.
    Proof.
      unfold spec_out. rewrite Nat.sub_diag. cbn [repeat]. rewrite app_nil_r.
      unfold hilberthuang_1d, rowf, cellf, shape1. cbv zeta.
      apply map_ext. intros b. apply map_ext. intros j. f_equal. apply map_ext. intros [f a]. reflexivity.
    Qed.

    Lemma spec_in_0 : forall b, b < nb -> spec_in b 0 = spec_out b.
    Proof.
      intros b Hb. unfold spec_in, spec_out, row_at_j. cbn [seq map app]. rewrite Nat.sub_0_r.
      replace (nb - b) with (S (nb - S b)) by lia. reflexivity.
    Qed.

    Lemma spec_in_M : forall b, b < nb -> spec_in b M = spec_out (S b).
    Proof.
      intros b Hb. unfold spec_in, spec_out, row_at_j. rewrite Nat.sub_diag. cbn [repeat]. rewrite app_nil_r.
      rewrite seq_snoc, map_app, <- app_assoc. reflexivity.
    Qed.

    Lemma row_at_j_length : forall b j, j <= M -> length (row_at_j b j) = M.
    Proof. intros b j H. unfold row_at_j. rewrite app_length, map_length, seq_length, repeat_length. lia. Qed.

    Lemma spec_in_row : forall b j, row_at (spec_in b j) b = Some (row_at_j b j).
    Proof.
      intros b j. unfold row_at, spec_in. rewrite nth_error_app2 by (rewrite map_length, seq_length; lia).
      rewrite map_length, seq_length, Nat.sub_diag. reflexivity.
    Qed.

    Lemma row_at_j_set : forall b j, j < M -> set_nth j (cellf b j) (row_at_j b j) = row_at_j b (S j).
    Proof.
      intros b j H. unfold set_nth, row_at_j.
      assert (Hl : length (map (cellf b) (seq 0 j)) = j) by (rewrite map_length; apply seq_length).
      rewrite firstn_app, Hl, Nat.sub_diag, firstn_O, app_nil_r, firstn_all2 by lia.
      rewrite skipn_app, Hl, (skipn_all2 (n := S j)) by lia. cbn [app].
      replace (S j - j) with 1 by lia.
      replace (M - j) with (S (M - S j)) by lia. cbn [repeat skipn].
      rewrite seq_snoc, map_app, <- app_assoc. reflexivity.
    Qed.

    Lemma spec_in_set : forall b j, j < M ->
      set_nth b (set_nth j (cellf b j) (row_at_j b j)) (spec_in b j) = spec_in b (S j).
    Proof.
      intros b j H. rewrite row_at_j_set by exact H. unfold set_nth, spec_in.
      assert (Hl : length (map rowf (seq 0 b)) = b) by (rewrite map_length; apply seq_length).
      rewrite firstn_app, Hl, Nat.sub_diag, firstn_O, app_nil_r, firstn_all2 by lia.
      rewrite skipn_app, Hl, (skipn_all2 (n := S b)) by lia. cbn [app].
      replace (S b - b) with 1 by lia. reflexivity.
    Qed.

    (* what the code sums for cell [b][j] *)
    Lemma cell_select : forall (w : Z -> Z) b j, rectangular infr M -> j < M ->
      (forall a, w a = weight energy a) ->
      zsum (map w (col_select inam Fn j (S b))) = cellf b j.
    Proof.
      intros w b j Hr Hj Hw. unfold col_select, Fn, cellf.
      rewrite (column_map2d _ infr M j Hr Hj).
      rewrite (zsum_select w (finds_1d edges) (S b)).
      f_equal. apply map_ext. intros fa. rewrite Hw. reflexivity.
    Qed.
    Lemma cell_select_id : forall b j, rectangular infr M -> j < M -> energy = false ->
      zsum (col_select inam Fn j (S b)) = cellf b j.
    Proof.
      intros b j Hr Hj He. rewrite <- (map_id (col_select inam Fn j (S b))).
      apply cell_select; [exact Hr|exact Hj|]. intros a. rewrite He. reflexivity.
    Qed.
  End Mode.

  Definition zeros : list (list Z) := repeat (repeat 0%Z M) nb.
  Definition spec_in' (m : smode) (b j : nat) : list (list Z) :=
    match m with MOther => zeros | _ => spec_in (is_energy m) b j end.
  Definition spec_out' (m : smode) (b : nat) : list (list Z) :=
    match m with MOther => zeros | _ => spec_out (is_energy m) b end.

  Definition head1d_in (m : smode) (S : list (list Z)) (b : nat) (junk : string -> option (val arr)) : env arr :=
    env_of hht1d_names
      (overlay [ ("infr", VSig (N2 Nn)); ("inam", VSig (A2 inam)); ("freq_edges", VSig (A1 edges));
                 ("mode", VStr (mode_str m)); ("specs", VSig (A2 S)); ("outside_inds", VSig (M2 Out));
                 ("finds", VSig (A2 Fn)); ("ii", VNat (Datatypes.S b)) ] junk).

  Hypothesis Hrect : rectangular infr M.

  Lemma hht1d_cell_step : forall m fb b j junk, b < nb -> j < M ->
    exists e2, normal_env (exec P hht1d_body fb (upd "jj" (VNat j) (head1d_in m (spec_in' m b j) b junk))) = Some e2 /\
               e2 = head1d_in m (spec_in' m b (S j)) b (fun x => lookup x e2).
  Proof.
    intros m fb b j junk Hb Hj. unfold head1d_in.
    destruct m; unfold spec_in'; cbn [is_energy].
    - pose proof (spec_in_row true b j) as Hrow.
      assert (Hlt : (j <? length (row_at_j true b j))%nat = true) by (apply Nat.ltb_lt; rewrite row_at_j_length; lia).
      eexists. split.
      + ev1. rewrite (cell_select true sq b j Hrect Hj) by reflexivity.
        rewrite (spec_in_set true b j Hj). reflexivity.
      + ev. reflexivity.
    - pose proof (spec_in_row false b j) as Hrow.
      assert (Hlt : (j <? length (row_at_j false b j))%nat = true) by (apply Nat.ltb_lt; rewrite row_at_j_length; lia).
      eexists. split.
      + ev1. rewrite (cell_select_id false b j Hrect Hj eq_refl).
        rewrite (spec_in_set false b j Hj). reflexivity.
      + ev. reflexivity.
    - eexists. split.
      + ev1. reflexivity.
      + ev. reflexivity.
  Qed.

  Lemma spec_in'_0 : forall m b, b < nb -> spec_in' m b 0 = spec_out' m b.
  Proof. intros m b Hb. destruct m; unfold spec_in', spec_out'; try apply spec_in_0; try exact Hb; reflexivity. Qed.

  Lemma spec_in'_M : forall m b, b < nb -> spec_in' m b M = spec_out' m (S b).
  Proof. intros m b Hb. destruct m; unfold spec_in', spec_out'; try apply spec_in_M; try exact Hb; reflexivity. Qed.

  (* the inner loop: row b, all columns *)
  Lemma hht1d_inner_loop : forall m fb b junk, b < nb ->
    exists junk', for_loop "jj" (fun e' => exec P hht1d_body fb e') (map VNat (seq 0 M))
                    (head1d_in m (spec_in' m b 0) b junk)
                  = Normal (head1d_in m (spec_in' m b M) b junk').
  Proof.
    intros m fb b junk Hb.
    destruct (for_loop_inv arr (fun done e => exists j, e = head1d_in m (spec_in' m b (length done)) b j)
                "jj" (fun e' => exec P hht1d_body fb e') (map VNat (seq 0 M)) (head1d_in m (spec_in' m b 0) b junk))
      as (e' & He' & (j & Hj)).
    - exists junk. reflexivity.
    - intros done v rest e1 Hl (j & He1).
      destruct (range_val_split M done v rest Hl) as (_ & Hv & Hlt). subst v e1.
      destruct (hht1d_cell_step m fb b (length done) j Hb Hlt) as (e2 & H2 & He2).
      exists e2. split; [exact H2|]. rewrite app_length, Nat.add_1_r. eexists. exact He2.
    - rewrite map_length, seq_length in Hj. exists j. rewrite He'. rewrite Hj. reflexivity.
  Qed.

  (* one iteration of the outer loop: ii = b + 1 *)
  Lemma hht1d_row_step : forall m fb b junk, b < nb ->
    exists e2, normal_env (exec P hht1d_inner fb (upd "ii" (VNat (S b)) (head1d m (spec_out' m b) junk))) = Some e2 /\
               e2 = head1d m (spec_out' m (S b)) (fun x => lookup x e2).
  Proof.
    intros m fb b junk Hb.
    assert (E0 : upd "ii" (VNat (S b)) (head1d m (spec_out' m b) junk) = head1d_in m (spec_in' m b 0) b junk).
    { rewrite spec_in'_0 by exact Hb. unfold head1d, head1d_in. ev. reflexivity. }
    rewrite E0. unfold hht1d_inner. rewrite exec_for.
    assert (Hit : bind (eval P (head1d_in m (spec_in' m b 0) b junk)
                          (ECall "range" [EIndex (ECall "infr.shape" [EVar "infr"] []) (ENat 1)] []))
                       (iter_list P) = Ok (map VNat (seq 0 M))).
    { unfold head1d_in. ev. unfold Nn. rewrite shape1_map2d. reflexivity. }
    rewrite Hit.
    destruct (hht1d_inner_loop m fb b junk Hb) as (junk' & Hloop).
    change (SIf (ECmp CEq (EVar "mode") (EStr "amplitude")) _ _) with hht1d_body. rewrite Hloop.
    cbn [normal_env]. eexists. split; [reflexivity|].
    rewrite spec_in'_M by exact Hb. unfold head1d, head1d_in. ev. reflexivity.
  Qed.

  Lemma range1_val_split : forall (n : nat) (done : list (val arr)) (v : val arr) (rest : list (val arr)),
    map (@VNat arr) (seq 1 n) = (done ++ v :: rest)%list -> v = VNat (S (length done)) /\ length done < n.
  Proof.
    intros n done v rest H.
    destruct (map_app_cons_inv _ _ _ _ _ H) as (d' & v' & r' & Hl & Hd & Hv & Hr).
    destruct (range_prefix 1 n d' v' r' Hl) as (Hd' & Hv' & Hn).
    subst done v. rewrite map_length. split; [rewrite Hv'; reflexivity | exact Hn].
  Qed.

  Lemma hht1d_outer_loop : forall m fb junk,
    exists junk', for_loop "ii" (fun e' => exec P hht1d_inner fb e') (map VNat (seq 1 nb))
                    (head1d m (spec_out' m 0) junk)
                  = Normal (head1d m (spec_out' m nb) junk').
  Proof.
    intros m fb junk.
    destruct (for_loop_inv arr (fun done e => exists j, e = head1d m (spec_out' m (length done)) j)
                "ii" (fun e' => exec P hht1d_inner fb e') (map VNat (seq 1 nb)) (head1d m (spec_out' m 0) junk))
      as (e' & He' & (j & Hj)).
    - exists junk. reflexivity.
    - intros done v rest e1 Hl (j & He1).
      destruct (range1_val_split nb done v rest Hl) as (Hv & Hlt). subst v e1.
      destruct (hht1d_row_step m fb (length done) j Hlt) as (e2 & H2 & He2).
      exists e2. split; [exact H2|]. rewrite app_length, Nat.add_1_r. eexists. exact He2.
    - rewrite map_length, seq_length in Hj. exists j. rewrite He'. rewrite Hj. reflexivity.
  Qed.

  Theorem skeleton_hilberthuang_1d_cons : forall m f,
    exec P prog_hilberthuang_1d f (hht1d_env0 infr inam edges m) = hht1d_render infr inam edges m.
  Proof.
    intros m f.
    rewrite (exec_nth_split arr P prog_hilberthuang_1d 5 hht1d_for f _ eq_refl).
    change (firstn 5 (spine prog_hilberthuang_1d)) with hht1d_pre.
    change (skipn 6 (spine prog_hilberthuang_1d)) with hht1d_post.
    rewrite hht1d_prefix.
    assert (Z0 : repeat (repeat 0%Z M) nb = spec_out' m 0).
    { destruct m; unfold spec_out', spec_out; cbn [seq map app]; rewrite ?Nat.sub_0_r; reflexivity. }
    rewrite Z0.
    unfold hht1d_for. rewrite exec_for.
    assert (Hit : bind (eval P (head1d m (spec_out' m 0) (fun _ => None))
                          (ECall "range" [ENat 1; ECall "len" [EVar "freq_edges"] []] []))
                       (iter_list P) = Ok (map VNat (seq 1 nb))).
    { unfold head1d. ev. reflexivity. }
    rewrite Hit.
    destruct (hht1d_outer_loop m f (fun _ => None)) as (junk' & Hloop).
    change (SFor "jj" _ _) with hht1d_inner. rewrite Hloop.
    unfold head1d. ev.
    unfold hht1d_render. destruct m; unfold spec_out'; cbn [is_energy]; rewrite ?spec_model; reflexivity.
  Qed.
End HHT1D.

Theorem skeleton_hilberthuang_1d : forall infr inam edges m f,
  rectangular infr (shape1 infr) -> edges <> [] ->
  exec hht1d_prims prog_hilberthuang_1d f (hht1d_env0 infr inam edges m) = hht1d_render infr inam edges m.
Proof.
  intros infr inam edges m f Hr He. destruct edges as [|e0 et]; [congruence|].
  apply skeleton_hilberthuang_1d_cons. exact Hr.
Qed.

(* ================================================================================================ *)
(* holospectrum                                                                                      *)
(* ================================================================================================ *)
Definition q_t (s : nat * Z * Z * Z) : nat := fst (fst (fst s)).
Definition q_f1 (s : nat * Z * Z * Z) : Z := snd (fst (fst s)).
Definition q_f2 (s : nat * Z * Z * Z) : Z := snd (fst s).
Definition q_a (s : nat * Z * Z * Z) : Z := snd s.

Definition cell_samples (t : nat) (f1 : Z) (f2row arow : list Z) : list (nat * Z * Z * Z) :=
  map (fun fa => let '(f2, a) := fa in (t, f1, f2, a)) (combine f2row arow).
Definition plane_samples (t : nat) (f1row : list Z) (f2m a2m : list (list Z)) : list (nat * Z * Z * Z) :=
  flat_map (fun mr => let '(f1, (f2row, arow)) := mr in cell_samples t f1 f2row arow)
           (combine f1row (combine f2m a2m)).
Definition samples3_from (k : nat) (infr : list (list Z)) (infr2 inam2 : list (list (list Z))) :=
  flat_map (fun tr => let '(t, (f1row, (f2m, a2m))) := tr in plane_samples t f1row f2m a2m)
           (enum_from k (combine infr (combine infr2 inam2))).

Lemma samples3_is_from : forall infr infr2 inam2, samples3 infr infr2 inam2 = samples3_from 0 infr infr2 inam2.
Proof. reflexivity. Qed.

Section Samples3.
  Variables (A : Type) (gt : nat -> A) (g1 g2 : Z -> Z) (w : Z -> A).

  Lemma cell_t : forall t f1 f2row arow, length f2row = length arow ->
    map (fun s => gt (q_t s)) (cell_samples t f1 f2row arow) = repeat (gt t) (length f2row).
  Proof.
    intros t f1 f2row. unfold cell_samples. induction f2row as [|x r IH]; intros arow H; [reflexivity|].
    destruct arow as [|y ar]; [discriminate|]. cbn [combine map q_t fst snd length repeat]. f_equal.
    apply IH. cbn [length] in H. lia.
  Qed.
  Lemma cell_h : forall t f1 f2row arow, length f2row = length arow ->
    map (fun s => (g1 (q_f1 s) + g2 (q_f2 s))%Z) (cell_samples t f1 f2row arow)
    = zip_with Z.add (repeat (g1 f1) (length f2row)) (map g2 f2row).
  Proof.
    intros t f1 f2row. unfold cell_samples, zip_with. induction f2row as [|x r IH]; intros arow H; [reflexivity|].
    destruct arow as [|y ar]; [discriminate|]. cbn [combine map q_f1 q_f2 fst snd length repeat]. f_equal.
    apply IH. cbn [length] in H. lia.
  Qed.
  Lemma cell_a : forall t f1 f2row arow, length f2row = length arow ->
    map (fun s => w (q_a s)) (cell_samples t f1 f2row arow) = map w arow.
  Proof.
    intros t f1 f2row. unfold cell_samples. induction f2row as [|x r IH]; intros arow H.
    - destruct arow; [reflexivity|discriminate].
    - destruct arow as [|y ar]; [discriminate|]. cbn [combine map q_a fst snd]. f_equal.
      apply IH. cbn [length] in H. lia.
  Qed.

  Variable K : nat.

  Lemma plane_t : forall t f1row f2m a2m, length f1row = length f2m -> length f2m = length a2m ->
    rectangular f2m K -> rectangular a2m K ->
    map (fun s => gt (q_t s)) (plane_samples t f1row f2m a2m) = concat (repeat (repeat (gt t) K) (length f1row)).
  Proof.
    intros t f1row. unfold plane_samples. induction f1row as [|f1 r IH]; intros f2m a2m H1 H2 R2 Ra; [reflexivity|].
    destruct f2m as [|f2row f2m]; [discriminate|]. destruct a2m as [|arow a2m]; [discriminate|].
    inversion R2; subst. inversion Ra; subst.
    cbn [combine flat_map length repeat concat]. rewrite map_app. f_equal.
    - rewrite cell_t by congruence. reflexivity.
    - apply IH; cbn [length] in *; try lia; assumption.
  Qed.
  Lemma plane_h : forall t f1row f2m a2m, length f1row = length f2m -> length f2m = length a2m ->
    rectangular f2m K -> rectangular a2m K ->
    map (fun s => (g1 (q_f1 s) + g2 (q_f2 s))%Z) (plane_samples t f1row f2m a2m)
    = concat (zip_with (zip_with Z.add) (map (fun x => repeat x K) (map g1 f1row)) (map2d g2 f2m)).
  Proof.
    intros t f1row. unfold plane_samples. induction f1row as [|f1 r IH]; intros f2m a2m H1 H2 R2 Ra; [reflexivity|].
    destruct f2m as [|f2row f2m]; [discriminate|]. destruct a2m as [|arow a2m]; [discriminate|].
    inversion R2; subst. inversion Ra; subst.
    unfold zip_with at 1, map2d. cbn [combine flat_map map concat fst snd]. rewrite map_app. f_equal.
    - rewrite cell_h by congruence. reflexivity.
    - apply IH; cbn [length] in *; try lia; assumption.
  Qed.
  Lemma plane_a : forall t f1row f2m a2m, length f1row = length f2m -> length f2m = length a2m ->
    rectangular f2m K -> rectangular a2m K ->
    map (fun s => w (q_a s)) (plane_samples t f1row f2m a2m) = concat (map2d w a2m).
  Proof.
    intros t f1row. unfold plane_samples. induction f1row as [|f1 r IH]; intros f2m a2m H1 H2 R2 Ra.
    - destruct f2m; [|discriminate]. destruct a2m; [reflexivity|discriminate].
    - destruct f2m as [|f2row f2m]; [discriminate|]. destruct a2m as [|arow a2m]; [discriminate|].
      inversion R2; subst. inversion Ra; subst.
      unfold map2d. cbn [combine flat_map map concat]. rewrite map_app. f_equal.
      + rewrite cell_a by congruence. reflexivity.
      + apply IH; cbn [length] in *; try lia; assumption.
  Qed.

  Variable M : nat.

  Lemma samples3_t : forall infr infr2 inam2 k, length infr = length infr2 -> length infr2 = length inam2 ->
    rectangular infr M -> cube infr2 M K -> cube inam2 M K ->
    map (fun s => gt (q_t s)) (samples3_from k infr infr2 inam2)
    = concat (concat (map (fun t => repeat (repeat (gt t) K) M) (seq k (length infr)))).
  Proof.
    intros infr. unfold samples3_from. induction infr as [|f1row r IH]; intros infr2 inam2 k H1 H2 R1 C2 Ca; [reflexivity|].
    destruct infr2 as [|f2m infr2]; [discriminate|]. destruct inam2 as [|a2m inam2]; [discriminate|].
    inversion R1; subst. inversion C2 as [|? ? [L2 R2] C2']; subst. inversion Ca as [|? ? [La Ra] Ca']; subst.
    cbn [combine enum_from flat_map length seq map concat]. rewrite map_app, concat_app. f_equal.
    - rewrite (plane_t k) by (try congruence; assumption). reflexivity.
    - apply IH; cbn [length] in *; try lia; assumption.
  Qed.
  Lemma samples3_h : forall infr infr2 inam2 k, length infr = length infr2 -> length infr2 = length inam2 ->
    rectangular infr M -> cube infr2 M K -> cube inam2 M K ->
    map (fun s => (g1 (q_f1 s) + g2 (q_f2 s))%Z) (samples3_from k infr infr2 inam2)
    = concat (concat (zip_with (zip_with (zip_with Z.add)) (map2d (fun x => repeat x K) (map2d g1 infr)) (map3d g2 infr2))).
  Proof.
    intros infr. unfold samples3_from. induction infr as [|f1row r IH]; intros infr2 inam2 k H1 H2 R1 C2 Ca; [reflexivity|].
    destruct infr2 as [|f2m infr2]; [discriminate|]. destruct inam2 as [|a2m inam2]; [discriminate|].
    inversion R1; subst. inversion C2 as [|? ? [L2 R2] C2']; subst. inversion Ca as [|? ? [La Ra] Ca']; subst.
    unfold zip_with at 1, map2d at 1 2, map3d. cbn [combine enum_from flat_map map concat fst snd].
    rewrite map_app, concat_app. f_equal.
    - rewrite (plane_h k) by (try congruence; assumption). reflexivity.
    - apply IH; cbn [length] in *; try lia; assumption.
  Qed.
  Lemma samples3_a : forall infr infr2 inam2 k, length infr = length infr2 -> length infr2 = length inam2 ->
    rectangular infr M -> cube infr2 M K -> cube inam2 M K ->
    map (fun s => w (q_a s)) (samples3_from k infr infr2 inam2) = concat (concat (map3d w inam2)).
  Proof.
    intros infr. unfold samples3_from. induction infr as [|f1row r IH]; intros infr2 inam2 k H1 H2 R1 C2 Ca.
    - destruct infr2; [|discriminate]. destruct inam2; [reflexivity|discriminate].
    - destruct infr2 as [|f2m infr2]; [discriminate|]. destruct inam2 as [|a2m inam2]; [discriminate|].
      inversion R1; subst. inversion C2 as [|? ? [L2 R2] C2']; subst. inversion Ca as [|? ? [La Ra] Ca']; subst.
      unfold map3d. cbn [combine enum_from flat_map map concat]. rewrite map_app, concat_app. f_equal.
      + rewrite (plane_a k) by (try congruence; assumption). reflexivity.
      + apply IH; cbn [length] in *; try lia; assumption.
  Qed.
End Samples3.

Lemma map3d_map3d : forall A B C (f : A -> B) (g : B -> C) c, map3d g (map3d f c) = map3d (fun x => g (f x)) c.
Proof.
  intros A B C f g c. unfold map3d. rewrite map_map. apply map_ext. intros p. apply (map2d_map2d _ _ _ f g).
Qed.

Lemma map3d_id : forall A (f : A -> A) c, (forall x, f x = x) -> map3d f c = c.
Proof.
  intros A f c H. unfold map3d. rewrite <- (map_id c) at 2. apply map_ext. intros p. apply (map2d_id _ f p H).
Qed.

(* the (row, col, value) triple that the code builds for the sample s; D1 = len(freq_edges) + 1 *)
Definition holo_triple (energy : bool) (edges edges2 : list Z) (s : nat * Z * Z * Z) : Z * Z * Z :=
  (Z.of_nat (q_t s),
   (dig edges (q_f1 s) + dig edges2 (q_f2 s) * Z.of_nat (length edges + 1))%Z,
   weight energy (q_a s)).

(* THE COMPOSITION of holospectrum: the time index broadcast over (imf1, imf2), the carrier index broadcast over
   imf2 plus the AM index times fold_dim1, the weighted amplitudes, flattened = the model's entries *)
Lemma coo_build_holo : forall energy edges edges2 infr infr2 inam2 data,
  length infr = length infr2 -> length infr2 = length inam2 ->
  rectangular infr (shape1 infr) -> cube infr2 (shape1 infr) (shape2 infr2) -> cube inam2 (shape1 infr) (shape2 infr2) ->
  data = map3d (weight energy) inam2 ->
  coo_build (concat (concat data))
    (concat (concat (map (fun x : Z => repeat (repeat x (shape2 infr2)) (shape1 infr)) (map Z.of_nat (seq 0 (length infr))))))
    (concat (concat (zip_with (zip_with (zip_with Z.add))
                       (map2d (fun x : Z => repeat x (shape2 infr2)) (map2d (dig edges) infr))
                       (map3d (fun y : Z => (y * Z.of_nat (length edges + 1))%Z) (map3d (dig edges2) infr2)))))
    (length infr) ((length edges + 1) * (length edges2 + 1))
  = Ok (VSig (Coo (holo_entries energy edges edges2 infr infr2 inam2) (length infr)
                  ((length edges + 1) * (length edges2 + 1)))).
Proof.
  intros energy edges edges2 infr infr2 inam2 data H1 H2 R1 C2 Ca Hd.
  set (tr := map (holo_triple energy edges edges2) (samples3 infr infr2 inam2)).
  set (K := shape2 infr2) in *. set (M := shape1 infr) in *.
  assert (Hy : concat (concat (map (fun x : Z => repeat (repeat x K) M) (map Z.of_nat (seq 0 (length infr)))))
               = map tri_y tr).
  { unfold tr. rewrite !map_map, samples3_is_from. symmetry.
    apply (samples3_t _ (fun t => Z.of_nat t) K M); assumption. }
  assert (Hx : concat (concat (zip_with (zip_with (zip_with Z.add))
                       (map2d (fun x : Z => repeat x K) (map2d (dig edges) infr))
                       (map3d (fun y : Z => (y * Z.of_nat (length edges + 1))%Z) (map3d (dig edges2) infr2))))
               = map tri_x tr).
  { unfold tr. rewrite map_map, map3d_map3d, samples3_is_from. symmetry.
    apply (samples3_h (dig edges) (fun f => (dig edges2 f * Z.of_nat (length edges + 1))%Z) K M); assumption. }
  assert (Hdt : concat (concat data) = map tri_d tr).
  { unfold tr. rewrite map_map, samples3_is_from, Hd. symmetry.
    apply (samples3_a _ (fun a => weight energy a) K M); assumption. }
  unfold coo_build.
  assert (Hok1 : forallb (idx_ok (length infr))
                   (concat (concat (map (fun x : Z => repeat (repeat x K) M) (map Z.of_nat (seq 0 (length infr)))))) = true).
  { apply forallb_forall. intros x Hx0. apply in_concat in Hx0. destruct Hx0 as (r & Hr & Hxr).
    apply in_concat in Hr. destruct Hr as (p & Hp & Hrp). rewrite map_map in Hp. apply in_map_iff in Hp.
    destruct Hp as (t & <- & Ht). apply repeat_spec in Hrp. subst r. apply repeat_spec in Hxr. subst x.
    apply in_seq in Ht. unfold idx_ok. apply andb_true_iff. split; [apply Z.leb_le; lia | apply Z.ltb_lt; lia]. }
  assert (Hok2 : forallb (idx_ok ((length edges + 1) * (length edges2 + 1))) (map tri_x tr) = true).
  { apply forallb_forall. intros x Hx0. apply in_map_iff in Hx0. destruct Hx0 as (p & <- & Hp).
    unfold tr in Hp. apply in_map_iff in Hp. destruct Hp as (s & <- & _).
    unfold holo_triple, tri_x, dig. cbn [fst snd].
    pose proof (digitize_le_length (q_f1 s) edges) as B1. pose proof (digitize_le_length (q_f2 s) edges2) as B2.
    unfold idx_ok. apply andb_true_iff. split; [apply Z.leb_le; lia | apply Z.ltb_lt; nia]. }
  rewrite Hx, Hok1, Hok2. cbn [andb]. rewrite Hy, Hdt, coo_triplets_all.
  unfold tr, holo_entries. rewrite map_map. do 3 f_equal. apply map_ext. intros [[[t f1] f2] a].
  unfold holo_triple, tri_y, tri_x, tri_d, q_t, q_f1, q_f2, q_a, dig. cbn [fst snd].
  rewrite Nat2Z.id. f_equal. f_equal. rewrite Nat.add_1_r. lia.
Qed.

Lemma seq_add : forall n s k, seq (s + k) n = map (fun c => c + k) (seq s n).
Proof.
  induction n as [|n IH]; intros s k; [reflexivity|]. cbn [seq map]. f_equal. apply (IH (S s) k).
Qed.

Lemma skipn_seq' : forall k s n, skipn k (seq s n) = seq (s + k) (n - k).
Proof.
  induction k as [|k IH]; intros s n.
  - rewrite Nat.add_0_r, Nat.sub_0_r. reflexivity.
  - destruct n as [|n]; [reflexivity|]. cbn [seq skipn]. rewrite IH. f_equal. lia.
Qed.

Lemma firstn_seq' : forall k s n, k <= n -> firstn k (seq s n) = seq s k.
Proof.
  induction k as [|k IH]; intros s n H; [reflexivity|].
  destruct n as [|n]; [lia|]. cbn [seq firstn]. f_equal. apply IH. lia.
Qed.

Lemma chunks_map_seq : forall A (g : nat -> A) d1 d2,
  chunks d2 d1 (map g (seq 0 (d1 * d2))) = map (fun a => map (fun c => g (c + a * d1)) (seq 0 d1)) (seq 0 d2).
Proof.
  intros A g d1 d2. unfold chunks. apply map_ext_in. intros a Ha. apply in_seq in Ha.
  rewrite skipn_map, firstn_map, skipn_seq', firstn_seq' by nia.
  rewrite (seq_add d1 0 (a * d1)). rewrite map_map. reflexivity.
Qed.

Lemma chunks_map : forall A B (h : A -> B) d2 d1 l, chunks d2 d1 (map h l) = map2d h (chunks d2 d1 l).
Proof.
  intros A B h d2 d1 l. unfold chunks, map2d. rewrite map_map. apply map_ext. intros a.
  rewrite skipn_map, firstn_map. reflexivity.
Qed.

Lemma trim2_map2d : forall A B (h : A -> B) m, map trim (trim (map2d h m)) = map2d h (map trim (trim m)).
Proof.
  intros A B h m. unfold map2d. rewrite trim_map, !map_map. apply map_ext. intros r. apply trim_map.
Qed.

Section HOLO.
  Variable mean_of : Z -> nat -> Z.
  Local Notation P := (holo_prims mean_of).
  Definition holo_spine : list stmt := Eval cbv in spine prog_holospectrum.
  Definition holo_pre : list stmt := Eval cbv in firstn 20 holo_spine.
  Definition holo_post : list stmt := Eval cbv in skipn 20 holo_spine.

  (* the environment between the construction of the sparse matrix and the squash_time branches *)
  Definition holo_mid (s : squash) (es : list (nat * nat * Z)) (T M K D1 D2 : nat)
             (junk : string -> option (val arr)) : env arr :=
    env_of holo_names
      (overlay [ ("squash_time", squash_val s); ("new_shape", VList [VNat T; VNat M; VNat K]);
                 ("fold_dim1", VNat D1); ("fold_dim2", VNat D2); ("holo", VSig (Coo es T (D1 * D2))) ] junk).

  Ltac ev := cbv beta iota zeta delta
      [exec final_env eval eval_truth bind map_res truthy do_cmp do_arith do_index nat_cmp nat_arith iter_list
       upd lookup env_of assign_all cmp_name ar_name frame overlay normal_env
       try_finish try_finish_env exn_matches exec_list
       prims_of table_lookup keys_are is_opaque0
       holo_prims holo_table
       h_ensure_2d h_ensure_equal_dims h_square h_digitize h_flatten h_len h_coo_matrix h_shape h_add
       h_newaxis_last h_arange_first h_broadcast_to h_mul
       h_is_false h_eq h_toarray_reshape h_coo_sum h_coo_mean h_mat_reshape h_trim3 h_trim2 h_np_array to2d
       holo_names holo_env0 params_holospectrum mode_str squash_val holo_spine holo_pre holo_post holo_mid
       String.eqb Ascii.eqb Bool.eqb fst snd nth_error andb negb orb].
  Ltac ev2 := ev; repeat (progress (cbn [Nat.eqb]; rewrite ?length_map2d, ?shape1_map2d, ?map_length, ?seq_length, ?Nat.eqb_refl; oracle_rw); ev).

  (* what the branches return for ANY sparse matrix of shape (T, D1 * D2) *)
  Definition holo_post_result (s : squash) (es : list (nat * nat * Z)) (T D1 D2 : nat) : outcome arr :=
    match s with
    | SqFalse => Return (VSig (A3 (map (fun plane => map trim (trim plane))
                                       (map (chunks D2 D1) (coo_dense es T (D1 * D2))))))
    | SqSum => Return (VSig (A2 (map trim (trim (chunks D2 D1 (coo_colsums es T (D1 * D2)))))))
    | SqMean => Return (VSig (A2 (map trim (trim (chunks D2 D1 (map (fun x => mean_of x T) (coo_colsums es T (D1 * D2))))))))
    | _ => Raise "TypeError"
    end.

  Lemma holo_suffix : forall s es T M K D1 D2 junk f,
    exec_list P holo_post f (holo_mid s es T M K D1 D2 junk) = holo_post_result s es T D1 D2.
  Proof.
    intros s es T M K D1 D2 junk f.
    assert (Hc : Nat.eqb (D1 * D2) (D2 * D1) = true) by (apply Nat.eqb_eq; apply Nat.mul_comm).
    assert (Hl : Nat.eqb (length (coo_colsums es T (D1 * D2))) (D2 * D1) = true).
    { unfold coo_colsums. rewrite map_length, seq_length. exact Hc. }
    assert (Hl' : Nat.eqb (length (map (fun s0 : Z => mean_of s0 T) (coo_colsums es T (D1 * D2)))) (D2 * D1) = true).
    { rewrite map_length. exact Hl. }
    destruct s; unfold holo_post_result; ev; rewrite ?Nat.eqb_refl, ?Hc, ?Hl, ?Hl'; ev; reflexivity.
  Qed.

  Variables (infr : list (list Z)) (infr2 inam2 : list (list (list Z))) (edges edges2 : list Z).
  Local Notation T := (length infr).
  Local Notation D1 := (length edges + 1).
  Local Notation D2 := (length edges2 + 1).
  Hypothesis R1 : rectangular infr (shape1 infr).
  Hypothesis C2 : cube infr2 (shape1 infr2) (shape2 infr2).
  Hypothesis Ca : cube inam2 (shape1 inam2) (shape2 infr2).

  Lemma holo_prefix : forall (m : smode) (s : squash) (f : nat),
    same_dim 0 infr infr2 inam2 = true -> same_dim 1 infr infr2 inam2 = true ->
    exists e, exec_list P holo_pre f (holo_env0 infr infr2 inam2 edges edges2 m s) = Normal e /\
              e = holo_mid s (holo_entries (is_energy m) edges edges2 infr infr2 inam2) T (shape1 infr) (shape2 infr2)
                    D1 D2 (fun x => lookup x e).
  Proof.
    intros m s f Ed0 Ed1.
    assert (Hs : (length infr = length infr2 /\ length infr2 = length inam2) /\
                 (shape1 infr = shape1 infr2 /\ shape1 infr = shape1 inam2)).
    { unfold same_dim in Ed0, Ed1. apply andb_true_iff in Ed0. apply andb_true_iff in Ed1.
      destruct Ed0 as [E1 E2]. destruct Ed1 as [E3 E4].
      apply Nat.eqb_eq in E1. apply Nat.eqb_eq in E2. apply Nat.eqb_eq in E3. apply Nat.eqb_eq in E4.
      repeat split; congruence. }
    destruct Hs as [[H1 H2] [H3 H4]].
    pose proof C2 as C2'. pose proof Ca as Ca'. rewrite <- H3 in C2'. rewrite <- H4 in Ca'.
    assert (Hamp : inam2 = map3d (weight false) inam2) by (symmetry; apply map3d_id; reflexivity).
    pose proof (coo_build_holo true edges edges2 infr infr2 inam2 (map3d sq inam2) H1 H2 R1 C2' Ca' eq_refl) as Cen.
    pose proof (coo_build_holo false edges edges2 infr infr2 inam2 inam2 H1 H2 R1 C2' Ca' Hamp) as Cam.
    set (K := exec_list P).
    assert (K_cons : forall s t f e, K (s :: t) f e =
                       match exec P s f e with Normal e' => K t f e' | o => o end) by reflexivity.
    assert (K_nil : forall f e, K [] f e = Normal e) by reflexivity.
    destruct m; (eexists; split;
      [ unfold holo_pre; cbv delta [holo_env0]; repeat (rewrite K_cons; ev2);
        first [rewrite Cen | rewrite Cam]; repeat (rewrite K_cons; ev2); rewrite ?K_nil; reflexivity
      | destruct s; ev; reflexivity ]).
  Qed.

  Lemma dense_chunks_full : forall energy,
    map (chunks D2 D1) (coo_dense (holo_entries energy edges edges2 infr infr2 inam2) T (D1 * D2))
    = holo_full energy edges edges2 infr infr2 inam2.
  Proof.
    intros energy. unfold coo_dense, holo_full. cbv zeta. rewrite map_map, !Nat.add_1_r.
    apply map_ext. intros t. apply (chunks_map_seq _ (fun c => coo_cell _ t c)).
  Qed.

  Lemma colsum_chunks : forall energy,
    map trim (trim (chunks D2 D1 (coo_colsums (holo_entries energy edges edges2 infr infr2 inam2) T (D1 * D2))))
    = holospectrum_sum energy edges edges2 infr infr2 inam2.
  Proof.
    intros energy. unfold coo_colsums, holospectrum_sum. cbv zeta. rewrite !Nat.add_1_r.
    rewrite (chunks_map_seq _ (fun col => zsum (map (fun t => coo_cell _ t col) (seq 0 T)))). reflexivity.
  Qed.

  Theorem skeleton_holospectrum : forall (m : smode) (s : squash) (f : nat),
    exec P prog_holospectrum f (holo_env0 infr infr2 inam2 edges edges2 m s)
    = holo_render mean_of infr infr2 inam2 edges edges2 m s.
  Proof.
    intros m s f. rewrite exec_spine. change (spine prog_holospectrum) with (holo_pre ++ holo_post)%list.
    rewrite exec_list_app. unfold holo_render.
    destruct (same_dim 0 infr infr2 inam2) eqn:Ed0.
    2:{ unfold holo_pre. cbv delta [holo_env0]. destruct m; ev2; reflexivity. }
    destruct (same_dim 1 infr infr2 inam2) eqn:Ed1.
    2:{ unfold holo_pre. cbv delta [holo_env0]. destruct m; ev2; reflexivity. }
    destruct (holo_prefix m s f Ed0 Ed1) as (e & He & Hmid). rewrite He, Hmid, holo_suffix.
    unfold holo_post_result. destruct s; try reflexivity.
    - rewrite dense_chunks_full. reflexivity.
    - rewrite chunks_map, trim2_map2d, colsum_chunks. reflexivity.
    - rewrite colsum_chunks. reflexivity.
  Qed.
End HOLO.
