(* Facts about model/KdtMatch.v (property C17): the repaired kdt_match returns a one-to-one pairing. *)
From Coq Require Import ZArith List Bool Lia Arith.
From EmdV Require Import lib.NpLite model.KdtMatch.
Import ListNotations.
Local Open Scope nat_scope.

(* ---- general list facts ---------------------------------------------------------------- *)

Lemma nth_error_mapi_from : forall A B (f : nat -> A -> B) l i r,
  nth_error (mapi_from f i l) r = option_map (f (i + r)) (nth_error l r).
Proof.
  intros A B f l; induction l as [|a t IH]; intros i r.
  - destruct r; reflexivity.
  - destruct r as [|r]; cbn [mapi_from nth_error option_map].
    + rewrite Nat.add_0_r. reflexivity.
    + rewrite IH. replace (S i + r) with (i + S r) by lia. reflexivity.
Qed.

Lemma nth_error_combine : forall A B (a : list A) (b : list B) r,
  nth_error (combine a b) r =
  match nth_error a r, nth_error b r with
  | Some x, Some y => Some (x, y)
  | _, _ => None
  end.
Proof.
  intros A B a; induction a as [|x t IH]; intros b r.
  - destruct r; reflexivity.
  - destruct b as [|y b].
    + destruct r as [|r]; cbn [combine nth_error]; [reflexivity|].
      destruct (nth_error t r); reflexivity.
    + destruct r as [|r]; cbn [combine nth_error]; [reflexivity|]. apply IH.
Qed.

Lemma nth_error_column : forall A (d : A) m c r,
  nth_error (column d m c) r = option_map (fun row => nth c row d) (nth_error m r).
Proof. intros. unfold column. apply nth_error_map. Qed.

Lemma nth_error_seq0 : forall n i r, nth_error (seq 0 n) i = Some r -> i < n /\ r = i.
Proof.
  intros n i r H.
  assert (i < n) as Hi.
  { rewrite <- (seq_length n 0). apply nth_error_Some. congruence. }
  split; [exact Hi|].
  apply (nth_error_nth _ _ 0) in H. rewrite seq_nth in H by exact Hi. lia.
Qed.

Lemma mem_nat_false : forall y l, mem_nat y l = false -> ~ In y l.
Proof.
  intros y l H Hin. unfold mem_nat in H.
  assert (existsb (Nat.eqb y) l = true) as E.
  { apply existsb_exists. exists y. split; [exact Hin | apply Nat.eqb_refl]. }
  congruence.
Qed.

Lemma In_filter_combine : forall (nm : list bool) (Ic : list nat) r y,
  nth_error nm r = Some true -> nth_error Ic r = Some y ->
  In y (map snd (filter fst (combine nm Ic))).
Proof.
  intros nm Ic r y H1 H2.
  change y with (snd (true, y)). apply in_map. apply filter_In. split; [|reflexivity].
  apply nth_error_In with r. rewrite nth_error_combine, H1, H2. reflexivity.
Qed.

Lemma NoDup_fst_combine : forall A B (a : list A) (b : list B),
  NoDup a -> NoDup (map fst (combine a b)).
Proof.
  intros A B a; induction a as [|x t IH]; intros b H.
  - constructor.
  - destruct b as [|y b]; cbn [combine map fst]; [constructor|].
    inversion H as [|? ? Hnx Hnt]; subst. constructor.
    + intro Hin. apply in_map_iff in Hin. destruct Hin as [[x' y'] [E Hin]].
      cbn [fst] in E. subst x'. apply in_combine_l in Hin. contradiction.
    + apply IH; assumption.
Qed.

Lemma NoDup_fst_flat_map : forall (E : Type) (ef : E -> nat) (g : E -> list (nat * nat)) (l : list E),
  (forall e p, In p (g e) -> fst p = ef e) ->
  (forall e, length (g e) <= 1) ->
  NoDup (map ef l) -> NoDup (map fst (flat_map g l)).
Proof.
  intros E ef g l Hf Hl. induction l as [|a t IH]; intros Hnd; cbn [flat_map map].
  - constructor.
  - cbn [map] in Hnd. inversion Hnd as [|? ? Hna Hnt]; subst.
    rewrite map_app. specialize (IH Hnt).
    pose proof (Hl a) as Hla. pose proof (Hf a) as Hfa.
    destruct (g a) as [|p [|q rest]]; cbn [length] in Hla; [exact IH | | lia].
    cbn [map app]. constructor; [|exact IH].
    intro Hin. apply Hna.
    apply in_map_iff in Hin. destruct Hin as [q [Eq Hq]].
    apply in_flat_map in Hq. destruct Hq as [e [He Hqe]].
    rewrite <- (Hfa p (or_introl eq_refl)), <- Eq, (Hf e q Hqe).
    apply in_map. exact He.
Qed.

Lemma NoDup_map_snd : forall (l : list (nat * nat)),
  NoDup (map fst l) ->
  (forall p q, In p l -> In q l -> snd p = snd q -> fst p = fst q) ->
  NoDup (map snd l).
Proof.
  induction l as [|a t IH]; intros Hnd Hinj; cbn [map].
  - constructor.
  - cbn [map] in Hnd. inversion Hnd as [|? ? Hna Hnt]; subst. constructor.
    + intro Hin. apply in_map_iff in Hin. destruct Hin as [q [Eq Hq]].
      apply Hna. rewrite <- (Hinj q a (or_intror Hq) (or_introl eq_refl) Eq).
      apply in_map. exact Hq.
    + apply IH; [exact Hnt|]. intros p q Hp Hq. apply Hinj; right; assumption.
Qed.

(* ---- one column step -------------------------------------------------------------------- *)

Definition cand (inds : list (list nat)) (r c : nat) : nat := nth c (nth r inds []) 0.

Lemma col_step_mark : forall D inds s k r c,
  nth_error (marks (col_step D inds s k)) r = Some (Some c) ->
  nth_error (marks s) r = Some (Some c) \/
  (nth_error (marks s) r = Some None /\ c = k /\
   ~ In (cand inds r k) (selected s) /\
   claimant (column 0%Z D k) (column 0 inds k) (cand inds r k) = Some r /\
   In (cand inds r k) (selected (col_step D inds s k))).
Proof.
  intros D inds s k r c H.
  unfold col_step in H |- *. cbn [marks selected] in *.
  rewrite nth_error_map, nth_error_combine in H.
  destruct (nth_error (marks s) r) as [mo|] eqn:Em; [|discriminate].
  destruct (nth_error (new_marks (column 0%Z D k) (column 0 inds k) s) r) as [b|] eqn:Eb;
    [|discriminate].
  cbn [option_map] in H.
  destruct mo as [c0|].
  - left. exact H.
  - destruct b; [|discriminate]. right.
    injection H as H. subst c.
    pose proof Eb as Eb'.
    unfold new_marks in Eb. rewrite nth_error_mapi_from in Eb.
    destruct (nth_error (column 0 inds k) r) as [y|] eqn:Ey; [|discriminate].
    cbn [option_map Nat.add] in Eb. injection Eb as Eb.
    pose proof Ey as Ey'.
    rewrite nth_error_column in Ey.
    destruct (nth_error inds r) as [row|] eqn:Er; [|discriminate].
    cbn [option_map] in Ey. injection Ey as Ey.
    assert (cand inds r k = y) as Hc.
    { unfold cand. rewrite (nth_error_nth _ _ _ Er). exact Ey. }
    rewrite Hc.
    apply andb_true_iff in Eb. destruct Eb as [Eb Hcl].
    apply andb_true_iff in Eb. destruct Eb as [_ Hsel].
    apply negb_true_iff in Hsel. apply mem_nat_false in Hsel.
    split; [reflexivity|]. split; [reflexivity|]. split; [exact Hsel|]. split.
    + destruct (claimant (column 0%Z D k) (column 0 inds k) y) as [r'|]; [|discriminate].
      apply Nat.eqb_eq in Hcl. subst r'. reflexivity.
    + apply in_or_app. right. apply In_filter_combine with r; assumption.
Qed.

(* ---- invariant of the fold over the columns --------------------------------------------- *)

Record Inv (inds : list (list nat)) (k : nat) (s : kstate) : Prop := {
  inv_lt : forall r c, nth_error (marks s) r = Some (Some c) -> c < k;
  inv_sel : forall r c, nth_error (marks s) r = Some (Some c) -> In (cand inds r c) (selected s);
  inv_inj : forall r r' c c',
      nth_error (marks s) r = Some (Some c) -> nth_error (marks s) r' = Some (Some c') ->
      cand inds r c = cand inds r' c' -> r = r' }.

Lemma Inv_init : forall inds, Inv inds 0 {| marks := map (fun _ => None) inds; selected := [] |}.
Proof.
  intros inds.
  assert (forall r c, nth_error (map (fun _ : list nat => @None nat) inds) r <> Some (Some c)) as H.
  { intros r c. rewrite nth_error_map. destruct (nth_error inds r); cbn [option_map]; congruence. }
  constructor; cbn [marks selected].
  - intros r c Hr. exfalso. exact (H _ _ Hr).
  - intros r c Hr. exfalso. exact (H _ _ Hr).
  - intros r r' c c' Hr. exfalso. exact (H _ _ Hr).
Qed.

Lemma Inv_step : forall D inds k s, Inv inds k s -> Inv inds (S k) (col_step D inds s k).
Proof.
  intros D inds k s [Hlt Hsel Hinj]. constructor.
  - intros r c Hr. apply col_step_mark in Hr.
    destruct Hr as [Hr | [_ [Hc _]]].
    + specialize (Hlt _ _ Hr). lia.
    + lia.
  - intros r c Hr. apply col_step_mark in Hr.
    destruct Hr as [Hr | [_ [Hc [_ [_ Hin]]]]].
    + unfold col_step. cbn [selected]. apply in_or_app. left. apply Hsel. exact Hr.
    + subst c. exact Hin.
  - intros r r' c c' Hr Hr' Heq.
    apply col_step_mark in Hr. apply col_step_mark in Hr'.
    destruct Hr as [Hr | [_ [Hc [Hns [Hcl _]]]]];
      destruct Hr' as [Hr' | [_ [Hc' [Hns' [Hcl' _]]]]].
    + exact (Hinj _ _ _ _ Hr Hr' Heq).
    + subst c'. exfalso. apply Hns'. rewrite <- Heq. apply Hsel. exact Hr.
    + subst c. exfalso. apply Hns. rewrite Heq. apply Hsel. exact Hr'.
    + subst c c'. rewrite Heq in Hcl. rewrite Hcl in Hcl'. injection Hcl' as E. exact E.
Qed.

Lemma run_cols_S : forall D inds K,
  run_cols D inds (S K) = col_step D inds (run_cols D inds K) K.
Proof.
  intros. unfold run_cols. rewrite seq_S, fold_left_app. reflexivity.
Qed.

Lemma Inv_run : forall D inds K, Inv inds K (run_cols D inds K).
Proof.
  intros D inds K. induction K as [|K IH].
  - apply Inv_init.
  - rewrite run_cols_S. apply Inv_step. exact IH.
Qed.

(* ---- the returned pairs ------------------------------------------------------------------ *)

Definition pair_of (ny : nat) (rm : nat * (list nat * option nat)) : list (nat * nat) :=
  let '(r, (row, m)) := rm in
  match final_row ny row m with Some y => [(r, y)] | None => [] end.

Lemma kdt_pairs_eq : forall D inds K ny,
  kdt_pairs D inds K ny =
  flat_map (pair_of ny)
           (combine (seq 0 (length inds)) (combine inds (marks (run_cols D inds K)))).
Proof. reflexivity. Qed.

Lemma In_kdt_pairs : forall D inds K ny x y,
  In (x, y) (kdt_pairs D inds K ny) ->
  exists c, nth_error (marks (run_cols D inds K)) x = Some (Some c) /\
            x < length inds /\ y = cand inds x c /\ c < ny /\ y < ny.
Proof.
  intros D inds K ny x y H. rewrite kdt_pairs_eq in H.
  apply in_flat_map in H. destruct H as [[r [row m]] [Hin Hy]].
  apply In_nth_error in Hin. destruct Hin as [i Hi].
  rewrite nth_error_combine in Hi.
  destruct (nth_error (seq 0 (length inds)) i) as [r0|] eqn:Es; [|discriminate].
  rewrite nth_error_combine in Hi.
  destruct (nth_error inds i) as [row0|] eqn:Er; [|discriminate].
  destruct (nth_error (marks (run_cols D inds K)) i) as [m0|] eqn:Em; [|discriminate].
  injection Hi as E1 E2 E3. subst r0 row0 m0.
  apply nth_error_seq0 in Es. destruct Es as [Hi Hri]. subst r.
  unfold pair_of, final_row in Hy.
  destruct m as [c|]; [|destruct Hy].
  destruct ((c <? ny) && (nth c row 0 <? ny)) eqn:Eb; [|destruct Hy].
  destruct Hy as [Hy|[]]. injection Hy as Hx Hy. subst x.
  apply andb_true_iff in Eb. destruct Eb as [Hc Hyn].
  apply Nat.ltb_lt in Hc. apply Nat.ltb_lt in Hyn.
  exists c. split; [exact Em|]. split; [exact Hi|].
  assert (cand inds i c = nth c row 0) as Hcand.
  { unfold cand. rewrite (nth_error_nth _ _ _ Er). reflexivity. }
  split; [congruence|]. split; [exact Hc|]. rewrite <- Hy. exact Hyn.
Qed.

Lemma match_lengths_equal : forall D inds K ny,
  length (map fst (kdt_pairs D inds K ny)) = length (map snd (kdt_pairs D inds K ny)).
Proof. intros. rewrite !map_length. reflexivity. Qed.

Lemma match_in_range : forall D inds K ny x y,
  In (x, y) (kdt_pairs D inds K ny) -> x < length inds /\ y < ny.
Proof.
  intros D inds K ny x y H. apply In_kdt_pairs in H.
  destruct H as [c [_ [Hx [_ [_ Hy]]]]]. split; assumption.
Qed.

Lemma match_injective_x : forall D inds K ny, NoDup (map fst (kdt_pairs D inds K ny)).
Proof.
  intros D inds K ny. rewrite kdt_pairs_eq.
  apply NoDup_fst_flat_map with (ef := fst).
  - intros [r [row m]] p Hp. unfold pair_of in Hp.
    destruct (final_row ny row m); [|destruct Hp].
    destruct Hp as [Hp|[]]. subst p. reflexivity.
  - intros [r [row m]]. unfold pair_of.
    destruct (final_row ny row m); cbn [length]; lia.
  - apply NoDup_fst_combine. apply seq_NoDup.
Qed.

Lemma match_injective_y : forall D inds K ny, NoDup (map snd (kdt_pairs D inds K ny)).
Proof.
  intros D inds K ny. apply NoDup_map_snd.
  - apply match_injective_x.
  - intros [x y] [x' y'] Hp Hq E. cbn [fst snd] in *. subst y'.
    apply In_kdt_pairs in Hp. apply In_kdt_pairs in Hq.
    destruct Hp as [c [Hm [_ [Hy _]]]]. destruct Hq as [c' [Hm' [_ [Hy' _]]]].
    apply (inv_inj _ _ _ (Inv_run D inds K) x x' c c' Hm Hm'). congruence.
Qed.

Lemma match_among_knn : forall D inds K ny x y,
  In (x, y) (kdt_pairs D inds K ny) ->
  exists c, c < K /\ nth c (nth x inds []) 0 = y.
Proof.
  intros D inds K ny x y H. apply In_kdt_pairs in H.
  destruct H as [c [Hm [_ [Hy _]]]].
  exists c. split.
  - exact (inv_lt _ _ _ (Inv_run D inds K) x c Hm).
  - symmetry. exact Hy.
Qed.

Lemma match_within_bound : forall D inds K ny B,
  (forall r c, nth c (nth r inds []) 0 < ny -> (nth c (nth r D []) 0 <= B)%Z) ->
  forall x y, In (x, y) (kdt_pairs D inds K ny) ->
  exists c, c < K /\ nth c (nth x inds []) 0 = y /\ (nth c (nth x D []) 0 <= B)%Z.
Proof.
  intros D inds K ny B HB x y H.
  pose proof (match_in_range _ _ _ _ _ _ H) as [_ Hy].
  apply match_among_knn in H. destruct H as [c [Hc Hcy]].
  exists c. split; [exact Hc|]. split; [exact Hcy|].
  apply HB. rewrite Hcy. exact Hy.
Qed.

(* ---- the code before the repair ------------------------------------------------------------ *)

Lemma kdt_v0_refuted : exists D inds K ny, ~ NoDup (map snd (kdt_pairs_v0 D inds K ny)).
Proof.
  exists [[2; 4]; [1000; 1000]; [2; 4]; [1000; 1000]; [1; 2]]%Z.
  exists [[0; 1]; [3; 3]; [0; 1]; [3; 3]; [0; 2]].
  exists 2, 3.
  vm_compute. intro H.
  inversion H as [|? ? Hn _]; subst. apply Hn. right. left. reflexivity.
Qed.

Lemma c17_premises_hold :
  kdt_pairs [[2; 5]; [1; 4]; [3; 1000]]%Z [[0; 1]; [0; 1]; [0; 2]] 2 2 = [(1, 0)].
Proof. vm_compute. reflexivity. Qed.
