(* Proofs of the control-skeleton tie `Util` (notes/TIE_UTIL.md): the programs of gen/Gen_Skel_Util.v and
   gen/Gen_Skel_Utilutils.v, run by the interpreter of lib/PyLoop.v with the primitive table of
   model/SkelPrims_Util.v, compute the list-level models of that file; and the laws of those models. *)
From Coq Require Import String List Bool Arith ZArith QArith Qcanon Qround Lia Lqa.
From EmdV Require Import lib.NpLite lib.PyLoop lib.PyLoopTools model.Freq proofs.FreqFacts
     gen.Gen_Skel_Util gen.Gen_Skel_Utilutils model.SkelPrims_Util.
Import ListNotations.
Close Scope Q_scope.
Close Scope Z_scope.
Open Scope nat_scope.
Open Scope string_scope.

(* ---- list facts ------------------------------------------------------------------------------------ *)
Lemma zipw_map_r : forall {A B C} (f : A -> B -> C) (g : A -> B) (l : list A),
  zipw f l (map g l) = map (fun x => f x (g x)) l.
Proof. intros A B C f g l. induction l as [|a t IH]; cbn [map zipw]; [reflexivity|]. rewrite IH. reflexivity. Qed.

Lemma map2_map2 : forall {A B C} (g : B -> C) (h : A -> B) (a : list (list A)),
  map2 g (map2 h a) = map2 (fun x => g (h x)) a.
Proof. intros A B C g h a. unfold map2. rewrite map_map. apply map_ext. intros c. apply map_map. Qed.

Lemma zip2_map2_r : forall {A B C} (f : A -> B -> C) (g : A -> B) (a : list (list A)),
  zip2 f a (map2 g a) = map2 (fun x => f x (g x)) a.
Proof. intros A B C f g a. unfold zip2, map2. rewrite zipw_map_r. apply map_ext. intros c. apply zipw_map_r. Qed.

Lemma forall2b_map2 : forall {A B} (p : B -> bool) (f : A -> B) (a : list (list A)),
  forall2b p (map2 f a) = forall2b (fun x => p (f x)) a.
Proof.
  intros A B p f a. unfold forall2b, map2. induction a as [|c t IH]; [reflexivity|].
  cbn [map forallb]. rewrite IH. f_equal. induction c as [|x r IHc]; [reflexivity|]. cbn [map forallb]. rewrite IHc. reflexivity.
Qed.

Lemma col_at_map_seq : forall {B} (f : nat -> B) n i, i < n -> col_at (map f (seq 0 n)) i = Some (f i).
Proof.
  intros B f n i H. unfold col_at. rewrite (nth_error_nth' _ (f 0)) by (rewrite map_length, seq_length; exact H).
  f_equal. rewrite (map_nth f (seq 0 n) 0 i), seq_nth by exact H. reflexivity.
Qed.

Lemma set_nth_split : forall {A} (l1 : list A) x l2 v, set_nth (length l1) v (l1 ++ x :: l2) = (l1 ++ v :: l2)%list.
Proof.
  intros A l1 x l2 v. unfold set_nth. induction l1 as [|a t IH]; [reflexivity|].
  cbn [length app firstn skipn]. cbn [skipn] in IH. rewrite IH. reflexivity.
Qed.

Lemma set_nth_map_seq : forall {B} (f : nat -> B) n i v, i < n ->
  set_nth i v (map f (seq 0 n)) = map (fun k => if Nat.eqb k i then v else f k) (seq 0 n).
Proof.
  intros B f n i v H.
  assert (Hs : seq 0 n = (seq 0 i ++ i :: seq (S i) (n - S i))%list).
  { replace n with (i + S (n - S i)) at 1 by lia. rewrite seq_app. reflexivity. }
  rewrite Hs, !map_app. cbn [map]. rewrite Nat.eqb_refl.
  replace i with (length (map f (seq 0 i))) at 1 by (rewrite map_length; apply seq_length).
  rewrite set_nth_split. f_equal; [|f_equal]; apply map_ext_in; intros k Hk; apply in_seq in Hk;
    (destruct (Nat.eqb k i) eqn:E; [apply Nat.eqb_eq in E; lia | reflexivity]).
Qed.

Lemma map_const_repeat : forall {A B} (c : B) (l : list A), map (fun _ => c) l = repeat c (length l).
Proof. intros A B c l. induction l as [|a t IH]; [reflexivity|]. cbn [map length repeat]. rewrite IH. reflexivity. Qed.

Lemma map_repeat : forall {A B} (f : A -> B) x n, map f (repeat x n) = repeat (f x) n.
Proof. intros A B f x n. induction n as [|n IH]; [reflexivity|]. cbn [repeat map]. rewrite IH. reflexivity. Qed.

Section UtilTie.
  Variable tau : Qc.
  Variable qsqrt : Qc -> Qc.
  Variable atan : Qc -> Qc.
  Variable interp_eval : list Qc -> list Qc -> list Qc -> option (list Qc).
  Variable extrema : lockmode -> list Qc -> option (list nat * list Qc).
  Variable pctl : list Qc -> Qc -> Qc.
  Variable ft_call : val uv -> val uv -> res (val uv).
  Local Notation P := (util_prims tau qsqrt atan interp_eval extrema pctl ft_call).

  (* the loops: [prefix; SFor ..; suffix], picked by position in the spine (closed statement terms) *)
  Definition eo_pre : list stmt := Eval cbv in firstn 1 (spine prog_est_orthogonality).
  Definition eo_for : stmt := Eval cbv in nth 1 (spine prog_est_orthogonality) SSkip.
  Definition eo_post : list stmt := Eval cbv in skipn 2 (spine prog_est_orthogonality).
  Definition eo_inner : stmt := Eval cbv in match eo_for with SFor _ _ b => b | _ => SSkip end.
  Definition eo_body : stmt := Eval cbv in match eo_inner with SFor _ _ b => b | _ => SSkip end.
  Definition ae_pre : list stmt := Eval cbv in firstn 1 (spine prog_apply_epochs).
  Definition ae_for : stmt := Eval cbv in nth 1 (spine prog_apply_epochs) SSkip.
  Definition ae_post : list stmt := Eval cbv in skipn 2 (spine prog_apply_epochs).
  Definition ae_body : stmt := Eval cbv in match ae_for with SFor _ _ b => b | _ => SSkip end.
  Definition pfcp_pre : list stmt := Eval cbv in firstn 3 (spine prog_phase_from_control_points).
  Definition pfcp_for : stmt := Eval cbv in nth 3 (spine prog_phase_from_control_points) SSkip.
  Definition pfcp_post : list stmt := Eval cbv in skipn 4 (spine prog_phase_from_control_points).
  Definition pfcp_body : stmt := Eval cbv in match pfcp_for with SFor _ _ b => b | _ => SSkip end.

  Ltac ev :=
    cbv beta iota zeta delta
        [exec final_env eval eval_truth bind map_res truthy do_cmp do_arith do_index nat_cmp nat_arith iter_list
         upd lookup env_of assign_all cmp_name ar_name frame overlay normal_env
         try_finish try_finish_env exn_matches exec_list
         util_prims prims_of table_lookup util_table keys_are is_opaque0 range_handler range_val
         res_outcome res_map pa_spec arr_val gpe_val pct_val lock_str
         dq_render pfcp_render eo_render fele_render
         eo_names eo_env0 params_est_orthogonality eo_pre eo_for eo_post eo_inner eo_body
         ae_names ae_env0 params_apply_epochs ae_pre ae_for ae_post ae_body prog_apply_epochs
         pfcp_names pfcp_env0 params_phase_from_control_points pfcp_pre pfcp_for pfcp_post pfcp_body
         prog_phase_from_control_points
         pa_names pa_env0 params_phase_angle prog_phase_angle
         dq_names dq_env0 params_direct_quadrature prog_direct_quadrature
         fs_names fs_env0 params_frequency_stats prog_frequency_stats
         fele_names fele_env0 params_find_extrema_locked_epochs prog_find_extrema_locked_epochs
         String.eqb Ascii.eqb Bool.eqb fst snd nth_error andb negb orb].
  Ltac ev1 := ev; repeat (progress (cbn [Nat.eqb]; oracle_rw); ev).

  (* ================= spectra.phase_angle ================================================================ *)
  Lemma domain_test : forall a,
    forall2b nonneg_opt (map2 one_minus (map2 sq_opt a)) = in_domain a.
  Proof. intros a. rewrite !forall2b_map2. reflexivity. Qed.

  Lemma pa_fuse : forall a,
    map2 (xatan tau atan) (zip2 odivx a (map2 (sqrt_opt qsqrt) (map2 one_minus (map2 sq_opt a))))
    = phase_angle_model tau qsqrt atan a.
  Proof. intros a. rewrite !map2_map2, zip2_map2_r, map2_map2. reflexivity. Qed.

  Theorem skeleton_phase_angle_spec : forall a f,
    exec P prog_phase_angle f (pa_env0 a) = res_outcome (pa_spec tau qsqrt atan a).
  Proof.
    intros a f. pose proof (domain_test a) as Hd.
    destruct (in_domain a) eqn:E; ev1; rewrite ?pa_fuse; reflexivity.
  Qed.

  Theorem skeleton_phase_angle : forall a f, in_domain a = true ->
    exec P prog_phase_angle f (pa_env0 a) = Return (VSig (UArr (phase_angle_model tau qsqrt atan a))).
  Proof. intros a f H. rewrite skeleton_phase_angle_spec. unfold pa_spec. rewrite H. reflexivity. Qed.

  (* ================= spectra.direct_quadrature ========================================================== *)
  Theorem skeleton_direct_quadrature : forall a f, in_domain a = true ->
    exec P prog_direct_quadrature f (dq_env0 a) = dq_render (dq_model tau qsqrt atan a).
  Proof.
    intros a f Hd. unfold dq_model.
    destruct (gather_rows prev_idx (phase_angle_model tau qsqrt atan a)
                (argwhere (isnan2 (phase_angle_model tau qsqrt atan a)))) as [p|] eqn:Ep; [|ev1; reflexivity].
    destruct (gather_rows next_idx (phase_angle_model tau qsqrt atan a)
                (argwhere (isnan2 (phase_angle_model tau qsqrt atan a)))) as [q|] eqn:Eq; [|ev1; reflexivity].
    destruct (assign_rows (phase_angle_model tau qsqrt atan a)
                (argwhere (isnan2 (phase_angle_model tau qsqrt atan a))) (map2 ohalf (zip2 oadd p q))) as [r|] eqn:Er;
      ev1; reflexivity.
  Qed.

  (* ================= spectra.frequency_stats ============================================================ *)
  (* a transparent wrapper: warns with the literal deprecation text, then returns / raises whatever
     frequency_transform does with the same positional and keyword arguments *)
  Ltac evs :=
    cbv beta iota zeta delta
        [exec final_env eval eval_truth bind map_res truthy do_cmp do_arith do_index nat_cmp nat_arith iter_list
         upd lookup env_of assign_all cmp_name ar_name frame overlay normal_env exec_list
         util_prims prims_of table_lookup util_table keys_are is_opaque0 res_outcome
         fs_names fs_env0 params_frequency_stats prog_frequency_stats deprecation_msg String.append
         String.eqb Ascii.eqb Bool.eqb fst snd nth_error andb negb orb].

  Theorem skeleton_frequency_stats : forall args kwargs f,
    exec P prog_frequency_stats f (fs_env0 args kwargs) = res_outcome (ft_call args kwargs).
  Proof. intros args kwargs f. evs. destruct (ft_call args kwargs); reflexivity. Qed.

  (* ================= utils.find_extrema_locked_epochs =================================================== *)
  Lemma lock_known_str : forall m, lock_known (lock_str m) = true.
  Proof. intros m. destruct m; reflexivity. Qed.

  Theorem skeleton_find_extrema_locked_epochs : forall mode x w pct f,
    exec P prog_find_extrema_locked_epochs f (fele_env0 x w (lock_str mode) pct)
    = fele_render (fele_model extrema pctl mode x w pct).
  Proof.
    intros mode x w pct f. unfold fele_model. pose proof (lock_known_str mode) as Hk.
    destruct mode; cbn [lock_str] in Hk |- *.
    - destruct (extrema LPeaks x) as [[locs pks]|] eqn:Ee; destruct pct as [p|]; ev1; reflexivity.
    - destruct (extrema LTroughs x) as [[locs pks]|] eqn:Ee; destruct pct as [p|]; ev1; reflexivity.
    - destruct pct as [p|]; ev1; reflexivity.
  Qed.

  Theorem skeleton_find_extrema_locked_epochs_badmode : forall s x w pct f, lock_known s = false ->
    exec P prog_find_extrema_locked_epochs f (fele_env0 x w s pct) = Raise "ValueError".
  Proof. intros s x w pct f Hk. destruct pct as [p|]; ev1; reflexivity. Qed.

  (* ================= utils.est_orthogonality ============================================================ *)
  Section Ortho.
    Variable a : list (list Qc).
    Local Notation n := (length a).
    Local Notation entry := (ortho_entry qsqrt a).

    (* row i' with its first k entries computed; the matrix while row i is being filled up to column d *)
    Definition row_state (i' k : nat) : list xq := map (fun j => if Nat.ltb j k then entry i' j else XNan) (seq 0 n).
    Definition mat_state (i d : nat) : list (list xq) :=
      map (fun i' => row_state i' (if Nat.ltb i' i then n else if Nat.eqb i' i then d else 0)) (seq 0 n).

    Lemma mat_set_state : forall i d, i < n -> d < n ->
      mat_set (mat_state i d) i d (entry i d) = Some (mat_state i (S d)).
    Proof.
      intros i d Hi Hd. unfold mat_set, mat_state at 1. rewrite col_at_map_seq by exact Hi.
      rewrite Nat.ltb_irrefl, Nat.eqb_refl.
      assert (Hl : Nat.ltb d (length (row_state i d)) = true)
        by (apply Nat.ltb_lt; unfold row_state; rewrite map_length, seq_length; exact Hd).
      rewrite Hl. f_equal. fold (mat_state i d). unfold mat_state at 1. rewrite set_nth_map_seq by exact Hi.
      unfold mat_state. apply map_ext_in. intros i' Hi'. apply in_seq in Hi'.
      destruct (Nat.eqb i' i) eqn:E.
      - apply Nat.eqb_eq in E. subst i'. rewrite Nat.ltb_irrefl.
        unfold row_state at 1. rewrite set_nth_map_seq by exact Hd. unfold row_state. apply map_ext_in.
        intros j Hj. destruct (Nat.eqb j d) eqn:Ej.
        + apply Nat.eqb_eq in Ej. subst j. assert (H : Nat.ltb d (S d) = true) by (apply Nat.ltb_lt; lia). rewrite H. reflexivity.
        + apply Nat.eqb_neq in Ej. destruct (Nat.ltb j d) eqn:E1.
          * apply Nat.ltb_lt in E1. assert (H : Nat.ltb j (S d) = true) by (apply Nat.ltb_lt; lia). rewrite H. reflexivity.
          * apply Nat.ltb_ge in E1. assert (H : Nat.ltb j (S d) = false) by (apply Nat.ltb_ge; lia). rewrite H. reflexivity.
      - reflexivity.
    Qed.

    Lemma mat_state_next : forall i, mat_state i n = mat_state (S i) 0.
    Proof.
      intros i. unfold mat_state. apply map_ext_in. intros i' _. f_equal.
      destruct (Nat.ltb i' i) eqn:E1.
      - apply Nat.ltb_lt in E1. assert (H : Nat.ltb i' (S i) = true) by (apply Nat.ltb_lt; lia). rewrite H. reflexivity.
      - apply Nat.ltb_ge in E1. destruct (Nat.eqb i' i) eqn:E2.
        + apply Nat.eqb_eq in E2. assert (H : Nat.ltb i' (S i) = true) by (apply Nat.ltb_lt; lia). rewrite H. reflexivity.
        + apply Nat.eqb_neq in E2. assert (H : Nat.ltb i' (S i) = false) by (apply Nat.ltb_ge; lia). rewrite H.
          destruct (Nat.eqb i' (S i)); reflexivity.
    Qed.

    Lemma mat_state_init : nan_like (ones_mat n n) = mat_state 0 0.
    Proof.
      unfold nan_like, ones_mat, map2, mat_state. rewrite !map_repeat.
      assert (Hr : forall i', row_state i' 0 = repeat XNan n).
      { intros i'. unfold row_state. rewrite <- (seq_length n 0) at 2. rewrite <- map_const_repeat. reflexivity. }
      rewrite <- (seq_length n 0) at 2. rewrite <- map_const_repeat. apply map_ext. intros i'.
      cbn [Nat.ltb Nat.leb]. destruct (Nat.eqb i' 0); symmetry; apply Hr.
    Qed.

    Lemma mat_state_final : mat_state n 0 = est_orth_model qsqrt a.
    Proof.
      unfold mat_state, est_orth_model. apply map_ext_in. intros i' Hi'. apply in_seq in Hi'.
      assert (H : Nat.ltb i' n = true) by (apply Nat.ltb_lt; lia). rewrite H.
      unfold row_state. apply map_ext_in. intros j Hj. apply in_seq in Hj.
      assert (H2 : Nat.ltb j n = true) by (apply Nat.ltb_lt; lia). rewrite H2. reflexivity.
    Qed.

    Lemma col_at_colq : forall i, i < n -> col_at a i = Some (colq a i).
    Proof. intros i H. unfold col_at, colq. apply nth_error_nth'. exact H. Qed.

    Definition eo_inner_head (i d : nat) (junk : string -> option (val uv)) : env uv :=
      env_of eo_names (overlay [ ("imf", VSig (UCols a)); ("ortho", VSig (UMat (mat_state i d))); ("ii", VNat i) ] junk).
    Definition eo_head (d : nat) (junk : string -> option (val uv)) : env uv :=
      env_of eo_names (overlay [ ("imf", VSig (UCols a)); ("ortho", VSig (UMat (mat_state d 0))) ] junk).

    Lemma eo_inner_step : forall fb i d junk, i < n -> d < n ->
      exists e2, normal_env (exec P eo_body fb (upd "jj" (VNat d) (eo_inner_head i d junk))) = Some e2 /\
                 e2 = eo_inner_head i (S d) (fun x => lookup x e2).
    Proof.
      intros fb i d junk Hi Hd. unfold eo_inner_head.
      pose proof (col_at_colq i Hi) as Hci. pose proof (col_at_colq d Hd) as Hcd.
      pose proof (mat_set_state i d Hi Hd) as Hset. unfold ortho_entry, dot in Hset.
      eexists. split.
      - ev1. reflexivity.
      - ev. reflexivity.
    Qed.

    Lemma eo_inner_loop : forall fb i junk, i < n ->
      exists junk', for_loop "jj" (fun e' => exec P eo_body fb e') (map VNat (seq 0 n)) (eo_inner_head i 0 junk)
                    = Normal (eo_inner_head i n junk').
    Proof.
      intros fb i junk Hi.
      destruct (for_loop_inv uv (fun done e => exists j, e = eo_inner_head i (length done) j)
                  "jj" (fun e' => exec P eo_body fb e') (map VNat (seq 0 n)) (eo_inner_head i 0 junk))
        as (e' & He' & (j & Hj)).
      - exists junk. reflexivity.
      - intros done v rest e1 Hl (j & He1).
        destruct (range_val_split n done v rest Hl) as (_ & Hv & Hlt). subst v e1.
        destruct (eo_inner_step fb i (length done) j Hi Hlt) as (e2 & H2 & He2).
        exists e2. split; [exact H2|]. rewrite app_length, Nat.add_1_r. eexists. exact He2.
      - rewrite map_length, seq_length in Hj. exists j. rewrite He', Hj. reflexivity.
    Qed.

    Lemma eo_outer_step : forall fb d junk, d < n ->
      exists e2, normal_env (exec P eo_inner fb (upd "ii" (VNat d) (eo_head d junk))) = Some e2 /\
                 exists j, e2 = eo_head (S d) j.
    Proof.
      intros fb d junk Hd. unfold eo_inner. rewrite exec_for.
      assert (Hit : bind (eval P (upd "ii" (VNat d) (eo_head d junk))
                            (ECall "range" [EIndex (ECall "imf.shape" [EVar "imf"] []) (ENat 1)] [])) (iter_list P)
                    = Ok (map VNat (seq 0 n))) by (unfold eo_head; ev; reflexivity).
      rewrite Hit.
      assert (Hh : upd "ii" (VNat d) (eo_head d junk) = eo_inner_head d 0 (fun x => lookup x (upd "ii" (VNat d) (eo_head d junk))))
        by (unfold eo_head, eo_inner_head; ev; reflexivity).
      rewrite Hh.
      destruct (eo_inner_loop fb d (fun x => lookup x (upd "ii" (VNat d) (eo_head d junk))) Hd) as (junk' & Hloop).
      match goal with |- context [for_loop "jj" (fun e' => exec P ?b fb e')] => change b with eo_body end.
      rewrite Hloop. cbn [normal_env]. eexists. split; [reflexivity|].
      exists (fun x => lookup x (eo_inner_head d n junk')).
      unfold eo_inner_head, eo_head. rewrite mat_state_next. ev. reflexivity.
    Qed.

    Theorem skeleton_est_orthogonality : forall f,
      exec P prog_est_orthogonality f (eo_env0 a) = eo_render (est_orth_model qsqrt a).
    Proof.
      intros f.
      rewrite (exec_nth_split uv P prog_est_orthogonality 1 eo_for f _ eq_refl).
      change (firstn 1 (spine prog_est_orthogonality)) with eo_pre.
      change (skipn 2 (spine prog_est_orthogonality)) with eo_post.
      assert (Hpre : exec_list P eo_pre f (eo_env0 a) = Normal (eo_head 0 (fun _ => None))).
      { unfold eo_head. rewrite <- mat_state_init. ev1. reflexivity. }
      rewrite Hpre. unfold eo_for. rewrite exec_for.
      assert (Hit : bind (eval P (eo_head 0 (fun _ => None))
                            (ECall "range" [EIndex (ECall "imf.shape" [EVar "imf"] []) (ENat 1)] [])) (iter_list P)
                    = Ok (map VNat (seq 0 n))) by (unfold eo_head; ev; reflexivity).
      rewrite Hit.
      match goal with |- context [for_loop "ii" (fun e' => exec P ?b f e')] => change b with eo_inner end.
      destruct (for_loop_inv uv (fun done e => exists j, e = eo_head (length done) j)
                  "ii" (fun e' => exec P eo_inner f e') (map VNat (seq 0 n)) (eo_head 0 (fun _ => None)))
        as (e' & He' & (j & Hj)).
      - exists (fun _ => None). reflexivity.
      - intros done v rest e1 Hl (j & He1).
        destruct (range_val_split n done v rest Hl) as (_ & Hv & Hlt). subst v e1.
        destruct (eo_outer_step f (length done) j Hlt) as (e2 & H2 & (j2 & He2)).
        exists e2. split; [exact H2|]. rewrite app_length, Nat.add_1_r. exists j2. exact He2.
      - rewrite map_length, seq_length in Hj. rewrite He', Hj. unfold eo_head. rewrite mat_state_final. ev1. reflexivity.
    Qed.
  End Ortho.

  (* ================= utils.apply_epochs ================================================================= *)
  Section Epochs.
    Variable X : list (list Qc).
    Variable trls : list (nat * nat).
    Variable L : nat.
    Local Notation nc := (length X).

    Definition ae_head (eps : list (list (list Qc))) (junk : string -> option (val uv)) : env uv :=
      env_of ae_names (overlay [ ("X", VSig (UCols X)); ("trls", VSig (UTrl trls)); ("Y", VSig (UEp L nc eps)) ] junk).

    (* one trial: the slice fits (or is broadcast) and is stored, or numpy cannot broadcast it *)
    Lemma ae_step : forall fb tr done z rest junk, col_at trls (length done) = Some tr ->
      match ae_epoch L X tr with
      | Some s' =>
          exists e2, normal_env (exec P ae_body fb (upd "ii" (VNat (length done)) (ae_head (done ++ z :: rest) junk))) = Some e2 /\
                     e2 = ae_head (done ++ s' :: rest) (fun x => lookup x e2)
      | None => exec P ae_body fb (upd "ii" (VNat (length done)) (ae_head (done ++ z :: rest) junk)) = Raise "ValueError"
      end.
    Proof.
      intros fb tr done z rest junk Htr. unfold ae_epoch, ae_head.
      assert (Hlt : Nat.ltb (length done) (length (done ++ z :: rest)) = true)
        by (apply Nat.ltb_lt; rewrite app_length; cbn [length]; lia).
      destruct (fit_epoch L (map (slice_tr tr) X)) as [s'|] eqn:Ef.
      - eexists. split.
        + ev1. rewrite set_nth_split. reflexivity.
        + ev. reflexivity.
      - ev1. reflexivity.
    Qed.

    Lemma ae_loop : forall fb m d done junk, d + m = length trls -> length done = d ->
      match all_some (map (ae_epoch L X) (skipn d trls)) with
      | Some r => exists junk', for_loop "ii" (fun e' => exec P ae_body fb e') (map VNat (seq d m))
                                  (ae_head (done ++ zero_epochs L nc m) junk) = Normal (ae_head (done ++ r) junk')
      | None => for_loop "ii" (fun e' => exec P ae_body fb e') (map VNat (seq d m))
                  (ae_head (done ++ zero_epochs L nc m) junk) = Raise "ValueError"
      end.
    Proof.
      intros fb m. induction m as [|m IH]; intros d done junk Hd Hl.
      - rewrite skipn_all2 by lia. cbn [map all_some seq for_loop zero_epochs repeat]. exists junk. reflexivity.
      - assert (Hlt : d < length trls) by lia.
        destruct (nth_error trls d) as [tr|] eqn:Etr; [|apply nth_error_None in Etr; lia].
        assert (Hsk : skipn d trls = tr :: skipn (S d) trls).
        { clear -Etr. revert d Etr. induction trls as [|x t IHt]; intros d E; [destruct d; discriminate|].
          destruct d as [|d]; [inversion E; reflexivity|]. cbn [nth_error] in E. cbn [skipn]. apply IHt. exact E. }
        rewrite Hsk. cbn [map all_some seq]. rewrite for_loop_cons.
        unfold zero_epochs. cbn [repeat]. fold (zero_epochs L nc m).
        assert (Htr : col_at trls (length done) = Some tr) by (rewrite Hl; exact Etr).
        pose proof (ae_step fb tr done (repeat (repeat 0%Qc L) nc) (zero_epochs L nc m) junk Htr) as Hs.
        rewrite Hl in Hs.
        destruct (ae_epoch L X tr) as [s'|].
        + destruct Hs as (e2 & H2 & He2).
          destruct (exec P ae_body fb (upd "ii" (VNat d) (ae_head (done ++ repeat (repeat 0%Qc L) nc :: zero_epochs L nc m) junk)))
            as [e'|e'| | | |]; cbn [normal_env] in H2; try discriminate H2; injection H2 as ->.
          * rewrite He2.
            specialize (IH (S d) ((done ++ [s'])%list) (fun x => lookup x e2)).
            rewrite <- app_assoc in IH. cbn [app] in IH.
            assert (H1 : S d + m = length trls) by lia.
            assert (H3 : length ((done ++ [s'])%list) = S d) by (rewrite app_length; cbn [length]; lia).
            specialize (IH H1 H3).
            destruct (all_some (map (ae_epoch L X) (skipn (S d) trls))) as [r|].
            -- destruct IH as (junk' & IH). exists junk'. rewrite IH, <- app_assoc. reflexivity.
            -- exact IH.
          * rewrite He2.
            specialize (IH (S d) ((done ++ [s'])%list) (fun x => lookup x e2)).
            rewrite <- app_assoc in IH. cbn [app] in IH.
            assert (H1 : S d + m = length trls) by lia.
            assert (H3 : length ((done ++ [s'])%list) = S d) by (rewrite app_length; cbn [length]; lia).
            specialize (IH H1 H3).
            destruct (all_some (map (ae_epoch L X) (skipn (S d) trls))) as [r|].
            -- destruct IH as (junk' & IH). exists junk'. rewrite IH, <- app_assoc. reflexivity.
            -- exact IH.
        + rewrite Hs. reflexivity.
    Qed.
  End Epochs.

  Theorem skeleton_apply_epochs : forall X trls f,
    (forall tr0 rest, trls = tr0 :: rest -> trl_start tr0 <= trl_stop tr0) ->
    exec P prog_apply_epochs f (ae_env0 X trls) = res_outcome (ae_model X trls).
  Proof.
    intros X trls f Hle. unfold ae_model.
    destruct trls as [|tr0 rest] eqn:Et.
    - assert (H0 : col_at (@nil (nat * nat)) 0 = None) by reflexivity. ev1. reflexivity.
    - rewrite <- Et.
      assert (H0 : col_at trls 0 = Some tr0) by (rewrite Et; reflexivity).
      assert (Hl : Nat.leb (trl_start tr0) (trl_stop tr0) = true) by (apply Nat.leb_le; exact (Hle tr0 rest eq_refl)).
      set (L := trl_stop tr0 - trl_start tr0).
      rewrite (exec_nth_split uv P prog_apply_epochs 1 ae_for f _ eq_refl).
      change (firstn 1 (spine prog_apply_epochs)) with ae_pre.
      change (skipn 2 (spine prog_apply_epochs)) with ae_post.
      assert (Hpre : exec_list P ae_pre f (ae_env0 X trls)
                     = Normal (ae_head X trls L ([] ++ zero_epochs L (length X) (length trls)) (fun _ => None))).
      { unfold ae_head, L. ev1. reflexivity. }
      rewrite Hpre. unfold ae_for. rewrite exec_for.
      assert (Hit : bind (eval P (ae_head X trls L ([] ++ zero_epochs L (length X) (length trls)) (fun _ => None))
                            (ECall "np.arange" [EIndex (ECall "trls.shape" [EVar "trls"] []) (ENat 0)] [])) (iter_list P)
                    = Ok (map VNat (seq 0 (length trls)))) by (unfold ae_head; ev; reflexivity).
      rewrite Hit.
      match goal with |- context [for_loop "ii" (fun e' => exec P ?b f e')] => change b with ae_body end.
      pose proof (ae_loop X trls L f (length trls) 0 [] (fun _ => None) eq_refl eq_refl) as Hloop.
      cbn [skipn] in Hloop.
      destruct (all_some (map (ae_epoch L X) trls)) as [r|].
      + destruct Hloop as (junk' & Hloop). rewrite Hloop. unfold ae_head. ev1. reflexivity.
      + rewrite Hloop. reflexivity.
  Qed.

  (* ================= spectra.phase_from_control_points ================================================== *)
  Ltac orw :=
    repeat match goal with
           | H : _ = Ok _ |- _ => rewrite H
           | H : _ = Exc _ |- _ => rewrite H
           | H : _ = Bad |- _ => rewrite H
           end.
  Ltac ev2 := ev; repeat (progress (cbn [Nat.eqb]; oracle_rw; orw); ev).

  Lemma any_isnan : forall r, anyb (isnan1 r) = has_nan r.
  Proof.
    intros r. unfold anyb, isnan1, has_nan. induction r as [|x t IH]; [reflexivity|]. cbn [map existsb]. rewrite IH. reflexivity.
  Qed.

  Section Ctrl.
    Variable ctrl : list (list (option Qc)).
    Variable c : list nat.
    Local Notation step := (pfcp_step tau interp_eval ctrl c).
    Local Notation fold := (pfcp_fold tau interp_eval ctrl c).

    Definition pfcp_head (ip : list Qc) (junk : string -> option (val uv)) : env uv :=
      env_of pfcp_names (overlay [ ("ctrl", VSig (UCtrl ctrl)); ("cycles", VSig (UNvec c)); ("ip", VSig (UQvec ip));
                                   ("phase_y", VSig (UQvec (phase_y tau))) ] junk).

    Lemma pfcp_step_exec : forall fb ip jj junk,
      match step ip jj with
      | Ok ip' => exists e2, normal_env (exec P pfcp_body fb (upd "jj" (VNat jj) (pfcp_head ip junk))) = Some e2 /\
                             e2 = pfcp_head ip' (fun x => lookup x e2)
      | Exc x => exec P pfcp_body fb (upd "jj" (VNat jj) (pfcp_head ip junk)) = Raise x
      | Bad => exec P pfcp_body fb (upd "jj" (VNat jj) (pfcp_head ip junk)) = Stuck
      end.
    Proof.
      intros fb ip jj junk. unfold pfcp_step, pfcp_head.
      destruct jj as [|j]; [ev; reflexivity|].
      destruct (col_at ctrl j) as [row|] eqn:Erow; [|ev2; reflexivity].
      rewrite <- (any_isnan row).
      destruct (anyb (isnan1 row)) eqn:En.
      { eexists. split; [ev2; reflexivity | ev; reflexivity]. }
      destruct (len5 row) eqn:E5; [|ev2; reflexivity].
      destruct (interp_call interp_eval row (phase_y tau) row) as [ph|x|] eqn:Ei; [|ev2; reflexivity|ev2; reflexivity].
      destruct (mask_assign ip c (S j) ph) as [ip'|] eqn:Em; [|ev2; reflexivity].
      eexists. split; [ev2; reflexivity | ev; reflexivity].
    Qed.

    Lemma pfcp_loop : forall fb js ip junk,
      match fold ip js with
      | Ok ip' => exists junk', for_loop "jj" (fun e' => exec P pfcp_body fb e') (map VNat js) (pfcp_head ip junk)
                                = Normal (pfcp_head ip' junk')
      | Exc x => for_loop "jj" (fun e' => exec P pfcp_body fb e') (map VNat js) (pfcp_head ip junk) = Raise x
      | Bad => for_loop "jj" (fun e' => exec P pfcp_body fb e') (map VNat js) (pfcp_head ip junk) = Stuck
      end.
    Proof.
      intros fb js. induction js as [|j t IH]; intros ip junk.
      - cbn [pfcp_fold map]. exists junk. reflexivity.
      - cbn [pfcp_fold map]. rewrite for_loop_cons.
        pose proof (pfcp_step_exec fb ip j junk) as Hs.
        destruct (step ip j) as [ip1|x|].
        + destruct Hs as (e2 & H2 & He2).
          destruct (exec P pfcp_body fb (upd "jj" (VNat j) (pfcp_head ip junk)))
            as [e'|e'| | | |]; cbn [normal_env] in H2; try discriminate H2; injection H2 as ->; rewrite He2; apply IH.
        + rewrite Hs. reflexivity.
        + rewrite Hs. reflexivity.
    Qed.

    Theorem skeleton_phase_from_control_points : forall f,
      exec P prog_phase_from_control_points f (pfcp_env0 ctrl c) = pfcp_render (pfcp_model tau interp_eval ctrl c).
    Proof.
      intros f. unfold pfcp_model.
      rewrite (exec_nth_split uv P prog_phase_from_control_points 3 pfcp_for f _ eq_refl).
      change (firstn 3 (spine prog_phase_from_control_points)) with pfcp_pre.
      change (skipn 4 (spine prog_phase_from_control_points)) with pfcp_post.
      assert (Hpre : exec_list P pfcp_pre f (pfcp_env0 ctrl c) = Normal (pfcp_head (zerosq (length c)) (fun _ => None))).
      { unfold pfcp_head, phase_y. ev1. reflexivity. }
      rewrite Hpre. unfold pfcp_for. rewrite exec_for.
      destruct c as [|c0 ct] eqn:Ec.
      - unfold pfcp_head. rewrite ?Ec. ev1. reflexivity.
      - rewrite <- ?Ec.
        assert (Hit : bind (eval P (pfcp_head (zerosq (length c)) (fun _ => None))
                              (ECall "range" [ENat 1; EArith AAdd (ECall "cycles.max()" [EVar "cycles"] []) (ENat 1)] []))
                           (iter_list P) = Ok (map VNat (seq 1 (list_max c)))).
        { unfold pfcp_head. rewrite Ec. ev. rewrite Nat.add_sub. reflexivity. }
        rewrite Hit.
        match goal with |- context [for_loop "jj" (fun e' => exec P ?b f e')] => change b with pfcp_body end.
        pose proof (pfcp_loop f (seq 1 (list_max c)) (zerosq (length c)) (fun _ => None)) as Hl.
        destruct (fold (zerosq (length c)) (seq 1 (list_max c))) as [ip'|x|].
        + destruct Hl as (junk' & Hl). rewrite Hl. unfold pfcp_head. ev1. reflexivity.
        + rewrite Hl. reflexivity.
        + rewrite Hl. reflexivity.
    Qed.
  End Ctrl.
End UtilTie.

(* ==================================================================================================== *)
(* Laws of the list-level models (what users rely on)                                                   *)
(* ==================================================================================================== *)
Lemma Q_sq_nonneg : forall q : Q, (0 <= q * q)%Q.
Proof.
  intros q. destruct (Qlt_le_dec q 0) as [H|H].
  - setoid_replace (q * q)%Q with ((- q) * (- q))%Q by ring. apply Qmult_le_0_compat; lra.
  - apply Qmult_le_0_compat; exact H.
Qed.
Lemma Qc_sq_nonneg : forall x : Qc, (0 <= x * x)%Qc.
Proof. intros x. unfold Qcle, Qcmult. cbn [this Q2Qc]. rewrite !Qred_correct. apply Q_sq_nonneg. Qed.

Lemma qeqb_refl : forall x : Qc, Qc_eq_bool x x = true.
Proof. intros x. unfold Qc_eq_bool. destruct (Qc_eq_dec x x); [reflexivity|congruence]. Qed.
Lemma qeqb_neq : forall x y : Qc, x <> y -> Qc_eq_bool x y = false.
Proof. intros x y H. unfold Qc_eq_bool. destruct (Qc_eq_dec x y); [contradiction|reflexivity]. Qed.

Lemma map2_shape : forall {A B} (f : A -> B) (a : list (list A)), map (@length B) (map2 f a) = map (@length A) a.
Proof. intros A B f a. unfold map2. rewrite map_map. apply map_ext. intros c. apply map_length. Qed.

Lemma nth_map_seq : forall {B} (f : nat -> B) n i d, i < n -> nth i (map f (seq 0 n)) d = f i.
Proof. intros B f n i d H. apply nth_error_nth. exact (col_at_map_seq f n i H). Qed.

Lemma all_some_Forall : forall {A} (Pp : A -> Prop) (l : list (option A)) r,
  (forall x, In (Some x) l -> Pp x) -> all_some l = Some r -> Forall Pp r.
Proof.
  intros A Pp l. induction l as [|o t IH]; intros r Hp H.
  - inversion H. constructor.
  - cbn [all_some] in H. destruct o as [x|]; [|discriminate]. destruct (all_some t) as [rt|] eqn:E; [|discriminate].
    inversion H. constructor; [apply Hp; left; reflexivity | apply IH; [intros y Hy; apply Hp; right; exact Hy | reflexivity]].
Qed.

Section Laws.
  Variable tau : Qc.
  Variable qsqrt : Qc -> Qc.
  Variable atan : Qc -> Qc.
  Local Notation pae := (pa_entry tau qsqrt atan).
  Open Scope Qc_scope.

  (* ---- phase_angle ---- *)
  Theorem phase_angle_shape : forall a, map (@length _) (phase_angle_model tau qsqrt atan a) = map (@length _) a.
  Proof. intros a. apply map2_shape. Qed.

  Theorem phase_angle_nan : pae None = None.
  Proof. reflexivity. Qed.

  (* the docstring's equation: arctan(x / sqrt(1 - x^2)) *)
  Theorem phase_angle_formula : forall x, qsqrt (1 - x * x) <> 0 ->
    pae (Some x) = Some (atan (x / qsqrt (1 - x * x))).
  Proof.
    intros x H. unfold pa_entry, sq_opt, one_minus, sqrt_opt. cbn [option_map odivx]. unfold qdivx.
    rewrite (qeqb_neq _ _ H). reflexivity.
  Qed.

  (* at fm = +-1 numpy divides by zero: +-inf, whose arctan is +-pi/2 - NOT a NaN (the comment in direct_quadrature) *)
  Theorem phase_angle_at_one : qsqrt 0 = 0 ->
    pae (Some 1) = Some (tau / q4) /\ pae (Some (- (1))) = Some (- (tau / q4)).
  Proof.
    intros H0. unfold pa_entry, sq_opt, one_minus, sqrt_opt. cbn [option_map odivx]. unfold qdivx.
    replace (1 - 1 * 1) with 0 by ring. replace (1 - - (1) * - (1)) with 0 by ring. rewrite H0, qeqb_refl.
    split; reflexivity.
  Qed.

  (* no finite input gives a NaN (when sqrt(1) is not 0): NaNs in the phase angle come from NaNs in the input only *)
  Theorem phase_angle_finite : qsqrt 1 <> 0 -> forall x, pae (Some x) <> None.
  Proof.
    intros H1 x. unfold pa_entry, sq_opt, one_minus, sqrt_opt. cbn [option_map odivx]. unfold qdivx.
    destruct (Qc_eq_bool (qsqrt (1 - x * x)) 0) eqn:Es.
    - destruct (Qc_eq_bool x 0) eqn:Ex.
      + apply Qc_eq_bool_correct in Ex. subst x. apply Qc_eq_bool_correct in Es.
        replace (1 - 0 * 0) with 1 in Es by ring. contradiction.
      + destruct (qltb 0 x); cbn [xatan]; discriminate.
    - cbn [xatan]. discriminate.
  Qed.

  (* the range of the phase angle is that of arctan, closed by its limits *)
  Theorem phase_angle_range : (forall q, - (tau / q4) <= atan q /\ atan q <= tau / q4) ->
    forall x v, pae x = Some v -> - (tau / q4) <= v /\ v <= tau / q4.
  Proof.
    intros Hc x v. unfold pa_entry.
    assert (Hm : - (tau / q4) <= tau / q4) by (destruct (Hc 0) as [A B]; exact (Qcle_trans _ _ _ A B)).
    destruct (odivx x (sqrt_opt qsqrt (one_minus (sq_opt x)))) as [q| | |]; cbn [xatan]; intros H; inversion H; subst.
    - apply Hc.
    - split; [exact Hm | apply Qcle_refl].
    - split; [apply Qcle_refl | exact Hm].
  Qed.

  (* ---- direct_quadrature ---- *)
  Lemma zipw_snd : forall {A B} (v : list A) (l : list B), length v = length l -> zipw (fun _ c => c) v l = l.
  Proof.
    intros A B v. induction v as [|x t IH]; intros l H; destruct l as [|y r]; try discriminate H; [reflexivity|].
    cbn [zipw]. rewrite IH by (cbn [length] in H; lia). reflexivity.
  Qed.

  (* without a NaN in the phase angle nothing is repaired *)
  Theorem direct_quadrature_no_nan : forall a,
    argwhere (isnan2 (phase_angle_model tau qsqrt atan a)) = [] ->
    dq_model tau qsqrt atan a = Ok (phase_angle_model tau qsqrt atan a).
  Proof.
    intros a H. unfold dq_model. rewrite H. unfold gather_rows, assign_rows, idx_rows. cbn [map all_some].
    f_equal. change (assign_col []) with (fun (_ c : list (option Qc)) => c).
    apply zipw_snd. unfold map2, zip2. rewrite map_length, zipw_length, !map_length. apply Nat.min_id.
  Qed.

  (* ---- est_orthogonality ---- *)
  Lemma dot_comm : forall a b, dot a b = dot b a.
  Proof.
    intros a. unfold dot. induction a as [|x t IH]; intros b; destruct b as [|y r]; cbn [zipw qsum]; try reflexivity.
    rewrite IH, (Qcmult_comm x y). reflexivity.
  Qed.

  Lemma dot_self_nonneg : forall c, 0 <= dot c c.
  Proof.
    intros c. unfold dot. induction c as [|x t IH]; cbn [zipw qsum]; [apply Qcle_refl|].
    assert (Hx : 0 <= x * x).
    { clear IH. apply Qc_sq_nonneg. }
    q2q. lra.
  Qed.

  Theorem ortho_symmetric : forall a i j, ortho_entry qsqrt a i j = ortho_entry qsqrt a j i.
  Proof.
    intros a i j. unfold ortho_entry. rewrite (dot_comm (colq a i) (colq a j)).
    rewrite (Qcmult_comm (qsqrt (dot (colq a j) (colq a j)))). reflexivity.
  Qed.

  Theorem est_orth_shape : forall a,
    length (est_orth_model qsqrt a) = length a /\ Forall (fun r => length r = length a) (est_orth_model qsqrt a).
  Proof.
    intros a. unfold est_orth_model. split; [rewrite map_length; apply seq_length|].
    apply Forall_forall. intros r Hr. apply in_map_iff in Hr. destruct Hr as (i & <- & _). rewrite map_length. apply seq_length.
  Qed.

  Theorem est_orth_nth : forall a i j, (i < length a)%nat -> (j < length a)%nat ->
    nth j (nth i (est_orth_model qsqrt a) []) XNan = ortho_entry qsqrt a i j.
  Proof. intros a i j Hi Hj. unfold est_orth_model. rewrite nth_map_seq by exact Hi. apply nth_map_seq. exact Hj. Qed.

  Theorem est_orth_symmetric : forall a i j, (i < length a)%nat -> (j < length a)%nat ->
    nth j (nth i (est_orth_model qsqrt a) []) XNan = nth i (nth j (est_orth_model qsqrt a) []) XNan.
  Proof. intros a i j Hi Hj. rewrite !est_orth_nth by assumption. apply ortho_symmetric. Qed.

  (* exact arithmetic: sqrt(s)^2 = s for s >= 0 *)
  Definition sqrt_exact : Prop := forall s, 0 <= s -> qsqrt s * qsqrt s = s.

  Theorem ortho_diagonal : sqrt_exact -> forall a i, dot (colq a i) (colq a i) <> 0 -> ortho_entry qsqrt a i i = XF 1.
  Proof.
    intros Hs a i Hnz. unfold ortho_entry. pose proof (dot_self_nonneg (colq a i)) as Hp.
    rewrite (Hs _ Hp). unfold qdivx. rewrite (qeqb_neq _ _ Hnz). f_equal.
    unfold qabs. assert (Hq : qleb 0 (dot (colq a i) (colq a i)) = true) by (apply qleb_true; exact Hp).
    rewrite Hq. unfold Qcdiv. apply Qcmult_inv_r. exact Hnz.
  Qed.

  Theorem ortho_zero_column : sqrt_exact -> forall a i, dot (colq a i) (colq a i) = 0 -> ortho_entry qsqrt a i i = XNan.
  Proof.
    intros Hs a i Hz. unfold ortho_entry. rewrite Hz. rewrite (Hs 0 (Qcle_refl 0)). unfold qdivx. rewrite qeqb_refl.
    reflexivity.
  Qed.
End Laws.

(* ---- apply_epochs ---------------------------------------------------------------------------------- *)
Lemma fit_col_length : forall L c c', fit_col L c = Some c' -> length c' = L.
Proof.
  intros L c c'. unfold fit_col. destruct (Nat.eqb (length c) L) eqn:E1.
  - intros H. inversion H. subst c'. apply Nat.eqb_eq. exact E1.
  - destruct (Nat.eqb (length c) 1); intros H; inversion H. apply repeat_length.
Qed.

Lemma fit_epoch_shape : forall L s s', fit_epoch L s = Some s' ->
  length s' = length s /\ Forall (fun c => length c = L) s'.
Proof.
  intros L s s' H. unfold fit_epoch in H. split.
  - rewrite (all_some_length _ _ _ H). apply map_length.
  - apply (all_some_Forall _ _ _ (fun x Hx => ltac:(apply in_map_iff in Hx; destruct Hx as (c & Hc & _); exact (fit_col_length L c x Hc))) H).
Qed.

(* the result holds one epoch per trial, each with X's columns, every column of the length of the first trial *)
Theorem apply_epochs_shape : forall X trls v, ae_model X trls = Ok v ->
  exists L eps, v = VSig (UEp L (length X) eps) /\ length eps = length trls /\
                Forall (fun ep => length ep = length X /\ Forall (fun c => length c = L) ep) eps.
Proof.
  intros X trls v H. unfold ae_model in H. destruct trls as [|tr0 rest]; [discriminate|].
  set (L := trl_stop tr0 - trl_start tr0) in *.
  destruct (all_some (map (ae_epoch L X) (tr0 :: rest))) as [eps|] eqn:E; [|discriminate].
  inversion H. exists L, eps. split; [reflexivity|]. split.
  - rewrite (all_some_length _ _ _ E). apply map_length.
  - apply (all_some_Forall _ (map (ae_epoch L X) (tr0 :: rest)) eps); [|exact E].
    intros ep Hep. apply in_map_iff in Hep. destruct Hep as (tr & Htr & _). unfold ae_epoch in Htr.
    destruct (fit_epoch_shape _ _ _ Htr) as [A B]. rewrite map_length in A. exact (conj A B).
Qed.

(* a window that fits into the column is copied as it is: Y[t, c, k] = X[start_k + t, c] *)
Theorem apply_epochs_window : forall L s c, s + L <= length c ->
  fit_col L (slice_tr (s, s + L) c) = Some (firstn L (skipn s c)).
Proof.
  intros L s c H. unfold slice_tr, slice. cbn [fst snd]. replace (s + L - s) with L by lia.
  unfold fit_col. rewrite firstn_length_le by (rewrite skipn_length; lia). rewrite Nat.eqb_refl. reflexivity.
Qed.


(* ---- find_extrema_locked_epochs -------------------------------------------------------------------- *)
Lemma drop_true_map : forall {A} (p : A -> bool) (l : list A), drop_true (map p l) l = filter (fun x => negb (p x)) l.
Proof.
  intros A p l. unfold drop_true. induction l as [|x t IH]; [reflexivity|]. cbn [map mask_sel filter].
  destruct (p x); cbn [negb]; rewrite IH; reflexivity.
Qed.

Lemma mask_sel_In : forall {A} (m : list bool) (l : list A) x, In x (mask_sel m l) -> In x l.
Proof.
  intros A m. induction m as [|b t IH]; intros l x H; [destruct H|]. destruct l as [|y r]; [destruct H|].
  cbn [mask_sel] in H. destruct b; [destruct H as [H|H]; [left; exact H | right; apply IH; exact H] | right; apply IH; exact H].
Qed.

(* every returned window lies inside the data, is centred on an extremum of the detector and has the
   width 2 * int(winsize / 2); windows that do not fit are DROPPED, not sliced *)
Theorem fele_windows : forall extrema pctl mode x w pct t a b,
  fele_model extrema pctl mode x w pct = Ok t -> In (a, b) t ->
  (0 <= a)%Z /\ (b <= Z.of_nat (length x))%Z /\ (b - a = 2 * Z.of_nat (half w))%Z /\
  exists locs pks l, extrema mode x = Some (locs, pks) /\ In l locs /\ a = (Z.of_nat l - Z.of_nat (half w))%Z.
Proof.
  intros extrema pctl mode x w pct t a b H Hin. unfold fele_model in H.
  assert (G : forall locs pks, extrema mode x = Some (locs, pks) ->
     forall locs', (forall l, In l locs' -> In l locs) ->
     In (a, b) (drop_true (zgt_vec (col1 (drop_true (zlt_vec (col0 (windows (half w) locs')) 0) (windows (half w) locs'))) (length x))
                          (drop_true (zlt_vec (col0 (windows (half w) locs')) 0) (windows (half w) locs'))) ->
     (0 <= a)%Z /\ (b <= Z.of_nat (length x))%Z /\ (b - a = 2 * Z.of_nat (half w))%Z /\
     exists locs0 pks0 l, extrema mode x = Some (locs0, pks0) /\ In l locs0 /\ a = (Z.of_nat l - Z.of_nat (half w))%Z).
  { intros locs pks He locs' Hsub Hi.
    unfold zgt_vec, col1, zlt_vec, col0 in Hi. rewrite !map_map in Hi. rewrite !drop_true_map in Hi.
    apply filter_In in Hi. destruct Hi as [Hi Hb]. apply filter_In in Hi. destruct Hi as [Hi Ha].
    cbn [fst snd] in Ha, Hb. unfold windows in Hi. apply in_map_iff in Hi. destruct Hi as (l & Hl & Hinl).
    inversion Hl. subst a b. apply negb_true_iff in Ha, Hb. apply Z.ltb_ge in Ha, Hb.
    repeat split; try lia. exists locs, pks, l. repeat split; [exact He | apply Hsub; exact Hinl]. }
  destruct mode.
  - destruct (extrema LPeaks x) as [[locs pks]|] eqn:He; [|discriminate]. inversion H. subst t.
    destruct pct as [p|]; apply (G locs pks eq_refl) in Hin; try exact Hin; intros l Hl; [apply mask_sel_In in Hl|]; exact Hl.
  - destruct (extrema LTroughs x) as [[locs pks]|] eqn:He; [|discriminate]. inversion H. subst t.
    destruct pct as [p|]; apply (G locs pks eq_refl) in Hin; try exact Hin; intros l Hl; [apply mask_sel_In in Hl|]; exact Hl.
  - discriminate.
Qed.

(* ---- phase_from_control_points --------------------------------------------------------------------- *)
Lemma mask_put_length : forall ip c jj ph, length (mask_put ip c jj ph) = length ip.
Proof.
  intros ip. induction ip as [|x t IH]; intros c jj ph; [reflexivity|]. destruct c as [|k ct]; [reflexivity|].
  cbn [mask_put]. destruct (Nat.eqb k jj); [destruct ph|]; cbn [length]; rewrite IH; reflexivity.
Qed.

Lemma mask_put_nth_other : forall ip c jj ph k, nth k c 0 <> jj -> nth k (mask_put ip c jj ph) 0%Qc = nth k ip 0%Qc.
Proof.
  intros ip. induction ip as [|x t IH]; intros c jj ph k H; [reflexivity|]. destruct c as [|c0 ct]; [reflexivity|].
  cbn [mask_put]. destruct k as [|k].
  - cbn [nth] in H. apply Nat.eqb_neq in H. rewrite H. reflexivity.
  - cbn [nth] in H. destruct (Nat.eqb c0 jj); [destruct ph|]; cbn [nth]; apply IH; exact H.
Qed.

Section CtrlLaws.
  Variable tau : Qc.
  Variable interp_eval : list Qc -> list Qc -> list Qc -> option (list Qc).
  Variable ctrl : list (list (option Qc)).
  Variable c : list nat.
  Local Notation step := (pfcp_step tau interp_eval ctrl c).
  Local Notation fold := (pfcp_fold tau interp_eval ctrl c).

  (* one cycle: the length is kept, and only the samples of that cycle are written *)
  Lemma pfcp_step_keeps : forall ip jj ip', step ip jj = Ok ip' ->
    length ip' = length ip /\ forall k, nth k c 0 <> jj -> nth k ip' 0%Qc = nth k ip 0%Qc.
  Proof.
    intros ip jj ip'. unfold pfcp_step. destruct jj as [|j]; [discriminate|].
    destruct (col_at ctrl j) as [row|]; [|discriminate].
    destruct (has_nan row); [intros H; inversion H; split; [reflexivity | intros; reflexivity]|].
    destruct (len5 row); [|discriminate].
    destruct (interp_call interp_eval row (phase_y tau) row) as [ph| |]; try discriminate.
    unfold mask_assign. destruct (Nat.eqb (length ph) (mask_count c (S j))).
    - intros H. inversion H. split; [apply mask_put_length | intros k Hk; apply mask_put_nth_other; exact Hk].
    - destruct (Nat.eqb (length ph) 1); [|discriminate].
      intros H. inversion H. split; [apply mask_put_length | intros k Hk; apply mask_put_nth_other; exact Hk].
  Qed.

  Lemma pfcp_fold_keeps : forall js ip r, fold ip js = Ok r ->
    length r = length ip /\ forall k, (forall j, In j js -> nth k c 0 <> j) -> nth k r 0%Qc = nth k ip 0%Qc.
  Proof.
    intros js. induction js as [|j t IH]; intros ip r H.
    - inversion H. split; [reflexivity | intros; reflexivity].
    - cbn [pfcp_fold] in H. destruct (step ip j) as [ip1| |] eqn:Es; try discriminate.
      destruct (pfcp_step_keeps ip j ip1 Es) as [L1 K1]. destruct (IH ip1 r H) as [L2 K2]. split; [congruence|].
      intros k Hk. rewrite K2 by (intros j' Hj'; apply Hk; right; exact Hj').
      apply K1. apply Hk. left. reflexivity.
  Qed.

  (* the phase vector has the shape of the cycle vector *)
  Theorem pfcp_shape : forall r, pfcp_model tau interp_eval ctrl c = Ok r -> length r = length c.
  Proof.
    intros r H. unfold pfcp_model in H. destruct c as [|c0 ct] eqn:Ec; [discriminate|]. rewrite <- Ec in *.
    destruct (pfcp_fold_keeps _ _ _ H) as [L _]. rewrite L. apply repeat_length.
  Qed.

  (* samples outside every cycle (cycle number 0) keep phase 0 *)
  Theorem pfcp_outside_zero : forall r k, pfcp_model tau interp_eval ctrl c = Ok r -> nth k c 0 = 0 -> nth k r 0%Qc = 0%Qc.
  Proof.
    intros r k H Hk. unfold pfcp_model in H. destruct c as [|c0 ct] eqn:Ec; [discriminate|]. rewrite <- Ec in *.
    destruct (pfcp_fold_keeps _ _ _ H) as [_ K]. rewrite K.
    - unfold zerosq. destruct (Nat.lt_ge_cases k (length c)) as [Hlt|Hge].
      + apply nth_repeat.
      + apply nth_overflow. rewrite repeat_length. exact Hge.
    - intros j Hj. apply in_seq in Hj. lia.
  Qed.
End CtrlLaws.

(* ---- direct_quadrature: the number of columns, and what the repair does on concrete inputs --------- *)
Theorem direct_quadrature_columns : forall tau qsqrt atan a r, dq_model tau qsqrt atan a = Ok r -> length r = length a.
Proof.
  intros tau qsqrt atan a r. unfold dq_model, gather_rows, assign_rows.
  set (ph := phase_angle_model tau qsqrt atan a). set (inds := argwhere (isnan2 ph)).
  destruct (all_some (map (prev_idx (nrows ph)) (idx_rows inds))) as [pr|]; [|discriminate].
  destruct (all_some (map (next_idx (nrows ph)) (idx_rows inds))) as [nx|]; [|discriminate].
  destruct (all_some (map (same_idx (nrows ph)) (idx_rows inds))) as [rs|]; [|discriminate].
  intros H. inversion H. unfold map2, zip2. rewrite zipw_length, map_length, zipw_length, !map_length, !Nat.min_id.
  unfold ph, phase_angle_model, map2. apply map_length.
Qed.

(* a toy instance of the oracles: sqrt = 1, arctan = identity (the phase angle of x is then x itself) *)
Definition qshow (r : list (list (option Qc))) : list (list (option (Z * Z))) :=
  map2 (option_map (fun q : Qc => (Qnum q, Zpos (Qden q)))) r.
Definition toy_dq := dq_model tau8 (fun _ => 1%Qc) (fun x => x).
Definition e8 (z : Z) : option Qc := Some (Q2Qc (z # 8)).
(* two columns, three rows; a NaN in the FIRST row of column 0 *)
Definition dq_in_first : list (list (option Qc)) := [[None; e8 1; e8 3]; [e8 5; e8 7; e8 1]].
(* ... in the LAST row of column 0 *)
Definition dq_in_last : list (list (option Qc)) := [[e8 1; e8 3; None]; [e8 5; e8 7; e8 1]].

(* FINDING. row 0 is rebuilt from rows -1 (= the LAST row) and 1, and in EVERY column: the valid 5/8 of
   column 1 becomes (1/8 + 7/8) / 2 = 1/2 *)
Theorem direct_quadrature_first_row_wraps :
  in_domain dq_in_first = true /\
  res_map qshow (toy_dq dq_in_first)
  = Ok [[Some (1, 4); Some (1, 8); Some (3, 8)]; [Some (1, 2); Some (7, 8); Some (1, 8)]]%Z.
Proof. split; vm_compute; reflexivity. Qed.

(* FINDING. a NaN in the last row makes the repair itself fail *)
Theorem direct_quadrature_last_row_raises :
  in_domain dq_in_last = true /\ toy_dq dq_in_last = Exc "IndexError".
Proof. split; vm_compute; reflexivity. Qed.

(* FINDING. 'combined' is accepted by find_extrema_locked_epochs' own check but not by get_padded_extrema *)
Theorem fele_combined_raises : forall extrema pctl x w pct,
  lock_known "combined" = true /\ fele_model extrema pctl LCombined x w pct = Exc "ValueError".
Proof. intros. split; reflexivity. Qed.
