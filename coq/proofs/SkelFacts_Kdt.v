(* Proofs of the control-skeleton tie of kdt_match / _unique_inds (statements: props/Prop_Tie_Kdt.v;
   definitions: model/SkelPrims_Kdt.v; technique: notes/TIE_AGENT_BRIEF.md). *)
From Coq Require Import String List Bool Arith ZArith Lia.
From EmdV Require Import lib.NpLite lib.PyLoop lib.PyLoopTools gen.Gen_Skel_Kdt model.KdtMatch model.SkelPrims_Kdt
  proofs.KdtMatchFacts.
Import ListNotations.
Open Scope string_scope.

(* ---- decoding ---------------------------------------------------------------------------------- *)
Section Decode.
  Variable V : Type.
  Lemma nats_of_map : forall l, nats_of (map (@VNat V) l) = Some l.
  Proof. induction l as [|a t IH]; cbn [map nats_of]; [reflexivity|]. rewrite IH. reflexivity. Qed.
  Lemma bools_of_map : forall l, bools_of (map (@VBool V) l) = Some l.
  Proof. induction l as [|a t IH]; cbn [map bools_of]; [reflexivity|]. rewrite IH. reflexivity. Qed.
  Lemma natss_of_map : forall ll, natss_of (map (@vnats V) ll) = Some ll.
  Proof.
    induction ll as [|a t IH]; cbn [map natss_of vnats]; [reflexivity|]. rewrite nats_of_map, IH. reflexivity.
  Qed.
End Decode.

(* ---- _unique_inds ------------------------------------------------------------------------------ *)
(* numpy keeps the FIRST cell of every run of equal values of the sorted copy, the model's nodup_sorted the
   LAST one: the same values *)
Fixpoint run_heads (prev : nat) (l : list nat) : list nat :=
  match l with
  | [] => []
  | b :: t => if Nat.eqb prev b then run_heads b t else b :: run_heads b t
  end.

Lemma run_heads_nodup : forall t a, a :: run_heads a t = nodup_sorted (a :: t).
Proof.
  induction t as [|b t IH]; intros a; [reflexivity|].
  cbn [run_heads]. change (nodup_sorted (a :: b :: t)) with
    (if Nat.eqb a b then nodup_sorted (b :: t) else a :: nodup_sorted (b :: t)).
  destruct (Nat.eqb_spec a b) as [->|Hne].
  - apply IH.
  - rewrite IH. reflexivity.
Qed.

Lemma select_neq_run_heads : forall t a,
  select t (neq_list t (removelast (a :: t))) = run_heads a t.
Proof.
  induction t as [|b t IH]; intros a; [reflexivity|].
  change (removelast (a :: b :: t)) with (a :: removelast (b :: t)).
  unfold select, neq_list in *. cbn [combine map fst snd filter run_heads].
  rewrite (Nat.eqb_sym b a).
  destruct (Nat.eqb a b); cbn [negb map fst]; rewrite IH; reflexivity.
Qed.

Lemma neq_list_length : forall t a, length (neq_list t (removelast (a :: t))) = length t.
Proof.
  induction t as [|b t IH]; intros a; [reflexivity|].
  change (removelast (a :: b :: t)) with (a :: removelast (b :: t)).
  unfold neq_list in *. cbn [combine map length]. rewrite IH. reflexivity.
Qed.

Lemma removelast_length : forall (t : list nat) a, length (removelast (a :: t)) = length t.
Proof.
  induction t as [|b t IH]; intros a; [reflexivity|].
  change (removelast (a :: b :: t)) with (a :: removelast (b :: t)). cbn [length]. rewrite IH. reflexivity.
Qed.

Lemma select_mask_nodup : forall a t,
  select (a :: t) (true :: neq_list t (removelast (a :: t))) = nodup_sorted (a :: t).
Proof.
  intros a t. rewrite <- run_heads_nodup, <- select_neq_run_heads. reflexivity.
Qed.

Section UniqueTie.
  Variable V : Type.
  Variable junk : nat -> bool.
  Local Notation P := (unique_prims V junk).

  Ltac ev :=
    cbv beta iota zeta delta
        [exec final_env eval eval_truth bind map_res truthy do_cmp do_arith do_index nat_cmp nat_arith iter_list
         upd lookup env_of assign_all cmp_name ar_name frame overlay normal_env
         try_finish try_finish_env exn_matches
         unique_prims prims_of table_lookup unique_table keys_are is_opaque0
         unique_names unique_env0 params_unique_inds prog_unique_inds vnats vbools
         String.eqb Ascii.eqb Bool.eqb fst snd nth_error andb negb orb].
  Ltac ev1 :=
    ev; repeat (progress (rewrite ?nats_of_map, ?bools_of_map;
                          cbn [map length seq tl Nat.eqb nats_of bools_of]); ev).

  Theorem skeleton_unique_inds : forall (Ic : list nat) f,
    exec P prog_unique_inds f (unique_env0 V Ic) = unique_render V (unique_inds_model Ic).
  Proof.
    intros Ic f. unfold unique_inds_model, unique_render, unique_value. cbn [fst snd].
    destruct (sort_nat Ic) as [|a t] eqn:Es.
    - ev1. rewrite Es. repeat (progress (ev1; cbn [removelast neq_list combine select filter map length fst snd])).
      reflexivity.
    - ev1. rewrite Es. ev1.
      rewrite removelast_length, Nat.eqb_refl. ev1.
      rewrite ?map_length, ?seq_length, neq_list_length, Nat.eqb_refl. ev1.
      rewrite neq_list_length, Nat.eqb_refl. ev1.
      rewrite neq_list_length, Nat.eqb_refl. ev1.
      rewrite select_mask_nodup, map_map. reflexivity.
  Qed.
End UniqueTie.

(* ============================================================================================== *)
(* kdt_match: list facts                                                                           *)
(* ============================================================================================== *)
Local Open Scope nat_scope.

Lemma nth_error_ext_eq : forall A (a b : list A), (forall r, nth_error a r = nth_error b r) -> a = b.
Proof.
  induction a as [|x a IH]; intros [|y b] H.
  - reflexivity.
  - specialize (H 0). discriminate.
  - specialize (H 0). discriminate.
  - pose proof (H 0) as H0. cbn [nth_error] in H0. inversion H0; subst. f_equal.
    apply IH. intros r. exact (H (S r)).
Qed.

Lemma nth_error_combine' : forall A B (a : list A) (b : list B) r,
  nth_error (combine a b) r =
  match nth_error a r, nth_error b r with Some x, Some y => Some (x, y) | _, _ => None end.
Proof.
  intros A B a; induction a as [|x t IH]; intros b r.
  - destruct r; reflexivity.
  - destruct b as [|y b].
    + destruct r as [|r]; cbn [combine nth_error]; [reflexivity|]. destruct (nth_error t r); reflexivity.
    + destruct r as [|r]; cbn [combine nth_error]; [reflexivity|]. apply IH.
Qed.

Lemma nth_error_mapi_from' : forall A B (f : nat -> A -> B) l i r,
  nth_error (mapi_from f i l) r = option_map (f (i + r)) (nth_error l r).
Proof.
  intros A B f l; induction l as [|a t IH]; intros i r.
  - destruct r; reflexivity.
  - destruct r as [|r]; cbn [mapi_from nth_error option_map].
    + rewrite Nat.add_0_r. reflexivity.
    + rewrite IH. replace (S i + r) with (i + S r) by lia. reflexivity.
Qed.

Lemma mapi_from_length : forall A B (f : nat -> A -> B) l i, length (mapi_from f i l) = length l.
Proof. intros A B f l; induction l as [|a t IH]; intros i; cbn [mapi_from length]; [reflexivity|]. rewrite IH. reflexivity. Qed.

Lemma nth_error_some_nth : forall A (l : list A) r d, r < length l -> nth_error l r = Some (nth r l d).
Proof. intros A l r d H. apply nth_error_nth'. exact H. Qed.

(* ---- set_nth / scatter ---- *)
Lemma set_nth_length : forall A i (v : A) l, i < length l -> length (set_nth i v l) = length l.
Proof.
  intros A i v l H. unfold set_nth. rewrite app_length. cbn [length]. rewrite firstn_length, skipn_length. lia.
Qed.

Lemma set_nth_nth : forall A i (v : A) l r d, i < length l ->
  nth r (set_nth i v l) d = if Nat.eqb r i then v else nth r l d.
Proof.
  intros A i v l r d H. unfold set_nth.
  assert (Hf : length (firstn i l) = i) by (rewrite firstn_length; lia).
  destruct (Nat.eqb_spec r i) as [->|Hne].
  - rewrite app_nth2 by lia. rewrite Hf, Nat.sub_diag. reflexivity.
  - destruct (Nat.lt_ge_cases r i) as [Hlt|Hge].
    + rewrite app_nth1 by lia. rewrite <- (firstn_skipn i l) at 2. rewrite app_nth1 by lia. reflexivity.
    + rewrite app_nth2 by lia. rewrite Hf.
      replace (r - i) with (S (r - S i)) by lia. cbn [nth].
      rewrite <- (firstn_skipn (S i) l) at 2.
      assert (Hf2 : length (firstn (S i) l) = S i) by (rewrite firstn_length; lia).
      rewrite app_nth2 by lia. rewrite Hf2. reflexivity.
Qed.

Lemma mem_nat_cons : forall x a l, mem_nat x (a :: l) = Nat.eqb x a || mem_nat x l.
Proof. reflexivity. Qed.

Lemma mem_nat_In : forall x l, mem_nat x l = true <-> In x l.
Proof.
  intros x l. unfold mem_nat. rewrite existsb_exists. split.
  - intros (y & Hy & E). apply Nat.eqb_eq in E. subst. exact Hy.
  - intros H. exists x. split; [exact H | apply Nat.eqb_refl].
Qed.

Lemma scatter_spec : forall A (f : nat -> A) idx l,
  Forall (fun i => i < length l) idx ->
  length (scatter l idx (map f idx)) = length l /\
  forall r d, nth r (scatter l idx (map f idx)) d = if mem_nat r idx then f r else nth r l d.
Proof.
  intros A f idx. induction idx as [|i it IH]; intros l H.
  - split; reflexivity.
  - inversion H as [|? ? Hi Hit]; subst. cbn [map scatter].
    assert (Hit' : Forall (fun j => j < length (set_nth i (f i) l)) it).
    { rewrite set_nth_length by exact Hi. exact Hit. }
    destruct (IH _ Hit') as (Hl & Hn). split.
    + rewrite Hl. apply set_nth_length. exact Hi.
    + intros r d. rewrite Hn, mem_nat_cons, set_nth_nth by exact Hi.
      destruct (mem_nat r it) eqn:Em.
      * rewrite orb_true_r. reflexivity.
      * rewrite orb_false_r. destruct (Nat.eqb_spec r i) as [->|]; reflexivity.
Qed.

(* ---- sorting and unique values keep the elements ---- *)
Lemma insert_sorted_In : forall y x l, In y (insert_sorted x l) <-> y = x \/ In y l.
Proof.
  intros y x l. induction l as [|a t IH]; cbn [insert_sorted].
  - cbn [In]. intuition.
  - destruct (x <=? a); cbn [In]; [intuition|]. rewrite IH. intuition.
Qed.

Lemma sort_nat_In : forall y l, In y (sort_nat l) <-> In y l.
Proof.
  intros y l. unfold sort_nat. induction l as [|a t IH]; cbn [fold_right In]; [reflexivity|].
  rewrite insert_sorted_In, IH. intuition.
Qed.

Lemma nodup_sorted_In : forall y l, In y (nodup_sorted l) <-> In y l.
Proof.
  intros y l. induction l as [|a t IH]; [reflexivity|].
  destruct t as [|b t']; [reflexivity|].
  change (nodup_sorted (a :: b :: t')) with
    (if Nat.eqb a b then nodup_sorted (b :: t') else a :: nodup_sorted (b :: t')).
  destruct (Nat.eqb_spec a b) as [->|Hne].
  - rewrite IH. cbn [In]. intuition.
  - cbn [In] in *. rewrite IH. intuition.
Qed.

Lemma uniq_In : forall y l, In y (nodup_sorted (sort_nat l)) <-> In y l.
Proof. intros. rewrite nodup_sorted_In. apply sort_nat_In. Qed.
Lemma uniq_In1 : forall y l, In y (nodup_sorted (sort_nat l)) -> In y l.
Proof. intros y l. apply uniq_In. Qed.
Lemma uniq_In2 : forall y l, In y l -> In y (nodup_sorted (sort_nat l)).
Proof. intros y l. apply uniq_In. Qed.

(* ---- argmin ---- *)
Lemma argmin_idx_lt : forall vals, vals <> [] -> argmin_idx vals < length vals.
Proof.
  induction vals as [|v t IH]; intros H; [congruence|].
  destruct t as [|w t']; [cbn; lia|].
  change (argmin_idx (v :: w :: t')) with
    (let j := argmin_idx (w :: t') in if (v <=? nth j (w :: t') 0)%Z then 0 else S j).
  cbv zeta. assert (argmin_idx (w :: t') < length (w :: t')) by (apply IH; discriminate).
  destruct (v <=? _)%Z; cbn [length] in *; lia.
Qed.

Lemma argmin_rows_idx : forall Dc rows, rows <> [] ->
  argmin_rows Dc rows = Some (nth (argmin_idx (map (fun r => nth r Dc 0%Z) rows)) rows 0).
Proof.
  intros Dc. induction rows as [|r t IH]; intros H; [congruence|].
  destruct t as [|r' t'].
  - reflexivity.
  - cbn [argmin_rows] in IH |- *.
    assert (Hne : r' :: t' <> []) by discriminate.
    specialize (IH Hne). cbn [argmin_rows] in IH. rewrite IH.
    set (g := fun r0 => nth r0 Dc 0%Z) in *.
    change (map g (r :: r' :: t')) with (g r :: g r' :: map g t').
    change (argmin_idx (g r :: g r' :: map g t')) with
      (let j := argmin_idx (g r' :: map g t') in if (g r <=? nth j (g r' :: map g t') 0)%Z then 0 else S j).
    cbv zeta. change (g r' :: map g t') with (map g (r' :: t')).
    set (j := argmin_idx (map g (r' :: t'))).
    assert (Hj : j < length (r' :: t')).
    { unfold j. rewrite <- (map_length g). apply argmin_idx_lt. discriminate. }
    rewrite (@nth_indep Z (map g (r' :: t')) j 0%Z (g 0)) by (rewrite map_length; exact Hj).
    rewrite map_nth. fold (g r).
    subst g. cbv beta. destruct (nth r Dc 0 <=? nth (nth j (r' :: t') 0%nat) Dc 0)%Z; reflexivity.
Qed.

Lemma argmin_rows_In : forall Dc rows r, argmin_rows Dc rows = Some r -> In r rows.
Proof.
  intros Dc. induction rows as [|a t IH]; intros r H; [discriminate|].
  cbn [argmin_rows] in H. destruct (argmin_rows Dc t) as [r'|].
  - destruct (_ <=? _)%Z; inversion H; subst; [left; reflexivity | right; apply IH; reflexivity].
  - inversion H. left. reflexivity.
Qed.

(* ---- positions ---- *)
Lemma positions_nonempty : forall y Ic, In y Ic -> positions (Nat.eqb y) Ic <> [].
Proof.
  intros y Ic H E. apply In_nth_error in H. destruct H as (k & Hk).
  assert (In k (positions (Nat.eqb y) Ic)) as Hin.
  { apply In_positions. exists y. split; [exact Hk | apply Nat.eqb_refl]. }
  rewrite E in Hin. destruct Hin.
Qed.

Lemma positions_elem : forall y Ic r, In r (positions (Nat.eqb y) Ic) -> r < length Ic /\ nth r Ic 0 = y.
Proof.
  intros y Ic r H. apply In_positions in H. destruct H as (x & Hx & E). apply Nat.eqb_eq in E. subst x. split.
  - apply nth_error_Some. congruence.
  - apply nth_error_nth. exact Hx.
Qed.

(* the elements at the positions selected in l, read in a second list of the same length *)
Lemma positions_from_read : forall A B (p : A -> bool) (d : B) l l2 i, length l = length l2 ->
  map (fun r => nth (r - i) l2 d) (positions_from p l i) = map snd (filter (fun q => p (fst q)) (combine l l2)).
Proof.
  intros A B p d l. induction l as [|a t IH]; intros l2 i Hl; [reflexivity|].
  destruct l2 as [|b t2]; [discriminate|]. cbn [length] in Hl.
  cbn [positions_from combine filter fst].
  assert (Ht : map (fun r => nth (r - i) (b :: t2) d) (positions_from p t (S i)) =
               map (fun r => nth (r - S i) t2 d) (positions_from p t (S i))).
  { apply map_ext_in. intros r Hr.
    destruct (positions_from_sorted A p t (S i)) as (_ & Hge). rewrite Forall_forall in Hge.
    specialize (Hge r Hr). replace (r - i) with (S (r - S i)) by lia. reflexivity. }
  destruct (p a); cbn [map snd].
  - rewrite Ht, Nat.sub_diag. cbn [nth]. f_equal. apply IH. lia.
  - rewrite Ht. apply IH. lia.
Qed.

Lemma positions_read : forall A B (p : A -> bool) (d : B) l l2, length l = length l2 ->
  map (fun r => nth r l2 d) (positions p l) = map snd (filter (fun q => p (fst q)) (combine l l2)).
Proof.
  intros A B p d l l2 H. rewrite <- (positions_from_read A B p d l l2 0 H). unfold positions.
  apply map_ext. intros r. rewrite Nat.sub_0_r. reflexivity.
Qed.

Lemma filter_combine_map : forall A B (p : A -> bool) (l : list A) (l2 : list B),
  filter (fun q => p (fst q)) (combine l l2) =
  map (fun q => (fst q, snd q)) (filter (fun q => p (fst q)) (combine l l2)).
Proof. intros. rewrite <- (map_id (filter _ _)) at 1. apply map_ext. intros [a b]. reflexivity. Qed.

Lemma filter_fst_combine_map : forall A B (p : A -> bool) (l : list A) (l2 : list B),
  map snd (filter fst (combine (map p l) l2)) = map snd (filter (fun q => p (fst q)) (combine l l2)).
Proof.
  intros A B p l. induction l as [|a t IH]; intros l2; [reflexivity|].
  destruct l2 as [|b t2]; [reflexivity|]. cbn [map combine filter fst].
  destruct (p a); cbn [map snd]; rewrite IH; reflexivity.
Qed.

Lemma positions_lt : forall A (p : A -> bool) l r, In r (positions p l) -> r < length l.
Proof.
  intros A p l r H. apply In_positions in H. destruct H as (x & Hx & _). apply nth_error_Some. congruence.
Qed.

(* ---- select ---- *)
Lemma select_map_filter : forall A (p : A -> bool) l, select l (map p l) = filter p l.
Proof.
  intros A p l. unfold select. induction l as [|a t IH]; [reflexivity|].
  cbn [map combine filter snd]. destruct (p a); cbn [map fst]; rewrite IH; reflexivity.
Qed.

Lemma count_in_filter : forall (p : nat -> bool) y l, In y l ->
  nonzero (length (filter (Nat.eqb y) (filter p l))) = p y.
Proof.
  intros p y l H. destruct (p y) eqn:Ep.
  - assert (In y (filter (Nat.eqb y) (filter p l))) as Hin.
    { apply filter_In. split; [apply filter_In; split; assumption | apply Nat.eqb_refl]. }
    destruct (filter (Nat.eqb y) (filter p l)); [destruct Hin | reflexivity].
  - destruct (filter (Nat.eqb y) (filter p l)) as [|z t] eqn:Ef; [reflexivity|].
    assert (In z (filter (Nat.eqb y) (filter p l))) as Hin by (rewrite Ef; left; reflexivity).
    apply filter_In in Hin. destruct Hin as (Hin & E). apply Nat.eqb_eq in E. subst z.
    apply filter_In in Hin. destruct Hin as (_ & Hp). congruence.
Qed.

(* ---- rows of the marks matrix ---- *)
Lemma list_sum_repeat0 : forall n, list_sum (repeat 0 n) = 0.
Proof. induction n as [|n IH]; [reflexivity|]. simpl. exact IH. Qed.

Lemma firstn_repeat' : forall A (x : A) n k, firstn k (repeat x n) = repeat x (Nat.min k n).
Proof.
  intros A x n. induction n as [|n IH]; intros k.
  - rewrite Nat.min_0_r. destruct k; reflexivity.
  - destruct k as [|k]; [reflexivity|]. cbn [repeat firstn Nat.min]. rewrite IH. reflexivity.
Qed.

Lemma skipn_repeat' : forall A (x : A) n k, skipn k (repeat x n) = repeat x (n - k).
Proof.
  intros A x n. induction n as [|n IH]; intros k.
  - destruct k; reflexivity.
  - destruct k as [|k]; [reflexivity|]. cbn [repeat skipn Nat.sub]. apply IH.
Qed.

Lemma onehot_length : forall K m, (forall c, m = Some c -> c < K) -> length (onehot K m) = K.
Proof.
  intros K [c|] H; unfold onehot.
  - specialize (H c eq_refl). rewrite app_length. cbn [length]. rewrite !repeat_length. lia.
  - apply repeat_length.
Qed.

Lemma onehot_set : forall K c, c < K -> set_nth c 1 (onehot K None) = onehot K (Some c).
Proof.
  intros K c H. unfold set_nth, onehot. rewrite firstn_repeat', skipn_repeat'.
  replace (Nat.min c K) with c by lia. reflexivity.
Qed.

Lemma onehot_before : forall K c m, (forall c0, m = Some c0 -> c0 < c) ->
  nonzero (list_sum (firstn c (onehot K m))) = is_marked m.
Proof.
  intros K c [c0|] H; unfold onehot, is_marked.
  - specialize (H c0 eq_refl). rewrite firstn_app, repeat_length.
    replace (c - c0) with (S (c - S c0)) by lia. cbn [firstn].
    rewrite list_sum_app. simpl list_sum. rewrite Nat.add_succ_r. reflexivity.
  - rewrite firstn_repeat', list_sum_repeat0. reflexivity.
Qed.

Lemma onehot_sum : forall K m, list_sum (onehot K m) = if is_marked m then 1 else 0.
Proof.
  intros K [c|]; unfold onehot, is_marked.
  - rewrite list_sum_app. change (list_sum (1 :: repeat 0 (K - S c))) with (1 + list_sum (repeat 0 (K - S c))).
    rewrite !list_sum_repeat0. reflexivity.
  - apply list_sum_repeat0.
Qed.

Lemma nth_repeat0 : forall j n, nth j (repeat 0 n) 0 = 0.
Proof. intros j n. revert j. induction n as [|n IH]; intros [|j]; cbn [repeat nth]; auto. Qed.

Lemma onehot_argmax : forall K c, argmax_idx (onehot K (Some c)) = c.
Proof.
  intros K c. unfold onehot. generalize (K - S c) as k. intros k.
  induction c as [|c IH].
  - cbn [repeat app]. destruct k as [|k]; [reflexivity|].
    change (argmax_idx (1 :: repeat 0 (S k))) with
      (let j := argmax_idx (repeat 0 (S k)) in if (nth j (repeat 0 (S k)) 0 <=? 1) then 0 else S j).
    cbv zeta. rewrite nth_repeat0. reflexivity.
  - cbn [repeat app].
    destruct (repeat 0 c ++ 1 :: repeat 0 k)%list as [|w t] eqn:E.
    { destruct (repeat 0 c); discriminate. }
    change (argmax_idx (0 :: w :: t)) with
      (let j := argmax_idx (w :: t) in if (nth j (w :: t) 0 <=? 0) then 0 else S j).
    cbv zeta. rewrite IH. rewrite <- E.
    rewrite app_nth2 by (rewrite repeat_length; lia). rewrite repeat_length, Nat.sub_diag. reflexivity.
Qed.

(* ============================================================================================== *)
(* kdt_match: one column of the greedy assignment, as the code computes it, is the model's col_step *)
(* ============================================================================================== *)
Definition marks_lt (c : nat) (ms : list (option nat)) : Prop := Forall (fun m => forall c0, m = Some c0 -> c0 < c) ms.

Lemma onehot_guard : forall K ms, 0 < K -> marks_lt K ms -> existsb is_nil (map (onehot K) ms) = false.
Proof.
  intros K ms HK Hm. destruct (existsb is_nil (map (onehot K) ms)) eqn:E; [|reflexivity]. exfalso.
  apply existsb_exists in E. destruct E as (row & Hin & Hn). apply in_map_iff in Hin. destruct Hin as (m & <- & Hm').
  unfold marks_lt in Hm. rewrite Forall_forall in Hm. pose proof (onehot_length K m (Hm m Hm')) as Hl.
  destruct (onehot K m); [cbn [length] in Hl; lia | discriminate].
Qed.

Section Column.
  Variable Dc : list Z.
  Variable Ic : list nat.
  Variable K c : nat.
  Variable s : kstate.
  Variable n : nat.                           (* the number of rows *)

  (* the intermediate values of the loop body, in the order the code computes them *)
  Definition col_uni : list nat := nodup_sorted (sort_nat Ic).
  Definition col_pss : list (list nat) := map (fun y => positions (Nat.eqb y) Ic) col_uni.
  Definition col_ix : list nat := map (fun rows => argmin_idx (map (fun r => nth r Dc 0%Z) rows)) col_pss.
  Definition col_closest : list nat := map (fun p => nth (snd p) (fst p) 0) (combine col_pss col_ix).
  Definition col_uf : list nat := select col_uni (map negb (map (fun y => mem_nat y (selected s)) col_uni)).
  Definition col_vals : list nat :=
    map (fun y => length (filter (Nat.eqb y) col_uf)) (map (fun r => nth r Ic 0) col_closest).
  Definition col_um1 : list nat := scatter (repeat 0 n) col_closest col_vals.
  Definition col_um2 : list nat :=
    map (fun p => if nonzero (list_sum (firstn c (fst p))) then 0 else snd p) (combine (map (onehot K) (marks s)) col_um1).
  Definition col_II : list (list nat) :=
    map (fun p => if nonzero (snd p) then set_nth c 1 (fst p) else fst p) (combine (map (onehot K) (marks s)) col_um2).
  Definition col_sel : list nat := (selected s ++ map (fun r => nth r Ic 0) (positions nonzero col_um2))%list.

  Definition crow (y : nat) : nat :=
    nth (argmin_idx (map (fun r => nth r Dc 0%Z) (positions (Nat.eqb y) Ic))) (positions (Nat.eqb y) Ic) 0.

  Lemma combine_map_r : forall A B (h : A -> B) (l : list A), combine l (map h l) = map (fun a => (a, h a)) l.
  Proof. intros A B h l. induction l as [|a t IH]; [reflexivity|]. cbn [map combine]. rewrite IH. reflexivity. Qed.

  Lemma col_closest_eq : col_closest = map crow col_uni.
  Proof.
    unfold col_closest, col_ix, col_pss. rewrite combine_map_r, !map_map. reflexivity.
  Qed.

  Lemma claimant_crow : forall y, In y Ic -> claimant Dc Ic y = Some (crow y).
  Proof. intros y H. unfold claimant, crow. apply argmin_rows_idx. apply positions_nonempty. exact H. Qed.

  Lemma crow_spec : forall y, In y Ic -> crow y < length Ic /\ nth (crow y) Ic 0 = y.
  Proof.
    intros y H. apply positions_elem. apply (argmin_rows_In Dc). apply claimant_crow. exact H.
  Qed.

  (* the guards of the primitives *)
  Lemma col_guard_argmin : existsb is_nil col_pss = false.
  Proof.
    destruct (existsb is_nil col_pss) eqn:E; [|reflexivity]. exfalso.
    apply existsb_exists in E. destruct E as (rows & Hin & Hn). unfold col_pss in Hin.
    apply in_map_iff in Hin. destruct Hin as (y & <- & Hy). apply uniq_In1 in Hy.
    apply positions_nonempty in Hy. destruct (positions (Nat.eqb y) Ic) eqn:Ep; [congruence | discriminate].
  Qed.

  Lemma col_guard_index : forallb (fun p => Nat.ltb (snd p) (length (fst p))) (combine col_pss col_ix) = true.
  Proof.
    apply forallb_forall. intros p Hp. unfold col_ix in Hp. rewrite combine_map_r in Hp.
    apply in_map_iff in Hp. destruct Hp as (rows & <- & Hr). cbn [fst snd]. apply Nat.ltb_lt.
    unfold col_pss in Hr. apply in_map_iff in Hr. destruct Hr as (y & <- & Hy). apply uniq_In1 in Hy.
    rewrite <- (map_length (fun r => nth r Dc 0%Z) (positions (Nat.eqb y) Ic)). apply argmin_idx_lt.
    pose proof (positions_nonempty y Ic Hy) as Hne. destruct (positions (Nat.eqb y) Ic) eqn:Ep; [congruence | discriminate].
  Qed.

  Lemma col_closest_lt : Forall (fun r => r < length Ic) col_closest.
  Proof.
    rewrite col_closest_eq. apply Forall_forall. intros r Hr. apply in_map_iff in Hr.
    destruct Hr as (y & <- & Hy). apply uniq_In1 in Hy. apply crow_spec. exact Hy.
  Qed.

  Lemma col_guard_store : c < K -> marks_lt c (marks s) ->
    forallb (fun row => Nat.ltb c (length row)) (map (onehot K) (marks s)) = true.
  Proof.
    intros Hc Hm. apply forallb_forall. intros row Hr. apply in_map_iff in Hr. destruct Hr as (m & <- & Hin).
    apply Nat.ltb_lt. rewrite onehot_length; [exact Hc|]. intros c0 E. unfold marks_lt in Hm. rewrite Forall_forall in Hm.
    specialize (Hm m Hin c0 E). lia.
  Qed.

  Hypothesis Hn : n = length Ic.

  Lemma col_guard_scatter : forallb (fun r => Nat.ltb r (length (repeat 0 n))) col_closest = true.
  Proof.
    rewrite Hn. apply forallb_forall. intros r Hr. apply Nat.ltb_lt. rewrite repeat_length.
    pose proof col_closest_lt as H. rewrite Forall_forall in H. apply H. exact Hr.
  Qed.

  Lemma col_um1_spec :
    length col_um1 = length Ic /\
    forall r, nth r col_um1 0 =
              if mem_nat r col_closest then length (filter (Nat.eqb (nth r Ic 0)) col_uf) else 0.
  Proof.
    unfold col_um1, col_vals. rewrite map_map, Hn.
    destruct (scatter_spec nat (fun r => length (filter (Nat.eqb (nth r Ic 0)) col_uf)) col_closest (repeat 0 (length Ic)))
      as (Hl & Hnth).
    - rewrite repeat_length. exact col_closest_lt.
    - split; [rewrite Hl; apply repeat_length|]. intros r. rewrite Hnth, nth_repeat0. reflexivity.
  Qed.

  Hypothesis Hlen : length (marks s) = length Ic.
  Hypothesis Hlt : marks_lt c (marks s).

  Lemma col_um2_length : length col_um2 = length Ic.
  Proof.
    unfold col_um2. rewrite map_length, combine_length, map_length, (proj1 col_um1_spec), Hlen. lia.
  Qed.

  (* THE POINT: the entries of uni_matches that are not 0 are the model's new marks *)
  Lemma col_new_marks : map nonzero col_um2 = new_marks Dc Ic s.
  Proof.
    apply nth_error_ext_eq. intros r. unfold new_marks. rewrite nth_error_mapi_from'. cbn [Nat.add].
    unfold col_um2. rewrite !nth_error_map, nth_error_combine', nth_error_map.
    destruct (Nat.lt_ge_cases r (length Ic)) as [Hr|Hr].
    - rewrite (nth_error_some_nth _ (marks s) r None) by lia.
      rewrite (nth_error_some_nth _ col_um1 r 0) by (rewrite (proj1 col_um1_spec); exact Hr).
      rewrite (nth_error_some_nth _ Ic r 0) by exact Hr.
      cbn [option_map fst snd]. f_equal.
      assert (Hm : forall c0, nth r (marks s) None = Some c0 -> c0 < c).
      { unfold marks_lt in Hlt. rewrite Forall_forall in Hlt. apply Hlt. apply nth_In. lia. }
      rewrite (onehot_before K c _ Hm).
      destruct (nth r (marks s) None) as [c0|]; cbn [is_marked negb andb]; [reflexivity|].
      rewrite (proj2 col_um1_spec).
      set (y := nth r Ic 0).
      assert (Hy : In y Ic) by (apply nth_In; exact Hr).
      assert (Hyu : In y col_uni) by (apply uniq_In2; exact Hy).
      assert (Hcnt : nonzero (length (filter (Nat.eqb y) col_uf)) = negb (mem_nat y (selected s))).
      { unfold col_uf. rewrite map_map, select_map_filter.
        apply (count_in_filter (fun y0 => negb (mem_nat y0 (selected s)))). exact Hyu. }
      assert (Hcl : mem_nat r col_closest = match claimant Dc Ic y with Some r' => Nat.eqb r' r | None => false end).
      { rewrite (claimant_crow y Hy). apply eq_true_iff_eq. rewrite mem_nat_In, Nat.eqb_eq, col_closest_eq. split.
        - intros Hin. apply in_map_iff in Hin. destruct Hin as (y' & E & Hy'). apply uniq_In1 in Hy'.
          destruct (crow_spec y' Hy') as (_ & Hnth). rewrite E in Hnth. fold y in Hnth. subst y'. exact E.
        - intros E. apply in_map_iff. exists y. split; assumption. }
      rewrite <- Hcl. destruct (mem_nat r col_closest); [rewrite Hcnt; rewrite andb_true_r; reflexivity|].
      rewrite andb_false_r. reflexivity.
    - assert (E1 : nth_error (marks s) r = None) by (apply nth_error_None; lia).
      assert (E2 : nth_error Ic r = None) by (apply nth_error_None; lia).
      rewrite E1, E2. reflexivity.
  Qed.
End Column.

(* the rows of II after the store, against the model's update of the marks *)
Definition mark_upd (c : nat) (mo : option nat * bool) : option nat :=
  match mo with (Some c0, _) => Some c0 | (None, true) => Some c | (None, false) => None end.

Lemma mark_rows : forall K c ms um, c < K -> marks_lt c ms ->
  map (fun p => if nonzero (snd p) then set_nth c 1 (fst p) else fst p)
      (combine (map (onehot K) ms)
               (map (fun p => if nonzero (list_sum (firstn c (fst p))) then 0 else snd p) (combine (map (onehot K) ms) um)))
  = map (onehot K)
        (map (mark_upd c)
             (combine ms (map nonzero
                (map (fun p => if nonzero (list_sum (firstn c (fst p))) then 0 else snd p) (combine (map (onehot K) ms) um))))).
Proof.
  intros K c ms. induction ms as [|m t IH]; intros um Hc Hm; [reflexivity|].
  destruct um as [|v um]; [reflexivity|].
  inversion Hm as [|? ? Hm1 Hm2]; subst.
  cbn [map combine fst snd]. rewrite (onehot_before K c m Hm1). f_equal.
  - destruct m as [c0|]; cbn [is_marked].
    + reflexivity.
    + destruct (nonzero v); cbn [mark_upd]; [apply onehot_set; exact Hc | reflexivity].
  - apply IH; assumption.
Qed.

Lemma mark_upd_lt : forall c ms nm, marks_lt c ms -> marks_lt (S c) (map (mark_upd c) (combine ms nm)).
Proof.
  intros c ms. induction ms as [|m t IH]; intros nm H; [constructor|].
  destruct nm as [|b nm]; [constructor|]. inversion H as [|? ? H1 H2]; subst.
  cbn [combine map]. constructor; [|apply IH; exact H2].
  intros c0 E. destruct m as [c1|]; cbn [mark_upd] in E.
  - inversion E; subst. specialize (H1 c0 eq_refl). lia.
  - destruct b; inversion E; subst. lia.
Qed.

Lemma marks_lt_le : forall c c' ms, c <= c' -> marks_lt c ms -> marks_lt c' ms.
Proof.
  intros c c' ms Hle H. unfold marks_lt in *. rewrite Forall_forall in *. intros m Hin c0 E.
  specialize (H m Hin c0 E). lia.
Qed.

Section ColumnModel.
  Variable D : list (list Z).
  Variable inds : list (list nat).
  Variable K c : nat.
  Variable s : kstate.
  Hypothesis Hc : c < K.
  Hypothesis Hlen : length (marks s) = length inds.
  Hypothesis Hlt : marks_lt c (marks s).

  Let Dc := column 0%Z D c.
  Let Ic := column 0 inds c.

  Lemma Ic_length : length Ic = length inds.
  Proof. unfold Ic, column. apply map_length. Qed.

  Lemma col_II_model : col_II Dc Ic K c s (length inds) = map (onehot K) (marks (col_step D inds s c)).
  Proof.
    unfold col_II. unfold col_um2.
    rewrite mark_rows by assumption. fold (col_um2 Dc Ic K c s (length inds)).
    rewrite col_new_marks by (rewrite ?Ic_length; first [assumption | reflexivity]). reflexivity.
  Qed.

  Lemma col_sel_model : col_sel Dc Ic K c s (length inds) = selected (col_step D inds s c).
  Proof.
    unfold col_sel, col_step. cbn [selected]. f_equal.
    rewrite positions_read by (rewrite col_um2_length by (rewrite ?Ic_length; first [assumption | reflexivity]); reflexivity).
    rewrite <- filter_fst_combine_map.
    rewrite col_new_marks by (rewrite ?Ic_length; first [assumption | reflexivity]). reflexivity.
  Qed.

  Lemma col_step_length : length (marks (col_step D inds s c)) = length inds.
  Proof.
    unfold col_step. cbn [marks]. rewrite map_length, combine_length.
    unfold new_marks. rewrite mapi_from_length. fold Ic. rewrite Ic_length. lia.
  Qed.

  Lemma col_step_lt : marks_lt (S c) (marks (col_step D inds s c)).
  Proof. unfold col_step. cbn [marks]. apply (mark_upd_lt c). exact Hlt. Qed.
End ColumnModel.

(* ---- the model of _unique_inds in the terms of model/KdtMatch.v ---- *)
Lemma unique_inds_values : forall Ic y, In y (fst (unique_inds_model Ic)) <-> In y Ic.
Proof. intros Ic y. unfold unique_inds_model. cbn [fst]. apply uniq_In. Qed.

Lemma unique_inds_claimant : forall Dc Ic,
  map (claimant Dc Ic) (fst (unique_inds_model Ic)) = map (argmin_rows Dc) (snd (unique_inds_model Ic)).
Proof. intros Dc Ic. unfold unique_inds_model, claimant. cbn [fst snd]. rewrite map_map. reflexivity. Qed.

(* ============================================================================================== *)
(* kdt_match: the final extraction                                                                 *)
(* ============================================================================================== *)
Definition frow (ny : nat) (p : list nat * option nat) : option nat := final_row ny (fst p) (snd p).

Lemma pairs_gen : forall ny (L : list (list nat * option nat)) i,
  map fst (flat_map (pair_of ny) (combine (seq i (length L)) L))
    = positions_from (fun b : bool => b) (map (@is_some nat) (map (frow ny) L)) i /\
  map snd (flat_map (pair_of ny) (combine (seq i (length L)) L)) = somes (map (frow ny) L).
Proof.
  intros ny L. induction L as [|[row m] t IH]; intros i; [split; reflexivity|].
  cbn [length seq combine flat_map map]. destruct (IH (S i)) as (IH1 & IH2).
  rewrite !map_app, IH1, IH2.
  change (pair_of ny (i, (row, m))) with (match final_row ny row m with Some y => [(i, y)] | None => [] end).
  change (frow ny (row, m)) with (final_row ny row m).
  destruct (final_row ny row m) as [y|]; cbn [map app fst snd is_some positions_from somes]; split; reflexivity.
Qed.

Section FinalFacts.
  Variable V : Type.

  Lemma opts_of_map : forall l, opts_of V (map (vopt V) l) = Some l.
  Proof.
    induction l as [|[y|] t IH]; cbn [map opts_of vopt]; [reflexivity| |]; rewrite IH; reflexivity.
  Qed.

  Lemma read_somes : forall fl : list (option nat),
    map snd (filter (fun q : bool * val V => fst q) (combine (map (@is_some nat) fl) (map (vopt V) fl)))
    = map VNat (somes fl).
  Proof.
    induction fl as [|[y|] t IH]; cbn [map combine filter fst snd is_some somes vopt]; [reflexivity| |].
    - rewrite IH. reflexivity.
    - exact IH.
  Qed.

  Lemma getitem_somes : forall fl : list (option nat),
    map (fun r => nth r (map (vopt V) fl) VNone) (positions (fun b : bool => b) (map (@is_some nat) fl))
    = map VNat (somes fl).
  Proof.
    intros fl. rewrite positions_read by (rewrite !map_length; reflexivity). apply read_somes.
  Qed.

  (* final after r iterations of the second loop: r computed cells, then the zeros of np.zeros *)
  Definition fin_at (fl : list (option nat)) (n r : nat) : list (val V) :=
    (map (vopt V) (firstn r fl) ++ map VNat (repeat 0 (n - r)))%list.

  Lemma fin_at_length : forall fl n r, length fl = n -> r <= n -> length (fin_at fl n r) = n.
  Proof.
    intros fl n r Hl Hr. unfold fin_at. rewrite app_length, !map_length, firstn_length, repeat_length. lia.
  Qed.

  Lemma fin_at_step : forall fl n r o, length fl = n -> nth_error fl r = Some o ->
    set_nth r (vopt V o) (fin_at fl n r) = fin_at fl n (S r).
  Proof.
    intros fl n r o Hl Ho.
    assert (Hr : r < n) by (rewrite <- Hl; apply nth_error_Some; congruence).
    unfold set_nth, fin_at.
    assert (Hf : length (map (vopt V) (firstn r fl)) = r) by (rewrite map_length, firstn_length; lia).
    rewrite firstn_app, Hf, Nat.sub_diag, firstn_O, app_nil_r, firstn_all2 by lia.
    rewrite skipn_app, Hf, (skipn_all2 (n := S r)) by lia. cbn [app].
    replace (S r - r) with 1 by lia. replace (n - r) with (S (n - S r)) by lia. cbn [repeat map skipn].
    assert (Hs : firstn (S r) fl = (firstn r fl ++ [o])%list).
    { clear Hf Hl Hr. revert r Ho. induction fl as [|a t IH]; intros r Ho; [destruct r; discriminate|].
      destruct r as [|r]; cbn [nth_error] in Ho.
      - inversion Ho. reflexivity.
      - cbn [firstn app]. f_equal. change (firstn (S r) t = (firstn r t ++ [o])%list). apply IH. exact Ho. }
    rewrite Hs, map_app, <- app_assoc. reflexivity.
  Qed.

  Lemma fin_at_end : forall fl n, length fl = n -> fin_at fl n n = map (vopt V) fl.
  Proof.
    intros fl n Hl. unfold fin_at. rewrite Nat.sub_diag, firstn_all2 by lia. cbn [repeat map]. apply app_nil_r.
  Qed.
End FinalFacts.

(* ============================================================================================== *)
(* kdt_match: the program                                                                          *)
(* ============================================================================================== *)
Section KdtTie.
  Variable V : Type.
  Variable D : list (list Z).
  Variable inds : list (list nat).
  Variable K ny : nat.
  Variable squeezed : bool.
  Variable x dub : val V.
  Local Notation P := (kdt_prims V D inds K ny squeezed).

  Definition kdt_pre : list stmt := Eval cbv in firstn 5 (spine prog_kdt_match).
  Definition kdt_for1 : stmt := Eval cbv in nth 5 (spine prog_kdt_match) SSkip.
  Definition kdt_body1 : stmt := Eval cbv in match kdt_for1 with SFor _ _ b => b | _ => SSkip end.
  Definition kdt_mid : list stmt := Eval cbv in firstn 2 (skipn 6 (spine prog_kdt_match)).
  Definition kdt_for2 : stmt := Eval cbv in nth 8 (spine prog_kdt_match) SSkip.
  Definition kdt_body2 : stmt := Eval cbv in match kdt_for2 with SFor _ _ b => b | _ => SSkip end.
  Definition kdt_post : list stmt := Eval cbv in skipn 9 (spine prog_kdt_match).

  Ltac ev :=
    cbv beta iota zeta delta
        [exec final_env eval eval_truth bind map_res truthy do_cmp do_arith do_index nat_cmp nat_arith iter_list
         upd lookup env_of assign_all cmp_name ar_name frame overlay normal_env
         try_finish try_finish_env exn_matches exec_list
         kdt_prims prims_of table_lookup kdt_table keys_are is_opaque0 range_handler range_val
         kdt_names kdt_env0 params_kdt_match kdt_pre kdt_for1 kdt_body1 kdt_mid kdt_for2 kdt_body2 kdt_post
         vnats vbools unique_value unique_inds_model
         String.eqb Ascii.eqb Bool.eqb fst snd nth_error andb negb orb].
  Ltac ev1 :=
    ev; repeat (progress (rewrite ?nats_of_map, ?bools_of_map, ?natss_of_map, ?Nat.eqb_refl;
                          oracle_rw); ev).

  Definition kdt_head (s : kstate) (junk : string -> option (val V)) : env V :=
    env_of kdt_names
      (overlay [ ("x", x); ("y", VOpaque "y" []); ("K", VNat K); ("distance_upper_bound", dub);
                 ("kdt", VOpaque "kdt" []); ("D", VOpaque "D" []); ("inds", VOpaque "inds" []);
                 ("II", VList (map vnats (map (onehot K) (marks s)))); ("selected", vnats (selected s)) ] junk).

  Ltac grd :=
    match goal with
    | |- context [existsb is_nil ?l] =>
        let H := fresh "Hg" in
        assert (H : existsb is_nil l = false) by (apply col_guard_argmin); rewrite H; clear H
    | |- context [forallb ?f ?l] =>
        let H := fresh "Hg" in
        assert (H : forallb f l = true)
          by first [ apply col_guard_index
                   | apply col_guard_scatter; symmetry; apply map_length
                   | apply col_guard_store; assumption ];
        rewrite H; clear H
    end.

  Lemma kdt_step1 : forall fb c s junk, c < K -> length (marks s) = length inds -> marks_lt c (marks s) ->
    exists e2, normal_env (exec P kdt_body1 fb (upd "ii" (VNat c) (kdt_head s junk))) = Some e2 /\
               e2 = kdt_head (col_step D inds s c) (fun x => lookup x e2).
  Proof.
    intros fb c s junk Hc Hlen Hlt. unfold kdt_head.
    assert (HlenI : length (marks s) = length (Icol inds c)) by (rewrite Hlen; symmetry; apply map_length).
    assert (HnI : length inds = length (Icol inds c)) by (symmetry; apply map_length).
    pose proof (proj1 (col_um1_spec (Dcol D c) (Icol inds c) s (length inds) HnI)) as Hum1.
    pose proof (col_um2_length (Dcol D c) (Icol inds c) K c s (length inds) HnI HlenI) as Hum2.
    Ltac lgrd Hum1 Hum2 HlenI :=
      match goal with
      | |- context [Nat.eqb (length ?a) (length ?b)] =>
          let H := fresh "Hl" in
          assert (H : length a = length b)
            by first [ reflexivity
                     | rewrite !map_length; reflexivity
                     | rewrite map_length, HlenI; symmetry; exact Hum1
                     | rewrite map_length, HlenI; symmetry; exact Hum2 ];
          rewrite H, Nat.eqb_refl; clear H
      end.
    eexists. split.
    - ev1. repeat (first [grd | lgrd Hum1 Hum2 HlenI]; ev1).
      match goal with
      | |- context [("II", Some (VList (map _ ?big)))] =>
          change big with (col_II (column 0%Z D c) (column 0 inds c) K c s (length inds))
      end.
      match goal with
      | |- context [("selected", Some (VList (map VNat ?big)))] =>
          change big with (col_sel (column 0%Z D c) (column 0 inds c) K c s (length inds))
      end.
      rewrite col_II_model by assumption. rewrite col_sel_model by assumption.
      reflexivity.
    - ev. reflexivity.
  Qed.

  (* ---- the state after c columns ---- *)
  Definition kstate0 : kstate := {| marks := map (fun _ => None) inds; selected := [] |}.
  Definition cols_state (c : nat) : kstate := fold_left (col_step D inds) (seq 0 c) kstate0.

  Lemma cols_state_S : forall c, cols_state (S c) = col_step D inds (cols_state c) c.
  Proof. intros c. unfold cols_state. rewrite seq_S, fold_left_app. reflexivity. Qed.

  Lemma cols_state_inv : forall c, length (marks (cols_state c)) = length inds /\ marks_lt c (marks (cols_state c)).
  Proof.
    induction c as [|c (IH1 & IH2)].
    - split; [apply map_length|]. unfold marks_lt. apply Forall_forall. intros m Hm c0 E.
      cbn [cols_state seq fold_left kstate0 marks] in Hm. apply in_map_iff in Hm. destruct Hm as (? & <- & _). discriminate.
    - rewrite cols_state_S. split; [apply (col_step_length D inds (S c) c); [lia | exact IH1] | apply col_step_lt; exact IH2].
  Qed.

  Lemma kdt_loop1 : forall fb junk,
    exists junk', for_loop "ii" (fun e' => exec P kdt_body1 fb e') (map VNat (seq 0 K)) (kdt_head kstate0 junk)
                  = Normal (kdt_head (cols_state K) junk').
  Proof.
    intros fb junk.
    destruct (for_loop_inv V (fun done e => exists j, e = kdt_head (cols_state (length done)) j)
                "ii" (fun e' => exec P kdt_body1 fb e') (map VNat (seq 0 K)) (kdt_head kstate0 junk))
      as (e' & He' & (j & Hj)).
    - exists junk. reflexivity.
    - intros done v rest e1 Hl (j & He1).
      destruct (range_val_split K done v rest Hl) as (_ & Hv & Hlt). subst v e1.
      destruct (cols_state_inv (length done)) as (I1 & I2).
      destruct (kdt_step1 fb (length done) (cols_state (length done)) j Hlt I1 I2) as (e2 & H2 & He2).
      exists e2. split; [exact H2|]. rewrite app_length, Nat.add_1_r, cols_state_S. eexists. exact He2.
    - rewrite map_length, seq_length in Hj. exists j. rewrite He', Hj. reflexivity.
  Qed.

  (* ---- winners and the second loop ---- *)
  Ltac ev2 :=
    cbv beta iota zeta delta
        [exec final_env eval eval_truth bind map_res truthy do_cmp do_arith do_index nat_cmp nat_arith iter_list
         upd lookup env_of assign_all cmp_name ar_name frame overlay normal_env
         try_finish try_finish_env exn_matches exec_list
         kdt_prims prims_of table_lookup kdt_table keys_are is_opaque0 range_handler range_val
         kdt_names kdt_env0 params_kdt_match kdt_pre kdt_for1 kdt_body1 kdt_mid kdt_for2 kdt_body2 kdt_post
         vnats vbools
         String.eqb Ascii.eqb Bool.eqb fst snd andb negb orb].
  Ltac ev2' :=
    ev2; repeat (progress (rewrite ?nats_of_map, ?bools_of_map, ?natss_of_map, ?opts_of_map, ?Nat.eqb_refl;
                           cbn [nth_error]; oracle_rw); ev2).

  Let sK : kstate := cols_state K.
  Let n : nat := length inds.
  Let fl : list (option nat) := map (frow ny) (combine inds (marks sK)).

  Lemma fl_length : length fl = n.
  Proof.
    unfold fl, n. rewrite map_length, combine_length. destruct (cols_state_inv K) as (H & _). fold sK in H. lia.
  Qed.

  Definition kdt_head2 (r : nat) (junk : string -> option (val V)) : env V :=
    env_of kdt_names
      (overlay [ ("x", x); ("y", VOpaque "y" []); ("K", VNat K); ("distance_upper_bound", dub);
                 ("kdt", VOpaque "kdt" []); ("D", VOpaque "D" []); ("inds", VOpaque "inds" []);
                 ("II", VList (map vnats (map (onehot K) (marks sK))));
                 ("winner", vnats (map argmax_idx (map (onehot K) (marks sK))));
                 ("final", VList (fin_at V fl n r)) ] junk).

  Lemma kdt_step2 : forall fb r junk, r < n ->
    exists e2, normal_env (exec P kdt_body2 fb (upd "ii" (VNat r) (kdt_head2 r junk))) = Some e2 /\
               e2 = kdt_head2 (S r) (fun x => lookup x e2).
  Proof.
    intros fb r junk Hr. unfold kdt_head2.
    destruct (cols_state_inv K) as (HlenK & HltK). fold sK in HlenK, HltK.
    destruct (nth_error inds r) as [row|] eqn:Er; [|apply nth_error_None in Er; unfold n in Hr; lia].
    destruct (nth_error (marks sK) r) as [m|] eqn:Em; [|apply nth_error_None in Em; unfold n in Hr; lia].
    assert (HII : nth_error (map (fun l : list nat => @VList V (map VNat l)) (map (onehot K) (marks sK))) r
                  = Some (VList (map VNat (onehot K m)))) by (rewrite !nth_error_map, Em; reflexivity).
    assert (Hw : nth_error (map (@VNat V) (map argmax_idx (map (onehot K) (marks sK)))) r
                 = Some (VNat (argmax_idx (onehot K m)))) by (rewrite !nth_error_map, Em; reflexivity).
    assert (Hw2 : nth_error (map argmax_idx (map (onehot K) (marks sK))) r = Some (argmax_idx (onehot K m)))
      by (rewrite !nth_error_map, Em; reflexivity).
    assert (Hfl : nth_error fl r = Some (final_row ny row m)).
    { unfold fl. rewrite nth_error_map, nth_error_combine', Er, Em. reflexivity. }
    apply nth_error_nth with (d := []) in Er. subst row.
    assert (Hlt : (r <? length (fin_at V fl n r)) = true).
    { apply Nat.ltb_lt. rewrite fin_at_length; [exact Hr | exact fl_length | lia]. }
    destruct m as [c0|].
    - rewrite onehot_argmax in Hw, Hw2.
      assert (Hs : (list_sum (onehot K (Some c0)) =? 1) = true) by (rewrite onehot_sum; reflexivity).
      unfold final_row in Hfl.
      destruct (c0 <? ny) eqn:E1; [destruct (nth c0 (nth r inds []) 0 <? ny) eqn:E2|]; cbn [andb] in Hfl;
        pose proof (fin_at_step V fl n r _ fl_length Hfl) as Hv; cbn [vopt] in Hv;
        (eexists; split; [ev2'; rewrite Hv; reflexivity | ev2; reflexivity]).
    - assert (Hs : (list_sum (onehot K None) =? 1) = false) by (rewrite onehot_sum; reflexivity).
      pose proof (fin_at_step V fl n r _ fl_length Hfl) as Hv. cbn [final_row vopt] in Hv.
      eexists; split; [ev2'; rewrite Hv; reflexivity | ev2; reflexivity].
  Qed.

  Lemma kdt_loop2 : forall fb junk,
    exists junk', for_loop "ii" (fun e' => exec P kdt_body2 fb e') (map VNat (seq 0 n)) (kdt_head2 0 junk)
                  = Normal (kdt_head2 n junk').
  Proof.
    intros fb junk.
    destruct (for_loop_inv V (fun done e => exists j, e = kdt_head2 (length done) j)
                "ii" (fun e' => exec P kdt_body2 fb e') (map VNat (seq 0 n)) (kdt_head2 0 junk))
      as (e' & He' & (j & Hj)).
    - exists junk. reflexivity.
    - intros done v rest e1 Hl (j & He1).
      destruct (range_val_split n done v rest Hl) as (_ & Hv & Hlt). subst v e1.
      destruct (kdt_step2 fb (length done) j Hlt) as (e2 & H2 & He2).
      exists e2. split; [exact H2|]. rewrite app_length, Nat.add_1_r. eexists. exact He2.
    - rewrite map_length, seq_length in Hj. exists j. rewrite He', Hj. reflexivity.
  Qed.

  (* ---- the straight-line segments ---- *)
  Lemma kdt_pre_exec : forall f,
    exec_list P kdt_pre f (kdt_env0 V K x dub) = Normal (kdt_head kstate0 (fun _ => None)).
  Proof.
    intros f. unfold kdt_head, kstate0. cbn [marks selected]. rewrite (map_map (fun _ => None) (onehot K)).
    remember squeezed as sq eqn:Esq. destruct sq; ev1; reflexivity.
  Qed.

  Lemma kdt_mid_exec : forall f junk, 0 < K ->
    exists e, exec_list P kdt_mid f (kdt_head sK junk) = Normal e /\ e = kdt_head2 0 (fun x => lookup x e).
  Proof.
    intros f junk HK. unfold kdt_head, kdt_head2, fin_at.
    destruct (cols_state_inv K) as (HlenK & HltK). fold sK in HlenK, HltK.
    pose proof (onehot_guard K (marks sK) HK HltK) as Hg.
    eexists. split.
    - ev2'. rewrite !map_length, HlenK. fold n. reflexivity.
    - ev2. cbn [firstn map app]. rewrite Nat.sub_0_r. reflexivity.
  Qed.

  Lemma kdt_pairs_fl :
    map fst (kdt_pairs D inds K ny) = positions (fun b : bool => b) (map (@is_some nat) fl) /\
    map snd (kdt_pairs D inds K ny) = somes fl.
  Proof.
    rewrite kdt_pairs_eq. change (run_cols D inds K) with sK.
    pose proof (pairs_gen ny (combine inds (marks sK)) 0) as H.
    assert (Hl : length (combine inds (marks sK)) = length inds).
    { rewrite combine_length. destruct (cols_state_inv K) as (HlenK & _). fold sK in HlenK. lia. }
    rewrite Hl in H. exact H.
  Qed.

  Lemma kdt_post_exec : forall f junk,
    exec_list P kdt_post f (kdt_head2 n junk) = kdt_render V (kdt_pairs D inds K ny).
  Proof.
    intros f junk. unfold kdt_head2. rewrite (fin_at_end V fl n fl_length).
    assert (Hg : forallb (fun r => r <? length (map (vopt V) fl)) (positions (fun b : bool => b) (map (@is_some nat) fl)) = true).
    { apply forallb_forall. intros r Hr. apply Nat.ltb_lt. apply positions_lt in Hr. rewrite !map_length in *. exact Hr. }
    ev2'. rewrite getitem_somes. unfold kdt_render. destruct kdt_pairs_fl as (H1 & H2). rewrite H1, H2. reflexivity.
  Qed.

  (* ---- the whole region ---- *)
  Theorem skeleton_kdt_match : forall f, 0 < K ->
    exec P prog_kdt_match f (kdt_env0 V K x dub) = kdt_render V (kdt_pairs D inds K ny).
  Proof.
    intros f HK.
    rewrite (exec_nth_split V P prog_kdt_match 5 kdt_for1 f _ eq_refl).
    change (firstn 5 (spine prog_kdt_match)) with kdt_pre.
    change (skipn 6 (spine prog_kdt_match)) with (kdt_mid ++ kdt_for2 :: kdt_post)%list.
    rewrite kdt_pre_exec.
    (* the column loop *)
    unfold kdt_for1. rewrite exec_for.
    assert (Hit : bind (eval P (kdt_head kstate0 (fun _ => None)) (ECall "range" [EVar "K"] [])) (iter_list P)
                  = Ok (map VNat (seq 0 K))) by (unfold kdt_head; ev; reflexivity).
    rewrite Hit.
    destruct (kdt_loop1 f (fun _ => None)) as (j1 & Hloop1).
    match goal with |- context [for_loop "ii" (fun e' => exec P ?b f e')] => change b with kdt_body1 end.
    rewrite Hloop1. fold sK.
    (* winners, final *)
    rewrite exec_list_app.
    destruct (kdt_mid_exec f j1 HK) as (e & Hmid & He). rewrite Hmid, He. clear Hmid.
    (* the second loop *)
    rewrite exec_list_cons. unfold kdt_for2. rewrite exec_for.
    assert (Hit2 : bind (eval P (kdt_head2 0 (fun x => lookup x e))
                           (ECall "range" [EIndex (ECall "II.shape" [EVar "II"] []) (ENat 0)] [])) (iter_list P)
                   = Ok (map VNat (seq 0 n))).
    { unfold kdt_head2. ev2'. destruct (cols_state_inv K) as (HlenK & _). fold sK in HlenK.
      rewrite !map_length, HlenK. reflexivity. }
    rewrite Hit2.
    destruct (kdt_loop2 f (fun x => lookup x e)) as (j2 & Hloop2).
    match goal with |- context [for_loop "ii" (fun e' => exec P ?b f e')] => change b with kdt_body2 end.
    rewrite Hloop2.
    apply kdt_post_exec.
  Qed.
End KdtTie.
