(* Proofs of the control-skeleton tie of get_padded_extrema, interp_envelope, _find_extrema (emd/sift.py) to
   model/Extrema.v and model/Envelope.v. Tables / environments / rendering: model/SkelPrims_Extrema.v; statements:
   props/Prop_Tie_Extrema.v; technique: notes/TIE_AGENT_BRIEF.md. *)
From Coq Require Import String List Bool Arith ZArith Lia.
From EmdV Require Import lib.NpLite model.Extrema model.Envelope proofs.ExtremaFacts
  lib.PyLoop lib.PyLoopTools gen.Gen_Skel_Extrema model.SkelPrims_Extrema.
Import ListNotations.
Open Scope string_scope.
Open Scope list_scope.

(* ============================================================================================== *)
(* 0. facts about the model used below                                                             *)
(* ============================================================================================== *)
Lemma gpe_fuel_model : forall x p m, gpe_fuel (length x + 2) x p m = get_padded_extrema x p m.
Proof. reflexivity. Qed.

Lemma pad_loop_mono : forall f N p L M r,
  pad_loop f N p L M = r -> r <> PadOutOfFuel -> forall f', (f <= f')%nat -> pad_loop f' N p L M = r.
Proof.
  induction f as [|f IH]; intros N p L M r H Hr f' Hf; cbn [pad_loop] in H.
  - subst r. contradiction.
  - destruct f' as [|f']; [lia|]. cbn [pad_loop].
    destruct ((list_max L <? N)%Z || (0 <=? list_min L)%Z).
    + apply (IH _ _ _ _ _ H Hr). lia.
    + exact H.
Qed.

Lemma pad_loop_not_noextrema : forall f N p L M, pad_loop f N p L M <> NoExtrema.
Proof.
  induction f as [|f IH]; intros N p L M; cbn [pad_loop]; [discriminate|].
  destruct ((list_max L <? N)%Z || (0 <=? list_min L)%Z); [apply IH|discriminate].
Qed.

(* enough fuel: the fuel-parametric model is the model *)
Lemma gpe_fuel_enough : forall F x p m, (length x + 2 <= F)%nat -> gpe_fuel F x p m = get_padded_extrema x p m.
Proof.
  intros F x p m HF. pose proof (pad_loop_terminates x p m) as Ht.
  unfold gpe_fuel, get_padded_extrema in *.
  destruct (extrema m x) as [locs mags].
  destruct (length locs <=? 1)%nat; [reflexivity|]. cbv zeta in *.
  destruct (Nat.min p (length locs) =? 0)%nat; [reflexivity|].
  apply (pad_loop_mono (length x + 2)); [reflexivity | exact Ht | exact HF].
Qed.

Lemma app_mid_nonempty : forall (l1 a l2 : list Z), a <> [] -> l1 ++ a ++ l2 <> [].
Proof. intros [|b l1] [|c a] l2 H; cbn [app]; congruence. Qed.

Lemma pad_reflect_odd_nonempty : forall f a p, a <> [] -> pad_reflect_odd f a p <> [].
Proof.
  induction f as [|f IH]; intros a p Ha; cbn [pad_reflect_odd]; [exact Ha|].
  destruct (p =? 0)%nat; [exact Ha|].
  destruct (length a <=? 1)%nat; [apply app_mid_nonempty; exact Ha|].
  apply IH. unfold reflect_chunk. apply app_mid_nonempty. exact Ha.
Qed.

Lemma min_ltb : forall p n : nat, Nat.min p n = if (n <? p)%nat then n else p.
Proof. intros p n. destruct (Nat.ltb_spec n p); lia. Qed.

(* ============================================================================================== *)
(* 1. get_padded_extrema                                                                            *)
(* ============================================================================================== *)
Section GpeTie.
  Variable A : Type.
  Local Notation V := (xval A).
  Local Notation P := (gpe_prims A).

  (* opts + ndim | mode dispatch | early returns, clamp, first pads | while | return *)
  Definition gpe_segA : list stmt := Eval cbv in firstn 5 (spine prog_get_padded_extrema).
  Definition gpe_segB : stmt := Eval cbv in nth 5 (spine prog_get_padded_extrema) SSkip.
  Definition gpe_segC : list stmt := Eval cbv in firstn 5 (skipn 6 (spine prog_get_padded_extrema)).
  Definition gpe_while : stmt := Eval cbv in nth 11 (spine prog_get_padded_extrema) SSkip.
  Definition gpe_cond : expr := Eval cbv in match gpe_while with SWhile c _ => c | _ => ENone end.
  Definition gpe_body : stmt := Eval cbv in match gpe_while with SWhile _ b => b | _ => SSkip end.
  Definition gpe_post : list stmt := Eval cbv in skipn 12 (spine prog_get_padded_extrema).

  Ltac ev :=
    cbv beta iota zeta delta
        [exec final_env eval eval_truth bind map_res truthy do_cmp do_arith do_index nat_cmp nat_arith iter_list
         upd lookup env_of assign_all cmp_name ar_name frame overlay normal_env
         try_finish try_finish_env exn_matches
         gpe_prims prims_of table_lookup gpe_table keys_are is_opaque0
         vz va vb vint loc_dict mag_dict empty_dict loc_opt_val mag_opt_val bad_mode xarg fe_value mode_str
         gpe_names gpe_env0 params_get_padded_extrema
         gpe_segA gpe_segB gpe_segC gpe_while gpe_cond gpe_body gpe_post exec_list
         String.eqb Ascii.eqb Bool.eqb fst snd nth_error andb negb orb].
  Ltac ev1 := ev; repeat (progress (cbn [Nat.eqb]; oracle_rw); ev).

  Section Fixed.
    Variable x : list Z.
    Variable md : val V.

    (* after the option handling: the options are the defaults, X is 1-D *)
    Definition gpe_headA (pw : val V) : env V :=
      env_of gpe_names
        (overlay [ ("X", vz A x); ("pad_width", pw); ("mode", md); ("parabolic_extrema", VBool false);
                   ("loc_pad_opts", loc_dict A); ("mag_pad_opts", mag_dict A);
                   ("loc_pad_mode", VStr "reflect"); ("mag_pad_mode", VStr "median") ] (fun _ => None)).

    (* after _find_extrema *)
    Definition gpe_headB (pw : val V) (zl mags : list Z) : env V :=
      env_of gpe_names
        (overlay [ ("X", vz A x); ("pad_width", pw); ("mode", md); ("parabolic_extrema", VBool false);
                   ("loc_pad_opts", loc_dict A); ("mag_pad_opts", mag_dict A);
                   ("loc_pad_mode", VStr "reflect"); ("mag_pad_mode", VStr "median");
                   ("max_locs", vz A zl); ("max_ext", vz A mags) ] (fun _ => None)).

    (* the head of the re-padding loop *)
    Definition gpe_headW (q : nat) (zl mags L M : list Z) : env V :=
      env_of gpe_names
        (overlay [ ("X", vz A x); ("pad_width", VNat q); ("mode", md); ("parabolic_extrema", VBool false);
                   ("loc_pad_opts", loc_dict A); ("mag_pad_opts", mag_dict A);
                   ("loc_pad_mode", VStr "reflect"); ("mag_pad_mode", VStr "median");
                   ("max_locs", vz A zl); ("max_ext", vz A mags);
                   ("ret_max_locs", vz A L); ("ret_max_ext", vz A M) ] (fun _ => None)).

    Lemma gpe_A : forall f two_d pw lo mo,
      exec_list P gpe_segA f (gpe_env0 A two_d x pw md lo mo) = Normal (gpe_headA pw).
    Proof.
      intros f two_d pw lo mo. unfold gpe_headA.
      destruct two_d; destruct lo; destruct mo; ev; reflexivity.
    Qed.

    (* early returns, clamp of pad_width, the two first pads *)
    Lemma gpe_C : forall f p zl mags,
      exec_list P gpe_segC f (gpe_headB (VNat p) zl mags) =
      if (length zl <=? 1)%nat then Return (VList [VNone; VNone])
      else let q := Nat.min p (length zl) in
           if (q =? 0)%nat then Return (VList [vz A zl; vz A mags])
           else Normal (gpe_headW q zl mags (pad_reflect_odd (S q) zl q) (pad_edge mags q)).
    Proof.
      intros f p zl mags. cbv zeta. rewrite min_ltb. unfold gpe_headB, gpe_headW.
      destruct (length zl <=? 1)%nat eqn:E1.
      - destruct (length zl =? 0)%nat eqn:E0; ev1; reflexivity.
      - assert (E0 : (length zl =? 0)%nat = false).
        { apply Nat.eqb_neq. apply Nat.leb_gt in E1. lia. }
        destruct (length zl <? p)%nat eqn:E2.
        + rewrite E0. ev1. reflexivity.
        + destruct (p =? 0)%nat eqn:E3; ev1; reflexivity.
    Qed.

    Lemma gpe_C_none : forall f zl mags,
      exec_list P gpe_segC f (gpe_headB VNone zl mags) =
      if (length zl <=? 1)%nat then Return (VList [VNone; VNone]) else Raise "TypeError".
    Proof.
      intros f zl mags. unfold gpe_headB.
      destruct (length zl <=? 1)%nat eqn:E1; destruct (length zl =? 0)%nat eqn:E0;
        try (apply Nat.leb_gt in E1; apply Nat.eqb_eq in E0; lia); ev1; reflexivity.
    Qed.

    Lemma gpe_test : forall q zl mags L M, L <> [] ->
      eval_truth P (gpe_headW q zl mags L M) gpe_cond
      = Ok ((list_max L <? Z.of_nat (length x))%Z || (0 <=? list_min L)%Z).
    Proof.
      intros q zl mags L M HL. destruct L as [|a t]; [congruence|]. unfold gpe_headW.
      change 0%Z with (Z.of_nat 0).
      destruct (list_max (a :: t) <? Z.of_nat (length x))%Z eqn:Ea;
        destruct (Z.of_nat 0 <=? list_min (a :: t))%Z eqn:Eb; ev1; reflexivity.
    Qed.

    Lemma gpe_body_step : forall fb q zl mags L M,
      exec P gpe_body fb (gpe_headW q zl mags L M)
      = Normal (gpe_headW q zl mags (pad_reflect_odd (S q) L q) (pad_edge M q)).
    Proof. intros. unfold gpe_headW. ev. reflexivity. Qed.

    (* the while loop against pad_loop: n body executions allowed = model fuel S n *)
    Lemma gpe_loop : forall fb q zl mags n L M, L <> [] ->
      while_loop (fun e' => eval_truth P e' gpe_cond) (fun e' => exec P gpe_body fb e') n (gpe_headW q zl mags L M)
      = match pad_loop (S n) (Z.of_nat (length x)) q L M with
        | Padded L' M' => Normal (gpe_headW q zl mags L' M')
        | PadOutOfFuel => OutOfFuel
        | NoExtrema => Stuck
        end.
    Proof.
      intros fb q zl mags. induction n as [|n IH]; intros L M HL.
      - rewrite while_loop_unfold, (gpe_test _ _ _ _ _ HL). cbn [pad_loop].
        destruct ((list_max L <? Z.of_nat (length x))%Z || (0 <=? list_min L)%Z); reflexivity.
      - rewrite while_loop_unfold, (gpe_test _ _ _ _ _ HL).
        change (pad_loop (S (S n)) (Z.of_nat (length x)) q L M)
          with (if (list_max L <? Z.of_nat (length x))%Z || (0 <=? list_min L)%Z
                then pad_loop (S n) (Z.of_nat (length x)) q (pad_reflect_odd (S q) L q) (pad_edge M q)
                else Padded L M).
        destruct ((list_max L <? Z.of_nat (length x))%Z || (0 <=? list_min L)%Z); [|reflexivity].
        rewrite gpe_body_step. apply IH. apply pad_reflect_odd_nonempty. exact HL.
    Qed.

    Lemma gpe_suffix : forall f q zl mags L M,
      exec_list P gpe_post f (gpe_headW q zl mags L M) = Return (VList [vz A L; vz A M]).
    Proof. intros. unfold gpe_headW. ev. reflexivity. Qed.
  End Fixed.

  (* the mode dispatch = Extrema.extrema *)
  Lemma gpe_B : forall f x pw m locs mags, extrema m x = (locs, mags) ->
    exec P gpe_segB f (gpe_headA x (VStr (mode_str m)) pw)
    = Normal (gpe_headB x (VStr (mode_str m)) pw (map Z.of_nat locs) mags).
  Proof.
    intros f x pw m locs mags H. unfold gpe_headA, gpe_headB.
    destruct m; cbv [extrema transform] in H; injection H as <- <-; ev; reflexivity.
  Qed.

  Lemma gpe_B_bad : forall f x pw,
    exec P gpe_segB f (gpe_headA x (bad_mode A) pw) = Raise "ValueError".
  Proof. intros. unfold gpe_headA. ev. reflexivity. Qed.

  Lemma gpe_split : forall f e,
    exec P prog_get_padded_extrema f e =
    match exec_list P gpe_segA f e with
    | Normal e1 =>
        match exec P gpe_segB f e1 with
        | Normal e2 =>
            match exec_list P gpe_segC f e2 with
            | Normal e3 =>
                match while_loop (fun e' => eval_truth P e' gpe_cond) (fun e' => exec P gpe_body f e') f e3 with
                | Normal e4 => exec_list P gpe_post f e4
                | o => o
                end
            | o => o
            end
        | o => o
        end
    | o => o
    end.
  Proof.
    intros f e. rewrite (exec_nth_split V P prog_get_padded_extrema 11 gpe_while f e eq_refl).
    change (firstn 11 (spine prog_get_padded_extrema)) with (gpe_segA ++ gpe_segB :: gpe_segC).
    change (skipn 12 (spine prog_get_padded_extrema)) with gpe_post.
    rewrite exec_list_app. destruct (exec_list P gpe_segA f e); try reflexivity.
    rewrite exec_list_cons. destruct (exec P gpe_segB f e0); try reflexivity.
  Qed.

  (* THE TIE for get_padded_extrema, every fuel: f body executions of the while loop = model fuel S f *)
  Theorem skeleton_gpe_fuel : forall two_d x p m lo mo f,
    exec P prog_get_padded_extrema f (gpe_env0 A two_d x (VNat p) (VStr (mode_str m)) lo mo)
    = gpe_render A (gpe_fuel (S f) x p m).
  Proof.
    intros two_d x p m lo mo f. rewrite gpe_split, gpe_A.
    unfold gpe_fuel. destruct (extrema m x) as [locs mags] eqn:Ex.
    rewrite (gpe_B f x (VNat p) m locs mags Ex), gpe_C. rewrite map_length.
    destruct (Nat.leb_spec (length locs) 1) as [E1|E1]; [reflexivity|]. cbv zeta.
    destruct (Nat.min p (length locs) =? 0)%nat; [reflexivity|].
    rewrite gpe_loop.
    - pose proof (pad_loop_not_noextrema (S f) (Z.of_nat (length x)) (Nat.min p (length locs))
                    (pad_reflect_odd (S (Nat.min p (length locs))) (map Z.of_nat locs) (Nat.min p (length locs)))
                    (pad_edge mags (Nat.min p (length locs)))) as Hn.
      destruct (pad_loop (S f) _ _ _ _) as [|L' M'|]; [contradiction| |reflexivity].
      apply gpe_suffix.
    - apply pad_reflect_odd_nonempty. destruct locs; [cbn [length] in E1; lia | discriminate].
  Qed.

  (* ... and with at least length x + 1 body executions allowed it IS the model: never OutOfFuel *)
  Theorem skeleton_gpe : forall two_d x p m lo mo f, (length x + 1 <= f)%nat ->
    exec P prog_get_padded_extrema f (gpe_env0 A two_d x (VNat p) (VStr (mode_str m)) lo mo)
    = gpe_render A (get_padded_extrema x p m).
  Proof.
    intros two_d x p m lo mo f Hf. rewrite skeleton_gpe_fuel, gpe_fuel_enough by lia. reflexivity.
  Qed.

  (* an unknown mode raises ValueError *)
  Theorem skeleton_gpe_bad_mode : forall two_d x pw lo mo f,
    exec P prog_get_padded_extrema f (gpe_env0 A two_d x pw (bad_mode A) lo mo) = Raise "ValueError".
  Proof. intros. rewrite gpe_split, gpe_A, gpe_B_bad. reflexivity. Qed.

  (* pad_width=None: the comparison `max_locs.size < pad_width` raises TypeError before the `pad_width is None`
     test on the next statement is reached (that test is dead code) *)
  Theorem skeleton_gpe_pad_none : forall two_d x m lo mo f,
    exec P prog_get_padded_extrema f (gpe_env0 A two_d x VNone (VStr (mode_str m)) lo mo)
    = if (length (fst (extrema m x)) <=? 1)%nat then Return (VList [VNone; VNone]) else Raise "TypeError".
  Proof.
    intros two_d x m lo mo f. rewrite gpe_split, gpe_A.
    destruct (extrema m x) as [locs mags] eqn:Ex.
    rewrite (gpe_B f x VNone m locs mags Ex), gpe_C_none, map_length. cbn [fst].
    destruct (length locs <=? 1)%nat; reflexivity.
  Qed.
End GpeTie.

(* ============================================================================================== *)
(* 3. _find_extrema                                                                                 *)
(* ============================================================================================== *)
Lemma to_nat_of_nat_map : forall l : list nat, map Z.to_nat (map Z.of_nat l) = l.
Proof.
  induction l as [|a t IH]; [reflexivity|]. cbn [map]. rewrite Nat2Z.id, IH. reflexivity.
Qed.

Lemma take_of_nat : forall (y : list Z) (l : list nat), take y (map Z.of_nat l) = map (fun i => nth i y 0%Z) l.
Proof.
  intros y l. unfold take. rewrite map_map. apply map_ext. intros i. rewrite Nat2Z.id. reflexivity.
Qed.

Section FeTie.
  Variable A : Type.
  Local Notation V := (xval A).
  Variable parab_locs parab_mags : list Z -> list nat -> val V.
  Variable prom_keep : list Z -> list nat -> list nat.
  Local Notation P := (fe_prims A parab_locs parab_mags prom_keep).

  Ltac ev :=
    cbv beta iota zeta delta
        [exec final_env eval eval_truth bind map_res truthy do_cmp do_arith do_index nat_cmp nat_arith iter_list
         upd lookup env_of assign_all cmp_name ar_name frame overlay normal_env
         try_finish try_finish_env exn_matches
         fe_prims prims_of table_lookup fe_table keys_are is_opaque0
         vz va vb vint fe_value thresh_val
         fe_names fe_env0 params_find_extrema prog_find_extrema
         String.eqb Ascii.eqb Bool.eqb fst snd nth_error andb negb orb].

  (* THE TIE for _find_extrema: argrelextrema = find_maxima, the prominence filter and the parabolic refinement are
     oracles applied to those maxima, otherwise the values X[ext_locs] *)
  Theorem skeleton_find_extrema : forall y th parabolic f,
    exec P prog_find_extrema f (fe_env0 A y th parabolic) = fe_render A parab_locs parab_mags prom_keep y th parabolic.
  Proof.
    intros y th parabolic f. unfold fe_render.
    destruct th; destruct parabolic; ev; rewrite ?map_length; destruct (find_maxima y) as [|a t];
      cbn [length Nat.eqb]; ev; rewrite ?to_nat_of_nat_map, ?take_of_nat; reflexivity.
  Qed.

  Lemma fe_render_plain : forall y, fe_render A parab_locs parab_mags prom_keep y false false = Return (fe_value A y).
  Proof. intros y. unfold fe_render, fe_value. destruct (find_maxima y); reflexivity. Qed.
End FeTie.

(* ============================================================================================== *)
(* 2. interp_envelope                                                                               *)
(* ============================================================================================== *)
Lemma select_filter : forall {B : Type} (f : Z -> B) (g1 g2 : Z -> bool) (t : list Z),
  select (map f t) (and_list (map g1 t) (map g2 t)) = map f (filter (fun v => g1 v && g2 v) t).
Proof.
  intros B f g1 g2. induction t as [|a t IH]; [reflexivity|].
  cbn [map and_list select filter]. destruct (g1 a && g2 a); cbn [map]; rewrite IH; reflexivity.
Qed.

Lemma of_nat_eqb : forall a b : nat, (Z.of_nat a =? Z.of_nat b)%Z = (a =? b)%nat.
Proof.
  intros a b. destruct (Nat.eqb_spec a b) as [E|E].
  - subst. apply Z.eqb_refl.
  - apply Z.eqb_neq. lia.
Qed.

Lemma padded_nonempty : forall x p m L M, get_padded_extrema x p m = Padded L M -> L <> [].
Proof.
  intros x p m L M H. destruct (gpe_cases x p m) as [[H1 H2]|[H1 (L' & M' & k & H2 & Hinv & _)]].
  - rewrite H2 in H. discriminate.
  - rewrite H2 in H. injection H as <- <-. destruct Hinv as (Lp & Rp & EL & _).
    subst L'. apply app_mid_nonempty. intros E. apply (f_equal (@length Z)) in E.
    rewrite map_length in E. cbn [length] in E. lia.
Qed.

Section IeTie.
  Variable A : Type.
  Local Notation V := (xval A).
  Variable interp_of : imeth -> list Z -> list Z -> Z -> A.

  Definition ie_segA : list stmt := Eval cbv in firstn 2 (spine prog_interp_envelope).
  Definition ie_segB : list stmt := Eval cbv in firstn 2 (skipn 2 (spine prog_interp_envelope)).
  Definition ie_segC : list stmt := Eval cbv in firstn 2 (skipn 4 (spine prog_interp_envelope)).
  Definition ie_segD : list stmt := Eval cbv in firstn 3 (skipn 6 (spine prog_interp_envelope)).
  Definition ie_segE : list stmt := Eval cbv in skipn 9 (spine prog_interp_envelope).

  Ltac ev :=
    cbv beta iota zeta delta
        [exec final_env eval eval_truth bind map_res truthy do_cmp do_arith do_index nat_cmp nat_arith iter_list
         upd lookup env_of assign_all cmp_name ar_name frame overlay normal_env
         try_finish try_finish_env exn_matches
         ie_prims prims_of table_lookup ie_table keys_are is_opaque0
         vz va vb vint empty_dict bad_mode bad_method ext_dict ext_opt_val ext_pad gpe_value
         env_mode_str imeth_str
         ie_names ie_env0 params_interp_envelope
         ie_segA ie_segB ie_segC ie_segD ie_segE exec_list
         String.eqb Ascii.eqb Bool.eqb fst snd nth_error andb negb orb].
  Ltac ev1 := ev; repeat (progress (cbn [Nat.eqb]; oracle_rw); ev).

  Section Fixed.
    Variable x : list Z.
    Variables md imv : val V.          (* mode, interp_method as passed *)
    Variable p : nat.                  (* extrema_opts['pad_width'] *)
    Variable re : bool.                (* ret_extrema *)
    Local Notation P := (ie_prims A interp_of).

    Definition ie_head1 : env V :=
      env_of ie_names
        (overlay [ ("X", vz A x); ("mode", md); ("interp_method", imv); ("extrema_opts", ext_dict A p);
                   ("ret_extrema", VBool re) ] (fun _ => None)).

    Definition ie_headK (L M : list Z) : env V :=
      env_of ie_names
        (overlay [ ("X", vz A x); ("mode", md); ("interp_method", imv); ("extrema_opts", ext_dict A p);
                   ("ret_extrema", VBool re); ("locs", vz A L); ("pks", vz A M) ] (fun _ => None)).

    Definition ie_headT (L M t : list Z) (e : list A) (junk : string -> option (val V)) : env V :=
      env_of ie_names
        (overlay [ ("X", vz A x); ("mode", md); ("interp_method", imv); ("extrema_opts", ext_dict A p);
                   ("ret_extrema", VBool re); ("locs", vz A L); ("pks", vz A M);
                   ("t", vz A t); ("env", va A e) ] junk).

    (* the option dict and the check of interp_method *)
    Lemma ie_A : forall f eo im, p = ext_pad eo -> imv = VStr (imeth_str im) ->
      exec_list P ie_segA f (ie_env0 A x md imv eo re) = Normal ie_head1.
    Proof.
      intros f eo im Hp Hi. unfold ie_head1. rewrite Hp, Hi. destruct eo; destruct im; ev; reflexivity.
    Qed.

    Lemma ie_A_bad : forall f eo, imv = bad_method A ->
      exec_list P ie_segA f (ie_env0 A x md imv eo re) = Raise "ValueError".
    Proof. intros f eo Hi. rewrite Hi. destruct eo; ev; reflexivity. Qed.

    (* the mode dispatch and `if locs is None: return None` *)
    Lemma ie_B : forall f m, md = VStr (env_mode_str m) ->
      exec_list P ie_segB f ie_head1 =
      match get_padded_extrema x p m with
      | NoExtrema => Return VNone
      | Padded L M => Normal (ie_headK L M)
      | PadOutOfFuel => Stuck
      end.
    Proof.
      intros f m Hm. unfold ie_head1, ie_headK. rewrite Hm.
      destruct m; ev; destruct (get_padded_extrema x p _); ev; reflexivity.
    Qed.

    Lemma ie_B_bad : forall f, md = bad_mode A -> exec_list P ie_segB f ie_head1 = Raise "ValueError".
    Proof. intros f Hm. unfold ie_head1. rewrite Hm. ev. reflexivity. Qed.

    (* the grid and the interpolant on it: the one built from (locs, pks) by the constructor of interp_method *)
    Lemma ie_C : forall f im L M, imv = VStr (imeth_str im) -> L <> [] ->
      exists e1, exec_list P ie_segC f (ie_headK L M) = Normal e1 /\
        e1 = ie_headT L M (zrange (hd 0%Z L) (last L 0%Z))
               (map (interp_of im L M) (zrange (hd 0%Z L) (last L 0%Z))) (fun k => lookup k e1).
    Proof.
      intros f im L M Hi HL. destruct L as [|a l]; [congruence|]. unfold ie_headK, ie_headT.
      rewrite Hi.
      destruct im; (eexists; split; [ev; reflexivity | ev; reflexivity]).
    Qed.

    (* t_max, tinds, env = np.array(env[tinds]) *)
    Lemma ie_D : forall f L M t e junk, L <> [] ->
      exists e1, exec_list P ie_segD f (ie_headT L M t e junk) = Normal e1 /\
        e1 = ie_headT L M t
               (select e (and_list (map (fun v => Z.of_nat 0 <=? v)%Z (zrange (hd 0%Z L) (last L 0%Z)))
                                   (map (fun v => v <? Z.of_nat (length x))%Z (zrange (hd 0%Z L) (last L 0%Z)))))
               (fun k => lookup k e1).
    Proof.
      intros f L M t e junk HL. destruct L as [|a l]; [congruence|]. unfold ie_headT.
      eexists; split; [ev; reflexivity | ev; reflexivity].
    Qed.

    (* the length check and the return *)
    Lemma ie_E : forall f L M t e junk,
      exec_list P ie_segE f (ie_headT L M t e junk) =
      if (length e =? length x)%nat
      then Return (if re then VList [va A e; VList [vz A L; vz A M]] else va A e)
      else Raise "ValueError".
    Proof.
      intros f L M t e junk. unfold ie_headT.
      destruct (length e =? length x)%nat eqn:El; destruct re; ev1; reflexivity.
    Qed.
  End Fixed.

  Lemma ie_split : forall (P : prims V) (f : nat) (e : env V),
    exec P prog_interp_envelope f e =
    match exec_list P ie_segA f e with
    | Normal e1 =>
      match exec_list P ie_segB f e1 with
      | Normal e2 =>
        match exec_list P ie_segC f e2 with
        | Normal e3 =>
          match exec_list P ie_segD f e3 with
          | Normal e4 => exec_list P ie_segE f e4
          | o => o end
        | o => o end
      | o => o end
    | o => o end.
  Proof.
    intros P f e. rewrite exec_spine.
    change (spine prog_interp_envelope) with (ie_segA ++ ie_segB ++ ie_segC ++ ie_segD ++ ie_segE).
    rewrite exec_list_app. destruct (exec_list P ie_segA f e); try reflexivity.
    rewrite exec_list_app. destruct (exec_list P ie_segB f e0); try reflexivity.
    rewrite exec_list_app. destruct (exec_list P ie_segC f e1); try reflexivity.
    rewrite exec_list_app. reflexivity.
  Qed.

  (* THE TIE for interp_envelope: extrema_opts None / {} / a dict with pad_width p and default pad options *)
  Theorem skeleton_interp_envelope : forall x m im eo re f,
    exec (ie_prims A interp_of) prog_interp_envelope f
         (ie_env0 A x (VStr (env_mode_str m)) (VStr (imeth_str im)) eo re)
    = ie_outcome A interp_of x (ext_pad eo) m im re.
  Proof.
    intros x m im eo re f. rewrite ie_split.
    rewrite (ie_A x _ _ (ext_pad eo) re f eo im eq_refl eq_refl).
    rewrite (ie_B x _ _ (ext_pad eo) re f m eq_refl).
    unfold ie_outcome.
    destruct (get_padded_extrema x (ext_pad eo) m) as [|L M|] eqn:G; [reflexivity| |reflexivity].
    pose proof (padded_nonempty _ _ _ _ _ G) as HL.
    destruct (ie_C x (VStr (env_mode_str m)) (VStr (imeth_str im)) (ext_pad eo) re f im L M eq_refl HL)
      as (e3 & H3 & E3).
    rewrite H3, E3.
    destruct (ie_D x (VStr (env_mode_str m)) (VStr (imeth_str im)) (ext_pad eo) re f L M
                (zrange (hd 0%Z L) (last L 0%Z)) (map (interp_of im L M) (zrange (hd 0%Z L) (last L 0%Z)))
                (fun k => lookup k e3) HL) as (e4 & H4 & E4).
    rewrite H4, E4, ie_E.
    rewrite select_filter, map_length. change (Z.of_nat 0) with 0%Z.
    unfold env_grid. cbv zeta. rewrite of_nat_eqb.
    destruct (length (filter _ _) =? length x)%nat; reflexivity.
  Qed.

  Theorem skeleton_interp_envelope_bad_method : forall x md eo re f,
    exec (ie_prims A interp_of) prog_interp_envelope f (ie_env0 A x md (bad_method A) eo re)
    = Raise "ValueError".
  Proof. intros. rewrite ie_split, (ie_A_bad x md _ re f eo eq_refl). reflexivity. Qed.

  Theorem skeleton_interp_envelope_bad_mode : forall x im eo re f,
    exec (ie_prims A interp_of) prog_interp_envelope f
         (ie_env0 A x (bad_mode A) (VStr (imeth_str im)) eo re)
    = Raise "ValueError".
  Proof.
    intros. rewrite ie_split.
    rewrite (ie_A x (bad_mode A) (VStr (imeth_str im)) (ext_pad eo) re f eo im eq_refl eq_refl).
    rewrite (ie_B_bad x (bad_mode A) (VStr (imeth_str im)) (ext_pad eo) re f eq_refl). reflexivity.
  Qed.

  (* ie_outcome against Envelope.envelope: an envelope is returned iff the model has one, and it is that one *)
  Theorem ie_outcome_envelope : forall x p m im re,
    envelope_of_outcome A re (ie_outcome A interp_of x p m im re) = envelope A (interp_of im) x p m.
  Proof.
    intros x p m im re. unfold ie_outcome, envelope.
    destruct (get_padded_extrema x p m) as [|L M|]; try reflexivity.
    destruct (env_grid L (Z.of_nat (length x))); [|reflexivity]. destruct re; reflexivity.
  Qed.

  (* with pad_width >= 1 the length check never fires (ExtremaFacts.envelope_on_sample_grid) *)
  Theorem ie_outcome_no_value_error : forall x p m im re, (1 <= p)%nat ->
    ie_outcome A interp_of x p m im re <> Raise "ValueError".
  Proof.
    intros x p m im re Hp. unfold ie_outcome.
    destruct (get_padded_extrema x p m) as [|L M|] eqn:G; try discriminate.
    rewrite (envelope_on_sample_grid x p m L M Hp G). discriminate.
  Qed.
End IeTie.

(* ============================================================================================== *)
(* 4. the callee rows of the tables are what the callee ties prove                                  *)
(* ============================================================================================== *)
(* the row "_find_extrema" of gpe_table returns [fe_value y]: exactly what the translated _find_extrema returns *)
Theorem callee_find_extrema : forall A parab_locs parab_mags prom_keep y f,
  exec (fe_prims A parab_locs parab_mags prom_keep) prog_find_extrema f (fe_env0 A y false false)
  = Return (fe_value A y).
Proof. intros. rewrite skeleton_find_extrema. apply fe_render_plain. Qed.

(* the row "get_padded_extrema" of ie_table returns [gpe_value (get_padded_extrema x p m)]: exactly what the
   translated get_padded_extrema returns when called as interp_envelope calls it (mode=.., pad_width=p,
   loc_pad_opts=None, mag_pad_opts=None, parabolic_extrema left at False) *)
Theorem callee_get_padded_extrema : forall A x p m f, (length x + 1 <= f)%nat ->
  exists v, gpe_value A (get_padded_extrema x p m) = Ok v /\
    exec (gpe_prims A) prog_get_padded_extrema f (gpe_env0 A false x (VNat p) (VStr (mode_str m)) OptNone OptNone)
    = Return v.
Proof.
  intros A x p m f Hf. rewrite (skeleton_gpe A false x p m OptNone OptNone f Hf).
  pose proof (pad_loop_terminates x p m) as Ht.
  destruct (get_padded_extrema x p m) as [|L M|]; [| |contradiction]; eexists; split; reflexivity.
Qed.
