(* Proofs of the tie of emd/support.py to model/Shapes.v (statements: props/Prop_Tie_Support.v; tables:
   model/SkelPrims_Support.v). Unqualified Ok / bind are PyLoop's; the model's are Shapes.Ok / Shapes.Err. *)
From Coq Require Import String List Bool Arith Lia.
From EmdV Require Import model.Shapes lib.PyLoop lib.PyLoopTools gen.Gen_Skel_Support model.SkelPrims_Support.
Import ListNotations.
Open Scope string_scope.

Local Notation P := support_prims.

(* ---- list facts ----------------------------------------------------------------------------------- *)
Lemma nth_error_mid : forall {A : Type} (a : list A) (x : A) (b : list A), nth_error (a ++ x :: b) (length a) = Some x.
Proof. intros A a x b. rewrite nth_error_app2 by lia. rewrite Nat.sub_diag. reflexivity. Qed.

Lemma set_nth_mid : forall {A : Type} (a : list A) (x y : A) (b : list A),
  set_nth (length a) y (a ++ x :: b) = (a ++ y :: b)%list.
Proof.
  intros A a x y b. unfold set_nth.
  rewrite firstn_app, Nat.sub_diag, firstn_O, app_nil_r, firstn_all.
  rewrite skipn_app, (skipn_all2 (n := S (length a))) by lia.
  replace (S (length a) - length a)%nat with 1%nat by lia. reflexivity.
Qed.

Lemma set_nth_same : forall {A : Type} (l : list A) (i : nat) (x : A), nth_error l i = Some x -> set_nth i x l = l.
Proof.
  intros A l i x H. destruct (nth_error_split l i H) as (a & b & -> & <-). apply set_nth_mid.
Qed.

Lemma nth_error_lt : forall {A : Type} (l : list A) (i : nat) (x : A), nth_error l i = Some x -> (i <? length l)%nat = true.
Proof. intros A l i x H. apply Nat.ltb_lt. apply nth_error_Some. rewrite H. discriminate. Qed.

Lemma nth_error_ex : forall {A : Type} (l : list A) (i : nat), (i < length l)%nat -> exists x, nth_error l i = Some x.
Proof. intros A l i H. destruct (nth_error l i) eqn:E; [eauto|]. apply nth_error_None in E. lia. Qed.

(* xx.shape[1] when ndim > 1 *)
Lemma shape_1 : forall s : shape, (1 <? length s)%nat = true -> nth_error (map (@VNat shape) s) 1 = Some (VNat (nth 1 s 0%nat)).
Proof.
  intros s H. apply Nat.ltb_lt in H. destruct s as [|a [|b t]]; cbn [length] in H; try lia. reflexivity.
Qed.

Lemma shape_1_eq2 : forall s : shape, (length s =? 2)%nat = true -> nth_error (map (@VNat shape) s) 1 = Some (VNat (nth 1 s 0%nat)).
Proof. intros s H. apply shape_1. apply Nat.eqb_eq in H. apply Nat.ltb_lt. lia. Qed.

(* np.all(xx.shape[1:] == np.ones_like(xx.shape[1:])) is the model's all_ones *)
Lemma ones_like_length : forall l, (length (map (@VNat shape) l) =? length (ones_like (map VNat l)))%nat = true.
Proof. intros l. unfold ones_like. rewrite !map_length. apply Nat.eqb_refl. Qed.

Lemma np_all_ones : forall t : list nat,
  np_all (elt_eq (map VNat t) (ones_like (map VNat t))) = Ok (VBool (all_ones t)).
Proof.
  intros t. unfold np_all.
  assert (H : all_true (elt_eq (map VNat t) (ones_like (map VNat t))) = Some (all_ones t)).
  { induction t as [|a t IH]; [reflexivity|].
    cbn [map ones_like elt_eq val_eq all_true all_ones forallb]. fold (ones_like (map (@VNat shape) t)).
    rewrite IH. fold (all_ones t). rewrite (Nat.eqb_sym a 1). reflexivity. }
  rewrite H. reflexivity.
Qed.

(* ---- the evaluator ------------------------------------------------------------------------------------ *)
Ltac ev :=
  cbv beta iota zeta delta
      [exec final_env eval eval_truth bind map_res truthy do_cmp do_arith do_index nat_cmp nat_arith iter_list
       upd lookup env_of assign_all cmp_name ar_name frame overlay normal_env
       try_finish try_finish_env exn_matches exec_list
       support_prims prims_of table_lookup support_table keys_are is_opaque0 range_handler range_val len_handler
       item_reshape item_ndim item_shape store format_name lift int_tuple arrays dim_val
       ev_names e1d_names e2d_names eqd_names ev_env0 e1d_env0 e2d_env0 eqd_env0
       params_ensure_vector params_ensure_1d_with_singleton params_ensure_2d params_ensure_equal_dims
       String.eqb Ascii.eqb Bool.eqb fst snd andb negb orb].

Ltac model_rw :=
  repeat match goal with
         | H : _ = Shapes.Ok _ |- _ => rewrite H
         | H : _ = Shapes.Err _ |- _ => rewrite H
         | H : _ = Ok _ |- _ => rewrite H
         | H : _ = Exc _ |- _ => rewrite H
         end.
Ltac ev1 := ev; repeat (progress (cbn [Nat.eqb]; oracle_rw; model_rw); ev).

(* ================================================================================================== *)
(* ensure_vector                                                                                        *)
(* ================================================================================================== *)
Definition ev_pre : list stmt := Eval cbv in firstn 1 (spine prog_ensure_vector).
Definition ev_for : stmt := Eval cbv in nth 1 (spine prog_ensure_vector) SSkip.
Definition ev_post : list stmt := Eval cbv in skipn 2 (spine prog_ensure_vector).
Definition ev_body : stmt := Eval cbv in match ev_for with SFor _ _ b => b | _ => SSkip end.
Definition ev_iter : expr := Eval cbv in match ev_for with SFor _ it _ => it | _ => ENone end.

Section EnsureVector.
  Variable ns : list (val shape).       (* names *)
  Variable fn : val shape.              (* func_name *)
  Variable tc : val shape.              (* to_check: not read by the loop body *)

  (* the environment between two iterations: out_args = o *)
  Definition ev_head (o : list (val shape)) (junk : string -> option (val shape)) : env shape :=
    env_of ev_names
      (overlay [ ("to_check", tc); ("names", VList ns); ("func_name", fn); ("out_args", VList o) ] junk).

  (* one iteration on (idx, xx) = (i, s), out_args[i] being s: the model's [ev_one s] *)
  Lemma ev_step : forall fb o i s n junk,
    nth_error o i = Some (VSig s) -> nth_error ns i = Some n ->
    match ev_one s with
    | Shapes.Err e =>
        exec P ev_body fb (upd "(idx, xx)" (VList [VNat i; VSig s]) (ev_head o junk)) = Raise (exn_name e)
    | Shapes.Ok s' =>
        exists e2, exec P ev_body fb (upd "(idx, xx)" (VList [VNat i; VSig s]) (ev_head o junk)) = Normal e2 /\
                   e2 = ev_head (set_nth i (VSig s') o) (fun x => lookup x e2)
    end.
  Proof.
    intros fb o i s n junk Ho Hn.
    pose proof (nth_error_lt _ _ _ Ho) as Hlt.
    pose proof (shape_1 s) as H1.
    unfold ev_one, ev_head, ev_body.
    destruct (2 <? length s)%nat eqn:C1; cbn [andb].
    - ev1. reflexivity.
    - destruct (1 <? length s)%nat eqn:C2; cbn [andb].
      + specialize (H1 eq_refl).
        destruct (nth 1 s 0 =? 1)%nat eqn:C3.
        * destruct (drop_axis1 s) as [s'|e] eqn:D.
          -- eexists. split; [ev1; reflexivity | ev; reflexivity].
          -- ev1. reflexivity.
        * ev1. reflexivity.
      + eexists. split.
        * ev1. reflexivity.
        * ev. rewrite (set_nth_same _ _ _ Ho). reflexivity.
  Qed.

  (* the loop over the arrays still to do, against the model's [map_result] *)
  Lemma ev_loop : forall fb rest done junk,
    (length done + length rest <= length ns)%nat ->
    match map_result ev_one rest with
    | Shapes.Err e =>
        for_loop "(idx, xx)" (fun e' => exec P ev_body fb e') (enum_from (length done) (map VSig rest))
                 (ev_head (map VSig (done ++ rest)) junk) = Raise (exn_name e)
    | Shapes.Ok r =>
        exists junk', for_loop "(idx, xx)" (fun e' => exec P ev_body fb e') (enum_from (length done) (map VSig rest))
                               (ev_head (map VSig (done ++ rest)) junk) = Normal (ev_head (map VSig (done ++ r)) junk')
    end.
  Proof.
    intros fb rest. induction rest as [|s rest IH]; intros done junk Hlen.
    - cbn [map_result map enum_from for_loop]. exists junk. reflexivity.
    - cbn [map_result map enum_from]. rewrite for_loop_cons. cbn [length] in Hlen.
      destruct (nth_error_ex ns (length done)) as (n & Hn); [lia|].
      assert (Ho : nth_error (map (@VSig shape) (done ++ s :: rest)) (length done) = Some (VSig s)).
      { rewrite map_app. cbn [map]. rewrite <- (map_length (@VSig shape) done). apply nth_error_mid. }
      pose proof (ev_step fb _ _ s n junk Ho Hn) as Hs.
      destruct (ev_one s) as [s'|e].
      + destruct Hs as (e2 & He2 & Hh). rewrite He2.
        assert (Hset : set_nth (length done) (VSig s') (map (@VSig shape) (done ++ s :: rest))
                       = map VSig ((done ++ [s']) ++ rest)).
        { rewrite <- app_assoc. cbn [app]. rewrite !map_app. cbn [map].
          rewrite <- (map_length (@VSig shape) done). apply set_nth_mid. }
        rewrite Hset in Hh. rewrite Hh.
        specialize (IH (done ++ [s'])%list (fun x => lookup x e2)).
        rewrite app_length in IH. cbn [length] in IH. rewrite Nat.add_1_r in IH.
        specialize (IH ltac:(lia)).
        destruct (map_result ev_one rest) as [r|e].
        * destruct IH as (junk' & IH). exists junk'. rewrite IH. rewrite <- app_assoc. reflexivity.
        * exact IH.
      + rewrite Hs. reflexivity.
  Qed.

End EnsureVector.

Theorem skeleton_ensure_vector : forall l ns fn f,
  (length l <= length ns)%nat ->
  exec P prog_ensure_vector f (ev_env0 l ns fn) = render_arrays (ensure_vector l).
Proof.
  intros l ns fn f Hlen.
  rewrite (exec_nth_split shape P prog_ensure_vector 1 ev_for f _ eq_refl).
  change (firstn 1 (spine prog_ensure_vector)) with ev_pre.
  change (skipn 2 (spine prog_ensure_vector)) with ev_post.
  assert (Hpre : exec_list P ev_pre f (ev_env0 l ns fn)
                 = Normal (ev_head ns fn (arrays l) (map VSig l) (fun _ => None))).
  { unfold ev_head, ev_pre. ev. reflexivity. }
  rewrite Hpre.
  change ev_for with (SFor "(idx, xx)" ev_iter ev_body). rewrite exec_for.
  assert (Hit : bind (eval P (ev_head ns fn (arrays l) (map VSig l) (fun _ => None)) ev_iter) (iter_list P)
                = Ok (enum_from 0 (map VSig l))).
  { unfold ev_head, ev_iter. ev. reflexivity. }
  rewrite Hit.
  pose proof (ev_loop ns fn (arrays l) f l [] (fun _ => None) Hlen) as Hloop. cbn [length app] in Hloop.
  unfold ensure_vector, render_arrays.
  destruct (map_result ev_one l) as [r|e].
  - destruct Hloop as (junk' & Hloop). rewrite Hloop.
    unfold ev_head, ev_post.
    destruct r as [|s1 [|s2 r]]; ev; cbn [map length Nat.eqb nth_error]; ev; reflexivity.
  - rewrite Hloop. reflexivity.
Qed.

(* the hypothesis on names is needed: `names[idx]` is evaluated on the trimming path of ensure_vector *)
Example ensure_vector_short_names :
  exec P prog_ensure_vector 0 (ev_env0 [[5; 1]] [] VNone) = Raise "IndexError"
  /\ ensure_vector [[5; 1]] = Shapes.Ok [[5]].
Proof. split; vm_compute; reflexivity. Qed.

(* ================================================================================================== *)
(* ensure_1d_with_singleton                                                                             *)
(* ================================================================================================== *)
Definition e1d_pre : list stmt := Eval cbv in firstn 1 (spine prog_ensure_1d_with_singleton).
Definition e1d_for : stmt := Eval cbv in nth 1 (spine prog_ensure_1d_with_singleton) SSkip.
Definition e1d_post : list stmt := Eval cbv in skipn 2 (spine prog_ensure_1d_with_singleton).
Definition e1d_body : stmt := Eval cbv in match e1d_for with SFor _ _ b => b | _ => SSkip end.
Definition e1d_iter : expr := Eval cbv in match e1d_for with SFor _ it _ => it | _ => ENone end.

Section Ensure1d.
  Variable ns : list (val shape).
  Variable fn : val shape.
  Variable tc : val shape.

  Definition e1d_head (o : list (val shape)) (junk : string -> option (val shape)) : env shape :=
    env_of e1d_names
      (overlay [ ("to_check", tc); ("names", VList ns); ("func_name", fn); ("out_args", VList o) ] junk).

  Lemma e1d_step : forall fb o i s n junk,
    nth_error o i = Some (VSig s) -> nth_error ns i = Some n ->
    match e1d_one s with
    | Shapes.Err e =>
        exec P e1d_body fb (upd "(idx, xx)" (VList [VNat i; VSig s]) (e1d_head o junk)) = Raise (exn_name e)
    | Shapes.Ok s' =>
        exists e2, exec P e1d_body fb (upd "(idx, xx)" (VList [VNat i; VSig s]) (e1d_head o junk)) = Normal e2 /\
                   e2 = e1d_head (set_nth i (VSig s') o) (fun x => lookup x e2)
    end.
  Proof.
    intros fb o i s n junk Ho Hn.
    pose proof (nth_error_lt _ _ _ Ho) as Hlt.
    pose proof (shape_1_eq2 s) as H1.
    pose proof (ones_like_length (tl s)) as Hol.
    pose proof (np_all_ones (tl s)) as Hall.
    unfold e1d_one, e1d_head, e1d_body.
    destruct (2 <? length s)%nat eqn:C1; cbn [andb].
    - assert (C4 : (length s =? 2)%nat = false) by (apply Nat.ltb_lt in C1; apply Nat.eqb_neq; lia).
      assert (C5 : (length s =? 1)%nat = false) by (apply Nat.ltb_lt in C1; apply Nat.eqb_neq; lia).
      destruct (all_ones (tl s)) eqn:A.
      + destruct (add_axis1 (squeeze s)) as [s'|e] eqn:D.
        * eexists. split; [ev1; reflexivity | ev; reflexivity].
        * ev1. reflexivity.
      + ev1. reflexivity.
    - destruct (length s =? 2)%nat eqn:C4; cbn [andb].
      + specialize (H1 eq_refl).
        destruct (nth 1 s 0 =? 1)%nat eqn:C3; cbn [negb].
        * destruct (length s =? 1)%nat eqn:C5.
          -- destruct (add_axis1 s) as [s'|e] eqn:D.
             ++ eexists. split; [ev1; reflexivity | ev; reflexivity].
             ++ ev1. reflexivity.
          -- eexists. split; [ev1; reflexivity | ev; rewrite (set_nth_same _ _ _ Ho); reflexivity].
        * ev1. reflexivity.
      + destruct (length s =? 1)%nat eqn:C5.
        * destruct (add_axis1 s) as [s'|e] eqn:D.
          -- eexists. split; [ev1; reflexivity | ev; reflexivity].
          -- ev1. reflexivity.
        * eexists. split; [ev1; reflexivity | ev; rewrite (set_nth_same _ _ _ Ho); reflexivity].
  Qed.

  Lemma e1d_loop : forall fb rest done junk,
    (length done + length rest <= length ns)%nat ->
    match map_result e1d_one rest with
    | Shapes.Err e =>
        for_loop "(idx, xx)" (fun e' => exec P e1d_body fb e') (enum_from (length done) (map VSig rest))
                 (e1d_head (map VSig (done ++ rest)) junk) = Raise (exn_name e)
    | Shapes.Ok r =>
        exists junk', for_loop "(idx, xx)" (fun e' => exec P e1d_body fb e') (enum_from (length done) (map VSig rest))
                               (e1d_head (map VSig (done ++ rest)) junk) = Normal (e1d_head (map VSig (done ++ r)) junk')
    end.
  Proof.
    intros fb rest. induction rest as [|s rest IH]; intros done junk Hlen.
    - cbn [map_result map enum_from for_loop]. exists junk. reflexivity.
    - cbn [map_result map enum_from]. rewrite for_loop_cons. cbn [length] in Hlen.
      destruct (nth_error_ex ns (length done)) as (n & Hn); [lia|].
      assert (Ho : nth_error (map (@VSig shape) (done ++ s :: rest)) (length done) = Some (VSig s)).
      { rewrite map_app. cbn [map]. rewrite <- (map_length (@VSig shape) done). apply nth_error_mid. }
      pose proof (e1d_step fb _ _ s n junk Ho Hn) as Hs.
      destruct (e1d_one s) as [s'|e].
      + destruct Hs as (e2 & He2 & Hh). rewrite He2.
        assert (Hset : set_nth (length done) (VSig s') (map (@VSig shape) (done ++ s :: rest))
                       = map VSig ((done ++ [s']) ++ rest)).
        { rewrite <- app_assoc. cbn [app]. rewrite !map_app. cbn [map].
          rewrite <- (map_length (@VSig shape) done). apply set_nth_mid. }
        rewrite Hset in Hh. rewrite Hh.
        specialize (IH (done ++ [s'])%list (fun x => lookup x e2)).
        rewrite app_length in IH. cbn [length] in IH. rewrite Nat.add_1_r in IH.
        specialize (IH ltac:(lia)).
        destruct (map_result e1d_one rest) as [r|e].
        * destruct IH as (junk' & IH). exists junk'. rewrite IH. rewrite <- app_assoc. reflexivity.
        * exact IH.
      + rewrite Hs. reflexivity.
  Qed.
End Ensure1d.

Theorem skeleton_ensure_1d_with_singleton : forall l ns fn f,
  (length l <= length ns)%nat ->
  exec P prog_ensure_1d_with_singleton f (e1d_env0 l ns fn) = render_arrays (ensure_1d_with_singleton l).
Proof.
  intros l ns fn f Hlen.
  rewrite (exec_nth_split shape P prog_ensure_1d_with_singleton 1 e1d_for f _ eq_refl).
  change (firstn 1 (spine prog_ensure_1d_with_singleton)) with e1d_pre.
  change (skipn 2 (spine prog_ensure_1d_with_singleton)) with e1d_post.
  assert (Hpre : exec_list P e1d_pre f (e1d_env0 l ns fn)
                 = Normal (e1d_head ns fn (arrays l) (map VSig l) (fun _ => None))).
  { unfold e1d_head, e1d_pre. ev. reflexivity. }
  rewrite Hpre.
  change e1d_for with (SFor "(idx, xx)" e1d_iter e1d_body). rewrite exec_for.
  assert (Hit : bind (eval P (e1d_head ns fn (arrays l) (map VSig l) (fun _ => None)) e1d_iter) (iter_list P)
                = Ok (enum_from 0 (map VSig l))).
  { unfold e1d_head, e1d_iter. ev. reflexivity. }
  rewrite Hit.
  pose proof (e1d_loop ns fn (arrays l) f l [] (fun _ => None) Hlen) as Hloop. cbn [length app] in Hloop.
  unfold ensure_1d_with_singleton, render_arrays.
  destruct (map_result e1d_one l) as [r|e].
  - destruct Hloop as (junk' & Hloop). rewrite Hloop.
    unfold e1d_head, e1d_post.
    destruct r as [|s1 [|s2 r]]; ev; cbn [map length Nat.eqb nth_error]; ev; reflexivity.
  - rewrite Hloop. reflexivity.
Qed.

(* ================================================================================================== *)
(* ensure_2d                                                                                            *)
(* ================================================================================================== *)
Definition e2d_pre : list stmt := Eval cbv in firstn 1 (spine prog_ensure_2d).
Definition e2d_for : stmt := Eval cbv in nth 1 (spine prog_ensure_2d) SSkip.
Definition e2d_post : list stmt := Eval cbv in skipn 2 (spine prog_ensure_2d).
Definition e2d_body : stmt := Eval cbv in match e2d_for with SFor _ _ b => b | _ => SSkip end.
Definition e2d_iter : expr := Eval cbv in match e2d_for with SFor _ it _ => it | _ => ENone end.

Section Ensure2d.
  Variable ns fn : val shape.           (* names, func_name: only passed on (to logger calls) *)
  Variable tcl : list (val shape).      (* to_check: read by the loop body, never assigned *)

  Definition e2d_head (o : list (val shape)) (junk : string -> option (val shape)) : env shape :=
    env_of e2d_names
      (overlay [ ("to_check", VList tcl); ("names", ns); ("func_name", fn); ("out_args", VList o) ] junk).

  (* one iteration on idx = i; to_check[i] and out_args[i] both are s *)
  Lemma e2d_step : forall fb o i s junk,
    nth_error tcl i = Some (VSig s) -> nth_error o i = Some (VSig s) ->
    match e2d_one s with
    | Shapes.Err e => exec P e2d_body fb (upd "idx" (VNat i) (e2d_head o junk)) = Raise (exn_name e)
    | Shapes.Ok s' =>
        exists e2, exec P e2d_body fb (upd "idx" (VNat i) (e2d_head o junk)) = Normal e2 /\
                   e2 = e2d_head (set_nth i (VSig s') o) (fun x => lookup x e2)
    end.
  Proof.
    intros fb o i s junk Ht Ho.
    pose proof (nth_error_lt _ _ _ Ho) as Hlt.
    unfold e2d_one, e2d_head, e2d_body.
    destruct (length s =? 1)%nat eqn:C5.
    - destruct (add_axis1 s) as [s'|e] eqn:D.
      + eexists. split; [ev1; reflexivity | ev; reflexivity].
      + ev1. reflexivity.
    - eexists. split; [ev1; reflexivity | ev; rewrite (set_nth_same _ _ _ Ho); reflexivity].
  Qed.

  (* the loop over range(len(to_check)): done0 = the arrays consumed, done = their normalised forms *)
  Lemma e2d_loop : forall fb rest done0 done junk,
    tcl = map VSig (done0 ++ rest) -> length done0 = length done ->
    match map_result e2d_one rest with
    | Shapes.Err e =>
        for_loop "idx" (fun e' => exec P e2d_body fb e') (map VNat (seq (length done) (length rest)))
                 (e2d_head (map VSig (done ++ rest)) junk) = Raise (exn_name e)
    | Shapes.Ok r =>
        exists junk', for_loop "idx" (fun e' => exec P e2d_body fb e') (map VNat (seq (length done) (length rest)))
                               (e2d_head (map VSig (done ++ rest)) junk) = Normal (e2d_head (map VSig (done ++ r)) junk')
    end.
  Proof.
    intros fb rest. induction rest as [|s rest IH]; intros done0 done junk Htc Hl.
    - cbn [map_result map length seq for_loop]. exists junk. reflexivity.
    - cbn [map_result map length seq]. rewrite for_loop_cons.
      assert (Ht : nth_error tcl (length done) = Some (VSig s)).
      { rewrite Htc, map_app. cbn [map]. rewrite <- Hl, <- (map_length (@VSig shape) done0). apply nth_error_mid. }
      assert (Ho : nth_error (map (@VSig shape) (done ++ s :: rest)) (length done) = Some (VSig s)).
      { rewrite map_app. cbn [map]. rewrite <- (map_length (@VSig shape) done). apply nth_error_mid. }
      pose proof (e2d_step fb _ _ s junk Ht Ho) as Hs.
      destruct (e2d_one s) as [s'|e].
      + destruct Hs as (e2 & He2 & Hh). rewrite He2.
        assert (Hset : set_nth (length done) (VSig s') (map (@VSig shape) (done ++ s :: rest))
                       = map VSig ((done ++ [s']) ++ rest)).
        { rewrite <- app_assoc. cbn [app]. rewrite !map_app. cbn [map].
          rewrite <- (map_length (@VSig shape) done). apply set_nth_mid. }
        rewrite Hset in Hh. rewrite Hh.
        specialize (IH (done0 ++ [s])%list (done ++ [s'])%list (fun x => lookup x e2)).
        rewrite !app_length in IH. cbn [length] in IH. rewrite !Nat.add_1_r in IH.
        rewrite <- (app_assoc done0) in IH. cbn [app] in IH. specialize (IH Htc ltac:(lia)).
        destruct (map_result e2d_one rest) as [r|e].
        * destruct IH as (junk' & IH). exists junk'. rewrite IH. rewrite <- app_assoc. reflexivity.
        * exact IH.
      + rewrite Hs. reflexivity.
  Qed.
End Ensure2d.

(* names and func_name are arbitrary values here: the translated body only passes them to logger calls *)
Theorem skeleton_ensure_2d : forall l ns fn f,
  exec P prog_ensure_2d f (e2d_env0 l ns fn) = render_arrays (ensure_2d l).
Proof.
  intros l ns fn f.
  rewrite (exec_nth_split shape P prog_ensure_2d 1 e2d_for f _ eq_refl).
  change (firstn 1 (spine prog_ensure_2d)) with e2d_pre.
  change (skipn 2 (spine prog_ensure_2d)) with e2d_post.
  assert (Hpre : exec_list P e2d_pre f (e2d_env0 l ns fn)
                 = Normal (e2d_head (VList ns) fn (map VSig l) (map VSig l) (fun _ => None))).
  { unfold e2d_head, e2d_pre. ev. reflexivity. }
  rewrite Hpre.
  change e2d_for with (SFor "idx" e2d_iter e2d_body). rewrite exec_for.
  assert (Hit : bind (eval P (e2d_head (VList ns) fn (map VSig l) (map VSig l) (fun _ => None)) e2d_iter) (iter_list P)
                = Ok (map VNat (seq 0 (length l)))).
  { unfold e2d_head, e2d_iter. ev. rewrite map_length. reflexivity. }
  rewrite Hit.
  pose proof (e2d_loop (VList ns) fn (map VSig l) f l [] [] (fun _ => None) eq_refl eq_refl) as Hloop.
  cbn [length app] in Hloop.
  unfold ensure_2d, render_arrays.
  destruct (map_result e2d_one l) as [r|e].
  - destruct Hloop as (junk' & Hloop). rewrite Hloop.
    unfold e2d_head, e2d_post.
    destruct r as [|s1 [|s2 r]]; ev; cbn [map length Nat.eqb nth_error]; ev; reflexivity.
  - rewrite Hloop. reflexivity.
Qed.

(* ================================================================================================== *)
(* ensure_equal_dims                                                                                    *)
(* ================================================================================================== *)
Definition eqd_pre : list stmt := Eval cbv in firstn 3 (spine prog_ensure_equal_dims).
Definition eqd_if : stmt := Eval cbv in nth 3 (spine prog_ensure_equal_dims) SSkip.
Definition eqd_cond : expr := Eval cbv in match eqd_if with SIf c _ _ => c | _ => ENone end.
Definition eqd_then : stmt := Eval cbv in match eqd_if with SIf _ a _ => a | _ => SSkip end.
Definition eqd_then_pre : list stmt := Eval cbv in firstn 3 (spine eqd_then).
Definition eqd_then_for : stmt := Eval cbv in nth 3 (spine eqd_then) SSkip.
Definition eqd_then_post : list stmt := Eval cbv in skipn 4 (spine eqd_then).
Definition eqd_msg_body : stmt := Eval cbv in match eqd_then_for with SFor _ _ b => b | _ => SSkip end.
Definition eqd_msg_iter : expr := Eval cbv in match eqd_then_for with SFor _ it _ => it | _ => ENone end.

Lemma sigs_map : forall l : list shape, sigs (map VSig l) = Some l.
Proof. induction l as [|s l IH]; [reflexivity|]. cbn [map sigs]. rewrite IH. reflexivity. Qed.

(* [all_dims[0] == all_dims[ii + 1] for ii in ...] on the tuples ds *)
Definition check_tail (ds : list (list nat)) : list (val shape) :=
  match ds with [] => [] | d0 :: t => map (fun d => VBool (dims_eqb d0 d)) t end.

Lemma pairwise_map : forall ds, pairwise_of (map VSig ds) = Ok (VList (check_tail ds)).
Proof. intros ds. unfold pairwise_of. rewrite sigs_map. destruct ds; reflexivity. Qed.

Lemma all_dims_map : forall dim r l,
  all_dims_of dim r (map VSig l) =
  match map_result (compared_dims dim r) l with
  | Shapes.Ok ds => Ok (arrays ds)
  | Shapes.Err e => Exc (exn_name e)
  end.
Proof. intros dim r l. unfold all_dims_of. rewrite sigs_map. reflexivity. Qed.

(* np.all([True] + [...]) is the model's all_same *)
Lemma np_all_check : forall ds, np_all ([VBool true] ++ check_tail ds) = Ok (VBool (all_same ds)).
Proof.
  intros ds. unfold np_all. cbn [app all_true].
  assert (H : all_true (check_tail ds) = Some (all_same ds)).
  { destruct ds as [|d0 t]; [reflexivity|]. cbn [check_tail all_same].
    induction t as [|d t IH]; [reflexivity|]. cbn [map all_true forallb]. rewrite IH. reflexivity. }
  rewrite H. reflexivity.
Qed.

Section EqualDims.
  Variable ns : list (val shape).
  Variable fn : val shape.

  (* after the first three statements: check = [True] + [...] *)
  Definition eqd_head (l : list shape) (ds : list (list nat)) (junk : string -> option (val shape)) : env shape :=
    env_of eqd_names
      (overlay [ ("to_check", arrays l); ("names", VList ns); ("func_name", fn);
                 ("check", VList ([VBool true] ++ check_tail ds)) ] junk).

  Lemma eqd_pre_exec : forall l dim f,
    match dim, l with
    | None, [] => exec_list P eqd_pre f (eqd_env0 l ns fn dim) = Raise "IndexError"
    | _, _ =>
        match map_result (compared_dims dim (length (hd [] l))) l with
        | Shapes.Err e => exec_list P eqd_pre f (eqd_env0 l ns fn dim) = Raise (exn_name e)
        | Shapes.Ok ds => exists e1, exec_list P eqd_pre f (eqd_env0 l ns fn dim) = Normal e1 /\ e1 = eqd_head l ds (fun x => lookup x e1)
        end
    end.
  Proof.
    intros l dim f. unfold eqd_pre, eqd_head.
    destruct dim as [d|].
    - change (compared_dims (Some d) (length (hd [] l))) with (compared_dims (Some d) 0).
      pose proof (all_dims_map (Some d) 0 l) as Had.
      assert (G : match map_result (compared_dims (Some d) 0) l with
                  | Shapes.Err e => exec_list P eqd_pre f (eqd_env0 l ns fn (Some d)) = Raise (exn_name e)
                  | Shapes.Ok ds => exists e1, exec_list P eqd_pre f (eqd_env0 l ns fn (Some d)) = Normal e1 /\ e1 = eqd_head l ds (fun x => lookup x e1)
                  end).
      { unfold eqd_pre, eqd_head.
        destruct (map_result (compared_dims (Some d) 0) l) as [ds|e].
        - pose proof (pairwise_map ds) as Hpw. eexists. split; [ev1; reflexivity | ev; reflexivity].
        - ev1. reflexivity. }
      destruct l; exact G.
    - destruct l as [|s0 l'] eqn:El.
      + ev. cbn [map nth_error]. reflexivity.
      + cbn [hd]. rewrite <- El.
        assert (H0 : nth_error (map (@VSig shape) l) 0 = Some (VSig s0)) by (rewrite El; reflexivity).
        pose proof (all_dims_map None (length s0) l) as Had.
        destruct (map_result (compared_dims None (length s0)) l) as [ds|e].
        * pose proof (pairwise_map ds) as Hpw. eexists. split; [ev1; reflexivity | ev; reflexivity].
        * ev1. reflexivity.
  Qed.

  (* the loop that builds the message: msg stays a string *)
  Definition eqd_mhead (l : list shape) (m : string) (junk : string -> option (val shape)) : env shape :=
    env_of eqd_names (overlay [ ("to_check", arrays l); ("names", VList ns); ("msg", VStr m) ] junk).

  Lemma eqd_msg_step : forall l fb k m junk, (k < length l)%nat -> (length l <= length ns)%nat ->
    exists e2 m', normal_env (exec P eqd_msg_body fb (upd "ii" (VNat k) (eqd_mhead l m junk))) = Some e2 /\
                  e2 = eqd_mhead l m' (fun x => lookup x e2).
  Proof.
    intros l fb k m junk Hk Hlen.
    destruct (nth_error_ex ns k) as (n & Hn); [lia|].
    destruct (nth_error_ex l k Hk) as (s & Hs).
    assert (Hs' : nth_error (map (@VSig shape) l) k = Some (VSig s)) by (rewrite nth_error_map, Hs; reflexivity).
    unfold eqd_mhead, eqd_msg_body.
    eexists. eexists. split; [ev1; reflexivity | ev; reflexivity].
  Qed.

  Lemma eqd_msg_loop : forall l fb m junk, (length l <= length ns)%nat ->
    exists m' junk', for_loop "ii" (fun e' => exec P eqd_msg_body fb e') (map VNat (seq 0 (length l))) (eqd_mhead l m junk)
                     = Normal (eqd_mhead l m' junk').
  Proof.
    intros l fb m junk Hlen.
    destruct (for_loop_inv shape (fun _ e => exists m' j, e = eqd_mhead l m' j)
                "ii" (fun e' => exec P eqd_msg_body fb e') (map VNat (seq 0 (length l))) (eqd_mhead l m junk))
      as (e' & He' & (m' & j & Hj)).
    - exists m, junk. reflexivity.
    - intros done v rest e1 Hl (m1 & j & He1).
      destruct (range_val_split (length l) done v rest Hl) as (_ & Hv & Hlt). subst v e1.
      destruct (eqd_msg_step l fb (length done) m1 j Hlt Hlen) as (e2 & m2 & H2 & He2).
      exists e2. split; [exact H2|]. exists m2. eexists. exact He2.
    - exists m', j. rewrite He', Hj. reflexivity.
  Qed.

  Lemma exec_if : forall c a b f e,
    exec P (SIf c a b) f e =
    match eval_truth P e c with
    | Ok true => exec P a f e
    | Ok false => exec P b f e
    | Exc n => Raise n
    | Bad => Stuck
    end.
  Proof. reflexivity. Qed.

  (* the mismatch branch always ends with ValueError *)
  Lemma eqd_then_exec : forall l f ds junk, (length l <= length ns)%nat ->
    exec P eqd_then f (eqd_head l ds junk) = Raise "ValueError".
  Proof.
    intros l f ds junk Hlen.
    rewrite (exec_nth_split shape P eqd_then 3 eqd_then_for f _ eq_refl).
    change (firstn 3 (spine eqd_then)) with eqd_then_pre.
    change (skipn 4 (spine eqd_then)) with eqd_then_post.
    assert (Hpre : exists e1, exec_list P eqd_then_pre f (eqd_head l ds junk) = Normal e1 /\
                              e1 = eqd_mhead l "Mismatch between inputs: " (fun x => lookup x e1)).
    { unfold eqd_head, eqd_mhead, eqd_then_pre. eexists. split; [ev; reflexivity | ev; reflexivity]. }
    destruct Hpre as (e1 & Hpre & He1). rewrite Hpre, He1. set (j := fun x => lookup x e1).
    change eqd_then_for with (SFor "ii" eqd_msg_iter eqd_msg_body). rewrite exec_for.
    assert (Hit : bind (eval P (eqd_mhead l "Mismatch between inputs: " j) eqd_msg_iter) (iter_list P)
                  = Ok (map VNat (seq 0 (length l)))).
    { unfold eqd_mhead, eqd_msg_iter. ev. rewrite map_length. reflexivity. }
    rewrite Hit.
    destruct (eqd_msg_loop l f "Mismatch between inputs: " j Hlen) as (m' & j' & Hloop). rewrite Hloop.
    unfold eqd_mhead, eqd_then_post. ev. reflexivity.
  Qed.

  Theorem skeleton_ensure_equal_dims : forall l dim f, (length l <= length ns)%nat ->
    agrees_unit (exec P prog_ensure_equal_dims f (eqd_env0 l ns fn dim)) (ensure_equal_dims l dim).
  Proof.
    intros l dim f Hlen.
    rewrite (exec_nth_split shape P prog_ensure_equal_dims 3 eqd_if f _ eq_refl).
    change (firstn 3 (spine prog_ensure_equal_dims)) with eqd_pre.
    change (skipn 4 (spine prog_ensure_equal_dims)) with (@nil stmt).
    pose proof (eqd_pre_exec l dim f) as Hpre.
    unfold ensure_equal_dims, agrees_unit.
    assert (G : forall ds junk,
              match (if all_same ds then Shapes.Ok tt else Shapes.Err ValueErr) with
              | Shapes.Err e =>
                  match exec P eqd_if f (eqd_head l ds junk) with Normal e2 => exec_list P [] f e2 | o => o end
                  = Raise (exn_name e)
              | Shapes.Ok _ =>
                  exists e, match exec P eqd_if f (eqd_head l ds junk) with Normal e2 => exec_list P [] f e2 | o => o end
                            = Normal e
              end).
    { intros ds junk.
      change eqd_if with (SIf eqd_cond eqd_then SSkip). rewrite exec_if.
      pose proof (np_all_check ds) as Hall.
      assert (Hc : eval_truth P (eqd_head l ds junk) eqd_cond = Ok (negb (all_same ds))).
      { unfold eqd_head, eqd_cond. ev1. destruct (all_same ds); reflexivity. }
      rewrite Hc.
      destruct (all_same ds); cbn [negb].
      - eexists. reflexivity.
      - rewrite (eqd_then_exec l f ds junk Hlen). reflexivity. }
    destruct dim as [d|]; [|destruct l as [|s0 l'] eqn:El].
    - assert (Hm : match map_result (compared_dims (Some d) (length (hd [] l))) l with
                   | Shapes.Err e => exec_list P eqd_pre f (eqd_env0 l ns fn (Some d)) = Raise (exn_name e)
                   | Shapes.Ok ds => exists e1, exec_list P eqd_pre f (eqd_env0 l ns fn (Some d)) = Normal e1 /\ e1 = eqd_head l ds (fun x => lookup x e1)
                   end) by (destruct l; exact Hpre).
      assert (Goal' : match (match map_result (compared_dims (Some d) (length (hd [] l))) l with
                             | Shapes.Err e => Shapes.Err e
                             | Shapes.Ok ds => if all_same ds then Shapes.Ok tt else Shapes.Err ValueErr
                             end) with
                      | Shapes.Err e =>
                          match exec_list P eqd_pre f (eqd_env0 l ns fn (Some d)) with
                          | Normal e1 => match exec P eqd_if f e1 with Normal e2 => exec_list P [] f e2 | o => o end
                          | o => o
                          end = Raise (exn_name e)
                      | Shapes.Ok _ =>
                          exists e, match exec_list P eqd_pre f (eqd_env0 l ns fn (Some d)) with
                                    | Normal e1 => match exec P eqd_if f e1 with Normal e2 => exec_list P [] f e2 | o => o end
                                    | o => o
                                    end = Normal e
                      end).
      { destruct (map_result (compared_dims (Some d) (length (hd [] l))) l) as [ds|e].
        - destruct Hm as (e1 & Hm & He1). rewrite Hm, He1. apply G.
        - rewrite Hm. reflexivity. }
      destruct l; exact Goal'.
    - rewrite Hpre. reflexivity.
    - destruct (map_result (compared_dims None (length (hd [] (s0 :: l')))) (s0 :: l')) as [ds|e].
      + destruct Hpre as (e1 & Hm & He1). rewrite Hm, He1. apply G.
      + rewrite Hpre. reflexivity.
  Qed.
End EqualDims.
