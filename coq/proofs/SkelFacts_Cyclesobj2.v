(* Proofs of the control-skeleton tie of class Cycles, second part (notes/TIE_CYCLESOBJ2.md): the translated
   programs of gen/Gen_Skel_Cyclesobj2.v compute, under the table of model/SkelPrims_Cyclesobj2.v, what
   model/CyclesObj.v defines for ComputeMetric / Export / Timings / one round of chain_t_loop / init. *)
From Coq Require Import String Ascii List Bool Arith ZArith QArith Lia.
From EmdV Require Import lib.NpLite model.CycleMaps model.CycleVec model.CycleStat model.CyclesObj.
From EmdV Require Import proofs.CyclesObjFacts.
From EmdV Require Import lib.PyLoop lib.PyLoopTools model.SkelPrims_Cyclesobj proofs.SkelFacts_Cyclesobj.
From EmdV Require Import gen.Gen_Skel_Cyclesobj2 model.SkelPrims_Cyclesobj2.
Import ListNotations.
Open Scope string_scope.

Local Notation V := oval.

(* ---- the transformation added the plumbing and nothing else ------------------------------------------ *)
Lemma erase_ccm : erase_self writers2 tprog_compute_cycle_metric = prog_Cycles_compute_cycle_metric.
Proof. reflexivity. Qed.
Lemma erase_timings : erase_self writers2 tprog_compute_cycle_timings = prog_Cycles_compute_cycle_timings.
Proof. reflexivity. Qed.
Lemma erase_chain : erase_self writers2 tprog_compute_chain_metric = prog_Cycles_compute_chain_metric.
Proof. reflexivity. Qed.
Lemma erase_init : erase_self writers2 tprog_init = prog_Cycles_init.
Proof. reflexivity. Qed.

(* ---- facts about the model ---------------------------------------------------------------------------- *)
Lemma strs_of2_map : forall cs, strs_of2 (map VStr cs) = Some cs.
Proof. induction cs as [|s t IH]; [reflexivity|]. cbn [map strs_of2]. rewrite IH. reflexivity. Qed.

Lemma add_metric_cv : forall st n p v, s_cv (fst (add_metric st n p v)) = s_cv st.
Proof. intros st n p v. unfold add_metric. destruct (length v =? ncyc st)%nat; reflexivity. Qed.

Lemma compute_metric_cv : forall st n f m v, s_cv (compute_metric st n f m v) = s_cv st.
Proof. intros. unfold compute_metric. apply add_metric_cv. Qed.

Lemma compute_metric_nsamples : forall st n f m v, nsamples (compute_metric st n f m v) = nsamples st.
Proof. intros. unfold nsamples. rewrite compute_metric_cv. reflexivity. Qed.

(* pyview is a congruence for the model's compute_metric: the ghosts a callee row writes do not matter *)
Lemma compute_metric_view : forall st1 st2 n f m v, pyview st1 = pyview st2 ->
  pyview (compute_metric st1 n f m v) = pyview (compute_metric st2 n f m v).
Proof.
  intros st1 st2 n f m v H. unfold compute_metric.
  assert (Hv : compute_vals st1 f m v = compute_vals st2 f m v).
  { unfold pyview in H. inversion H as [[HP Ht Hph Hcv Hc Hm Hs Hch Hcs]]. unfold compute_vals.
    rewrite Hc, Hcv, Ht, Hph. reflexivity. }
  rewrite Hv. apply add_metric_view. exact H.
Qed.

(* mode 'cycle' never yields nan: astype(int) is the identity there *)
Lemma compute_vals_cycle_total : forall st f vals, forallb is_some (compute_vals st f MCycle vals) = true.
Proof.
  intros st f vals. unfold compute_vals, slice_stat, label_stat.
  destruct (s_cache st) as [[sl asl]|]; apply forallb_forall; intros x Hx; apply in_map_iff in Hx;
    destruct Hx as (y & <- & _); reflexivity.
Qed.

Lemma nan_to_m1_total : forall l, forallb is_some (nan_to_m1 l) = true.
Proof.
  intros l. unfold nan_to_m1. apply forallb_forall. intros x Hx. apply in_map_iff in Hx.
  destruct Hx as ([y|] & <- & _); reflexivity.
Qed.

Lemma astype_int_total : forall l, forallb is_some l = true -> astype_int l = Some l.
Proof. intros l H. unfold astype_int. rewrite H. reflexivity. Qed.

(* ---- the DataFrame --------------------------------------------------------------------------------------- *)
Lemma frame_rows_ok : forall st, frame_ok st -> frame_rows (s_metrics st) = Some (ncyc st).
Proof.
  intros st (Hne & Hall). unfold frame_rows. destruct (s_metrics st) as [|m t]; [congruence|].
  inversion Hall as [|? ? Hm Ht]; subst.
  assert (H : forallb (fun m' => (length (m_vals m') =? length (m_vals m))%nat) t = true).
  { apply forallb_forall. intros x Hx. rewrite Forall_forall in Ht. rewrite (Ht x Hx), Hm. apply Nat.eqb_refl. }
  rewrite H, Hm. reflexivity.
Qed.

Lemma filter_map_comm : forall (A B : Type) (p : B -> bool) (g : A -> B) l,
  filter p (map g l) = map g (filter (fun x => p (g x)) l).
Proof.
  intros A B p g l. induction l as [|a t IH]; [reflexivity|]. cbn [map filter].
  destruct (p (g a)); cbn [map]; rewrite IH; reflexivity.
Qed.

Lemma filter_ext_in' : forall (A : Type) (p q : A -> bool) l,
  (forall x, In x l -> p x = q x) -> filter p l = filter q l.
Proof.
  intros A p q l. induction l as [|a t IH]; intros H; [reflexivity|]. cbn [filter].
  rewrite (H a (or_introl eq_refl)), IH; [reflexivity|]. intros x Hx. apply H. right. exact Hx.
Qed.

(* dropping the rows flagged by (valids == False) keeps exactly the model's selected cycles *)
Lemma drop_rows_model : forall ms valids n, length valids = n ->
  drop_rows (flip_all valids) (map (row ms) (seq 0 n)) = map (row ms) (filter (fun k => nth k valids false) (seq 0 n)).
Proof.
  intros ms valids n Hl. unfold drop_rows, flip_all. rewrite filter_map_comm. f_equal.
  apply filter_ext_in'. intros k Hk. apply in_seq in Hk. cbn [row fst].
  rewrite (nth_indep _ false (negb false)) by (rewrite map_length; lia).
  rewrite (map_nth negb). apply negb_involutive.
Qed.

Lemma get_matching_len : forall st cs v, Forall (fun m => length (m_vals m) = ncyc st) (s_metrics st) ->
  get_matching st cs = CyclesObj.Ok v -> length v = ncyc st.
Proof.
  intros st cs v Hall H. unfold get_matching in H.
  destruct (find_metric "is_good" (s_metrics st)) as [g|] eqn:Eg; [|discriminate].
  destruct (resolve (s_metrics st) cs) as [r|e]; [|discriminate]. inversion H; subst v.
  rewrite map_length, seq_length. rewrite Forall_forall in Hall. apply Hall. apply (find_metric_In _ _ _ Eg).
Qed.

(* the hypothesis of the export theorem follows from the invariant of C15 as soon as there is a metric *)
Lemma frame_ok_of_inv : forall st, Forall (metric_ok st) (s_metrics st) -> s_metrics st <> [] -> frame_ok st.
Proof.
  intros st H Hne. split; [exact Hne|]. rewrite Forall_forall in *. intros m Hm. destruct (H m Hm) as (Hl & _). exact Hl.
Qed.

(* ---- the constructor: .max() + 1 is the model's ncycles ------------------------------------------------- *)
Lemma ncycles_of_max : forall cv z, zvec_max cv = Some z -> (forall x, In x cv -> (-1 <= x)%Z) ->
  (z + Z.of_nat 1 =? Z.of_nat (ncycles cv))%Z = true.
Proof.
  intros cv z Hz Hge. apply Z.eqb_eq. destruct cv as [|x t]; [discriminate|]. cbn [zvec_max] in Hz. inversion Hz; subst z.
  unfold ncycles. cbn [zmax_list]. rewrite (zmax_list_base t x) by (apply Hge; left; reflexivity).
  pose proof (zmax_list_ge_d (-1) t). rewrite Z2Nat.id by lia. change (Z.of_nat 1) with 1%Z. lia.
Qed.

Lemma container_ge_m1 : forall P ph cv x, container P ph cv -> In x cv -> (-1 <= x)%Z.
Proof.
  intros P ph cv x H Hx. apply In_nth_error in Hx. destruct Hx as (i & Hi).
  destruct (container_labels P ph cv i x H Hi) as [(-> & _)|(k & a & b & -> & _)]; lia.
Qed.

Section ObjTie.
  Variable trough : Z.
  Variable P0 : cv_params.
  Local Notation P := (obj_prims trough P0).

  Ltac ev :=
    cbv beta iota zeta delta
        [exec final_env eval eval_truth bind map_res truthy do_cmp do_arith do_index nat_cmp nat_arith iter_list
         upd lookup env_of assign_all cmp_name ar_name frame overlay normal_env
         try_finish try_finish_env exn_matches as_call2 res_outcome exc_of
         obj_prims prims_of table_lookup obj_table keys_are is_opaque0 kw_func h_timing
         oself ovec oarr ofun odtype oconds oconditions mode_str conds_of2 frame_of
         names_compute_cycle_metric env0_compute_cycle_metric params_Cycles_compute_cycle_metric tprog_compute_cycle_metric
         names_get_metric_dataframe env0_get_metric_dataframe params_Cycles_get_metric_dataframe
         prog_Cycles_get_metric_dataframe
         names_compute_cycle_timings env0_compute_cycle_timings params_Cycles_compute_cycle_timings
         tprog_compute_cycle_timings
         names_compute_chain_metric env0_compute_chain_metric params_Cycles_compute_chain_metric
         tprog_compute_chain_metric
         exec_list
         String.eqb Ascii.eqb Bool.eqb fst snd nth_error andb negb orb].
  Ltac ev1 := ev; repeat (progress (cbn [Nat.eqb]; oracle_rw); ev).

  (* ---- compute_cycle_metric <-> step (ComputeMetric name f mode vals) ---- *)
  Theorem skeleton_compute_cycle_metric : forall st name f m vals (toint : bool) fuel,
    s_trough st = trough ->
    (toint = true -> forallb is_some (compute_vals st f m vals) = true) ->
    let e0 := env0_compute_cycle_metric st name vals f toint (PyMode m) in
    let st' := fst (add_metric st name PAdded (compute_vals st f m vals)) in
    as_call2 (exec P tprog_compute_cycle_metric fuel e0) = Return VNone /\
    lookup "self" (final_env P tprog_compute_cycle_metric fuel e0) = Some (oself st') /\
    pyview st' = pyview (fst (step st (ComputeMetric name f m vals))) /\
    snd (step st (ComputeMetric name f m vals)) = OOk.
  Proof.
    intros st name f m vals toint fuel Htr Hint e0 st'.
    assert (Hview : pyview st' = pyview (fst (step st (ComputeMetric name f m vals))))
      by (unfold st'; cbn [step fst]; unfold compute_metric; apply add_metric_view; reflexivity).
    assert (Has : toint = true -> astype_int (compute_vals st f m vals) = Some (compute_vals st f m vals))
      by (intros Ht; apply astype_int_total, Hint, Ht).
    unfold st', e0. clear st' e0 Hview Hint. revert Has. unfold compute_vals. rewrite Htr.
    destruct (s_cache st) as [[sl asl]|] eqn:Ec; destruct m; destruct toint; intros Has;
      try (pose proof (Has eq_refl) as Ha); clear Has;
      (split; [ev1; reflexivity | split; [ev1; reflexivity | split; [|reflexivity]]]);
      unfold step, compute_metric, compute_vals; cbn [fst]; rewrite Ec, ?Htr; apply add_metric_view; reflexivity.
  Qed.

  (* any other mode string: ValueError, nothing stored *)
  Theorem skeleton_compute_cycle_metric_badmode : forall st name f vals toint fuel,
    let e0 := env0_compute_cycle_metric st name vals f toint PyOther in
    exec P tprog_compute_cycle_metric fuel e0 = Raise "ValueError" /\
    lookup "self" (final_env P tprog_compute_cycle_metric fuel e0) = Some (oself st).
  Proof. intros st name f vals toint fuel e0. unfold e0. destruct toint; split; ev1; reflexivity. Qed.

  (* ---- compute_cycle_timings <-> step Timings ---- *)
  Theorem skeleton_compute_cycle_timings : forall st fuel,
    let e0 := env0_compute_cycle_timings st in
    as_call2 (exec P tprog_compute_cycle_timings fuel e0) = Return VNone /\
    lookup "self" (final_env P tprog_compute_cycle_timings fuel e0) = Some (oself (fst (step st Timings))) /\
    snd (step st Timings) = OOk.
  Proof.
    intros st fuel e0. unfold e0. split; [ev1; reflexivity|]. split; [|reflexivity].
    ev1. rewrite !compute_metric_cv, !compute_metric_nsamples. reflexivity.
  Qed.

  (* ---- get_metric_dataframe <-> step (Export w) ---- *)
  Theorem skeleton_get_metric_dataframe : forall st (subset : bool) (c : option (list string)) fuel,
    frame_ok st ->
    let e0 := env0_get_metric_dataframe st subset c in
    exec P prog_Cycles_get_metric_dataframe fuel e0 = export_outcome st (which_of subset c) /\
    lookup "self" (final_env P prog_Cycles_get_metric_dataframe fuel e0) = Some (oself st).
  Proof.
    intros st subset c fuel Hok e0. unfold e0. clear e0.
    pose proof (frame_rows_ok st Hok) as Hfr. destruct Hok as (_ & Hall).
    (* the filtered table, for the conditions cs that reach get_matching_cycles *)
    assert (Hfilt : forall cs,
      match get_matching st cs with
      | CyclesObj.Ok valids =>
          (length (flip_all valids) =? length (map (row (s_metrics st)) (seq 0 (ncyc st))))%nat = true /\
          drop_rows (flip_all valids) (map (row (s_metrics st)) (seq 0 (ncyc st)))
          = map (row (s_metrics st)) (filter (fun k => nth k valids false) (seq 0 (ncyc st)))
      | Err _ => True
      end).
    { intros cs. destruct (get_matching st cs) as [valids|e] eqn:Em; [|exact I].
      pose proof (get_matching_len st cs valids Hall Em) as Hl. split.
      - unfold flip_all. rewrite !map_length, seq_length, Hl. apply Nat.eqb_refl.
      - apply drop_rows_model. exact Hl. }
    unfold export_outcome, export, which_of, conds_for.
    destruct subset; destruct c as [cs|].
    - (* both: ValueError *)
      pose proof (strs_of2_map cs) as Hs. split; ev1; reflexivity.
    - (* subset=True *)
      destruct (s_conds st) as [cs|] eqn:Esc.
      + pose proof (strs_of2_map cs) as Hs. specialize (Hfilt cs). unfold gm_row2.
        destruct (get_matching st cs) as [valids|e] eqn:Em.
        * destruct Hfilt as (Hg & Hd). split; [ev1; unfold gm_row2; rewrite Em; ev1; rewrite Hd; reflexivity|].
          ev1; unfold gm_row2; rewrite Em; ev1; reflexivity.
        * split; ev1; unfold gm_row2; rewrite Em; destruct (gm_row st cs) as [v|x|]; ev1; reflexivity.
      + split; ev1; reflexivity.
    - (* conditions *)
      pose proof (strs_of2_map cs) as Hs. specialize (Hfilt cs). unfold gm_row2.
      destruct (get_matching st cs) as [valids|e] eqn:Em.
      * destruct Hfilt as (Hg & Hd). split; [ev1; unfold gm_row2; rewrite Em; ev1; rewrite Hd; reflexivity|].
        ev1; unfold gm_row2; rewrite Em; ev1; reflexivity.
      * split; ev1; unfold gm_row2; rewrite Em; destruct (gm_row st cs) as [v|x|]; ev1; reflexivity.
    - (* everything *)
      split; ev1; reflexivity.
  Qed.

  (* the model's error codes of an export against the exceptions: 2 = ValueError (both arguments given); otherwise
     the codes of get_matching (gm_row_codes of the first part: 4 = KeyError, 9 = a condition that does not parse) *)
  Lemma export_codes : forall st w e, export st w = ORaised e ->
    (exists cs, w = ExBoth cs /\ e = 2%Z) \/ get_matching st (conds_for st w) = Err e.
  Proof.
    intros st w e H. unfold export in H. destruct w as [| |cs|cs]; cbn [conds_for].
    - discriminate.
    - destruct (s_conds st) as [cs|]; [|discriminate].
      destruct (get_matching st cs) as [v|e']; [discriminate|]. inversion H. right. reflexivity.
    - destruct (get_matching st cs) as [v|e']; [discriminate|]. inversion H. right. reflexivity.
    - inversion H. left. exists cs. split; reflexivity.
  Qed.

  (* ---- compute_chain_metric <-> one round of chain_t_loop ---- *)
  Theorem skeleton_compute_chain_metric : forall st name f vals (toint : bool) fuel,
    let e0 := env0_compute_chain_metric st name vals f toint in
    match s_conds st, s_subset st, s_chain st with
    | None, _, _ =>
        exec P tprog_compute_chain_metric fuel e0 = Raise "ValueError" /\
        lookup "self" (final_env P tprog_compute_chain_metric fuel e0) = Some (oself st)
    | Some _, Some sv, Some chv =>
        match chain_metric_vals st f vals chv sv toint with
        | Some v =>
            as_call2 (exec P tprog_compute_chain_metric fuel e0) = Return VNone /\
            lookup "self" (final_env P tprog_compute_chain_metric fuel e0)
              = Some (oself (fst (add_metric st name PAdded v)))
        | None => exec P tprog_compute_chain_metric fuel e0 = Stuck
        end
    | _, _, _ => True
    end.
  Proof.
    intros st name f vals toint fuel e0. unfold e0. clear e0.
    destruct (s_conds st) as [cs|] eqn:Ec.
    - destruct (s_subset st) as [sv|] eqn:Es; [|exact I]. destruct (s_chain st) as [chv|] eqn:Eh; [|exact I].
      unfold chain_metric_vals.
      destruct (chain_stat f chv sv (s_cv st) vals) as [stats|] eqn:Est; cbn [option_map].
      + pose proof (astype_int_total _ (nan_to_m1_total (project_chain_to_cycles stats chv sv))) as Ha.
        destruct toint; split; ev1; reflexivity.
      + destruct toint; ev1; reflexivity.
    - destruct toint; split; ev1; reflexivity.
  Qed.

  (* the four chain statistics of compute_chain_timings are instances *)
  Lemma chain_metric_round : forall st chv sv k, (k < 4)%nat ->
    chain_metric_vals st (chain_t_f k) (chain_t_src st k) chv sv true = chain_t_vals st chv sv k.
  Proof.
    intros st chv sv k Hk. destruct k as [|[|[|[|k]]]]; try lia; reflexivity.
  Qed.

  Theorem skeleton_chain_round : forall st k cs sv chv v t fuel, (k < 4)%nat ->
    s_conds st = Some cs -> s_subset st = Some sv -> s_chain st = Some chv ->
    chain_t_vals st chv sv k = Some v ->
    let e0 := env0_compute_chain_metric st (chain_t_name k) (chain_t_src st k) (chain_t_f k) true in
    as_call2 (exec P tprog_compute_chain_metric fuel e0) = Return VNone /\
    exists st', lookup "self" (final_env P tprog_compute_chain_metric fuel e0) = Some (oself st') /\
                pyview st' = pyview (fst (add_metric st (chain_t_name k) (PChainT k) v)) /\
                chain_t_loop st chv sv (k :: t) = chain_t_loop (fst (add_metric st (chain_t_name k) (PChainT k) v)) chv sv t.
  Proof.
    intros st k cs sv chv v t fuel Hk Ec Es Eh Ev e0.
    pose proof (skeleton_compute_chain_metric st (chain_t_name k) (chain_t_f k) (chain_t_src st k) true fuel) as H.
    cbv zeta in H. rewrite Ec, Es, Eh, (chain_metric_round st chv sv k Hk), Ev in H. destruct H as (H1 & H2).
    split; [exact H1|]. eexists. split; [exact H2|]. split; [apply add_metric_view; reflexivity|].
    cbn [chain_t_loop]. rewrite Ev. reflexivity.
  Qed.
End ObjTie.

(* ================================================================================================ *)
(* Cycles.__init__ <-> CyclesObj.init                                                                 *)
(* ================================================================================================ *)
Definition init_spine : list stmt := Eval cbv in spine tprog_init.

Section InitTie.
  Variable trough : Z.
  Variable P0 : cv_params.
  Local Notation P := (obj_prims trough P0).

  (* here the object is an explicit record all along: the field updates and projections are evaluated *)
  Ltac ev :=
    cbv beta iota zeta delta
        [exec final_env eval eval_truth bind map_res truthy do_cmp do_arith do_index nat_cmp nat_arith iter_list
         upd lookup env_of assign_all cmp_name ar_name frame overlay normal_env
         try_finish try_finish_env exn_matches as_call2 res_outcome exc_of
         obj_prims prims_of table_lookup obj_table keys_are is_opaque0 kw_func h_timing
         oself ovec oarr ofun odtype oconds oconditions
         names_init entry_init env0_init params_Cycles_init tprog_init app
         blank set_ph set_cv set_cache clear_subset clear_chain clear_conds clear_metrics ncyc
         s_P s_trough s_ph s_cv s_cache s_metrics s_subset s_chain s_conds s_valids s_clock s_pick_clock
         exec_list
         String.eqb Ascii.eqb Bool.eqb fst snd nth_error andb negb orb].
  Ltac ev1 := ev; repeat (progress (cbn [Nat.eqb]; oracle_rw); ev).

  (* statement by statement: the continuation stays folded as [K rest fuel env] *)
  Ltac steps :=
    set (K := exec_list P);
    assert (K_cons : forall s t f e, K (s :: t) f e =
                       match exec P s f e with Normal e' => K t f e' | o => o end) by reflexivity;
    assert (K_nil : forall f e, K [] f e = Normal e) by reflexivity;
    repeat (rewrite K_cons; ev1); rewrite ?K_nil; ev1.

  (* the body falls off its end: the final environment is the one carried by the Normal outcome *)
  Lemma init_run : forall j ph (ct uc : bool) mode fuel cv z,
    get_cycle_vector P0 false None ph = Some cv -> zvec_max cv = Some z ->
    (z + Z.of_nat 1 =? Z.of_nat (ncycles cv))%Z = true ->
    exists e', exec P tprog_init fuel (env0_init P0 trough j ph ct uc mode) = Normal e' /\
               lookup "self" e' =
               Some (oself (let st := compute_metric (empty_state P0 trough uc ph cv) "is_good" (is_good_f P0) MCycle ph in
                            if ct then timings st else st)).
  Proof.
    intros j ph ct uc mode fuel cv z Eg Ez Hn. unfold empty_state.
    destruct ct; destruct uc; eexists; (split; [rewrite exec_spine; change (spine tprog_init) with init_spine;
                                                unfold init_spine; steps; reflexivity | ev; reflexivity]).
  Qed.

  Theorem skeleton_init : forall j ph (compute_timings use_cache : bool) mode fuel, ph <> [] ->
    let e0 := env0_init P0 trough j ph compute_timings use_cache mode in
    match init P0 trough use_cache ph with
    | Some st =>
        as_call2 (exec P tprog_init fuel e0) = Return VNone /\
        lookup "self" (final_env P tprog_init fuel e0) = Some (oself (if compute_timings then timings st else st))
    | None => exec P tprog_init fuel e0 = Raise "ValueError"
    end.
  Proof.
    intros j ph ct uc mode fuel Hne e0. unfold e0, init. clear e0.
    destruct (get_cycle_vector P0 false None ph) as [cv|] eqn:Eg.
    - assert (Hc : container P0 ph cv) by exact Eg.
      destruct (zvec_max cv) as [z|] eqn:Ez.
      + pose proof (ncycles_of_max cv z Ez (fun x => container_ge_m1 P0 ph cv x Hc)) as Hn.
        destruct (init_run j ph ct uc mode fuel cv z Eg Ez Hn) as (e' & He & Hs).
        rewrite (final_env_normal V P tprog_init fuel _ e') by (rewrite He; reflexivity).
        rewrite He. split; [reflexivity|exact Hs].
      + exfalso. destruct cv; [|discriminate]. pose proof (container_length _ _ _ Hc) as Hl.
        destruct ph; [congruence|discriminate].
    - rewrite exec_spine. change (spine tprog_init) with init_spine. unfold init_spine. steps. reflexivity.
  Qed.

  (* FINDING (boundary input): on the empty phase the constructor raises (the .max() of an empty cycle vector;
     Cycles(np.array([])) raises ValueError indeed) whereas the model's init succeeds *)
  Theorem init_empty_phase : forall j (compute_timings use_cache : bool) mode fuel,
    exec P tprog_init fuel (env0_init P0 trough j [] compute_timings use_cache mode) = Raise "ValueError" /\
    init P0 trough use_cache [] <> None.
  Proof.
    intros j ct uc mode fuel. split; [|apply init_total].
    assert (Eg : get_cycle_vector P0 false None [] = Some []) by reflexivity.
    assert (Ez : zvec_max [] = None) by reflexivity.
    rewrite exec_spine. change (spine tprog_init) with init_spine. unfold init_spine. steps. reflexivity.
  Qed.
End InitTie.
