(* Proofs for property C14: per-cycle statistics, their projection back to samples,
   phase alignment and phase binning (model/CycleStat.v).  The statements of the main
   lemmas are exactly those of props/Prop_C14.v. *)
From Coq Require Import ZArith QArith Qfield List Bool Lia Arith Sorted.
From EmdV Require Import lib.NpLite model.CycleMaps model.CycleVec model.Spectra model.CycleStat
  proofs.CycleMapsFacts proofs.SpectraFacts.
Import ListNotations.
Open Scope Z_scope.

(* ---------- select_cycle ---------------------------------------------------- *)

Lemma map_positions_from_shift : forall A B (p : A -> bool) (f : nat -> B) l i,
  map f (positions_from p l (S i)) = map (fun j => f (S j)) (positions_from p l i).
Proof.
  intros A B p f. induction l as [|a t IH]; intros i; [reflexivity|].
  cbn [positions_from]. destruct (p a); cbn [map]; rewrite IH; reflexivity.
Qed.

Lemma select_cycle_spec : forall cv vals k,
  length cv = length vals -> select_cycle cv vals k = samples_with_label cv vals k.
Proof.
  unfold select_cycle, samples_with_label, map_cycle_to_samples, positions.
  induction cv as [|c t IH]; intros vals k Hlen.
  - reflexivity.
  - destruct vals as [|v vt]; [discriminate Hlen|].
    cbn [length] in Hlen. injection Hlen as Hlen.
    cbn [positions_from combine filter fst].
    rewrite (Z.eqb_sym k c).
    destruct (c =? k); cbn [map snd nth].
    + f_equal. rewrite map_positions_from_shift.
      change (fun j : nat => nth (S j) (v :: vt) 0) with (fun j : nat => nth j vt 0).
      apply IH. exact Hlen.
    + rewrite map_positions_from_shift.
      change (fun j : nat => nth (S j) (v :: vt) 0) with (fun j : nat => nth j vt 0).
      apply IH. exact Hlen.
Qed.

(* ---------- cycle_stat ------------------------------------------------------- *)

Lemma cycle_stat_length : forall (B : Type) (f : list Z -> B) cv vals,
  length (cycle_stat f cv vals) = ncycles cv.
Proof. intros. unfold cycle_stat. rewrite map_length, seq_length. reflexivity. Qed.

Lemma cycle_stat_spec : forall (B : Type) (f : list Z -> B) cv vals k d,
  length cv = length vals -> (k < ncycles cv)%nat ->
  length (cycle_stat f cv vals) = ncycles cv /\
  nth k (cycle_stat f cv vals) d = f (samples_with_label cv vals (Z.of_nat k)).
Proof.
  intros B f cv vals k d Hlen Hk. split; [apply cycle_stat_length|].
  unfold cycle_stat. rewrite nth_map_seq by exact Hk.
  rewrite select_cycle_spec by exact Hlen. reflexivity.
Qed.

Lemma nth_error_seq0 : forall n k, (k < n)%nat -> nth_error (seq 0 n) k = Some k.
Proof.
  intros n k Hk. rewrite (nth_error_nth' _ 0%nat) by (rewrite seq_length; exact Hk).
  rewrite seq_nth by exact Hk. reflexivity.
Qed.

Lemma nth_error_map_seq0 : forall A (g : nat -> A) n k, (k < n)%nat ->
  nth_error (map g (seq 0 n)) k = Some (g k).
Proof.
  intros A g n k Hk. rewrite nth_error_map, nth_error_seq0 by exact Hk. reflexivity.
Qed.

Lemma cycle_stat_samples_spec : forall (B : Type) (f : list Z -> B) cv vals i,
  nth_error (cycle_stat_samples f cv vals) i =
  option_map (fun lbl => if 0 <=? lbl then Some (f (select_cycle cv vals lbl)) else None)
             (nth_error cv i).
Proof.
  intros B f cv vals i. unfold cycle_stat_samples, project_cycles_to_samples.
  rewrite project_by_spec.
  destruct (nth_error cv i) as [lbl|] eqn:Ei; [|reflexivity]. cbn [option_map].
  destruct (Z.leb_spec 0 lbl) as [L|L]; [|reflexivity].
  f_equal.
  assert (Hmax : lbl <= zmax_list (-1) cv).
  { apply zmax_list_ge. eapply nth_error_In. exact Ei. }
  unfold cycle_stat. rewrite nth_error_map_seq0 by (unfold ncycles; lia).
  rewrite Z2Nat.id by exact L. reflexivity.
Qed.

(* ---------- phase binning ---------------------------------------------------- *)

Lemma bin_by_phase_length : forall edges ip x,
  length (bin_by_phase edges ip x) = (length edges - 1)%nat.
Proof. intros. unfold bin_by_phase. rewrite map_length, seq_length. reflexivity. Qed.

Lemma bin_by_phase_fills : forall edges ip x b,
  StronglySorted Z.lt edges -> (b < length edges - 1)%nat ->
  nth_error (bin_by_phase edges ip x) b =
  Some (match bin_samples edges ip x b with
        | [] => None
        | sel => Some (zsum sel, Z.of_nat (length sel))
        end).
Proof.
  intros edges ip x b Hs Hb. unfold bin_by_phase.
  rewrite nth_error_map_seq0 by exact Hb. f_equal.
  unfold bin_mean, bin_samples.
  rewrite (filter_ext (fun px : Z * Z => Nat.eqb (digitize (fst px) edges) (S b))
                      (fun px : Z * Z => in_bin edges b (fst px))).
  2:{ intros px. symmetry. apply in_bin_eqb; [exact Hs|lia]. }
  destruct (map snd (filter (fun px : Z * Z => in_bin edges b (fst px)) (combine ip x)));
    reflexivity.
Qed.

Lemma bin_by_phase_v0_refuted : exists edges ip x b,
  StronglySorted Z.lt edges /\ (b < length edges - 1)%nat /\
  bin_samples edges ip x b <> [] /\
  nth_error (bin_by_phase_v0 edges ip x) b = Some None.
Proof.
  exists [0; 2; 4; 6], [1; 3; 3; 5; 7; -1], [10; 20; 30; 40; 50; 60], 2%nat.
  split; [|split; [|split]].
  - repeat (constructor; try lia).
  - cbn [length]. lia.
  - vm_compute. discriminate.
  - vm_compute. reflexivity.
Qed.

(* ---------- phase alignment (Q) ---------------------------------------------- *)
Open Scope Q_scope.

Lemma q_increasing_tail : forall a t, q_increasing (a :: t) -> q_increasing t.
Proof. intros a t H. destruct t as [|b t']; [exact I|]. destruct H as [_ H]. exact H. Qed.

Lemma q_increasing_head : forall t a j, q_increasing (a :: t) -> (j < length t)%nat ->
  a < nth j t 0.
Proof.
  induction t as [|b t' IH]; intros a j H Hj.
  - cbn [length] in Hj. lia.
  - destruct H as [Hab Ht]. destruct j as [|j'].
    + exact Hab.
    + cbn [nth]. cbn [length] in Hj. apply Qlt_trans with b; [exact Hab|].
      apply IH; [exact Ht|lia].
Qed.

Lemma q_increasing_nth : forall xs i j, q_increasing xs -> (i < j)%nat -> (j < length xs)%nat ->
  nth i xs 0 < nth j xs 0.
Proof.
  induction xs as [|a t IH]; intros i j H Hij Hj.
  - cbn [length] in Hj. lia.
  - destruct j as [|j']; [lia|]. cbn [length] in Hj.
    destruct i as [|i'].
    + cbn [nth]. apply q_increasing_head; [exact H|lia].
    + cbn [nth]. apply IH; [eapply q_increasing_tail; exact H|lia|lia].
Qed.

Lemma Qlt_diff_nonzero : forall p q : Q, p < q -> ~ q - p == 0.
Proof.
  intros p q H E. apply Qlt_minus_iff in H. unfold Qminus in E. rewrite E in H.
  exact (Qlt_irrefl 0 H).
Qed.

Lemma interp_alg : forall xl xh yl yh a b g : Q,
  ~ xh - xl == 0 -> yh == a * xh + b -> yl == a * xl + b ->
  (yh - yl) / (xh - xl) * (g - xl) + yl == a * g + b.
Proof.
  intros xl xh yl yh a b g Hnz Hh Hl. rewrite Hh, Hl. field. exact Hnz.
Qed.

Lemma phase_align_linear : forall (xs ys : list Q) (a b g : Q),
  q_increasing xs -> (2 <= length xs)%nat -> length ys = length xs ->
  (forall i, (i < length xs)%nat -> (nth i ys 0 == a * nth i xs 0 + b)%Q) ->
  (interp_linear xs ys g == a * g + b)%Q.
Proof.
  intros xs ys a b g Hinc Hlen Hys Hlin. unfold interp_linear. cbv zeta.
  set (hi := clip_nat 1 (length xs - 1) (searchsorted_left xs g)).
  assert (Hhi : (1 <= hi /\ hi < length xs)%nat) by (unfold hi, clip_nat; lia).
  apply interp_alg.
  - apply Qlt_diff_nonzero. apply q_increasing_nth; [exact Hinc|lia|lia].
  - apply Hlin. lia.
  - apply Hlin. lia.
Qed.

Lemma searchsorted_left_knot : forall xs i, q_increasing xs -> (i < length xs)%nat ->
  searchsorted_left xs (nth i xs 0) = i.
Proof.
  induction xs as [|a t IH]; intros i H Hi.
  - cbn [length] in Hi. lia.
  - cbn [length] in Hi. destruct i as [|i'].
    + cbn [nth searchsorted_left]. destruct (Qlt_le_dec a a) as [L|L]; [|reflexivity].
      exfalso. exact (Qlt_irrefl a L).
    + cbn [nth searchsorted_left].
      assert (Hlt : a < nth i' t 0) by (apply q_increasing_head; [exact H|lia]).
      destruct (Qlt_le_dec a (nth i' t 0)) as [L|L].
      * f_equal. apply IH; [eapply q_increasing_tail; exact H|lia].
      * exfalso. exact (Qlt_not_le _ _ Hlt L).
Qed.

Lemma interp_hits_knots : forall (xs ys : list Q) i,
  q_increasing xs -> (2 <= length xs)%nat -> (i < length xs)%nat ->
  (interp_linear xs ys (nth i xs 0) == nth i ys 0)%Q.
Proof.
  intros xs ys i Hinc Hlen Hi. unfold interp_linear. cbv zeta.
  rewrite searchsorted_left_knot by assumption.
  destruct i as [|i'].
  - replace (clip_nat 1 (length xs - 1) 0) with 1%nat by (unfold clip_nat; lia).
    cbn [Nat.sub].
    assert (Hnz : ~ nth 1 xs 0 - nth 0 xs 0 == 0).
    { apply Qlt_diff_nonzero. apply q_increasing_nth; [exact Hinc|lia|lia]. }
    field. exact Hnz.
  - replace (clip_nat 1 (length xs - 1) (S i')) with (S i') by (unfold clip_nat; lia).
    replace (S i' - 1)%nat with i' by lia.
    assert (Hnz : ~ nth (S i') xs 0 - nth i' xs 0 == 0).
    { apply Qlt_diff_nonzero. apply q_increasing_nth; [exact Hinc|lia|lia]. }
    field. exact Hnz.
Qed.

Close Scope Q_scope.

Lemma c14_premises_hold :
  cycle_stat zsum [-1; 0; 0; 1; -1; 1; 0] [5; 6; 7; 8; 9; 10; 11] = [24; 18] /\
  bin_by_phase [0; 2; 4; 6] [1; 3; 3; 5; 7; -1] [10; 20; 30; 40; 50; 60] = [Some (10, 1); Some (50, 2); Some (40, 1)] /\
  q_increasing [1 # 4; 1 # 2; 3 # 2]%Q.
Proof.
  split; [vm_compute; reflexivity|]. split; [vm_compute; reflexivity|].
  cbn [q_increasing]. unfold Qlt. cbn. lia.
Qed.
