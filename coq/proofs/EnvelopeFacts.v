(* Facts about model/Envelope.v: interp_envelope over the padded extrema with the interpolant as an oracle,
   and the concrete envelope pair under the abstract sift of model/SiftCore.v. *)
From Coq Require Import ZArith List Bool Lia Arith Sorted.
From EmdV Require Import lib.NpLite model.Extrema model.SiftCore model.Envelope proofs.ExtremaFacts proofs.SiftCoreFacts.
Import ListNotations.
Open Scope Z_scope.

(* ---- the sample grid as a list -------------------------------------------------------------- *)
Lemma zrange0_length : forall n : nat, length (zrange 0 (Z.of_nat n)) = n.
Proof. intros n. unfold zrange. rewrite map_length, seq_length. lia. Qed.

Lemma zrange0_nth_error : forall (n k : nat), (k < n)%nat ->
  nth_error (zrange 0 (Z.of_nat n)) k = Some (Z.of_nat k).
Proof.
  intros n k Hk. unfold zrange. rewrite nth_error_map.
  assert (Hl : (k < length (seq 0 (Z.to_nat (Z.of_nat n - 0))))%nat) by (rewrite seq_length; lia).
  rewrite (nth_error_nth' _ 0%nat Hl). rewrite seq_nth by lia. cbn [option_map Nat.add]. f_equal.
Qed.

Lemma env_grid_length : forall L N g, env_grid L N = Some g -> Z.of_nat (length g) = N.
Proof.
  intros L N g H. unfold env_grid in H. cbv zeta in H.
  match type of H with (if ?c then _ else _) = _ => destruct c eqn:Eq end; [|discriminate H].
  injection H as <-. apply Z.eqb_eq. exact Eq.
Qed.

Section EnvelopeFacts.
  Variable A : Type.
  Variable inj : Z -> A.
  Variable interp : list Z -> list Z -> Z -> A.

  Lemma envelope_is_interpolant_on_grid : forall x p m L M, (1 <= p)%nat ->
    get_padded_extrema x p m = Padded L M ->
    envelope A interp x p m = Some (map (interp L M) (zrange 0 (Z.of_nat (length x)))) /\
    (forall k, (k < length x)%nat ->
       nth_error (map (interp L M) (zrange 0 (Z.of_nat (length x)))) k = Some (interp L M (Z.of_nat k))).
  Proof.
    intros x p m L M Hp H. split.
    - unfold envelope. rewrite H. rewrite (envelope_on_sample_grid x p m L M Hp H). reflexivity.
    - intros k Hk. rewrite nth_error_map, (zrange0_nth_error _ _ Hk). reflexivity.
  Qed.

  Lemma envelope_none_iff : forall x p m, (1 <= p)%nat ->
    (envelope A interp x p m = None <-> (length (fst (extrema m x)) <= 1)%nat).
  Proof.
    intros x p m Hp.
    destruct (gpe_cases x p m) as [[H1 H2]|[H1 (L & M & k & H2 & _)]].
    - unfold envelope. rewrite H2. split; intros _; [exact H1|reflexivity].
    - destruct (envelope_is_interpolant_on_grid x p m L M Hp H2) as [E _]. rewrite E.
      split; [discriminate|lia].
  Qed.

  Lemma envelope_length : forall x p m e, envelope A interp x p m = Some e -> length e = length x.
  Proof.
    intros x p m e H. unfold envelope in H.
    destruct (get_padded_extrema x p m) as [|L M|]; try discriminate H.
    destruct (env_grid L (Z.of_nat (length x))) as [g|] eqn:E; [|discriminate H].
    injection H as <-. rewrite map_length. apply env_grid_length in E. lia.
  Qed.

  Lemma envelope_through_extrema : forall x p m e i,
    (forall L M j t v, StronglySorted Z.lt L -> length L = length M ->
        nth_error L j = Some t -> nth_error M j = Some v -> interp L M t = inj v) ->
    (1 <= p)%nat -> envelope A interp x p m = Some e -> In i (fst (extrema m x)) ->
    nth_error e i = Some (inj (match m with AbsPeaks => Z.abs (nth i x 0) | _ => nth i x 0 end)).
  Proof.
    intros x p m e i Hc Hp He Hi.
    unfold envelope in He.
    destruct (get_padded_extrema x p m) as [|L M|] eqn:G; try discriminate He.
    rewrite (envelope_on_sample_grid x p m L M Hp G) in He. injection He as <-.
    destruct (extrema_locs_bounds m x i Hi) as [Hi1 Hi2].
    assert (Hix : (i < length x)%nat) by lia.
    rewrite nth_error_map, (zrange0_nth_error _ _ Hix). cbn [option_map]. f_equal.
    destruct (pad_interior x p m L M G) as (Lp & Rp & EL & Hlen & EM).
    destruct (In_nth_error _ _ Hi) as [j Hj].
    assert (Hjl : (j < length (fst (extrema m x)))%nat).
    { apply nth_error_Some. rewrite Hj. discriminate. }
    apply (Hc L M (length Lp + j)%nat).
    - apply (pad_strict_sorted x p m L M G).
    - rewrite EL, EM. rewrite !app_length, map_length, !repeat_length, extrema_mags_length. lia.
    - rewrite EL. rewrite nth_error_app2 by lia.
      replace (length Lp + j - length Lp)%nat with j by lia.
      rewrite nth_error_app1 by (rewrite map_length; exact Hjl).
      rewrite nth_error_map, Hj. reflexivity.
    - rewrite EM. rewrite nth_error_app2 by (rewrite repeat_length; lia).
      rewrite repeat_length.
      replace (length Lp + j - length Lp)%nat with j by lia.
      rewrite nth_error_app1 by (rewrite extrema_mags_length; exact Hjl).
      rewrite extrema_mags_spec, nth_error_map, Hj. reflexivity.
  Qed.
End EnvelopeFacts.

(* ---- the concrete envelope pair ------------------------------------------------------------- *)
Lemma no_envelope_pair_iff : forall (A : Type) (interp : list Z -> list Z -> Z -> A) p x, (1 <= p)%nat ->
  (envelope_pair A interp p x = None <->
   (length (find_maxima x) <= 1)%nat \/ (length (find_maxima (map Z.opp x)) <= 1)%nat).
Proof.
  intros A interp p x Hp. unfold envelope_pair.
  assert (H1 := envelope_none_iff A interp x p Peaks Hp).
  assert (H2 := envelope_none_iff A interp x p Troughs Hp).
  change (fst (extrema Peaks x)) with (find_maxima x) in H1.
  change (fst (extrema Troughs x)) with (find_maxima (map Z.opp x)) in H2.
  destruct (envelope A interp x p Peaks) as [u|]; destruct (envelope A interp x p Troughs) as [l|].
  - split; [discriminate|]. intros [H|H]; [apply H1 in H|apply H2 in H]; discriminate H.
  - split; intros _; [right; apply H2|]; reflexivity.
  - split; intros _; [left; apply H1|]; reflexivity.
  - split; intros _; [left; apply H1|]; reflexivity.
Qed.

Lemma concrete_sift_final_nonoscillatory :
  forall (interp : list Z -> list Z -> Z -> Z) p vzero vadd vsub vstep vavg stop_sd stop_ril energy method max_iters small
         fuel cap X imfs e,
  (1 <= p)%nat -> (method = Fixed -> (1 <= max_iters)%nat) ->
  peel_loop (list Z) vzero vadd vsub small
            (fun _ _ => get_next_imf (list Z) vsub vstep vavg (envelope_pair Z interp p) stop_sd stop_ril energy
                                     method max_iters false)
            fuel cap X [] = (imfs, e) ->
  flag_stop e = true ->
  exists init last_, imfs = init ++ [last_] /\
    ((length (find_maxima last_) <= 1)%nat \/ (length (find_maxima (map Z.opp last_)) <= 1)%nat).
Proof.
  intros interp p vzero vadd vsub vstep vavg stop_sd stop_ril energy method max_iters small
         fuel cap X imfs e Hp Hr H Hf.
  destruct (sift_last_extract (list Z) vzero vadd vsub small _ fuel cap X imfs e H Hf)
    as (init & q & n & -> & He).
  cbv beta in He.
  destruct (gni_flag_contract (list Z) vsub vstep vavg (envelope_pair Z interp p) stop_sd stop_ril energy
              method max_iters _ q n Hr He) as [-> Henv].
  exists init, (residual (list Z) vzero vadd vsub X init). split; [reflexivity|].
  apply (no_envelope_pair_iff Z interp p _ Hp). exact Henv.
Qed.
