(* Proofs for property C16: the sample / cycle / subset / chain index maps of
   model/CycleMaps.v are mutually consistent.  The statements of the main
   lemmas are exactly those of props/Prop_C16.v. *)
From Coq Require Import ZArith List Bool Lia Arith Sorted.
From EmdV Require Import lib.NpLite model.CycleMaps.
Import ListNotations.
Open Scope Z_scope.

(* ---------- general list facts -------------------------------------------- *)

Lemma NoDup_singleton_char : forall (l : list nat) k,
  NoDup l -> (forall x, In x l <-> x = k) -> l = [k].
Proof.
  intros l k Hnd H.
  destruct l as [|a t].
  - exfalso. apply (proj2 (H k) eq_refl).
  - assert (a = k) as -> by (apply H; left; reflexivity).
    destruct t as [|b t']; [reflexivity|].
    exfalso. assert (b = k) as -> by (apply H; right; left; reflexivity).
    inversion Hnd as [|? ? Hnin _]. apply Hnin. left; reflexivity.
Qed.

Lemma nth_true_nth_error : forall (l : list bool) k,
  nth k l false = true -> nth_error l k = Some true.
Proof.
  intros l k H. destruct (nth_error l k) as [b|] eqn:E.
  - apply nth_error_nth with (d := false) in E. congruence.
  - apply nth_error_None in E. rewrite nth_overflow in H by exact E. discriminate.
Qed.

Lemma count_true_firstn_le : forall v k1 k2, (k1 <= k2)%nat ->
  (count_true (firstn k1 v) <= count_true (firstn k2 v))%nat.
Proof.
  induction v as [|a t IH]; intros k1 k2 H.
  - rewrite !firstn_nil. lia.
  - destruct k1 as [|k1]; [cbn [firstn count_true]; lia|].
    destruct k2 as [|k2]; [lia|].
    cbn [firstn count_true]. specialize (IH k1 k2 ltac:(lia)). lia.
Qed.

Lemma count_true_firstn_lt : forall v k1 k2, (k1 < k2)%nat ->
  nth_error v k1 = Some true ->
  (count_true (firstn k1 v) < count_true (firstn k2 v))%nat.
Proof.
  induction v as [|a t IH]; intros k1 k2 H Hn.
  - destruct k1; discriminate.
  - destruct k2 as [|k2]; [lia|].
    destruct k1 as [|k1].
    + cbn [nth_error] in Hn. injection Hn as ->. cbn [firstn count_true]. lia.
    + cbn [nth_error] in Hn. cbn [firstn count_true].
      specialize (IH k1 k2 ltac:(lia) Hn). lia.
Qed.

Lemma count_true_firstn_total : forall v k,
  nth_error v k = Some true -> (count_true (firstn k v) < count_true v)%nat.
Proof.
  intros v k H.
  assert (Hk : (k < length v)%nat) by (apply nth_error_Some; congruence).
  rewrite <- (firstn_all v) at 2. apply count_true_firstn_lt; assumption.
Qed.

Lemma existsb_positions : forall A (p : A -> bool) (l : list A) k,
  existsb (Nat.eqb k) (positions p l) =
  match nth_error l k with Some x => p x | None => false end.
Proof.
  intros A p l k. apply eq_iff_eq_true. rewrite existsb_exists. split.
  - intros [x [Hin Heq]]. apply Nat.eqb_eq in Heq. subst x.
    apply In_positions in Hin. destruct Hin as [y [Hy Hp]]. rewrite Hy. exact Hp.
  - intros H. exists k. split; [|apply Nat.eqb_refl].
    apply In_positions. destruct (nth_error l k) as [x|]; [|discriminate].
    exists x. split; [reflexivity|exact H].
Qed.

Lemma concat_opt_some : forall (A B : Type) (f : B -> option (list A)) (l : list B),
  (forall x, In x l -> exists y, f x = Some y) ->
  exists r, concat_opt (map f l) = Some r /\
            forall x y a, In x l -> f x = Some y -> In a y -> In a r.
Proof.
  intros A B f. induction l as [|b t IH]; intros H.
  - exists []. split; [reflexivity|]. intros x y a [].
  - destruct (H b (or_introl eq_refl)) as [yb Hyb].
    destruct IH as [r [Hr Hin]]. { intros x Hx. apply H. right; exact Hx. }
    exists (yb ++ r). split.
    + cbn [map concat_opt]. rewrite Hyb, Hr. reflexivity.
    + intros x y a [->|Hx] Hy Ha.
      * rewrite Hyb in Hy. injection Hy as <-. apply in_or_app; left; exact Ha.
      * apply in_or_app; right. eapply Hin; eauto.
Qed.

(* ---------- get_subset_vector --------------------------------------------- *)

Lemma subset_from_nth : forall valids c k,
  nth_error (subset_from valids c) k =
  option_map (fun b : bool => if b then c + Z.of_nat (count_true (firstn k valids)) else -1)
             (nth_error valids k).
Proof.
  induction valids as [|b t IH]; intros c k.
  - destruct k; reflexivity.
  - destruct k as [|k].
    + destruct b; cbn [subset_from nth_error option_map firstn count_true];
        [f_equal; lia | reflexivity].
    + destruct b; cbn [subset_from nth_error firstn count_true]; rewrite IH;
        destruct (nth_error t k) as [[|]|]; cbn [option_map]; try reflexivity; f_equal; lia.
Qed.

Lemma subset_from_length : forall valids c, length (subset_from valids c) = length valids.
Proof.
  induction valids as [|b t IH]; intros c; [reflexivity|].
  destruct b; cbn [subset_from length]; rewrite IH; reflexivity.
Qed.

Lemma subset_vector_spec : forall valids k,
  nth_error (get_subset_vector valids) k =
  option_map (fun b : bool => if b then Z.of_nat (count_true (firstn k valids)) else -1)
             (nth_error valids k).
Proof.
  intros valids k. unfold get_subset_vector. rewrite subset_from_nth.
  destruct (nth_error valids k) as [[|]|]; reflexivity.
Qed.

Lemma sv_length : forall valids, length (get_subset_vector valids) = length valids.
Proof. intros. apply subset_from_length. Qed.

Lemma sv_nth_valid : forall valids k s,
  nth_error (get_subset_vector valids) k = Some s -> 0 <= s ->
  nth_error valids k = Some true /\ s = Z.of_nat (count_true (firstn k valids)).
Proof.
  intros valids k s H Hs. rewrite subset_vector_spec in H.
  destruct (nth_error valids k) as [[|]|]; cbn [option_map] in H.
  - injection H as <-. split; reflexivity.
  - injection H as <-. lia.
  - discriminate.
Qed.

Lemma sv_inj : forall valids k1 k2 j,
  nth_error (get_subset_vector valids) k1 = Some j ->
  nth_error (get_subset_vector valids) k2 = Some j ->
  0 <= j -> k1 = k2.
Proof.
  intros valids k1 k2 j H1 H2 Hj.
  apply sv_nth_valid in H1; [|exact Hj]. apply sv_nth_valid in H2; [|exact Hj].
  destruct H1 as [V1 E1], H2 as [V2 E2].
  destruct (lt_eq_lt_dec k1 k2) as [[L|E]|L]; [|exact E|].
  - pose proof (count_true_firstn_lt valids k1 k2 L V1). lia.
  - pose proof (count_true_firstn_lt valids k2 k1 L V2). lia.
Qed.

Lemma subset_to_cycle_singleton : forall valids k j,
  nth_error (get_subset_vector valids) k = Some j -> 0 <= j ->
  map_subset_to_cycle (get_subset_vector valids) j = [k].
Proof.
  intros valids k j H Hj. unfold map_subset_to_cycle.
  apply NoDup_singleton_char; [apply positions_NoDup|].
  intros x. rewrite In_positions. split.
  - intros [y [Hy He]]. apply Z.eqb_eq in He. subst y. eapply sv_inj; eauto.
  - intros ->. exists j. split; [exact H|apply Z.eqb_refl].
Qed.

Lemma selected_from_nth : forall valids c i j k, 0 <= c ->
  nth_error (positions_from (fun x => -1 <? x) (subset_from valids c) i) j = Some k ->
  (i <= k)%nat /\ nth_error (subset_from valids c) (k - i) = Some (c + Z.of_nat j).
Proof.
  induction valids as [|b t IH]; intros c i j k Hc H.
  - destruct j; discriminate.
  - destruct b; cbn [subset_from positions_from] in H |- *.
    + destruct (Z.ltb_spec (-1) c) as [_|]; [|lia].
      destruct j as [|j]; cbn [nth_error] in H.
      * injection H as <-. split; [lia|]. rewrite Nat.sub_diag. cbn [nth_error]. f_equal; lia.
      * apply IH in H; [|lia]. destruct H as [Hle Hn]. split; [lia|].
        replace (k - i)%nat with (S (k - S i)) by lia. cbn [nth_error]. rewrite Hn. f_equal; lia.
    + destruct (Z.ltb_spec (-1) (-1)) as [|_]; [lia|].
      apply IH in H; [|lia]. destruct H as [Hle Hn]. split; [lia|].
      replace (k - i)%nat with (S (k - S i)) by lia. cbn [nth_error]. exact Hn.
Qed.

Lemma selected_from_length : forall valids c i, 0 <= c ->
  length (positions_from (fun x => -1 <? x) (subset_from valids c) i) = count_true valids.
Proof.
  induction valids as [|b t IH]; intros c i Hc; [reflexivity|].
  destruct b; cbn [subset_from positions_from count_true].
  - destruct (Z.ltb_spec (-1) c) as [_|]; [|lia]. cbn [length]. rewrite IH by lia. reflexivity.
  - destruct (Z.ltb_spec (-1) (-1)) as [|_]; [lia|]. rewrite IH by lia. reflexivity.
Qed.

Lemma selected_nth : forall valids j k,
  nth_error (selected_cycles (get_subset_vector valids)) j = Some k ->
  nth_error (get_subset_vector valids) k = Some (Z.of_nat j).
Proof.
  intros valids j k H. unfold selected_cycles, positions, get_subset_vector in H.
  apply selected_from_nth in H; [|lia]. destruct H as [_ H].
  rewrite Nat.sub_0_r in H. exact H.
Qed.

Lemma selected_length : forall valids,
  length (selected_cycles (get_subset_vector valids)) = count_true valids.
Proof. intros. apply selected_from_length. lia. Qed.

Lemma subset_index_exists : forall valids j, (j < count_true valids)%nat ->
  exists k, nth_error (get_subset_vector valids) k = Some (Z.of_nat j).
Proof.
  intros valids j Hj. rewrite <- selected_length in Hj.
  destruct (nth_error (selected_cycles (get_subset_vector valids)) j) as [k|] eqn:E.
  - exists k. apply selected_nth. exact E.
  - apply nth_error_None in E. lia.
Qed.

(* ---------- get_chain_vector ---------------------------------------------- *)

Lemma chain_loop_length : forall d c, length (chain_loop d c) = length d.
Proof.
  induction d as [|a t IH]; intros c; [reflexivity|]. cbn [chain_loop].
  destruct (a =? 1); [|destruct (1 <? a)]; cbn [length]; rewrite IH; reflexivity.
Qed.

Lemma zdiffs_length : forall l, length (zdiffs l) = (length l - 1)%nat.
Proof.
  induction l as [|a t IH]; [reflexivity|]. destruct t as [|b t']; [reflexivity|].
  change (zdiffs (a :: b :: t')) with ((b - a) :: zdiffs (b :: t')).
  cbn [length] in *. rewrite IH. lia.
Qed.

Lemma chain_vector_length : forall sv,
  length (get_chain_vector sv) = length (selected_cycles sv).
Proof.
  intros sv. unfold get_chain_vector. destruct (selected_cycles sv) as [|x t]; [reflexivity|].
  rewrite chain_loop_length. cbn [length]. rewrite zdiffs_length, map_length. cbn [length]. lia.
Qed.

Lemma chain_loop_step : forall inds c0 j a b ca cb,
  StronglySorted lt inds ->
  nth_error inds j = Some a -> nth_error inds (S j) = Some b ->
  nth_error (c0 :: chain_loop (zdiffs (map Z.of_nat inds)) c0) j = Some ca ->
  nth_error (c0 :: chain_loop (zdiffs (map Z.of_nat inds)) c0) (S j) = Some cb ->
  (b = S a -> cb = ca) /\ (b <> S a -> cb = ca + 1).
Proof.
  induction inds as [|x t IH]; intros c0 j a b ca cb Hs Ha Hb Hca Hcb.
  - destruct j; discriminate.
  - destruct t as [|y t'].
    + cbn [nth_error] in Hb. destruct j; discriminate.
    + inversion Hs as [|? ? Hs' Hf]; subst. inversion Hf as [|? ? Hxy _]; subst.
      change (zdiffs (map Z.of_nat (x :: y :: t')))
        with ((Z.of_nat y - Z.of_nat x) :: zdiffs (map Z.of_nat (y :: t'))) in Hca, Hcb.
      cbn [chain_loop] in Hca, Hcb.
      destruct (Z.eqb_spec (Z.of_nat y - Z.of_nat x) 1) as [E|E].
      * destruct j as [|j].
        -- cbn [nth_error] in Ha, Hb, Hca, Hcb.
           injection Ha as <-. injection Hb as <-. injection Hca as <-. injection Hcb as <-.
           split; intros; lia.
        -- cbn [nth_error] in Ha, Hb, Hca, Hcb. eapply (IH c0 j); eauto.
      * destruct (Z.ltb_spec 1 (Z.of_nat y - Z.of_nat x)) as [L|L]; [|lia].
        destruct j as [|j].
        -- cbn [nth_error] in Ha, Hb, Hca, Hcb.
           injection Ha as <-. injection Hb as <-. injection Hca as <-. injection Hcb as <-.
           split; intros; lia.
        -- cbn [nth_error] in Ha, Hb, Hca, Hcb. eapply (IH (c0 + 1) j); eauto.
Qed.

Lemma chain_of_inds_spec : forall inds : list nat, StronglySorted lt inds ->
  let chv := match inds with
             | [] => []
             | x :: t => chain_loop (1 :: zdiffs (map Z.of_nat (x :: t))) 0
             end in
  length chv = length inds /\
  (forall c, nth_error chv 0 = Some c -> c = 0) /\
  (forall j a b ca cb,
      nth_error inds j = Some a -> nth_error inds (S j) = Some b ->
      nth_error chv j = Some ca -> nth_error chv (S j) = Some cb ->
      (b = S a -> cb = ca) /\ (b <> S a -> cb = ca + 1)).
Proof.
  intros inds Hs. destruct inds as [|x t].
  - cbv zeta. split; [reflexivity|]. split.
    + intros c H. discriminate.
    + intros j a b ca cb H. destruct j; discriminate.
  - cbv zeta.
    change (chain_loop (1 :: zdiffs (map Z.of_nat (x :: t))) 0)
      with (0 :: chain_loop (zdiffs (map Z.of_nat (x :: t))) 0).
    split; [|split].
    + cbn [length]. rewrite chain_loop_length, zdiffs_length, map_length. cbn [length]. lia.
    + intros c H. cbn [nth_error] in H. congruence.
    + intros j a b ca cb Ha Hb Hca Hcb. eapply chain_loop_step; eauto.
Qed.

Lemma chain_vector_spec : forall sv,
  let inds := selected_cycles sv in
  let chv := get_chain_vector sv in
  length chv = length inds /\
  (forall c, nth_error chv 0 = Some c -> c = 0) /\
  (forall j a b ca cb,
      nth_error inds j = Some a -> nth_error inds (S j) = Some b ->
      nth_error chv j = Some ca -> nth_error chv (S j) = Some cb ->
      (b = S a -> cb = ca) /\ (b <> S a -> cb = ca + 1)).
Proof.
  intros sv.
  exact (chain_of_inds_spec (selected_cycles sv) (positions_sorted _ _ sv)).
Qed.

Lemma chv_length : forall valids,
  length (get_chain_vector (get_subset_vector valids)) = count_true valids.
Proof. intros. rewrite chain_vector_length. apply selected_length. Qed.

(* ---------- backward maps -------------------------------------------------- *)

Lemma cycle_to_samples_spec : forall cv k i,
  In i (map_cycle_to_samples cv k) <-> nth_error cv i = Some k.
Proof.
  intros cv k i. unfold map_cycle_to_samples. rewrite In_positions. split.
  - intros [x [Hx He]]. apply Z.eqb_eq in He. subst x. exact Hx.
  - intros H. exists k. split; [exact H|apply Z.eqb_refl].
Qed.

(* ---------- forward maps --------------------------------------------------- *)

Lemma cycle_to_subset_val : forall valids k, (k < length valids)%nat ->
  map_cycle_to_subset (get_subset_vector valids) (Z.of_nat k) =
  if nth k valids false then FVal (Z.of_nat (count_true (firstn k valids))) else FNone.
Proof.
  intros valids k Hk. unfold map_cycle_to_subset.
  rewrite py_index_nonneg by lia. rewrite Nat2Z.id.
  rewrite subset_vector_spec.
  rewrite (nth_error_nth' valids false Hk). cbn [option_map].
  destruct (nth k valids false).
  - destruct (Z.ltb_spec (-1) (Z.of_nat (count_true (firstn k valids)))); [reflexivity|lia].
  - reflexivity.
Qed.

Lemma subset_val_lt_chv : forall valids k, nth k valids false = true ->
  0 <= Z.of_nat (count_true (firstn k valids))
    < Z.of_nat (length (get_chain_vector (get_subset_vector valids))).
Proof.
  intros valids k H. rewrite chv_length. split; [lia|].
  apply Nat2Z.inj_lt. apply count_true_firstn_total. apply nth_true_nth_error. exact H.
Qed.

Lemma subset_to_chain_defined : forall chv s, 0 <= s < Z.of_nat (length chv) ->
  exists c, map_subset_to_chain chv s = FVal c.
Proof.
  intros chv s Hs. unfold map_subset_to_chain. rewrite py_index_nonneg by lia.
  destruct (nth_error chv (Z.to_nat s)) as [c|] eqn:E; [exists c; reflexivity|].
  apply nth_error_None in E. lia.
Qed.

Lemma wf_labels_nth : forall cv n i c,
  wf_labels cv n -> nth_error cv i = Some c -> -1 <= c < Z.of_nat n.
Proof.
  intros cv n i c Hwf Hi. unfold wf_labels in Hwf. rewrite Forall_forall in Hwf.
  apply Hwf. eapply nth_error_In; eauto.
Qed.

Lemma sample_to_subset_spec : forall cv valids i c,
  wf_labels cv (length valids) -> nth_error cv i = Some c ->
  map_sample_to_subset (get_subset_vector valids) cv i =
    if c <? 0 then FNone
    else if nth (Z.to_nat c) valids false
         then FVal (Z.of_nat (count_true (firstn (Z.to_nat c) valids)))
         else FNone.
Proof.
  intros cv valids i c Hwf Hi. unfold map_sample_to_subset. rewrite Hi.
  destruct (Z.ltb_spec c 0) as [Hc|Hc]; [reflexivity|].
  pose proof (wf_labels_nth _ _ _ _ Hwf Hi) as Hr.
  replace (map_cycle_to_subset (get_subset_vector valids) c)
    with (map_cycle_to_subset (get_subset_vector valids) (Z.of_nat (Z.to_nat c)))
    by (rewrite Z2Nat.id by lia; reflexivity).
  apply cycle_to_subset_val. lia.
Qed.

Lemma sample_to_chain_none_iff : forall cv valids i,
  let sv := get_subset_vector valids in
  let chv := get_chain_vector sv in
  wf_labels cv (length valids) -> (i < length cv)%nat ->
  map_sample_to_chain chv sv cv i <> FErr /\
  (map_sample_to_chain chv sv cv i = FNone <-> map_sample_to_subset sv cv i = FNone).
Proof.
  intros cv valids i sv chv Hwf Hi.
  destruct (nth_error cv i) as [c|] eqn:Ec; [|apply nth_error_None in Ec; lia].
  unfold map_sample_to_chain.
  pose proof (sample_to_subset_spec cv valids i c Hwf Ec) as Hs. fold sv in Hs. rewrite Hs.
  destruct (c <? 0); [split; [discriminate|tauto]|].
  destruct (nth (Z.to_nat c) valids false) eqn:Eb; [|split; [discriminate|tauto]].
  destruct (subset_to_chain_defined chv
              (Z.of_nat (count_true (firstn (Z.to_nat c) valids)))) as [c' Hc'].
  { apply subset_val_lt_chv. exact Eb. }
  rewrite Hc'. split; [discriminate|]. split; discriminate.
Qed.

(* ---------- round trips ---------------------------------------------------- *)

Lemma sample_cycle_roundtrip : forall cv i k,
  map_sample_to_cycle cv i = FVal k -> In i (map_cycle_to_samples cv k).
Proof.
  intros cv i k H. unfold map_sample_to_cycle in H.
  destruct (nth_error cv i) as [c|] eqn:E; [|discriminate].
  injection H as <-. apply cycle_to_samples_spec. exact E.
Qed.

Lemma cycle_to_subset_inv : forall sv c j, 0 <= c ->
  map_cycle_to_subset sv c = FVal j ->
  nth_error sv (Z.to_nat c) = Some j /\ 0 <= j.
Proof.
  intros sv c j Hc H. unfold map_cycle_to_subset in H.
  rewrite py_index_nonneg in H by exact Hc.
  destruct (nth_error sv (Z.to_nat c)) as [s|]; [|discriminate].
  destruct (Z.ltb_spec (-1) s) as [L|L]; [|discriminate].
  injection H as <-. split; [reflexivity|lia].
Qed.

Lemma sample_to_subset_inv : forall sv cv i j,
  map_sample_to_subset sv cv i = FVal j ->
  exists c, nth_error cv i = Some c /\ 0 <= c /\
            nth_error sv (Z.to_nat c) = Some j /\ 0 <= j.
Proof.
  intros sv cv i j H. unfold map_sample_to_subset in H.
  destruct (nth_error cv i) as [c|]; [|discriminate].
  destruct (Z.ltb_spec c 0) as [L|L]; [discriminate|].
  apply cycle_to_subset_inv in H; [|exact L]. destruct H as [H1 H2].
  exists c. auto.
Qed.

Lemma subset_to_chain_inv : forall chv s c, 0 <= s ->
  map_subset_to_chain chv s = FVal c -> nth_error chv (Z.to_nat s) = Some c.
Proof.
  intros chv s c Hs H. unfold map_subset_to_chain in H.
  rewrite py_index_nonneg in H by exact Hs.
  destruct (nth_error chv (Z.to_nat s)) as [c'|]; [|discriminate].
  injection H as <-. reflexivity.
Qed.

Lemma subset_to_sample_val : forall valids cv k j,
  nth_error (get_subset_vector valids) k = Some j -> 0 <= j ->
  map_subset_to_sample (get_subset_vector valids) cv j =
  Some (map_cycle_to_samples cv (Z.of_nat k)).
Proof.
  intros valids cv k j H Hj. unfold map_subset_to_sample.
  rewrite (subset_to_cycle_singleton valids k j H Hj). reflexivity.
Qed.

Lemma sample_subset_roundtrip : forall cv valids i j,
  let sv := get_subset_vector valids in
  wf_labels cv (length valids) ->
  map_sample_to_subset sv cv i = FVal j ->
  exists l, map_subset_to_sample sv cv j = Some l /\ In i l.
Proof.
  intros cv valids i j sv _ H.
  apply sample_to_subset_inv in H. destruct H as [c [Hc [Hc0 [Hs Hj]]]].
  exists (map_cycle_to_samples cv (Z.of_nat (Z.to_nat c))). split.
  - apply subset_to_sample_val; assumption.
  - apply cycle_to_samples_spec. rewrite Z2Nat.id by exact Hc0. exact Hc.
Qed.

Lemma chain_to_samples_some : forall cv valids c,
  let sv := get_subset_vector valids in
  let chv := get_chain_vector sv in
  exists r, map_chain_to_samples chv sv cv c = Some r /\
    forall j y a, In j (map_chain_to_subset chv c) ->
      map_subset_to_sample sv cv (Z.of_nat j) = Some y -> In a y -> In a r.
Proof.
  intros cv valids c sv chv. unfold map_chain_to_samples.
  apply (concat_opt_some nat nat (fun j => map_subset_to_sample sv cv (Z.of_nat j))).
  intros j Hj. unfold map_chain_to_subset in Hj. apply In_positions in Hj.
  destruct Hj as [x [Hx _]].
  assert (Hlt : (j < count_true valids)%nat).
  { unfold chv, sv in Hx. rewrite <- chv_length. apply nth_error_Some. congruence. }
  destruct (subset_index_exists valids j Hlt) as [k Hk].
  exists (map_cycle_to_samples cv (Z.of_nat k)).
  apply subset_to_sample_val; [exact Hk|lia].
Qed.

Lemma sample_chain_roundtrip : forall cv valids i c,
  let sv := get_subset_vector valids in
  let chv := get_chain_vector sv in
  wf_labels cv (length valids) ->
  map_sample_to_chain chv sv cv i = FVal c ->
  exists l, map_chain_to_samples chv sv cv c = Some l /\ In i l.
Proof.
  intros cv valids i c sv chv _ H. unfold map_sample_to_chain in H.
  destruct (map_sample_to_subset sv cv i) as [|s|] eqn:Es; try discriminate.
  apply sample_to_subset_inv in Es. destruct Es as [cy [Hcy [Hcy0 [Hs Hs0]]]].
  apply subset_to_chain_inv in H; [|exact Hs0].
  destruct (chain_to_samples_some cv valids c) as [r [Hr Hin]].
  fold sv in Hr, Hin. fold chv in Hr, Hin.
  exists r. split; [exact Hr|].
  apply (Hin (Z.to_nat s) (map_cycle_to_samples cv (Z.of_nat (Z.to_nat cy)))).
  - unfold map_chain_to_subset. apply In_positions. exists c. split; [exact H|apply Z.eqb_refl].
  - rewrite Z2Nat.id by exact Hs0. apply subset_to_sample_val; assumption.
  - apply cycle_to_samples_spec. rewrite Z2Nat.id by exact Hcy0. exact Hcy.
Qed.

(* ---------- definedness ---------------------------------------------------- *)

Lemma maps_defined : forall cv valids,
  let sv := get_subset_vector valids in
  let chv := get_chain_vector sv in
  wf_labels cv (length valids) ->
  (forall i, (i < length cv)%nat ->
     map_sample_to_cycle cv i <> FErr /\ map_sample_to_subset sv cv i <> FErr /\
     map_sample_to_chain chv sv cv i <> FErr) /\
  (forall k, (k < length valids)%nat ->
     map_cycle_to_subset sv (Z.of_nat k) <> FErr /\ map_cycle_to_chain chv sv (Z.of_nat k) <> FErr) /\
  (forall j, (j < length chv)%nat ->
     map_subset_to_chain chv (Z.of_nat j) <> FErr /\
     (exists k, map_subset_to_cycle sv (Z.of_nat j) = [k]) /\
     map_subset_to_sample sv cv (Z.of_nat j) <> None) /\
  (forall c, map_chain_to_samples chv sv cv c <> None).
Proof.
  intros cv valids sv chv Hwf. split; [|split; [|split]].
  - intros i Hi.
    destruct (nth_error cv i) as [c|] eqn:Ec; [|apply nth_error_None in Ec; lia].
    split; [|split].
    + unfold map_sample_to_cycle. rewrite Ec. discriminate.
    + unfold sv. rewrite (sample_to_subset_spec cv valids i c Hwf Ec).
      destruct (c <? 0); [discriminate|].
      destruct (nth (Z.to_nat c) valids false); discriminate.
    + apply (sample_to_chain_none_iff cv valids i Hwf Hi).
  - intros k Hk. unfold map_cycle_to_chain. unfold sv at 1 2.
    rewrite (cycle_to_subset_val valids k Hk).
    destruct (nth k valids false) eqn:Eb; [|split; discriminate].
    split; [discriminate|].
    destruct (subset_to_chain_defined chv (Z.of_nat (count_true (firstn k valids))))
      as [c' Hc'].
    { apply subset_val_lt_chv. exact Eb. }
    rewrite Hc'. discriminate.
  - intros j Hj.
    assert (Hlt : (j < count_true valids)%nat).
    { unfold chv, sv in Hj. rewrite chv_length in Hj. exact Hj. }
    destruct (subset_index_exists valids j Hlt) as [k Hk].
    split; [|split].
    + destruct (subset_to_chain_defined chv (Z.of_nat j)) as [c' Hc']; [lia|].
      rewrite Hc'. discriminate.
    + exists k. apply subset_to_cycle_singleton; [exact Hk|lia].
    + unfold sv. rewrite (subset_to_sample_val valids cv k (Z.of_nat j) Hk) by lia. discriminate.
  - intros c. destruct (chain_to_samples_some cv valids c) as [r [Hr _]].
    fold sv in Hr. fold chv in Hr. rewrite Hr. discriminate.
Qed.

Lemma chain_to_cycle_spec : forall valids c k,
  let sv := get_subset_vector valids in
  let chv := get_chain_vector sv in
  (k < length valids)%nat ->
  (In k (map_chain_to_cycle chv sv c) <-> map_cycle_to_chain chv sv (Z.of_nat k) = FVal c).
Proof.
  intros valids c k sv chv Hk. unfold map_chain_to_cycle. rewrite in_flat_map. split.
  - intros [j [Hj Hkj]]. unfold map_chain_to_subset in Hj. unfold map_subset_to_cycle in Hkj.
    apply In_positions in Hj. destruct Hj as [x [Hx Ex]]. apply Z.eqb_eq in Ex. subst x.
    apply In_positions in Hkj. destruct Hkj as [y [Hy Ey]]. apply Z.eqb_eq in Ey. subst y.
    unfold map_cycle_to_chain, map_cycle_to_subset.
    rewrite py_index_nonneg by lia. rewrite Nat2Z.id, Hy.
    destruct (Z.ltb_spec (-1) (Z.of_nat j)) as [_|]; [|lia].
    unfold map_subset_to_chain. rewrite py_index_nonneg by lia. rewrite Nat2Z.id, Hx.
    reflexivity.
  - intros H. unfold map_cycle_to_chain in H.
    destruct (map_cycle_to_subset sv (Z.of_nat k)) as [|s|] eqn:Es; try discriminate.
    apply cycle_to_subset_inv in Es; [|lia]. destruct Es as [Hs Hs0].
    rewrite Nat2Z.id in Hs.
    apply subset_to_chain_inv in H; [|exact Hs0].
    exists (Z.to_nat s). split.
    + unfold map_chain_to_subset. apply In_positions. exists c. split; [exact H|apply Z.eqb_refl].
    + unfold map_subset_to_cycle. apply In_positions. exists s. split; [exact Hs|].
      rewrite Z2Nat.id by exact Hs0. apply Z.eqb_refl.
Qed.

(* ---------- projections ---------------------------------------------------- *)

Lemma assign_at_length : forall A (out : list A) inds v i,
  length (assign_at out inds v i) = length out.
Proof.
  induction out as [|x t IH]; intros inds v i; [reflexivity|].
  cbn [assign_at length]. rewrite IH. reflexivity.
Qed.

Lemma assign_at_nth : forall A (out : list A) inds v i k,
  nth_error (assign_at out inds v i) k =
  option_map (fun x => if existsb (Nat.eqb (i + k)) inds then v else x) (nth_error out k).
Proof.
  induction out as [|x t IH]; intros inds v i k.
  - destruct k; reflexivity.
  - cbn [assign_at]. destruct k as [|k]; cbn [nth_error option_map].
    + rewrite Nat.add_0_r. reflexivity.
    + rewrite IH. replace (S i + k)%nat with (i + S k)%nat by lia. reflexivity.
Qed.

Lemma project_loop_nth : forall A (vect : list Z) (vals : list A) ii out k,
  length out = length vect ->
  nth_error (project_loop vect vals ii out) k =
  match nth_error vect k with
  | Some lbl =>
      if (Z.of_nat ii <=? lbl) && (lbl <? Z.of_nat ii + Z.of_nat (length vals))
      then Some (nth_error vals (Z.to_nat lbl - ii))
      else nth_error out k
  | None => None
  end.
Proof.
  intros A vect. induction vals as [|v t IH]; intros ii out k Hlen.
  - cbn [project_loop length]. destruct (nth_error vect k) as [lbl|] eqn:Ev.
    + destruct (Z.leb_spec (Z.of_nat ii) lbl);
        destruct (Z.ltb_spec lbl (Z.of_nat ii + Z.of_nat 0)); cbn [andb];
        try reflexivity; lia.
    + apply nth_error_None. apply nth_error_None in Ev. lia.
  - cbn [project_loop]. rewrite IH by (rewrite assign_at_length; exact Hlen).
    rewrite assign_at_nth. cbn [Nat.add]. rewrite existsb_positions.
    destruct (nth_error vect k) as [lbl|] eqn:Ev; [|reflexivity].
    destruct (nth_error out k) as [o|] eqn:Eo.
    2:{ apply nth_error_None in Eo.
        assert (k < length vect)%nat by (apply nth_error_Some; congruence). lia. }
    cbn [option_map length].
    destruct (Z.eqb_spec (Z.of_nat ii) lbl) as [E|E].
    + subst lbl.
      destruct (Z.leb_spec (Z.of_nat (S ii)) (Z.of_nat ii)); [lia|]. cbn [andb].
      destruct (Z.leb_spec (Z.of_nat ii) (Z.of_nat ii)); [|lia].
      destruct (Z.ltb_spec (Z.of_nat ii) (Z.of_nat ii + Z.of_nat (S (length t)))); [|lia].
      cbn [andb]. rewrite Nat2Z.id, Nat.sub_diag. reflexivity.
    + destruct (Z.leb_spec (Z.of_nat (S ii)) lbl) as [L1|L1];
      destruct (Z.ltb_spec lbl (Z.of_nat (S ii) + Z.of_nat (length t))) as [L2|L2];
      destruct (Z.leb_spec (Z.of_nat ii) lbl) as [L3|L3];
      destruct (Z.ltb_spec lbl (Z.of_nat ii + Z.of_nat (S (length t)))) as [L4|L4];
      cbn [andb]; try lia; try reflexivity.
      replace (Z.to_nat lbl - ii)%nat with (S (Z.to_nat lbl - S ii)) by lia. reflexivity.
Qed.

Lemma project_by_spec : forall (A : Type) (vect : list Z) (vals : list A) k,
  nth_error (project_by vect vals) k =
  option_map (fun lbl => if 0 <=? lbl then nth_error vals (Z.to_nat lbl) else None)
             (nth_error vect k).
Proof.
  intros A vect vals k. unfold project_by. rewrite project_loop_nth by apply map_length.
  rewrite nth_error_map.
  destruct (nth_error vect k) as [lbl|] eqn:Ev; [|reflexivity]. cbn [option_map].
  change (Z.of_nat 0) with 0.
  destruct (Z.leb_spec 0 lbl) as [L1|L1];
    destruct (Z.ltb_spec lbl (0 + Z.of_nat (length vals))) as [L2|L2]; cbn [andb];
    try reflexivity.
  - rewrite Nat.sub_0_r. reflexivity.
  - f_equal. symmetry. apply nth_error_None. lia.
Qed.

Lemma project_chain_to_cycles_spec : forall (A : Type) (vals : list A) chv sv k,
  nth_error (project_chain_to_cycles vals chv sv) k =
  option_map (fun s =>
      if 0 <=? s then
        match nth_error chv (Z.to_nat s) with
        | Some c => if 0 <=? c then nth_error vals (Z.to_nat c) else None
        | None => None
        end
      else None) (nth_error sv k).
Proof.
  intros A vals chv sv k.
  unfold project_chain_to_cycles, project_chain_to_subset, join_opt.
  rewrite nth_error_map, project_by_spec.
  destruct (nth_error sv k) as [s|]; [|reflexivity]. cbn [option_map].
  destruct (0 <=? s); [|reflexivity].
  rewrite project_by_spec.
  destruct (nth_error chv (Z.to_nat s)) as [c|]; [|reflexivity]. cbn [option_map].
  destruct (0 <=? c); [|reflexivity].
  destruct (nth_error vals (Z.to_nat c)); reflexivity.
Qed.

Lemma project_chain_to_samples_spec : forall (A : Type) (vals : list A) chv sv cv i,
  nth_error (project_chain_to_samples vals chv sv cv) i =
  option_map (fun k =>
      if 0 <=? k then
        match nth_error sv (Z.to_nat k) with
        | Some s =>
            if 0 <=? s then
              match nth_error chv (Z.to_nat s) with
              | Some c => if 0 <=? c then nth_error vals (Z.to_nat c) else None
              | None => None
              end
            else None
        | None => None
        end
      else None) (nth_error cv i).
Proof.
  intros A vals chv sv cv i.
  unfold project_chain_to_samples, join_opt.
  rewrite nth_error_map, project_by_spec.
  destruct (nth_error cv i) as [k|]; [|reflexivity]. cbn [option_map].
  destruct (0 <=? k); [|reflexivity].
  rewrite project_chain_to_cycles_spec.
  destruct (nth_error sv (Z.to_nat k)) as [s|]; [|reflexivity]. cbn [option_map].
  destruct (0 <=? s); [|reflexivity].
  destruct (nth_error chv (Z.to_nat s)) as [c|]; [|reflexivity].
  destruct (0 <=? c); [|reflexivity].
  destruct (nth_error vals (Z.to_nat c)); reflexivity.
Qed.

(* ---------- the unrepaired sample -> subset map ---------------------------- *)

Lemma map_sample_to_subset_v0_refuted : exists sv cv i,
  nth_error cv i = Some (-1) /\ map_sample_to_subset_v0 sv cv i <> FNone.
Proof.
  exists [0], [-1], 0%nat. split; [reflexivity|]. vm_compute. discriminate.
Qed.

Lemma c16_premises_hold :
  wf_labels [0; 0; -1; 1; 2; 2; -1; 3] (length [true; false; true; true]) /\
  map_sample_to_chain (get_chain_vector (get_subset_vector [true; false; true; true]))
    (get_subset_vector [true; false; true; true]) [0; 0; -1; 1; 2; 2; -1; 3] 7 = FVal 1.
Proof.
  split.
  - unfold wf_labels. cbn [length]. repeat (apply Forall_cons; [lia|]). apply Forall_nil.
  - vm_compute. reflexivity.
Qed.
