(* Proofs of the control-skeleton tie "ctrl" (statements: props/Prop_Tie_Ctrl.v; tables and models:
   model/SkelPrims_Ctrl.v; programs: gen/Gen_Skel_Ctrl.v, regenerated from emd/cycles.py on every run). *)
From Coq Require Import String List Bool Arith ZArith QArith Qabs Lia Lqa Sorted.
From EmdV Require Import lib.NpLite model.Extrema proofs.ExtremaFacts lib.PyLoop lib.PyLoopTools
                         gen.Gen_Skel_Ctrl model.SkelPrims_Ctrl.
Import ListNotations.
Open Scope string_scope.

Ltac ev :=
  cbv beta iota zeta delta
      [exec final_env eval eval_truth bind map_res truthy do_cmp do_arith do_index nat_cmp nat_arith iter_list
       upd lookup env_of assign_all cmp_name ar_name frame overlay normal_env
       try_finish try_finish_env exn_matches
       cf_prims prims_of table_lookup cf_table keys_are is_opaque0 cvec qv idx arg_index
       start_names start_env0 params_cf_start_value prog_cf_start_value
       end_names end_env0 params_cf_end_value prog_cf_end_value
       pks_names pks_env0 params_cf_peak_sample prog_cf_peak_sample
       pkv_names pkv_env0 params_cf_peak_value prog_cf_peak_value
       trs_names trs_env0 params_cf_trough_sample prog_cf_trough_sample
       trv_names trv_env0 params_cf_trough_value prog_cf_trough_value
       dz_names dz_env0 params_cf_descending_zero_sample prog_cf_descending_zero_sample
       az_names az_env0 params_cf_ascending_zero_sample prog_cf_ascending_zero_sample
       String.eqb Ascii.eqb Bool.eqb fst snd andb negb orb].
Ltac ev1 := ev; repeat (progress cbn [nth_error length Nat.eqb hd_error]; ev).
(* without nth_error: cbn would unfold [nth_error x (S d)] on a symbolic x *)
Ltac ev2 := ev; repeat (progress cbn [length Nat.eqb]; ev).

(* ================================================================================================ *)
(* 1. the eight cf_ helpers: refinement                                                             *)
(* ================================================================================================ *)
Section CfTie.
  Variable ext : extrema_oracle.
  Local Notation P := (cf_prims ext).

  Theorem skeleton_cf_start_value : forall x f,
    exec P prog_cf_start_value f (start_env0 x) = int_render (cf_start_value_model x).
  Proof.
    intros x f. ev. unfold idx, cf_start_value_model, int_render.
    destruct (nth_error x 0); reflexivity.
  Qed.

  Theorem skeleton_cf_end_value : forall x f,
    exec P prog_cf_end_value f (end_env0 x) = int_render (cf_end_value_model x).
  Proof.
    intros x f. ev. unfold cf_end_value_model, int_render.
    destruct (last_opt x); reflexivity.
  Qed.

  Theorem skeleton_cf_peak_sample : forall x b f,
    exec P prog_cf_peak_sample f (pks_env0 x b) = pick_render (cf_peak_sample_model ext b x).
  Proof.
    intros x b f. unfold cf_peak_sample_model, pick. cbv zeta.
    destruct (ext b x) as [locs pks] eqn:E. ev. rewrite E. ev.
    destruct pks as [|p pks']; cbn [length Nat.eqb]; ev; [reflexivity|].
    destruct (nth_error locs (argmax_q (p :: pks'))); reflexivity.
  Qed.

  Theorem skeleton_cf_peak_value : forall x b f,
    exec P prog_cf_peak_value f (pkv_env0 x b) = pick_render (cf_peak_value_model ext b x).
  Proof.
    intros x b f. unfold cf_peak_value_model, pick. cbv zeta.
    destruct (ext b x) as [locs pks] eqn:E. ev. rewrite E. ev.
    destruct pks as [|p pks']; cbn [length Nat.eqb]; ev; [reflexivity|].
    destruct (nth_error (p :: pks') (argmax_q (p :: pks'))); reflexivity.
  Qed.

  Theorem skeleton_cf_trough_sample : forall x b f,
    exec P prog_cf_trough_sample f (trs_env0 x b) = pick_render (cf_trough_sample_model ext b x).
  Proof.
    intros x b f. unfold cf_trough_sample_model, pick. cbv zeta.
    destruct (ext b (map Z.opp x)) as [locs trs] eqn:E. ev. rewrite E. ev.
    destruct trs as [|p trs']; cbn [map length Nat.eqb]; ev; [reflexivity|].
    destruct (nth_error locs (argmin_q (Qopp p :: map Qopp trs'))); reflexivity.
  Qed.

  Theorem skeleton_cf_trough_value : forall x b f,
    exec P prog_cf_trough_value f (trv_env0 x b) = pick_render (cf_trough_value_model ext b x).
  Proof.
    intros x b f. unfold cf_trough_value_model, pick. cbv zeta.
    destruct (ext b (map Z.opp x)) as [locs trs] eqn:E. ev. rewrite E. ev.
    destruct trs as [|p trs']; cbn [map length Nat.eqb]; ev; [reflexivity|].
    destruct (nth_error (Qopp p :: map Qopp trs') (argmin_q (Qopp p :: map Qopp trs'))); reflexivity.
  Qed.

  (* ---- zero crossings ---------------------------------------------------------------------------- *)
  (* the code's np.where(np.diff(np.sign(x)) == s)[0], first element = the model's first_cross *)
  Lemma first_cross_positions : forall s x i,
    hd_error (positions_from (fun b : bool => b) (map (fun d => (d =? s)%Z) (cdiffs (map Z.sgn x))) i)
    = first_cross s i x.
  Proof.
    intros s x. induction x as [|a t IH]; intros i; [reflexivity|].
    destruct t as [|b t']; [reflexivity|].
    change (cdiffs (map Z.sgn (a :: b :: t'))) with ((Z.sgn b - Z.sgn a)%Z :: cdiffs (map Z.sgn (b :: t'))).
    cbn [map positions_from first_cross].
    destruct (Z.sgn b - Z.sgn a =? s)%Z; [reflexivity|]. apply IH.
  Qed.

  Lemma first_cross_some : forall s x i d, first_cross s i x = Some d ->
    (i <= d)%nat /\ exists a b, nth_error x (d - i) = Some a /\ nth_error x (S (d - i)) = Some b /\
                                (Z.sgn b - Z.sgn a = s)%Z /\
                                forall j a' b', (j < d - i)%nat -> nth_error x j = Some a' -> nth_error x (S j) = Some b' ->
                                                (Z.sgn b' - Z.sgn a' <> s)%Z.
  Proof.
    intros s x. induction x as [|a t IH]; intros i d H; [discriminate|].
    destruct t as [|b t']; [discriminate|]. cbn [first_cross] in H.
    destruct (Z.eqb_spec (Z.sgn b - Z.sgn a) s) as [E|E].
    - inversion H; subst d. split; [lia|]. rewrite Nat.sub_diag. exists a, b. repeat split; try exact E.
      intros j a' b' Hj. lia.
    - destruct (IH (S i) d H) as (Hle & a0 & b0 & Ha & Hb & Hs & Hmin).
      split; [lia|]. exists a0, b0. replace (d - i)%nat with (S (d - S i)) by lia.
      repeat split; try assumption.
      intros j a' b' Hj Hja Hjb. destruct j as [|j].
      + cbn in Hja, Hjb. inversion Hja; inversion Hjb; subst. exact E.
      + apply (Hmin j a' b'); [lia|exact Hja|exact Hjb].
  Qed.

  Lemma first_cross_none : forall s x i, first_cross s i x = None ->
    forall j a b, nth_error x j = Some a -> nth_error x (S j) = Some b -> (Z.sgn b - Z.sgn a <> s)%Z.
  Proof.
    intros s x. induction x as [|a t IH]; intros i H j a0 b0 Ha Hb; [destruct j; discriminate|].
    destruct t as [|b t']; [destruct j as [|[|j]]; discriminate|]. cbn [first_cross] in H.
    destruct (Z.eqb_spec (Z.sgn b - Z.sgn a) s) as [E|E]; [discriminate|].
    destruct j as [|j].
    - cbn in Ha, Hb. inversion Ha; inversion Hb; subst. exact E.
    - apply (IH (S i) H j a0 b0); assumption.
  Qed.

  Lemma argmin_q_cons : forall x y t,
    argmin_q (x :: y :: t) = if Qle_bool x (nth (argmin_q (y :: t)) (y :: t) 0%Q) then 0%nat else S (argmin_q (y :: t)).
  Proof. reflexivity. Qed.
  Lemma argmax_q_cons : forall x y t,
    argmax_q (x :: y :: t) = if Qle_bool (nth (argmax_q (y :: t)) (y :: t) 0%Q) x then 0%nat else S (argmax_q (y :: t)).
  Proof. reflexivity. Qed.

  Lemma argmin_q_lt : forall l, l <> [] -> (argmin_q l < length l)%nat.
  Proof.
    induction l as [|x t IH]; intros H; [congruence|].
    destruct t as [|y t']; [cbn; lia|].
    rewrite argmin_q_cons. assert (H1 : (argmin_q (y :: t') < length (y :: t'))%nat) by (apply IH; discriminate).
    change (length (x :: y :: t')) with (S (length (y :: t'))).
    destruct (Qle_bool x _); lia.
  Qed.

  Lemma argmax_q_lt : forall l, l <> [] -> (argmax_q l < length l)%nat.
  Proof.
    induction l as [|x t IH]; intros H; [congruence|].
    destruct t as [|y t']; [cbn; lia|].
    rewrite argmax_q_cons. assert (H1 : (argmax_q (y :: t') < length (y :: t'))%nat) by (apply IH; discriminate).
    change (length (x :: y :: t')) with (S (length (y :: t'))).
    destruct (Qle_bool _ x); lia.
  Qed.

  Lemma linspace_z_length : forall a b n, length (linspace_z a b n) = n.
  Proof. intros. unfold linspace_z. rewrite map_length, seq_length. reflexivity. Qed.

  Lemma argmin_lin_lt : forall a b, (argmin_q (map Qabs (linspace_z a b 1000)) < 1000)%nat.
  Proof.
    intros a b.
    assert (Hl : length (map Qabs (linspace_z a b 1000)) = 1000%nat) by (rewrite map_length; apply linspace_z_length).
    rewrite <- Hl at 2. apply argmin_q_lt. intros E. rewrite E in Hl. discriminate Hl.
  Qed.

  Lemma grid_index_lt : forall a b, (grid_index a b < 1000)%nat.
  Proof. intros a b. unfold grid_index. apply argmin_lin_lt. Qed.

  Lemma abs_linspace_nonempty : forall a b, exists h t, map Qabs (linspace_z a b 1000) = h :: t.
  Proof.
    intros a b. destruct (map Qabs (linspace_z a b 1000)) as [|h t] eqn:El; [|exists h, t; reflexivity].
    apply (f_equal (@length Q)) in El. rewrite map_length, linspace_z_length in El. discriminate El.
  Qed.

  Lemma lin01_nth : forall k, (k < 1000)%nat ->
    nth_error (linspace_z (Z.of_nat 0) (Z.of_nat 1) 1000) k = Some (nth k (linspace_z 0 1 1000) 0%Q).
  Proof.
    intros k H. apply (nth_error_nth' (linspace_z 0 1 1000) 0%Q). rewrite linspace_z_length. exact H.
  Qed.

  Ltac zero_tie s :=
    intros x b f; unfold zero_sample_model; rewrite <- first_cross_positions;
    ev; unfold positions; change (Z.of_nat 2) with 2%Z;
    match goal with |- context [positions_from ?p ?l 0] =>
      let E := fresh "E" in let d := fresh "d" in let rest := fresh "rest" in
      destruct (positions_from p l 0) as [|d rest] eqn:E; ev1; [reflexivity|];
      let Hfc := fresh "Hfc" in
      assert (Hfc : first_cross s 0 x = Some d) by (rewrite <- first_cross_positions, E; reflexivity);
      let a0 := fresh "a0" in let b0 := fresh "b0" in let Ha := fresh "Ha" in let Hb := fresh "Hb" in
      destruct (first_cross_some _ _ _ _ Hfc) as (_ & a0 & b0 & Ha & Hb & _); rewrite Nat.sub_0_r in Ha, Hb;
      destruct b; ev2; [|reflexivity];
      rewrite Ha; ev2; rewrite <- (Nat.add_1_r d) in Hb; rewrite Hb; ev2; rewrite (Nat.add_1_r d) in Hb;
      rewrite (nth_error_nth x d 0%Z Ha), (nth_error_nth x (S d) 0%Z Hb);
      let h := fresh "h" in let t := fresh "t" in let El := fresh "El" in
      destruct (abs_linspace_nonempty a0 b0) as (h & t & El); rewrite El; ev2; rewrite <- El;
      rewrite (lin01_nth (argmin_q (map Qabs (linspace_z a0 b0 1000))) (argmin_lin_lt a0 b0));
      ev2; unfold zero_render, zero_val, grid_offset, grid_index, qv; reflexivity
    end.

  Theorem skeleton_cf_descending_zero_sample : forall x b f,
    exec P prog_cf_descending_zero_sample f (dz_env0 x b) = zero_render (zero_sample_model (-2) b x).
  Proof. zero_tie (-2)%Z. Qed.

  Theorem skeleton_cf_ascending_zero_sample : forall x b f,
    exec P prog_cf_ascending_zero_sample f (az_env0 x b) = zero_render (zero_sample_model 2 b x).
  Proof. zero_tie 2%Z. Qed.
End CfTie.

(* ================================================================================================ *)
(* 2. laws of the models: argmax / argmin                                                           *)
(* ================================================================================================ *)
Lemma argmax_q_max : forall l j, (j < length l)%nat -> (nth j l 0 <= nth (argmax_q l) l 0)%Q.
Proof.
  induction l as [|x t IH]; intros j Hj; [cbn in Hj; lia|].
  destruct t as [|y t'].
  - destruct j as [|j]; [apply Qle_refl|cbn in Hj; lia].
  - rewrite argmax_q_cons. remember (y :: t') as tt eqn:Et. set (m := argmax_q tt) in *.
    destruct (Qle_bool (nth m tt 0%Q) x) eqn:E.
    + destruct j as [|j]; [apply Qle_refl|]. cbn [nth]. apply Qle_bool_iff in E.
      eapply Qle_trans; [apply IH; cbn [length] in *; lia|exact E].
    + destruct j as [|j]; cbn [nth].
      * apply Qlt_le_weak, Qnot_le_lt. intros H. apply Qle_bool_iff in H. congruence.
      * apply IH. cbn [length] in *; lia.
Qed.

(* np.argmax returns the FIRST maximum: everything before it is strictly smaller *)
Lemma argmax_q_first : forall l j, (j < argmax_q l)%nat -> (nth j l 0 < nth (argmax_q l) l 0)%Q.
Proof.
  induction l as [|x t IH]; intros j Hj; [cbn in Hj; lia|].
  destruct t as [|y t']; [cbn in Hj; lia|].
  rewrite argmax_q_cons in *. remember (y :: t') as tt eqn:Et. set (m := argmax_q tt) in *.
  destruct (Qle_bool (nth m tt 0%Q) x) eqn:E; [lia|].
  assert (Hx : (x < nth m tt 0)%Q).
  { apply Qnot_le_lt. intros H. apply Qle_bool_iff in H. congruence. }
  destruct j as [|j]; cbn [nth]; [exact Hx|]. apply IH. lia.
Qed.

Lemma argmin_q_min : forall l j, (j < length l)%nat -> (nth (argmin_q l) l 0 <= nth j l 0)%Q.
Proof.
  induction l as [|x t IH]; intros j Hj; [cbn in Hj; lia|].
  destruct t as [|y t'].
  - destruct j as [|j]; [apply Qle_refl|cbn in Hj; lia].
  - rewrite argmin_q_cons. remember (y :: t') as tt eqn:Et. set (m := argmin_q tt) in *.
    destruct (Qle_bool x (nth m tt 0%Q)) eqn:E.
    + destruct j as [|j]; [apply Qle_refl|]. cbn [nth]. apply Qle_bool_iff in E.
      eapply Qle_trans; [exact E|apply IH; cbn [length] in *; lia].
    + destruct j as [|j]; cbn [nth].
      * apply Qlt_le_weak, Qnot_le_lt. intros H. apply Qle_bool_iff in H. congruence.
      * apply IH. cbn [length] in *; lia.
Qed.

Lemma argmin_q_first : forall l j, (j < argmin_q l)%nat -> (nth (argmin_q l) l 0 < nth j l 0)%Q.
Proof.
  induction l as [|x t IH]; intros j Hj; [cbn in Hj; lia|].
  destruct t as [|y t']; [cbn in Hj; lia|].
  rewrite argmin_q_cons in *. remember (y :: t') as tt eqn:Et. set (m := argmin_q tt) in *.
  destruct (Qle_bool x (nth m tt 0%Q)) eqn:E; [lia|].
  assert (Hx : (nth m tt 0 < x)%Q).
  { apply Qnot_le_lt. intros H. apply Qle_bool_iff in H. congruence. }
  destruct j as [|j]; cbn [nth]; [exact Hx|]. apply IH. lia.
Qed.

(* ---- for ANY extrema oracle: the value returned is the largest / smallest magnitude -------------- *)
Lemma pick_none : forall arg a m, pick arg a m = Ok None <-> m = [].
Proof.
  intros arg a m. unfold pick. destruct m as [|p m']; [tauto|].
  split; [|discriminate]. destruct (nth_error a (arg (p :: m'))); discriminate.
Qed.

Lemma peak_value_is_max : forall ext b x q, cf_peak_value_model ext b x = Ok (Some q) ->
  In q (snd (ext b x)) /\ forall p, In p (snd (ext b x)) -> (p <= q)%Q.
Proof.
  intros ext b x q. unfold cf_peak_value_model, pick. cbv zeta.
  destruct (snd (ext b x)) as [|p0 m] eqn:E; [discriminate|].
  destruct (nth_error (p0 :: m) (argmax_q (p0 :: m))) eqn:En; [|discriminate].
  intros H. inversion H; subst q0. split; [eapply nth_error_In; exact En|].
  intros p Hp. destruct (In_nth _ _ 0%Q Hp) as (j & Hj & Hjp).
  rewrite <- Hjp. rewrite <- (nth_error_nth _ _ 0%Q En). apply argmax_q_max. exact Hj.
Qed.

Lemma trough_value_is_min : forall ext b x q, cf_trough_value_model ext b x = Ok (Some q) ->
  In q (map Qopp (snd (ext b (map Z.opp x)))) /\
  forall p, In p (map Qopp (snd (ext b (map Z.opp x)))) -> (q <= p)%Q.
Proof.
  intros ext b x q. unfold cf_trough_value_model, pick. cbv zeta.
  destruct (map Qopp (snd (ext b (map Z.opp x)))) as [|p0 m] eqn:E; [discriminate|].
  destruct (nth_error (p0 :: m) (argmin_q (p0 :: m))) eqn:En; [|discriminate].
  intros H. inversion H; subst q0. split; [eapply nth_error_In; exact En|].
  intros p Hp. destruct (In_nth _ _ 0%Q Hp) as (j & Hj & Hjp).
  rewrite <- Hjp. rewrite <- (nth_error_nth _ _ 0%Q En). apply argmin_q_min. exact Hj.
Qed.

(* the sample returned sits at the same position of locs as the value in pks *)
Lemma peak_sample_value_same_position : forall ext b x,
  length (fst (ext b x)) = length (snd (ext b x)) ->
  match snd (ext b x) with
  | [] => cf_peak_sample_model ext b x = Ok None /\ cf_peak_value_model ext b x = Ok None
  | _ :: _ => exists k l v, (k < length (snd (ext b x)))%nat /\
               nth_error (fst (ext b x)) k = Some l /\ nth_error (snd (ext b x)) k = Some v /\
               cf_peak_sample_model ext b x = Ok (Some l) /\ cf_peak_value_model ext b x = Ok (Some v)
  end.
Proof.
  intros ext b x Hlen. unfold cf_peak_sample_model, cf_peak_value_model, pick. cbv zeta.
  destruct (snd (ext b x)) as [|p0 m] eqn:E; [split; reflexivity|].
  assert (Hk : (argmax_q (p0 :: m) < length (p0 :: m))%nat) by (apply argmax_q_lt; discriminate).
  exists (argmax_q (p0 :: m)), (nth (argmax_q (p0 :: m)) (fst (ext b x)) 0%Q), (nth (argmax_q (p0 :: m)) (p0 :: m) 0%Q).
  assert (H1 : nth_error (fst (ext b x)) (argmax_q (p0 :: m)) = Some (nth (argmax_q (p0 :: m)) (fst (ext b x)) 0%Q))
    by (apply nth_error_nth'; rewrite Hlen; exact Hk).
  assert (H2 : nth_error (p0 :: m) (argmax_q (p0 :: m)) = Some (nth (argmax_q (p0 :: m)) (p0 :: m) 0%Q))
    by (apply nth_error_nth'; exact Hk).
  rewrite H1, H2. repeat split; try reflexivity. exact Hk.
Qed.

(* ---- with the standard oracle (parabolic_extrema=False; Prop_Tie_Extrema.skeleton_find_extrema) --- *)
Lemma zq_le : forall a b, (zq a <= zq b)%Q -> (a <= b)%Z.
Proof. intros a b H. rewrite Zle_Qle. exact H. Qed.

Lemma nth_mapq : forall (f : nat -> Q) (M : list nat) k, (k < length M)%nat ->
  nth k (map f M) 0%Q = f (nth k M 0%nat).
Proof.
  intros f M k Hk. rewrite (nth_indep _ 0%Q (f 0%nat)) by (rewrite map_length; exact Hk). apply map_nth.
Qed.

(* picking in (map nq M, map (zq . g) M): the element i of M where g is largest (first such) *)
Lemma pick_std_max : forall (M : list nat) (g : nat -> Z),
  match M with
  | [] => pick argmax_q (map nq M) (map (fun i => zq (g i)) M) = Ok None /\
          pick argmax_q (map (fun i => zq (g i)) M) (map (fun i => zq (g i)) M) = Ok None
  | _ :: _ => exists i, In i M /\
          pick argmax_q (map nq M) (map (fun i => zq (g i)) M) = Ok (Some (nq i)) /\
          pick argmax_q (map (fun i => zq (g i)) M) (map (fun i => zq (g i)) M) = Ok (Some (zq (g i))) /\
          forall j, In j M -> (g j <= g i)%Z
  end.
Proof.
  intros M g. destruct M as [|m0 M']; [split; reflexivity|].
  remember (m0 :: M') as M eqn:EM.
  pose (f := fun i : nat => zq (g i)).
  assert (Hne : map f M <> []) by (subst M; discriminate).
  pose proof (argmax_q_lt (map f M) Hne) as Hk. rewrite map_length in Hk.
  exists (nth (argmax_q (map f M)) M 0%nat). split; [apply nth_In; exact Hk|].
  unfold pick. change (map (fun i => zq (g i)) M) with (map f M).
  destruct (map f M) as [|p0 pk'] eqn:Ep; [congruence|]. rewrite <- Ep in *.
  rewrite (nth_error_nth' (map nq M) 0%Q) by (rewrite map_length; exact Hk).
  rewrite (nth_error_nth' (map f M) 0%Q) by (rewrite map_length; exact Hk).
  rewrite (nth_mapq nq M _ Hk), (nth_mapq f M _ Hk).
  repeat split. intros j Hj. destruct (In_nth _ _ 0%nat Hj) as (jj & Hjj & Hnj).
  apply zq_le. rewrite <- Hnj.
  change (zq (g (nth jj M 0%nat))) with (f (nth jj M 0%nat)).
  change (zq (g (nth (argmax_q (map f M)) M 0%nat))) with (f (nth (argmax_q (map f M)) M 0%nat)).
  rewrite <- (nth_mapq f M jj Hjj), <- (nth_mapq f M _ Hk).
  apply argmax_q_max. rewrite map_length. exact Hjj.
Qed.

Lemma pick_std_min : forall (M : list nat) (g : nat -> Z),
  match M with
  | [] => pick argmin_q (map nq M) (map (fun i => zq (g i)) M) = Ok None /\
          pick argmin_q (map (fun i => zq (g i)) M) (map (fun i => zq (g i)) M) = Ok None
  | _ :: _ => exists i, In i M /\
          pick argmin_q (map nq M) (map (fun i => zq (g i)) M) = Ok (Some (nq i)) /\
          pick argmin_q (map (fun i => zq (g i)) M) (map (fun i => zq (g i)) M) = Ok (Some (zq (g i))) /\
          forall j, In j M -> (g i <= g j)%Z
  end.
Proof.
  intros M g. destruct M as [|m0 M']; [split; reflexivity|].
  remember (m0 :: M') as M eqn:EM.
  pose (f := fun i : nat => zq (g i)).
  assert (Hne : map f M <> []) by (subst M; discriminate).
  pose proof (argmin_q_lt (map f M) Hne) as Hk. rewrite map_length in Hk.
  exists (nth (argmin_q (map f M)) M 0%nat). split; [apply nth_In; exact Hk|].
  unfold pick. change (map (fun i => zq (g i)) M) with (map f M).
  destruct (map f M) as [|p0 pk'] eqn:Ep; [congruence|]. rewrite <- Ep in *.
  rewrite (nth_error_nth' (map nq M) 0%Q) by (rewrite map_length; exact Hk).
  rewrite (nth_error_nth' (map f M) 0%Q) by (rewrite map_length; exact Hk).
  rewrite (nth_mapq nq M _ Hk), (nth_mapq f M _ Hk).
  repeat split. intros j Hj. destruct (In_nth _ _ 0%nat Hj) as (jj & Hjj & Hnj).
  apply zq_le. rewrite <- Hnj.
  change (zq (g (nth jj M 0%nat))) with (f (nth jj M 0%nat)).
  change (zq (g (nth (argmin_q (map f M)) M 0%nat))) with (f (nth (argmin_q (map f M)) M 0%nat)).
  rewrite <- (nth_mapq f M jj Hjj), <- (nth_mapq f M _ Hk).
  apply argmin_q_min. rewrite map_length. exact Hjj.
Qed.

(* THE LAW a user relies on (interp=False): the peak sample is a strict interior local maximum of the cycle,
   no other strict interior local maximum is higher, cf_peak_value is the sample there; both are None exactly
   when the cycle has no strict interior local maximum. (NOT the global maximum of the cycle: see
   peak_not_global_max.) *)
Theorem cf_peak_std : forall x,
  (cf_peak_sample_model std_ext false x = Ok None /\ cf_peak_value_model std_ext false x = Ok None /\
   forall i, ~ strict_max_at x i)
  \/ exists i, strict_max_at x i /\
       cf_peak_sample_model std_ext false x = Ok (Some (nq i)) /\
       cf_peak_value_model std_ext false x = Ok (Some (zq (nth i x 0%Z))) /\
       forall j, strict_max_at x j -> (nth j x 0 <= nth i x 0)%Z.
Proof.
  intros x. unfold cf_peak_sample_model, cf_peak_value_model, std_ext. cbv zeta. cbn [fst snd].
  pose proof (pick_std_max (find_maxima x) (fun i => nth i x 0%Z)) as H.
  destruct (find_maxima x) as [|m0 M'] eqn:E.
  - left. destruct H as [H1 H2]. repeat split; try assumption.
    intros i Hi. apply find_maxima_spec in Hi. rewrite E in Hi. exact Hi.
  - right. destruct H as (i & Hi & H1 & H2 & H3). exists i. rewrite <- E in Hi.
    split; [apply find_maxima_spec; exact Hi|]. repeat split; try assumption.
    intros j Hj. apply H3. rewrite <- E. apply find_maxima_spec. exact Hj.
Qed.

Lemma opp_back : forall (x : list Z) (M : list nat),
  map Qopp (map (fun i => zq (nth i (map Z.opp x) 0%Z)) M) = map (fun i => zq (nth i x 0%Z)) M.
Proof.
  intros x M. rewrite map_map. apply map_ext. intros i.
  rewrite (nth_map0 Z.opp x i eq_refl). unfold zq, inject_Z, Qopp. cbn [Qnum Qden].
  rewrite Z.opp_involutive. reflexivity.
Qed.

Theorem cf_trough_std : forall x,
  (cf_trough_sample_model std_ext false x = Ok None /\ cf_trough_value_model std_ext false x = Ok None /\
   forall i, ~ strict_min_at x i)
  \/ exists i, strict_min_at x i /\
       cf_trough_sample_model std_ext false x = Ok (Some (nq i)) /\
       cf_trough_value_model std_ext false x = Ok (Some (zq (nth i x 0%Z))) /\
       forall j, strict_min_at x j -> (nth i x 0 <= nth j x 0)%Z.
Proof.
  intros x. unfold cf_trough_sample_model, cf_trough_value_model, std_ext. cbv zeta. cbn [fst snd].
  rewrite opp_back.
  pose proof (pick_std_min (find_maxima (map Z.opp x)) (fun i => nth i x 0%Z)) as H.
  assert (Hspec : forall i, In i (find_maxima (map Z.opp x)) <-> strict_min_at x i) by (intros i; apply (troughs_spec x i)).
  destruct (find_maxima (map Z.opp x)) as [|m0 M'] eqn:E.
  - left. destruct H as [H1 H2]. repeat split; try assumption.
    intros i Hi. apply Hspec in Hi. exact Hi.
  - right. destruct H as (i & Hi & H1 & H2 & H3). exists i.
    split; [apply Hspec; exact Hi|]. repeat split; try assumption.
    intros j Hj. apply H3. apply Hspec. exact Hj.
Qed.

(* the peak is the highest LOCAL maximum, not the maximum of the cycle: an end sample can be higher *)
Lemma peak_not_global_max :
  cf_peak_sample_model std_ext false [5; 1; 2; 1; 0]%Z = Ok (Some (nq 2)) /\
  cf_peak_value_model std_ext false [5; 1; 2; 1; 0]%Z = Ok (Some (zq 2)).
Proof. split; reflexivity. Qed.

(* ================================================================================================ *)
(* 3. laws of the models: zero crossings                                                            *)
(* ================================================================================================ *)
Lemma sgn_diff_desc : forall a c, (Z.sgn c - Z.sgn a = -2)%Z <-> (0 < a /\ c < 0)%Z.
Proof. intros a c. destruct a, c; cbn [Z.sgn]; split; intros H; try lia; destruct H; lia. Qed.
Lemma sgn_diff_asc : forall a c, (Z.sgn c - Z.sgn a = 2)%Z <-> (a < 0 /\ 0 < c)%Z.
Proof. intros a c. destruct a, c; cbn [Z.sgn]; split; intros H; try lia; destruct H; lia. Qed.

Theorem zero_sample_spec : forall s interp x,
  match zero_sample_model s interp x with
  | ZNone => forall j a c, nth_error x j = Some a -> nth_error x (S j) = Some c -> (Z.sgn c - Z.sgn a <> s)%Z
  | ZIdx d => interp = false /\ exists a c, first_crossing_at s x d a c
  | ZFrac d off => interp = true /\ exists a c, first_crossing_at s x d a c /\ off = grid_offset a c
  end.
Proof.
  intros s interp x. unfold zero_sample_model.
  destruct (first_cross s 0 x) as [d|] eqn:E.
  - destruct (first_cross_some _ _ _ _ E) as (_ & a & c & Ha & Hc & Hs & Hmin). rewrite Nat.sub_0_r in *.
    destruct interp; (split; [reflexivity|]); exists a, c.
    + split; [repeat split; assumption|]. rewrite (nth_error_nth x d 0%Z Ha), (nth_error_nth x (S d) 0%Z Hc). reflexivity.
    + repeat split; assumption.
  - intros j a c. apply (first_cross_none _ _ _ E).
Qed.

(* None exactly when no neighbouring pair has x[j] > 0 > x[j+1] (descending) / x[j] < 0 < x[j+1] (ascending);
   a crossing THROUGH an exact zero sample (1, 0, -1) is not a crossing for this code *)
Theorem desc_zero_none_iff : forall interp x,
  zero_sample_model (-2) interp x = ZNone <->
  forall j a c, nth_error x j = Some a -> nth_error x (S j) = Some c -> ~ (0 < a /\ c < 0)%Z.
Proof.
  intros interp x. pose proof (zero_sample_spec (-2) interp x) as H. split.
  - intros E. rewrite E in H. intros j a c Ha Hc Hs. apply sgn_diff_desc in Hs. exact (H j a c Ha Hc Hs).
  - intros Hn. destruct (zero_sample_model (-2) interp x) as [|d|d off]; [reflexivity| |].
    + destruct H as (_ & a & c & Ha & Hc & Hs & _). apply sgn_diff_desc in Hs. destruct (Hn d a c Ha Hc Hs).
    + destruct H as (_ & a & c & (Ha & Hc & Hs & _) & _). apply sgn_diff_desc in Hs. destruct (Hn d a c Ha Hc Hs).
Qed.

Theorem asc_zero_none_iff : forall interp x,
  zero_sample_model 2 interp x = ZNone <->
  forall j a c, nth_error x j = Some a -> nth_error x (S j) = Some c -> ~ (a < 0 /\ 0 < c)%Z.
Proof.
  intros interp x. pose proof (zero_sample_spec 2 interp x) as H. split.
  - intros E. rewrite E in H. intros j a c Ha Hc Hs. apply sgn_diff_asc in Hs. exact (H j a c Ha Hc Hs).
  - intros Hn. destruct (zero_sample_model 2 interp x) as [|d|d off]; [reflexivity| |].
    + destruct H as (_ & a & c & Ha & Hc & Hs & _). apply sgn_diff_asc in Hs. destruct (Hn d a c Ha Hc Hs).
    + destruct H as (_ & a & c & (Ha & Hc & Hs & _) & _). apply sgn_diff_asc in Hs. destruct (Hn d a c Ha Hc Hs).
Qed.

Lemma exact_zero_is_no_crossing :
  zero_sample_model (-2) false [1; 0; -1]%Z = ZNone /\ zero_sample_model 2 true [-1; 0; 1]%Z = ZNone.
Proof. split; reflexivity. Qed.

(* ---- interp=True: the grid search ---------------------------------------------------------------- *)
Lemma lin_elt_1000 : forall a c j, lin_elt a c 1000 j = Qmake (a * 999 + Z.of_nat j * (c - a)) 999.
Proof. intros a c j. unfold lin_elt. change (Z.of_nat 1000 - 1)%Z with 999%Z. reflexivity. Qed.

Lemma nth_linspace : forall a c j, (j < 1000)%nat -> nth j (linspace_z a c 1000) 0%Q = lin_elt a c 1000 j.
Proof.
  intros a c j Hj. unfold linspace_z.
  rewrite (nth_indep _ 0%Q (lin_elt a c 1000 0)) by (rewrite map_length, seq_length; exact Hj).
  rewrite map_nth. rewrite seq_nth by exact Hj. reflexivity.
Qed.

Lemma nth_abs_linspace : forall a c j, (j < 1000)%nat ->
  nth j (map Qabs (linspace_z a c 1000)) 0%Q = Qmake (Z.abs (a * 999 + Z.of_nat j * (c - a))) 999.
Proof.
  intros a c j Hj.
  rewrite (nth_indep _ 0%Q (Qabs 0)) by (rewrite map_length, linspace_z_length; exact Hj).
  rewrite map_nth, (nth_linspace a c j Hj), lin_elt_1000. reflexivity.
Qed.

(* the grid point chosen minimises |999 a + j (c - a)| over j = 0..999 *)
Lemma grid_index_minimises : forall a c j, (j < 1000)%nat ->
  (Z.abs (a * 999 + Z.of_nat (grid_index a c) * (c - a)) <= Z.abs (a * 999 + Z.of_nat j * (c - a)))%Z.
Proof.
  intros a c j Hj. pose proof (argmin_lin_lt a c) as Hk.
  assert (Hl : (j < length (map Qabs (linspace_z a c 1000)))%nat) by (rewrite map_length, linspace_z_length; exact Hj).
  pose proof (argmin_q_min (map Qabs (linspace_z a c 1000)) j Hl) as H.
  rewrite (nth_abs_linspace a c _ Hk), (nth_abs_linspace a c j Hj) in H.
  unfold grid_index. unfold Qle in H. cbn [Qnum Qden] in H. lia.
Qed.

(* the offset returned is k/999 with k the grid index: between the two samples *)
Lemma grid_offset_value : forall a c, grid_offset a c = Qmake (0 * 999 + Z.of_nat (grid_index a c) * (1 - 0)) 999.
Proof.
  intros a c. unfold grid_offset. rewrite (nth_linspace 0 1 _ (grid_index_lt a c)). apply lin_elt_1000.
Qed.

Theorem grid_offset_range : forall a c, (0 <= grid_offset a c)%Q /\ (grid_offset a c <= 1)%Q.
Proof.
  intros a c. rewrite grid_offset_value. pose proof (grid_index_lt a c) as Hk.
  unfold Qle. cbn [Qnum Qden]. lia.
Qed.

Theorem grid_offset_is_k_over_999 : forall a c, (grid_offset a c == Qmake (Z.of_nat (grid_index a c)) 999)%Q.
Proof. intros a c. rewrite grid_offset_value. unfold Qeq. cbn [Qnum Qden]. lia. Qed.

(* ACCURACY: the exact linear interpolation of the zero between (d, a) and (d+1, c) is at offset a/(a - c).
   The grid point k satisfies |999 a - k (a - c)| <= |a - c| / 2, i.e. |k/999 - a/(a - c)| <= 1/1998. *)
Lemma nearest_grid_point : forall a D, (0 < a)%Z -> (a < D)%Z ->
  exists k0, (0 <= k0 < 1000)%Z /\ (2 * Z.abs (a * 999 - k0 * D) <= D)%Z.
Proof.
  intros a D Ha HD. exists ((2 * 999 * a + D) / (2 * D))%Z.
  pose proof (Z.div_mod (2 * 999 * a + D) (2 * D) ltac:(lia)) as Hdm.
  pose proof (Z.mod_pos_bound (2 * 999 * a + D) (2 * D) ltac:(lia)) as Hr.
  set (k0 := ((2 * 999 * a + D) / (2 * D))%Z) in *. set (r := ((2 * 999 * a + D) mod (2 * D))%Z) in *.
  assert (H0 : (0 <= k0)%Z) by (apply Z.div_pos; lia).
  assert (H1 : (k0 < 1000)%Z) by (apply Z.div_lt_upper_bound; lia).
  split; [lia|]. nia.
Qed.

Lemma acc_desc_arith : forall a c K, (0 < a)%Z -> (c < 0)%Z ->
  (forall j, (j < 1000)%nat -> (Z.abs (a * 999 + K * (c - a)) <= Z.abs (a * 999 + Z.of_nat j * (c - a)))%Z) ->
  (2 * Z.abs (a * 999 - K * (a - c)) <= a - c)%Z.
Proof.
  intros a c K Ha Hc Hmin. destruct (nearest_grid_point a (a - c) Ha ltac:(lia)) as (k0 & Hk0 & Hb).
  assert (Hj : (Z.to_nat k0 < 1000)%nat) by lia.
  pose proof (Hmin (Z.to_nat k0) Hj) as Hm. rewrite Z2Nat.id in Hm by lia.
  replace (a * 999 + K * (c - a))%Z with (a * 999 - K * (a - c))%Z in Hm by ring.
  replace (a * 999 + k0 * (c - a))%Z with (a * 999 - k0 * (a - c))%Z in Hm by ring.
  lia.
Qed.

Lemma acc_asc_arith : forall a c K, (a < 0)%Z -> (0 < c)%Z ->
  (forall j, (j < 1000)%nat -> (Z.abs (a * 999 + K * (c - a)) <= Z.abs (a * 999 + Z.of_nat j * (c - a)))%Z) ->
  (2 * Z.abs (a * 999 + K * (c - a)) <= c - a)%Z.
Proof.
  intros a c K Ha Hc Hmin. destruct (nearest_grid_point (- a) (c - a) ltac:(lia) ltac:(lia)) as (k0 & Hk0 & Hb).
  assert (Hj : (Z.to_nat k0 < 1000)%nat) by lia.
  pose proof (Hmin (Z.to_nat k0) Hj) as Hm. rewrite Z2Nat.id in Hm by lia.
  replace (a * 999 + k0 * (c - a))%Z with (- (- a * 999 - k0 * (c - a)))%Z in Hm by ring.
  rewrite Z.abs_opp in Hm. lia.
Qed.

Theorem grid_accuracy_desc : forall a c, (0 < a)%Z -> (c < 0)%Z ->
  (2 * Z.abs (a * 999 - Z.of_nat (grid_index a c) * (a - c)) <= a - c)%Z.
Proof.
  intros a c Ha Hc. apply acc_desc_arith; [exact Ha|exact Hc|].
  intros j Hj. apply grid_index_minimises. exact Hj.
Qed.

Theorem grid_accuracy_asc : forall a c, (a < 0)%Z -> (0 < c)%Z ->
  (2 * Z.abs (a * 999 + Z.of_nat (grid_index a c) * (c - a)) <= c - a)%Z.
Proof.
  intros a c Ha Hc. apply acc_asc_arith; [exact Ha|exact Hc|].
  intros j Hj. apply grid_index_minimises. exact Hj.
Qed.

(* ================================================================================================ *)
(* 4. get_control_point_metrics, get_control_point_metrics_aug                                      *)
(* ================================================================================================ *)
Ltac evm :=
  cbv beta iota zeta delta
      [exec final_env eval eval_truth bind map_res truthy do_cmp do_arith do_index nat_cmp nat_arith iter_list
       upd lookup env_of assign_all cmp_name ar_name frame overlay normal_env
       try_finish try_finish_env exn_matches
       cpm_prims prims_of table_lookup cpm_table col_handler keys_are is_opaque0 xtab
       cpm_names cpm_env0 params_get_control_point_metrics prog_get_control_point_metrics
       cpa_names cpa_env0 params_get_control_point_metrics_aug prog_get_control_point_metrics_aug
       String.eqb Ascii.eqb Bool.eqb fst snd andb negb orb].

Lemma tab_col_ok : forall k rows, Forall (fun r => (k < length r)%nat) rows ->
  tab_col k (map (map KX) rows) = Ok (map (fun r => cell_at r k) rows).
Proof.
  intros k rows H. induction H as [|r t Hr Ht IH]; [reflexivity|].
  cbn [map tab_col]. rewrite nth_error_map.
  rewrite (nth_error_nth' r XNan Hr). cbn [option_map]. rewrite IH. reflexivity.
Qed.

Lemma zipx_map : forall (A : Type) f (g h : A -> xr) (l : list A),
  zipx f (map g l) (map h l) = map (fun r => f (g r) (h r)) l.
Proof. intros A f g h l. induction l as [|a t IH]; [reflexivity|]. cbn [map zipx]. rewrite IH. reflexivity. Qed.

Lemma xvec_bin_map : forall (A : Type) f (g h : A -> xr) (l : list A),
  xvec_bin f (map g l) (map h l) = Ok (VSig (CXvec (map (fun r => f (g r) (h r)) l))).
Proof. intros A f g h l. unfold xvec_bin. rewrite !map_length, Nat.eqb_refl, zipx_map. reflexivity. Qed.

Lemma Forall_lt_weaken : forall (rows : list (list xr)) n k, (k < n)%nat ->
  Forall (fun r => (n <= length r)%nat) rows -> Forall (fun r => (k < length r)%nat) rows.
Proof. intros rows n k Hk H. eapply Forall_impl; [|exact H]. cbn. intros r Hr. lia. Qed.

Theorem skeleton_get_control_point_metrics : forall rows normalise f,
  Forall (fun r => (5 <= length r)%nat) rows ->
  exec cpm_prims prog_get_control_point_metrics f (cpm_env0 rows normalise) = cpm_render normalise rows.
Proof.
  intros rows normalise f H.
  pose proof (tab_col_ok 1 rows (Forall_lt_weaken rows 5 1 ltac:(lia) H)) as H1.
  pose proof (tab_col_ok 2 rows (Forall_lt_weaken rows 5 2 ltac:(lia) H)) as H2.
  pose proof (tab_col_ok 3 rows (Forall_lt_weaken rows 5 3 ltac:(lia) H)) as H3.
  pose proof (tab_col_ok 4 rows (Forall_lt_weaken rows 5 4 ltac:(lia) H)) as H4.
  evm. repeat (progress (rewrite ?H1, ?H2, ?H3, ?H4, ?xvec_bin_map); evm).
  destruct normalise; evm; repeat (progress (rewrite ?H1, ?H2, ?H3, ?H4, ?xvec_bin_map); evm); reflexivity.
Qed.

Theorem skeleton_get_control_point_metrics_aug : forall rows f,
  Forall (fun r => (6 <= length r)%nat) rows ->
  exec cpm_prims prog_get_control_point_metrics_aug f (cpa_env0 rows) = cpa_render rows.
Proof.
  intros rows f H.
  pose proof (tab_col_ok 1 rows (Forall_lt_weaken rows 6 1 ltac:(lia) H)) as H1.
  pose proof (tab_col_ok 2 rows (Forall_lt_weaken rows 6 2 ltac:(lia) H)) as H2.
  pose proof (tab_col_ok 3 rows (Forall_lt_weaken rows 6 3 ltac:(lia) H)) as H3.
  pose proof (tab_col_ok 4 rows (Forall_lt_weaken rows 6 4 ltac:(lia) H)) as H4.
  pose proof (tab_col_ok 5 rows (Forall_lt_weaken rows 6 5 ltac:(lia) H)) as H5.
  evm. repeat (progress (rewrite ?H1, ?H2, ?H3, ?H4, ?H5, ?xvec_bin_map); evm). reflexivity.
Qed.

(* ---- the documented meaning, on a row of finite control points ----------------------------------- *)
(* (start, peak, desc, trough, end), normalise=True, end <> 0:
     p2t = (desc - (end - desc)) / end        time above zero minus time below zero, over the cycle length
     a2d = ((peak + (end - trough)) - (trough - peak)) / end    time rising minus time falling, over the length
   (start is taken to be 0: column 0 is never read) *)
Theorem metrics_row_meaning : forall s pk d t e, Qeq_bool e 0 = false ->
  p2t_row true [XQ s; XQ pk; XQ d; XQ t; XQ e] = XQ ((d + - (e + - d)) / e) /\
  a2d_row true [XQ s; XQ pk; XQ d; XQ t; XQ e] = XQ ((pk + (e + - t) + - (t + - pk)) / e) /\
  p2t_row false [XQ s; XQ pk; XQ d; XQ t; XQ e] = XQ (d + - (e + - d)) /\
  a2d_row false [XQ s; XQ pk; XQ d; XQ t; XQ e] = XQ (pk + (e + - t) + - (t + - pk)).
Proof.
  intros s pk d t e He. unfold p2t_row, a2d_row, cell_at. cbn [nth xsub xadd xopp xdiv]. rewrite He.
  repeat split; reflexivity.
Qed.

(* 0 <= desc <= end, end > 0: the normalised p2t lies in [-1, 1]; it is 0 exactly when desc = end/2 *)
Theorem p2t_bounds : forall d e : Q, (0 <= d)%Q -> (d <= e)%Q -> (0 < e)%Q ->
  (- (1) <= (d + - (e + - d)) / e)%Q /\ ((d + - (e + - d)) / e <= 1)%Q.
Proof.
  intros d e H0 H1 He. split.
  - apply Qle_shift_div_l; [exact He|]. lra.
  - apply Qle_shift_div_r; [exact He|]. lra.
Qed.

(* a nan control point (a cycle without that control point, or shorter than 5 samples) gives nan *)
Theorem metrics_row_nan : forall s e normalise,
  p2t_row normalise [s; XNan; XNan; XNan; e] = XNan /\ a2d_row normalise [s; XNan; XNan; XNan; e] = XNan.
Proof. intros s e normalise. unfold p2t_row, a2d_row, cell_at. cbn [nth]. destruct normalise, e; split; reflexivity. Qed.

(* augmented (start, asc, peak, desc, trough, end):
     p2t = (desc - asc) / (end - asc) = P / (P + T) with P = desc - asc (above zero), T = end - desc (below zero)
     a2d = peak / trough = A / (A + D) with A = peak - start, D = trough - peak, PROVIDED start = 0 (column 0 is not read) *)
Theorem metrics_aug_row_meaning : forall s a pk d t e,
  Qeq_bool (e + - a) 0 = false -> Qeq_bool t 0 = false ->
  p2t_aug_row [XQ s; XQ a; XQ pk; XQ d; XQ t; XQ e] = XQ ((d + - a) / (e + - a)) /\
  a2d_aug_row [XQ s; XQ a; XQ pk; XQ d; XQ t; XQ e] = XQ (pk / t) /\
  ((d + - a) / (e + - a) == (d - a) / ((d - a) + (e - d)))%Q /\
  (s == 0 -> pk / t == (pk - s) / ((pk - s) + (t - pk)))%Q.
Proof.
  intros s a pk d t e H1 H2. unfold p2t_aug_row, a2d_aug_row, cell_at. cbn [nth xsub xadd xopp xdiv].
  rewrite H1, H2. repeat split; try reflexivity.
  - apply Qeq_bool_neq in H1. field. intros E. apply H1. lra.
  - intros Hs. apply Qeq_bool_neq in H2. rewrite Hs. field. intros E. apply H2. lra.
Qed.

(* ================================================================================================ *)
(* 5. normalised_waveform                                                                            *)
(* ================================================================================================ *)
Section WaveTie.
  Variable F : Type.
  Variable fmean : list F -> F.
  Variable fmul_n : F -> nat -> F.
  Variable fdiv : F -> F -> F.
  Variable f2pi : F -> F.
  Variable fadd : F -> F -> F.
  Variable fzero : F.
  Variable fsin : F -> F.
  Variable flin : nat -> nat -> F.
  Local Notation PW := (nw_prims F fmean fmul_n fdiv f2pi fadd fzero fsin flin).
  Local Notation ncol := (nw_col F fmean fmul_n fdiv f2pi fadd fzero fsin).
  Local Notation phase := (phase_of F fmean fmul_n fdiv f2pi fadd fzero).

  Definition nwp_pre : list stmt := Eval cbv in firstn 2 (spine prog_normalised_waveform).
  Definition nwp_for : stmt := Eval cbv in nth 2 (spine prog_normalised_waveform) SSkip.
  Definition nwp_post : list stmt := Eval cbv in skipn 3 (spine prog_normalised_waveform).
  Definition nwp_body : stmt := Eval cbv in match nwp_for with SFor _ _ b => b | _ => SSkip end.
  Definition nwp_iter : expr := Eval cbv in match nwp_for with SFor _ it _ => it | _ => ENone end.

  Ltac evw :=
    cbv beta iota zeta delta
        [exec final_env eval eval_truth bind map_res truthy do_cmp do_arith do_index nat_cmp nat_arith iter_list
         upd lookup env_of assign_all cmp_name ar_name frame overlay normal_env
         try_finish try_finish_env exn_matches
         nw_prims prims_of table_lookup nw_table keys_are is_opaque0 range_handler range_val mcol
         nw_names nw_env0 params_normalised_waveform nwp_pre nwp_for nwp_post nwp_body nwp_iter exec_list
         String.eqb Ascii.eqb Bool.eqb fst snd andb negb orb].
  Ltac evw1 := evw; repeat (progress (cbn [Nat.eqb nth_error]; oracle_rw); evw).

  Lemma cumsum_from_length : forall l acc, length (cumsum_from F fadd acc l) = length l.
  Proof. induction l as [|x t IH]; intros acc; [reflexivity|]. cbn [cumsum_from length]. rewrite IH. reflexivity. Qed.
  Lemma cumsum_length : forall l, length (cumsum F fadd l) = length l.
  Proof. destruct l as [|x t]; [reflexivity|]. cbn [cumsum length]. rewrite cumsum_from_length. reflexivity. Qed.
  Lemma phase_length : forall col, length (phase col) = (length col + 1)%nat.
  Proof. intros col. unfold phase_of. cbn [length]. rewrite cumsum_length, !map_length. lia. Qed.
  Lemma nw_col_length : forall col, length (ncol col) = (length col + 1)%nat.
  Proof. intros col. unfold nw_col. rewrite map_length. apply phase_length. Qed.

  Variable n : nat.
  Variable cols : list (list F).
  Hypothesis Hwf : Forall (fun c => length c = n) cols.

  Definition colj (j : nat) : list F := ncol (nth j cols []).
  Definition zcol : list F := repeat fzero (n + 1).
  Definition cols_at (d : nat) : list (list F) := (map colj (seq 0 d) ++ repeat zcol (length cols - d))%list.

  Lemma cols_at_length : forall d, (d <= length cols)%nat -> length (cols_at d) = length cols.
  Proof. intros d H. unfold cols_at. rewrite app_length, map_length, seq_length, repeat_length. lia. Qed.

  Lemma set_nth_cols : forall d, (d < length cols)%nat -> set_nth d (colj d) (cols_at d) = cols_at (S d).
  Proof.
    intros d H. unfold set_nth, cols_at.
    assert (Hl : length (map colj (seq 0 d)) = d) by (rewrite map_length; apply seq_length).
    rewrite firstn_app, Hl, Nat.sub_diag, firstn_O, app_nil_r, firstn_all2 by lia.
    rewrite skipn_app, Hl, (skipn_all2 (n := S d)) by lia. cbn [app].
    replace (S d - d)%nat with 1%nat by lia.
    replace (length cols - d)%nat with (S (length cols - S d)) by lia. cbn [repeat skipn].
    rewrite seq_snoc, map_app, <- app_assoc. reflexivity.
  Qed.

  Definition nw_head (d : nat) (junk : string -> option (val (wnum F))) : env (wnum F) :=
    env_of nw_names
      (overlay [("infreq", VSig (WMat n cols)); ("nw", VSig (WMat (n + 1) (cols_at d)))] junk).

  (* one iteration, ii = d: column d of nw is written, phase is the phase of column d *)
  Lemma nw_step : forall fb d junk, (d < length cols)%nat ->
    exists e2, normal_env (exec PW nwp_body fb (upd "ii" (VNat d) (nw_head d junk))) = Some e2 /\
               e2 = nw_head (S d) (fun x => lookup x e2) /\
               lookup "phase" e2 = Some (VSig (WVecF (phase (nth d cols [])))).
  Proof.
    intros fb d junk Hd.
    assert (Hc : nth_error cols d = Some (nth d cols [])) by (apply nth_error_nth'; exact Hd).
    assert (Hlen : length (nth d cols []) = n).
    { rewrite Forall_forall in Hwf. apply Hwf. apply nth_In. exact Hd. }
    assert (Hst : (length (map fsin (phase (nth d cols []))) =? n + 1)%nat = true).
    { apply Nat.eqb_eq. rewrite map_length, phase_length, Hlen. reflexivity. }
    assert (Hlt : (d <? length (cols_at d))%nat = true) by (apply Nat.ltb_lt; rewrite cols_at_length; lia).
    unfold nw_head. eexists. split; [|split].
    - evw1. fold (phase (nth d cols [])). rewrite Hst. evw1. reflexivity.
    - evw. rewrite <- (set_nth_cols _ Hd). unfold colj, nw_col. reflexivity.
    - evw. reflexivity.
  Qed.

  Lemma nw_loop : forall fb d0, length cols = S d0 ->
    exists junk', for_loop "ii" (fun e' => exec PW nwp_body fb e') (map VNat (seq 0 (length cols))) (nw_head 0 (fun _ => None))
                  = Normal (nw_head (length cols) junk') /\
                  junk' "phase" = Some (VSig (WVecF (phase (nth d0 cols [])))).
  Proof.
    intros fb d0 Hn.
    destruct (for_loop_inv (wnum F)
                (fun done e => exists j, e = nw_head (length done) j /\
                                         forall d', length done = S d' -> j "phase" = Some (VSig (WVecF (phase (nth d' cols [])))))
                "ii" (fun e' => exec PW nwp_body fb e') (map VNat (seq 0 (length cols))) (nw_head 0 (fun _ => None)))
      as (e' & He' & (j & Hj & Hp)).
    - exists (fun _ => None). split; [reflexivity|]. intros d' H. discriminate H.
    - intros done v rest e1 Hl (j & He1 & _).
      destruct (range_val_split (length cols) done v rest Hl) as (_ & Hv & Hlt). subst v e1.
      destruct (nw_step fb (length done) j Hlt) as (e2 & H2 & He2 & Hph).
      exists e2. split; [exact H2|]. rewrite app_length, Nat.add_1_r. eexists. split; [exact He2|].
      intros d' Hd'. inversion Hd'; subst d'. exact Hph.
    - rewrite map_length, seq_length in Hj, Hp. exists j. split; [rewrite He', Hj; reflexivity|]. apply Hp. exact Hn.
  Qed.

  Lemma map_colj_all : map colj (seq 0 (length cols)) = map ncol cols.
  Proof.
    unfold colj. generalize cols as l. induction l as [|c t IH]; [reflexivity|].
    cbn [length seq map nth]. f_equal. rewrite <- seq_shift, map_map. exact IH.
  Qed.

  (* at least one column: the waveforms, and a reference sine of n + 1 points (NOT n: one more than the input) *)
  Theorem skeleton_normalised_waveform : forall f, cols <> [] ->
    exec PW prog_normalised_waveform f (nw_env0 F n cols) = nw_render F fmean fmul_n fdiv f2pi fadd fzero fsin flin n cols.
  Proof.
    intros f Hne.
    assert (Hn : exists d0, length cols = S d0) by (destruct cols; [congruence|eexists; reflexivity]).
    destruct Hn as (d0 & Hn).
    rewrite (exec_nth_split (wnum F) PW prog_normalised_waveform 2 nwp_for f _ eq_refl).
    change (firstn 2 (spine prog_normalised_waveform)) with nwp_pre.
    change (skipn 3 (spine prog_normalised_waveform)) with nwp_post.
    assert (Hpre : exec_list PW nwp_pre f (nw_env0 F n cols) = Normal (nw_head 0 (fun _ => None))).
    { unfold nw_head, cols_at. evw1. cbn [seq map app]. rewrite Nat.sub_0_r. reflexivity. }
    rewrite Hpre. unfold nwp_for. rewrite exec_for.
    assert (Hit : bind (eval PW (nw_head 0 (fun _ => None)) nwp_iter) (iter_list PW) = Ok (map VNat (seq 0 (length cols))))
      by (unfold nw_head; evw; reflexivity).
    change (ECall "range" _ _) with nwp_iter. rewrite Hit.
    destruct (nw_loop f d0 Hn) as (junk' & Hloop & Hph).
    match goal with |- context [for_loop "ii" (fun e' => exec PW ?b f e')] => change b with nwp_body end.
    rewrite Hloop.
    unfold nw_head. evw. rewrite Hph. evw1.
    unfold nw_render, cols_at. rewrite phase_length.
    assert (Hlen : length (nth d0 cols []) = n).
    { rewrite Forall_forall in Hwf. apply Hwf. apply nth_In. lia. }
    rewrite Hlen, Nat.sub_diag. cbn [repeat]. rewrite app_nil_r, map_colj_all. reflexivity.
  Qed.
End WaveTie.

(* zero columns: the loop body never runs, so `phase` is never bound and `len(phase)` reads an unbound local:
   Python raises UnboundLocalError; in the interpreter reading an unbound name is Stuck. The environment just
   before that statement has phase unbound. *)
Theorem normalised_waveform_zero_columns :
  forall (F : Type) fmean fmul_n fdiv f2pi fadd fzero fsin flin (n f : nat),
  exec (nw_prims F fmean fmul_n fdiv f2pi fadd fzero fsin flin) prog_normalised_waveform f (nw_env0 F n []) = Stuck /\
  exists e, exec_list (nw_prims F fmean fmul_n fdiv f2pi fadd fzero fsin flin)
              (firstn 3 (spine prog_normalised_waveform)) f (nw_env0 F n []) = Normal e /\
            lookup "phase" e = None.
Proof.
  intros. split; [reflexivity|]. eexists. split; reflexivity.
Qed.
