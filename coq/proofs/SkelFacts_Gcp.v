(* Control-skeleton tie "gcp" (notes/TIE_GCP.md): the refinement proof for get_control_points and the laws of its
   list-level model (model/SkelPrims_Gcp.v). *)
From Coq Require Import String List Bool Arith ZArith Lia.
From EmdV Require Import lib.PyLoop lib.PyLoopTools gen.Gen_Skel_Gcp model.SkelPrims_Gcp.
Import ListNotations.
Open Scope string_scope.

Definition gcp_pre : list stmt := Eval cbv in firstn 6 (spine prog_get_control_points).
Definition gcp_for : stmt := Eval cbv in nth 6 (spine prog_get_control_points) SSkip.
Definition gcp_post : list stmt := Eval cbv in skipn 7 (spine prog_get_control_points).
Definition gcp_body : stmt := Eval cbv in match gcp_for with SFor _ _ b => b | _ => SSkip end.
Definition gcp_iter : expr := Eval cbv in match gcp_for with SFor _ it _ => it | _ => ENone end.
Definition gcp_var : string := Eval cbv in match gcp_for with SFor x _ _ => x | _ => "" end.

Ltac ev :=
  cbv beta iota zeta delta
      [exec final_env eval eval_truth bind map_res truthy do_cmp do_arith do_index nat_cmp nat_arith iter_list
       upd lookup env_of assign_all cmp_name ar_name frame overlay normal_env
       try_finish try_finish_env exn_matches
       gcp_prims prims_of table_lookup gcp_table keys_are is_opaque0 cf_handler nan_append opt_val val_cell item_val
       cycles_obj gcp_names gcp_env0 params_get_control_points gcp_pre gcp_for gcp_post gcp_body gcp_iter gcp_var
       exec_list gmode_str is_aug
       String.eqb Ascii.eqb Bool.eqb fst snd nth_error andb negb orb].
Ltac orw :=
  repeat match goal with
         | H : _ = Some _ |- _ => rewrite H
         | H : _ = None |- _ => rewrite H
         | H : _ = true |- _ => rewrite H
         | H : _ = false |- _ => rewrite H
         | H : _ = EOk _ |- _ => rewrite H
         | H : _ = ERaise _ |- _ => rewrite H
         end.
Ltac ev1 := ev; repeat (progress (cbn [Nat.eqb]; orw); ev).

Section GcpTie.
  Variable A N : Type.
  Variable is_ndarray : bool.
  Variable ens_x : A -> eres A.
  Variable ens_cycles : eres unit.
  Variable nsamples : nat.
  Variable alen : A -> nat.
  Variable yielded : bool -> eres (list item).
  Variable gather : A -> list nat -> A.
  Variable cf_asc cf_pk cf_desc cf_tr : bool -> A -> option N.
  Local Notation V := (gval A N).
  Local Notation P := (gcp_prims A N is_ndarray ens_x ens_cycles nsamples alen yielded gather cf_asc cf_pk cf_desc cf_tr).
  Local Notation rows_of := (rows_of_item A N alen gather cf_asc cf_pk cf_desc cf_tr).
  Local Notation raw := (raw_rows A N alen gather cf_asc cf_pk cf_desc cf_tr).
  Local Notation model := (gcp_model A N is_ndarray ens_x ens_cycles nsamples alen yielded gather cf_asc cf_pk cf_desc cf_tr).
  Local Notation row1 := (the_row A N alen gather cf_asc cf_pk cf_desc cf_tr).
  Local Notation frow := (full_row A N alen cf_asc cf_pk cf_desc cf_tr).

  (* the environment at the loop head: the preamble done, `rows` appended so far *)
  Definition gcp_head (m : gmode) (interp : bool) (xv : A) (rows : list (list (cell N)))
             (junk : string -> option (val V)) : env V :=
    env_of gcp_names
      (overlay [ ("x", VSig (GArr xv)); ("cycles", cycles_obj A N (is_aug m)); ("interp", VBool interp);
                 ("mode", VStr (gmode_str m)); ("ctrl", VSig (GList rows)) ] junk).

  (* ---- the preamble ---- *)
  Lemma gcp_pre_exec : forall f x m interp,
    exec_list P gcp_pre f (gcp_env0 A N x m interp) =
    if is_ndarray && is_aug m then Raise "ValueError" else
    match ens_x x with
    | ERaise e => Raise e
    | EOk xv =>
        match ens_cycles with
        | ERaise e => Raise e
        | EOk _ => if negb (nsamples =? alen xv)%nat then Raise "ValueError"
                   else Normal (gcp_head m interp xv [] (fun _ => None))
        end
    end.
  Proof.
    intros f x m interp. unfold gcp_head.
    destruct is_ndarray eqn:Ea; destruct m; cbn [is_aug andb];
      (destruct (ens_x x) as [xv|e] eqn:Ex; [|ev1; reflexivity]);
      (destruct ens_cycles as [[]|e] eqn:Ec; [|ev1; reflexivity]);
      destruct (nsamples =? alen xv)%nat eqn:En; cbn [negb]; ev1; reflexivity.
  Qed.

  (* ---- one iteration ---- *)
  Lemma gcp_step : forall fb m interp xv rows junk it,
    exists e2, normal_env (exec P gcp_body fb (upd gcp_var (item_val A N it) (gcp_head m interp xv rows junk))) = Some e2 /\
               e2 = gcp_head m interp xv (rows ++ rows_of m interp xv it)%list (fun x => lookup x e2).
  Proof.
    intros fb m interp xv rows junk [i [inds|]]; unfold gcp_head, rows_of_item, good_row, nan_row, ncols, opt_cell;
      cbn [snd].
    - destruct (length inds <? 5)%nat eqn:El.
      + destruct m; eexists; (split; [ev1; reflexivity | ev; reflexivity]).
      + destruct m; try rewrite app_nil_r;
          destruct (cf_asc interp (gather xv inds)) eqn:E1; destruct (cf_pk interp (gather xv inds)) eqn:E2;
          destruct (cf_desc interp (gather xv inds)) eqn:E3; destruct (cf_tr interp (gather xv inds)) eqn:E4;
          eexists; (split; [ev1; reflexivity | ev; reflexivity]).
    - destruct m; eexists; (split; [ev1; reflexivity | ev; reflexivity]).
  Qed.

  (* ---- the loop: induction on the list the iterator yields ---- *)
  Lemma gcp_loop : forall fb m interp xv its rows junk,
    exists junk', for_loop gcp_var (fun e' => exec P gcp_body fb e') (map (item_val A N) its)
                           (gcp_head m interp xv rows junk)
                  = Normal (gcp_head m interp xv (rows ++ raw m interp xv its)%list junk').
  Proof.
    intros fb m interp xv its. induction its as [|it t IH]; intros rows junk.
    - exists junk. unfold raw_rows. cbn [map flat_map for_loop]. rewrite app_nil_r. reflexivity.
    - cbn [map]. rewrite for_loop_cons.
      destruct (gcp_step fb m interp xv rows junk it) as (e2 & H2 & He2).
      destruct (IH (rows ++ rows_of m interp xv it)%list (fun x => lookup x e2)) as (junk' & Hl).
      exists junk'. unfold raw_rows in *. cbn [flat_map]. rewrite app_assoc.
      destruct (exec P gcp_body fb _) eqn:Eb; cbn [normal_env] in H2; try discriminate;
        inversion H2; subst e; rewrite He2; exact Hl.
  Qed.

  (* ---- the postamble ---- *)
  Lemma no_none_final : forall rows : list (list (cell N)),
    existsb (existsb (fun b : bool => b)) (map (map is_none) rows) = false -> final_rows N rows = rows.
  Proof.
    unfold final_rows. induction rows as [|r t IH]; intros H; [reflexivity|].
    cbn [map existsb] in H. apply orb_false_iff in H. destruct H as [Hr Ht].
    cbn [map]. rewrite (IH Ht). f_equal.
    clear -Hr. induction r as [|c r IH]; [reflexivity|].
    cbn [map existsb] in Hr. apply orb_false_iff in Hr. destruct Hr as [Hc Hr].
    cbn [map]. rewrite (IH Hr). destruct c; cbn in Hc; try discriminate; reflexivity.
  Qed.

  Lemma gcp_post_exec : forall f m interp xv rows junk,
    exec_list P gcp_post f (gcp_head m interp xv rows junk) = Return (VSig (GTab (final_rows N rows))).
  Proof.
    intros f m interp xv rows junk. unfold gcp_head.
    destruct (existsb (existsb (fun b : bool => b)) (map (map is_none) rows)) eqn:Ee.
    - ev1. reflexivity.
    - rewrite (no_none_final rows Ee). ev1. reflexivity.
  Qed.

  (* ---- THE TIE ---- *)
  Theorem skeleton_get_control_points : forall f x m interp,
    exec P prog_get_control_points f (gcp_env0 A N x m interp) = gcp_render A N (model x m interp).
  Proof.
    intros f x m interp.
    rewrite (exec_nth_split V P prog_get_control_points 6 gcp_for f _ eq_refl).
    change (firstn 6 (spine prog_get_control_points)) with gcp_pre.
    change (skipn 7 (spine prog_get_control_points)) with gcp_post.
    rewrite gcp_pre_exec. unfold gcp_model.
    destruct (is_ndarray && is_aug m); [reflexivity|].
    destruct (ens_x x) as [xv|e]; [|reflexivity].
    destruct ens_cycles as [u|e] eqn:Ec; [rewrite <- Ec|reflexivity].
    destruct (negb (nsamples =? alen xv)%nat); [reflexivity|].
    change gcp_for with (SFor gcp_var gcp_iter gcp_body). rewrite exec_for.
    assert (Hit : bind (eval P (gcp_head m interp xv [] (fun _ => None)) gcp_iter) (iter_list P) =
                  match yielded (is_aug m) with EOk its => Ok (map (item_val A N) its) | ERaise e => Exc e end).
    { unfold gcp_head. destruct m; cbn [is_aug]; destruct (yielded _) eqn:Ey; ev1; reflexivity. }
    rewrite Hit. destruct (yielded (is_aug m)) as [its|e]; [|reflexivity].
    destruct (gcp_loop f m interp xv its [] (fun _ => None)) as (junk' & Hl).
    rewrite Hl. cbn [app]. rewrite gcp_post_exec. reflexivity.
  Qed.

  (* ---- the laws of the model ---- *)
  Lemma none_to_nan_opt : forall o : option N, none_to_nan (opt_cell N o) = nan_opt N o.
  Proof. intros [n|]; reflexivity. Qed.

  Lemma final_rows_of_item : forall m interp xv it, m <> GOther ->
    map (map none_to_nan) (rows_of m interp xv it) = [row1 (is_aug m) interp xv it].
  Proof.
    intros m interp xv [i [inds|]] Hm; unfold rows_of_item, the_row, bad_item, good_row, full_row, nan_row, ncols;
      cbn [snd].
    - destruct (length inds <? 5)%nat; destruct m; try congruence; cbn [is_aug map repeat none_to_nan];
        rewrite ?none_to_nan_opt; reflexivity.
    - destruct m; try congruence; reflexivity.
  Qed.

  (* (1) one row per item, in the iterator's order *)
  Theorem gcp_rows_known_mode : forall m interp xv its, m <> GOther ->
    final_rows N (raw m interp xv its) = map (row1 (is_aug m) interp xv) its.
  Proof.
    intros m interp xv its Hm. unfold final_rows, raw_rows. induction its as [|it t IH]; [reflexivity|].
    cbn [flat_map map]. rewrite map_app, IH, (final_rows_of_item m interp xv it Hm). reflexivity.
  Qed.

  Theorem gcp_row_count : forall m interp xv its, m <> GOther ->
    length (final_rows N (raw m interp xv its)) = length its.
  Proof. intros m interp xv its Hm. rewrite (gcp_rows_known_mode m interp xv its Hm). apply map_length. Qed.

  Theorem gcp_row_nth : forall m interp xv its k it, m <> GOther -> nth_error its k = Some it ->
    nth_error (final_rows N (raw m interp xv its)) k = Some (row1 (is_aug m) interp xv it).
  Proof.
    intros m interp xv its k it Hm Hk. rewrite (gcp_rows_known_mode m interp xv its Hm).
    apply map_nth_error. exact Hk.
  Qed.

  (* (4) an unknown mode: only the items that get a row of nans add a row *)
  Theorem gcp_rows_other_mode : forall interp xv its,
    final_rows N (raw GOther interp xv its) = map (fun _ => repeat KNan 5) (filter (@bad_item) its).
  Proof.
    intros interp xv its. unfold final_rows, raw_rows. induction its as [|[i [inds|]] t IH]; [reflexivity| |];
      cbn [flat_map filter]; unfold rows_of_item at 1, bad_item at 1; cbn [snd].
    - destruct (length inds <? 5)%nat; cbn [good_row app map]; rewrite IH; reflexivity.
    - cbn [app map]. rewrite IH. reflexivity.
  Qed.

  (* (2) the number of columns *)
  Theorem gcp_columns : forall m interp xv its r,
    In r (final_rows N (raw m interp xv its)) -> length r = ncols m.
  Proof.
    intros m interp xv its r Hr. unfold final_rows in Hr. apply in_map_iff in Hr. destruct Hr as (r0 & <- & Hr0).
    rewrite map_length. unfold raw_rows in Hr0. apply in_flat_map in Hr0. destruct Hr0 as ([i o] & _ & Hin).
    unfold rows_of_item, good_row, nan_row in Hin. cbn [snd] in Hin.
    destruct o as [inds|].
    - destruct (length inds <? 5)%nat.
      + cbn [In] in Hin. destruct Hin as [<-|[]]. apply repeat_length.
      + destruct m; cbn [In] in Hin;
          [destruct Hin as [<-|[]]; reflexivity | destruct Hin as [<-|[]]; reflexivity | destruct Hin].
    - cbn [In] in Hin. destruct Hin as [<-|[]]. apply repeat_length.
  Qed.

  (* None never survives *)
  Theorem gcp_no_none : forall (rows : list (list (cell N))) r c, In r (final_rows N rows) -> In c r -> c <> KNone.
  Proof.
    intros rows r c Hr Hc. unfold final_rows in Hr. apply in_map_iff in Hr. destruct Hr as (r0 & <- & _).
    apply in_map_iff in Hc. destruct Hc as ([| |z|n] & <- & _); discriminate.
  Qed.

  (* (3) which helper fills which column *)
  Theorem gcp_bad_item_row : forall aug interp xv it, bad_item it = true ->
    row1 aug interp xv it = repeat KNan (if aug then 6 else 5).
  Proof. intros aug interp xv it H. unfold the_row. rewrite H. reflexivity. Qed.

  Theorem gcp_good_item_row_cycle : forall interp xv i inds, (5 <= length inds)%nat ->
    row1 false interp xv (i, Some inds) =
    let c := gather xv inds in
    [KInt 0; nan_opt N (cf_pk interp c); nan_opt N (cf_desc interp c); nan_opt N (cf_tr interp c);
     KInt (Z.of_nat (alen c) - 1)].
  Proof.
    intros interp xv i inds H. unfold the_row, bad_item. cbn [snd].
    replace (length inds <? 5)%nat with false by (symmetry; apply Nat.ltb_ge; exact H). reflexivity.
  Qed.

  Theorem gcp_good_item_row_augmented : forall interp xv i inds, (5 <= length inds)%nat ->
    row1 true interp xv (i, Some inds) =
    let c := gather xv inds in
    [KInt 0; nan_opt N (cf_asc interp c); nan_opt N (cf_pk interp c); nan_opt N (cf_desc interp c);
     nan_opt N (cf_tr interp c); KInt (Z.of_nat (alen c) - 1)].
  Proof.
    intros interp xv i inds H. unfold the_row, bad_item. cbn [snd].
    replace (length inds <? 5)%nat with false by (symmetry; apply Nat.ltb_ge; exact H). reflexivity.
  Qed.

  (* (4) what the translated program does with an unknown mode *)
  Theorem skeleton_get_control_points_other_mode : forall f x interp xv its,
    ens_x x = EOk xv -> ens_cycles = EOk tt -> nsamples = alen xv -> yielded false = EOk its ->
    exec P prog_get_control_points f (gcp_env0 A N x GOther interp) =
    Return (VSig (GTab (map (fun _ => repeat KNan 5) (filter (@bad_item) its)))).
  Proof.
    intros f x interp xv its Hx Hc Hn Hy. rewrite skeleton_get_control_points. unfold gcp_model.
    cbn [is_aug]. rewrite andb_false_r, Hx, Hc, Hn, Nat.eqb_refl. cbn [negb]. rewrite Hy.
    rewrite gcp_rows_other_mode. reflexivity.
  Qed.
End GcpTie.
