(* Control-skeleton tie of emd/logger.py: the proofs (definitions: model/SkelPrims_Logger.v; notes/TIE_LOGGER.md). *)
From Coq Require Import String List Bool Arith ZArith Lia.
From EmdV Require Import lib.PyLoop lib.PyLoopTools gen.Gen_Skel_Logger model.SkelPrims_Logger.
From EmdV Require model.Logger proofs.LoggerFacts.
Import ListNotations.
Open Scope string_scope.
Open Scope list_scope.

(* ================================================================================================ *)
(* 0. [thread] added the state plumbing and nothing else                                             *)
(* ================================================================================================ *)
Lemma thread_erases_inner_verbose : erase_logger tprog_inner_verbose = prog_inner_verbose.
Proof. vm_compute. reflexivity. Qed.
Lemma thread_erases_set_level : erase_logger tprog_set_level = prog_set_level.
Proof. vm_compute. reflexivity. Qed.
Lemma thread_erases_get_level : erase_logger tprog_get_level = prog_get_level.
Proof. vm_compute. reflexivity. Qed.
Lemma thread_erases_disable : erase_logger tprog_disable = prog_disable.
Proof. vm_compute. reflexivity. Qed.
Lemma thread_erases_enable : erase_logger tprog_enable = prog_enable.
Proof. vm_compute. reflexivity. Qed.
Lemma thread_erases_is_active : erase_logger tprog_is_active = prog_is_active.
Proof. vm_compute. reflexivity. Qed.

Lemma thread_erases :
  erase_logger tprog_inner_verbose = prog_inner_verbose /\ erase_logger tprog_set_level = prog_set_level /\
  erase_logger tprog_get_level = prog_get_level /\ erase_logger tprog_disable = prog_disable /\
  erase_logger tprog_enable = prog_enable /\ erase_logger tprog_is_active = prog_is_active.
Proof.
  exact (conj thread_erases_inner_verbose (conj thread_erases_set_level (conj thread_erases_get_level
           (conj thread_erases_disable (conj thread_erases_enable thread_erases_is_active))))).
Qed.

(* the evaluator (notes/TIE_AGENT_BRIEF.md section 6): cbv with an explicit delta whitelist *)
Ltac ev :=
  cbv beta iota zeta delta
      [exec final_env eval eval_truth bind map_res truthy do_cmp do_arith do_index nat_cmp nat_arith iter_list
       upd lookup env_of assign_all cmp_name ar_name frame overlay normal_env
       try_finish try_finish_env exn_matches exec_list
       run_eff eff_result py_result st_var
       verbose_prims prims_of table_lookup verbose_table keys_are is_opaque0
       verbose_names verbose_entry verbose_env0 params_inner_verbose tprog_inner_verbose verbose_render
       name_val int_val state_val world_val level_val
       Logger.get_level Logger.is_set_up Logger.console Logger.disabled Logger.to_file
       world_prims world_table len_handler kind_name
       set_level_entry set_level_names set_level_env0 params_set_level
       get_level_entry get_level_names get_level_env0 params_get_level
       disable_entry disable_names disable_env0 params_disable tprog_disable
       enable_entry enable_names enable_env0 params_enable tprog_enable
       is_active_entry is_active_names is_active_env0 params_is_active tprog_is_active
       handlers mgr_disabled logger_disabled with_mgr with_handlers href
       String.eqb Ascii.eqb Bool.eqb fst snd nth_error andb negb orb].

(* ================================================================================================ *)
(* executions and their effect, statement by statement                                               *)
(* ================================================================================================ *)
Section RunEff.
  Variable P : prims lval.

  Lemma run_eff_seq : forall a b f e e1,
    exec P a f e = Normal e1 -> run_eff P (SSeq a b) f e = run_eff P b f e1.
  Proof.
    intros a b f e e1 H. unfold run_eff.
    change (exec P (SSeq a b) f e) with (match exec P a f e with Normal e' => exec P b f e' | o => o end).
    change (final_env P (SSeq a b) f e)
      with (match exec P a f e with Normal e' => final_env P b f e' | _ => final_env P a f e end).
    rewrite H. reflexivity.
  Qed.

  (* try: body finally: fin; k  -  the body ended normally *)
  Lemma run_eff_try_normal : forall b hs fin k f e e1,
    exec P b f e = Normal e1 ->
    run_eff P (SSeq (STry b hs fin) k) f e = run_eff P (SSeq fin k) f e1.
  Proof.
    intros b hs fin k f e e1 H. unfold run_eff.
    change (exec P (SSeq (STry b hs fin) k) f e)
      with (match exec P (STry b hs fin) f e with Normal e' => exec P k f e' | o => o end).
    change (final_env P (SSeq (STry b hs fin) k) f e)
      with (match exec P (STry b hs fin) f e with Normal e' => final_env P k f e' | _ => final_env P (STry b hs fin) f e end).
    rewrite (exec_try_normal _ P b hs fin f e e1 H), final_env_try. unfold try_body. rewrite H.
    cbn [fst snd try_finish_env]. reflexivity.
  Qed.

  (* try: body finally: fin; k  -  the body raised x in environment e2: fin runs there, k does not run *)
  Lemma run_eff_try_raise : forall b fin k f e x e2,
    exec P b f e = Raise x -> final_env P b f e = e2 ->
    run_eff P (SSeq (STry b [] fin) k) f e =
    (match exec P fin f e2 with Normal _ => Raise x | o => o end, lookup st_var (final_env P fin f e2)).
  Proof.
    intros b fin k f e x e2 H H2. unfold run_eff.
    change (exec P (SSeq (STry b [] fin) k) f e)
      with (match exec P (STry b [] fin) f e with Normal e' => exec P k f e' | o => o end).
    change (final_env P (SSeq (STry b [] fin) k) f e)
      with (match exec P (STry b [] fin) f e with Normal e' => final_env P k f e' | _ => final_env P (STry b [] fin) f e end).
    rewrite (exec_try_finally_raise _ P b fin f e x H), final_env_try. unfold try_body. rewrite H, H2.
    cbn [run_handlers fst snd try_finish_env].
    destruct (exec P fin f e2); reflexivity.
  Qed.
End RunEff.

(* ================================================================================================ *)
(* 1. wrap_verbose.inner_verbose                                                                     *)
(* ================================================================================================ *)
Section VerboseTie.
  Variable kwv : option (option Z).
  Variable registered : Z -> bool.
  Variable fres : Logger.lstate -> res lv.
  Local Notation P := (verbose_prims kwv registered fres).

  (* the statements before the try; then the try with the result of the wrapped function (Ef) known *)
  Ltac iv_go Ef :=
    unfold tprog_inner_verbose;
    erewrite run_eff_seq by (ev; reflexivity);
    erewrite run_eff_seq by (ev; reflexivity);
    first [ erewrite run_eff_try_normal by (ev; rewrite Ef; reflexivity)
          | erewrite run_eff_try_raise by (ev; rewrite Ef; reflexivity) ].

  Theorem skeleton_inner_verbose : forall s func args kwargs f,
    level_registered registered s ->
    fres (seen_state kwv s) <> Bad ->
    run_eff P tprog_inner_verbose f (verbose_env0 s func args kwargs)
    = verbose_render (fres (seen_state kwv s)) (Logger.step s (verbose_op kwv fres s)).
  Proof.
    intros s func args kwargs f Hreg Hf.
    unfold verbose_op. unfold seen_state, verbose_of in *. unfold level_registered in Hreg.
    destruct s as [su c d tf]. cbn [Logger.is_set_up Logger.console] in Hreg.
    destruct kwv as [[z|]|].
    - (* an override *)
      destruct su.
      + specialize (Hreg eq_refl).
        destruct (fres (Logger.set_level (Logger.Build_lstate true c d tf) z)) as [r|x|] eqn:Ef; [| |congruence];
          unfold Logger.step, Logger.call; cbn [outcome_of];
          iv_go Ef; ev; rewrite Hreg; ev; reflexivity.
      + clear Hreg.
        destruct (fres (Logger.set_level (Logger.Build_lstate false c d tf) z)) as [r|x|] eqn:Ef; [| |congruence];
          unfold Logger.step, Logger.call; cbn [outcome_of];
          iv_go Ef; ev; reflexivity.
    - (* verbose=None *)
      destruct (fres (Logger.Build_lstate su c d tf)) as [r|x|] eqn:Ef; [| |congruence];
        unfold Logger.step, Logger.call; cbn [outcome_of]; iv_go Ef; ev; reflexivity.
    - (* no 'verbose' key *)
      destruct (fres (Logger.Build_lstate su c d tf)) as [r|x|] eqn:Ef; [| |congruence];
        unfold Logger.step, Logger.call; cbn [outcome_of]; iv_go Ef; ev; reflexivity.
  Qed.
End VerboseTie.

(* ---- consequences, through the facts proved about the model (proofs/LoggerFacts.v, property C20) ---- *)
Section VerboseCorollaries.
  Variable kwv : option (option Z).
  Variable registered : Z -> bool.
  Variable fres : Logger.lstate -> res lv.
  Local Notation P := (verbose_prims kwv registered fres).

  (* the decorated function is transparent: the caller gets the function's own value / exception, and the logger
     state - all of it - is what it was before the call, whether the function returned or raised *)
  Corollary inner_verbose_transparent : forall s func args kwargs f,
    level_registered registered s ->
    fres (seen_state kwv s) <> Bad ->
    run_eff P tprog_inner_verbose f (verbose_env0 s func args kwargs)
    = (match fres (seen_state kwv s) with Ok v => Return v | Exc x => Raise x | Bad => Stuck end,
       Some (state_val s)).
  Proof.
    intros s func args kwargs f Hreg Hf.
    rewrite (skeleton_inner_verbose kwv registered fres s func args kwargs f Hreg Hf).
    unfold verbose_render, verbose_op.
    pose proof (LoggerFacts.call_restores_state s (verbose_of kwv) (outcome_of (fres (seen_state kwv s)))) as Hs.
    pose proof (LoggerFacts.outcome_preserved s (verbose_of kwv) (outcome_of (fres (seen_state kwv s)))) as Ho.
    cbn [Logger.step].
    destruct (Logger.call s (verbose_of kwv) (outcome_of (fres (seen_state kwv s)))) as [s' r].
    cbn [fst snd] in *. subst s' r.
    destruct (fres (seen_state kwv s)); [reflexivity|reflexivity|congruence].
  Qed.

  (* FINDING (outside the model): the restore goes through logging._levelToName[current_level]. If the console
     handler's level is not a registered level (handler.setLevel(25) done directly on the logging handler), the
     finally clause raises KeyError: the result (or the function's own exception) is lost and the override stays. *)
  Lemma inner_verbose_unregistered_level : forall c d tf z func args kwargs f,
    kwv = Some (Some z) ->
    registered c = false ->
    fres (Logger.set_level (Logger.Build_lstate true c d tf) z) <> Bad ->
    run_eff P tprog_inner_verbose f (verbose_env0 (Logger.Build_lstate true c d tf) func args kwargs)
    = (Raise "KeyError", Some (state_val (Logger.set_level (Logger.Build_lstate true c d tf) z))).
  Proof.
    intros c d tf z func args kwargs f Hk Hreg Hf. revert Hf.
    destruct (fres (Logger.set_level (Logger.Build_lstate true c d tf) z)) as [r|x|] eqn:Ef; intros Hf; [| |congruence];
      unfold tprog_inner_verbose;
      (erewrite run_eff_seq by (rewrite Hk; ev; reflexivity));
      (erewrite run_eff_seq by (rewrite Hk; ev; reflexivity));
      first [ erewrite run_eff_try_normal by (rewrite Hk; ev; rewrite Ef; reflexivity)
            | erewrite run_eff_try_raise by (rewrite Hk; ev; rewrite Ef; reflexivity) ];
      rewrite Hk; ev; rewrite Hreg; ev; reflexivity.
  Qed.
End VerboseCorollaries.

(* ================================================================================================ *)
(* 2. the world layer: set_level, get_level, disable, enable, is_active                              *)
(* ================================================================================================ *)
Local Notation W := world_prims.

Lemma run_eff_normal : forall p f e e',
  exec W p f e = Normal e' -> run_eff W p f e = (Normal e', lookup st_var e').
Proof.
  intros p f e e' H. unfold run_eff. rewrite H.
  rewrite (final_env_normal _ W p f e e'); [reflexivity|]. rewrite H. reflexivity.
Qed.

(* ---- facts about handler lists ---- *)
Lemma hnth_app : forall pre h t, hnth (pre ++ h :: t) (length pre) = Some h.
Proof. intros pre h t. unfold hnth. induction pre as [|a p IH]; [reflexivity|exact IH]. Qed.

Lemma hset_app : forall pre k l t z, hset (length pre) z (pre ++ (k, l) :: t) = pre ++ (k, z) :: t.
Proof.
  intros pre k l t z. induction pre as [|a p IH]; [reflexivity|].
  cbn [length app hset]. destruct a as [ka la]. rewrite IH. reflexivity.
Qed.

Lemma snoc_app : forall {A : Type} (pre : list A) (h : A) (t : list A), (pre ++ [h]) ++ t = pre ++ h :: t.
Proof. intros A pre h t. rewrite <- app_assoc. reflexivity. Qed.

Lemma snoc_length : forall {A : Type} (pre : list A) (h : A), length (pre ++ [h]) = S (length pre).
Proof. intros A pre h. rewrite app_length. cbn [length]. lia. Qed.

(* ---- set_level ---- *)
Definition sl_pre : stmt := Eval cbv in nth 0 (spine tprog_set_level) SSkip.
Definition sl_for : stmt := Eval cbv in nth 1 (spine tprog_set_level) SSkip.
Definition sl_iter : expr := Eval cbv in match sl_for with SFor _ it _ => it | _ => ENone end.
Definition sl_body : stmt := Eval cbv in match sl_for with SFor _ _ b => b | _ => SSkip end.

Lemma sl_shape : tprog_set_level = SSeq sl_pre (SFor "handler" sl_iter sl_body).
Proof. reflexivity. Qed.

Definition mkw (hs : list (hkind * Z)) (md ld : bool) : world :=
  {| handlers := hs; mgr_disabled := md; logger_disabled := ld |}.

(* the environment between iterations: every name of the frame is bound *)
Definition sl_env (w : world) (z : Z) (hv : lv) : env lval :=
  [ ("$logger", Some (world_val w)); ("level", Some (name_val z)); ("handler", Some hv);
    ("logger", Some (VOpaque "emd_logger" [])) ].

Ltac evw :=
  cbv beta iota zeta delta
      [exec final_env eval eval_truth bind map_res truthy do_cmp do_arith do_index nat_cmp nat_arith iter_list
       upd lookup env_of assign_all cmp_name ar_name frame overlay normal_env
       try_finish try_finish_env exn_matches exec_list
       run_eff eff_result py_result st_var
       prims_of table_lookup keys_are is_opaque0
       name_val int_val state_val world_val level_val
       world_prims world_table len_handler kind_name
       set_level_entry set_level_names set_level_env0 params_set_level sl_pre sl_for sl_iter sl_body sl_env
       get_level_entry get_level_names get_level_env0 params_get_level
       disable_entry disable_names disable_env0 params_disable tprog_disable
       enable_entry enable_names enable_env0 params_enable tprog_enable
       is_active_entry is_active_names is_active_env0 params_is_active tprog_is_active
       handlers mgr_disabled logger_disabled with_mgr with_handlers href mkw
       String.eqb Ascii.eqb Bool.eqb fst snd nth_error andb negb orb].

(* one iteration: handler = the reference to h = (k, l), the handler after the ones in pre *)
Lemma sl_step : forall fb z pre k l t md ld hv,
  exec W sl_body fb (upd "handler" (href (length pre)) (sl_env (mkw (pre ++ (k, l) :: t) md ld) z hv))
  = Normal (sl_env (mkw (pre ++ set_console z (k, l) :: t) md ld) z (href (length pre))).
Proof.
  intros fb z pre k l t md ld hv.
  pose proof (hnth_app pre (k, l) t) as Hn.
  pose proof (hset_app pre k l t z) as Hs.
  destruct (info_or_debug z) eqn:Ei; destruct k;
    evw; rewrite Hn; evw; rewrite ?Ei; evw; rewrite ?Hn; evw; rewrite ?Hs; reflexivity.
Qed.

Lemma sl_loop : forall fb z md ld rest pre hv,
  exists hv',
    for_loop "handler" (fun e' => exec W sl_body fb e') (refs_from (length pre) rest)
             (sl_env (mkw (pre ++ rest) md ld) z hv)
    = Normal (sl_env (mkw (pre ++ map (set_console z) rest) md ld) z hv').
Proof.
  intros fb z md ld rest. induction rest as [|[k l] t IH]; intros pre hv.
  - exists hv. reflexivity.
  - cbn [refs_from map]. rewrite for_loop_cons, sl_step.
    destruct (IH (pre ++ [set_console z (k, l)]) (href (length pre))) as (hv' & H).
    rewrite snoc_length, !snoc_app in H. exists hv'. exact H.
Qed.

(* set_level(level=<name of z>) in world w ends normally (returns None) and leaves the world w_set_level w z *)
Theorem skeleton_set_level : forall w z hd f,
  eff_result (run_eff W tprog_set_level f (set_level_env0 w z hd))
  = (Ok VNone, Some (world_val (w_set_level w z))).
Proof.
  intros [hs md ld] z hd f. change (Build_world hs md ld) with (mkw hs md ld).
  destruct (sl_loop f z md ld hs [] hd) as (hv' & Hl). cbn [app length] in Hl.
  assert (Hex : exec W tprog_set_level f (set_level_env0 (mkw hs md ld) z hd)
                = Normal (sl_env (mkw (map (set_console z) hs) md ld) z hv')).
  { rewrite sl_shape.
    change (exec W (SSeq sl_pre (SFor "handler" sl_iter sl_body)) f (set_level_env0 (mkw hs md ld) z hd))
      with (match exec W sl_pre f (set_level_env0 (mkw hs md ld) z hd) with
            | Normal e' => exec W (SFor "handler" sl_iter sl_body) f e' | o => o end).
    assert (Hpre : exec W sl_pre f (set_level_env0 (mkw hs md ld) z hd) = Normal (sl_env (mkw hs md ld) z hd))
      by (evw; reflexivity).
    rewrite Hpre, exec_for.
    assert (Hit : bind (eval W (sl_env (mkw hs md ld) z hd) sl_iter) (iter_list W) = Ok (refs_from 0 hs))
      by (evw; reflexivity).
    rewrite Hit. exact Hl. }
  rewrite (run_eff_normal _ _ _ _ Hex). reflexivity.
Qed.

(* ---- get_level ---- *)
Definition gl_pre : stmt := Eval cbv in nth 0 (spine tprog_get_level) SSkip.
Definition gl_for : stmt := Eval cbv in nth 1 (spine tprog_get_level) SSkip.
Definition gl_iter : expr := Eval cbv in match gl_for with SFor _ it _ => it | _ => ENone end.
Definition gl_body : stmt := Eval cbv in match gl_for with SFor _ _ b => b | _ => SSkip end.

Lemma gl_shape : tprog_get_level = SSeq gl_pre (SFor "handler" gl_iter gl_body).
Proof. reflexivity. Qed.

Definition gl_env (w : world) (hv : lv) : env lval :=
  [ ("$logger", Some (world_val w)); ("handler", Some hv); ("logger", Some (VOpaque "emd_logger" [])) ].

Ltac evg :=
  cbv beta iota zeta delta
      [exec final_env eval eval_truth bind map_res truthy do_cmp do_arith do_index nat_cmp nat_arith iter_list
       upd lookup env_of assign_all cmp_name ar_name frame overlay normal_env
       try_finish try_finish_env exn_matches exec_list
       run_eff eff_result py_result st_var
       prims_of table_lookup keys_are is_opaque0
       name_val int_val state_val world_val level_val
       world_prims world_table len_handler kind_name
       get_level_entry get_level_names get_level_env0 params_get_level gl_pre gl_for gl_iter gl_body gl_env
       handlers mgr_disabled logger_disabled with_mgr with_handlers href mkw
       String.eqb Ascii.eqb Bool.eqb fst snd nth_error andb negb orb].

Lemma gl_step : forall fb pre k l t md ld hv,
  exec W gl_body fb (upd "handler" (href (length pre)) (gl_env (mkw (pre ++ (k, l) :: t) md ld) hv))
  = match k with
    | HConsole => Return (int_val l)
    | _ => Normal (gl_env (mkw (pre ++ (k, l) :: t) md ld) (href (length pre)))
    end.
Proof.
  intros fb pre k l t md ld hv.
  pose proof (hnth_app pre (k, l) t) as Hn.
  destruct k; evg; rewrite Hn; evg; rewrite ?Hn; reflexivity.
Qed.

Lemma gl_loop : forall fb md ld rest pre hv,
  py_result (for_loop "handler" (fun e' => exec W gl_body fb e') (refs_from (length pre) rest)
                      (gl_env (mkw (pre ++ rest) md ld) hv))
  = Ok (level_val (first_console rest)).
Proof.
  intros fb md ld rest. induction rest as [|[k l] t IH]; intros pre hv.
  - reflexivity.
  - cbn [refs_from]. rewrite for_loop_cons, gl_step.
    pose proof (IH (pre ++ [(k, l)]) (href (length pre))) as H.
    rewrite snoc_length, snoc_app in H.
    destruct k; try exact H. reflexivity.
Qed.

(* get_level() in world w returns the level of the first console handler, None when there is none *)
Theorem skeleton_get_level : forall w hd f,
  py_result (exec W tprog_get_level f (get_level_env0 w hd)) = Ok (level_val (w_get_level w)).
Proof.
  intros [hs md ld] hd f. change (Build_world hs md ld) with (mkw hs md ld). rewrite gl_shape.
  change (exec W (SSeq gl_pre (SFor "handler" gl_iter gl_body)) f (get_level_env0 (mkw hs md ld) hd))
    with (match exec W gl_pre f (get_level_env0 (mkw hs md ld) hd) with
          | Normal e' => exec W (SFor "handler" gl_iter gl_body) f e' | o => o end).
  assert (Hpre : exec W gl_pre f (get_level_env0 (mkw hs md ld) hd) = Normal (gl_env (mkw hs md ld) hd))
    by (evg; reflexivity).
  rewrite Hpre, exec_for.
  assert (Hit : bind (eval W (gl_env (mkw hs md ld) hd) gl_iter) (iter_list W) = Ok (refs_from 0 hs))
    by (evg; reflexivity).
  rewrite Hit. exact (gl_loop f md ld hs [] hd).
Qed.

(* get_level and is_active never write the state: no assignment to "$logger" in their programs *)
Lemma get_level_read_only : mem st_var (assigned tprog_get_level []) = false.
Proof. reflexivity. Qed.
Lemma is_active_read_only : mem st_var (assigned tprog_is_active []) = false.
Proof. reflexivity. Qed.

Lemma readers_read_only :
  mem st_var (assigned tprog_get_level []) = false /\ mem st_var (assigned tprog_is_active []) = false.
Proof. exact (conj get_level_read_only is_active_read_only). Qed.

(* ---- disable, enable ---- *)
Theorem skeleton_disable : forall w f,
  eff_result (run_eff W tprog_disable f (disable_env0 w)) = (Ok VNone, Some (world_val (with_mgr w true))).
Proof. intros [hs md ld] f. evw. reflexivity. Qed.

Theorem skeleton_enable : forall w f,
  eff_result (run_eff W tprog_enable f (enable_env0 w)) = (Ok VNone, Some (world_val (with_mgr w false))).
Proof. intros [hs md ld] f. evw. reflexivity. Qed.

(* ---- is_active ---- *)
Ltac eva :=
  cbv beta iota zeta delta
      [exec final_env eval eval_truth bind map_res truthy do_cmp do_arith do_index nat_cmp nat_arith iter_list
       upd lookup env_of assign_all cmp_name ar_name frame overlay normal_env
       try_finish try_finish_env exn_matches exec_list
       run_eff eff_result py_result st_var
       prims_of table_lookup keys_are is_opaque0
       name_val int_val state_val world_val level_val
       world_prims world_table len_handler kind_name
       is_active_entry is_active_names is_active_env0 params_is_active tprog_is_active
       handlers mgr_disabled logger_disabled with_mgr with_handlers href mkw
       refs_from hnth is_null w_is_active length Nat.eqb
       String.eqb Ascii.eqb Bool.eqb fst snd nth_error andb negb orb].

Theorem skeleton_is_active : forall w f,
  exec W tprog_is_active f (is_active_env0 w) = Return (VBool (w_is_active w)).
Proof.
  intros [hs md ld] f.
  destruct hs as [|[k l] [|h2 t]]; [eva; reflexivity| |eva; reflexivity].
  destruct k; eva; reflexivity.
Qed.

(* ---- the abstraction commutes: the world operations ARE the operations of model/Logger.v ---- *)
Lemma set_console_kinds : forall z hs,
  existsb is_console (map (set_console z) hs) = existsb is_console hs /\
  existsb is_file (map (set_console z) hs) = existsb is_file hs /\
  first_console (map (set_console z) hs) = if existsb is_console hs then Some z else None.
Proof.
  intros z hs. unfold first_console. induction hs as [|[k l] t (IH1 & IH2 & IH3)]; [repeat split|].
  cbn [map existsb find]. rewrite IH1, IH2.
  destruct k; unfold set_console, is_console, is_file; cbn [fst snd option_map orb]; repeat split; exact IH3.
Qed.

Lemma first_console_exists : forall hs,
  existsb is_console hs = match first_console hs with Some _ => true | None => false end.
Proof.
  intros hs. unfold first_console. induction hs as [|h t IH]; [reflexivity|].
  cbn [existsb find]. destruct (is_console h); [reflexivity|exact IH].
Qed.

Lemma abs_set_level : forall w z, abs (w_set_level w z) = Logger.set_level (abs w) z.
Proof.
  intros [hs md ld] z. unfold abs, w_set_level, with_handlers, Logger.set_level.
  cbn [handlers mgr_disabled logger_disabled Logger.is_set_up Logger.console Logger.disabled Logger.to_file].
  destruct (set_console_kinds z hs) as (H1 & H2 & H3). rewrite H1, H2, H3.
  rewrite (first_console_exists hs). destruct (first_console hs); reflexivity.
Qed.

Lemma abs_get_level : forall w, Logger.get_level (abs w) = w_get_level w.
Proof.
  intros [hs md ld]. unfold Logger.get_level, abs, w_get_level.
  cbn [handlers Logger.is_set_up Logger.console]. rewrite first_console_exists.
  destruct (first_console hs); reflexivity.
Qed.

Lemma abs_disable : forall w, abs (with_mgr w true) = fst (Logger.step (abs w) Logger.Disable).
Proof. intros [hs md ld]. reflexivity. Qed.

Lemma abs_enable : forall w, abs (with_mgr w false) = fst (Logger.step (abs w) Logger.Enable).
Proof. intros [hs md ld]. reflexivity. Qed.

(* ---- the theorems against model/Logger.v ---- *)
Definition world_of (v : option lv) : option world :=
  match v with Some (VSig (LWorld w)) => Some w | _ => None end.

(* set_level: returns None; the final world is, in the model, Logger.step _ (SetLevel z) *)
Theorem skeleton_set_level_model : forall w z hd f,
  exists w', eff_result (run_eff W tprog_set_level f (set_level_env0 w z hd)) = (Ok VNone, Some (world_val w')) /\
             abs w' = fst (Logger.step (abs w) (Logger.SetLevel z)).
Proof.
  intros w z hd f. exists (w_set_level w z). split; [apply skeleton_set_level|]. apply abs_set_level.
Qed.

Theorem skeleton_get_level_model : forall w hd f,
  py_result (exec W tprog_get_level f (get_level_env0 w hd)) = Ok (level_val (Logger.get_level (abs w))).
Proof. intros w hd f. rewrite abs_get_level. apply skeleton_get_level. Qed.

Theorem skeleton_disable_model : forall w f,
  exists w', eff_result (run_eff W tprog_disable f (disable_env0 w)) = (Ok VNone, Some (world_val w')) /\
             abs w' = fst (Logger.step (abs w) Logger.Disable).
Proof. intros w f. exists (with_mgr w true). split; [apply skeleton_disable|apply abs_disable]. Qed.

Theorem skeleton_enable_model : forall w f,
  exists w', eff_result (run_eff W tprog_enable f (enable_env0 w)) = (Ok VNone, Some (world_val w')) /\
             abs w' = fst (Logger.step (abs w) Logger.Enable).
Proof. intros w f. exists (with_mgr w false). split; [apply skeleton_enable|apply abs_enable]. Qed.

(* FINDING: is_active() does not depend on the flag that disable() / enable() write (it reads the attribute
   logger.disabled, which logging.disable does not touch): after disable() it still answers True *)
Lemma is_active_ignores_disable : forall w b, w_is_active (with_mgr w b) = w_is_active w.
Proof. intros [hs md ld] b. reflexivity. Qed.
