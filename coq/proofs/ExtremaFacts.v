(* Facts about model/Extrema.v (property C05). *)
From Coq Require Import ZArith QArith Qround List Bool Lia Arith Sorted Lqa.
From EmdV Require Import lib.NpLite model.Extrema.
Import ListNotations.
Open Scope Z_scope.

(* ------------------------------------------------------------------------------------ *)
(* find_maxima                                                                          *)
(* ------------------------------------------------------------------------------------ *)

Lemma maxima_from_cons3 : forall i a b c t,
  maxima_from i (a :: b :: c :: t) =
  if (a <? b) && (c <? b) then S i :: maxima_from (S i) (b :: c :: t)
  else maxima_from (S i) (b :: c :: t).
Proof. reflexivity. Qed.

Lemma In_maxima_from : forall l i k,
  In k (maxima_from i l) <->
  exists j a b c, k = S (i + j) /\ nth_error l j = Some a /\ nth_error l (S j) = Some b /\
     nth_error l (S (S j)) = Some c /\ a < b /\ c < b.
Proof.
  induction l as [|a t IH]; intros i k.
  - split; [intros []|]. intros (j & a & b & c & _ & H & _). destruct j; discriminate H.
  - destruct t as [|b t].
    + split; [intros []|]. intros (j & a' & b' & c' & _ & _ & H & _).
      cbn [nth_error] in H. destruct j; discriminate H.
    + destruct t as [|c t].
      * split; [intros []|]. intros (j & a' & b' & c' & _ & _ & _ & H & _).
        cbn [nth_error] in H. destruct j as [|j]; [discriminate H|].
        cbn [nth_error] in H. destruct j; discriminate H.
      * rewrite maxima_from_cons3. specialize (IH (S i) k).
        split.
        -- intros Hin.
           assert (Hcase : (((a <? b) && (c <? b) = true) /\ k = S i) \/
                           In k (maxima_from (S i) (b :: c :: t))).
           { destruct ((a <? b) && (c <? b)) eqn:E.
             - destruct Hin as [Hk|Hin]; [left; split; [reflexivity|symmetry; exact Hk]|right; exact Hin].
             - right; exact Hin. }
           destruct Hcase as [[E Hk]|Hin'].
           ++ apply andb_true_iff in E. destruct E as [E1 E2].
              apply Z.ltb_lt in E1. apply Z.ltb_lt in E2.
              exists 0%nat, a, b, c. cbn [nth_error].
              repeat split; try assumption. lia.
           ++ apply IH in Hin'. destruct Hin' as (j & a' & b' & c' & Hk & H1 & H2 & H3 & H4 & H5).
              exists (S j), a', b', c'. cbn [nth_error].
              repeat split; try assumption. lia.
        -- intros (j & a' & b' & c' & Hk & H1 & H2 & H3 & H4 & H5).
           destruct j as [|j].
           ++ cbn [nth_error] in H1, H2, H3.
              injection H1 as <-. injection H2 as <-. injection H3 as <-.
              assert (E : (a <? b) && (c <? b) = true).
              { apply andb_true_iff; split; apply Z.ltb_lt; assumption. }
              rewrite E. left. lia.
           ++ assert (Hin : In k (maxima_from (S i) (b :: c :: t))).
              { apply IH. exists j, a', b', c'. cbn [nth_error] in H1, H2, H3.
                repeat split; try assumption. lia. }
              destruct ((a <? b) && (c <? b)); [right|]; exact Hin.
Qed.

Lemma maxima_from_sorted : forall l i, StronglySorted lt (maxima_from i l).
Proof.
  induction l as [|a t IH]; intros i.
  - constructor.
  - destruct t as [|b t]; [constructor|].
    destruct t as [|c t]; [constructor|].
    rewrite maxima_from_cons3.
    destruct ((a <? b) && (c <? b)); [|apply IH].
    constructor; [apply IH|].
    apply Forall_forall. intros k Hk. apply In_maxima_from in Hk.
    destruct Hk as (j & _ & _ & _ & Hk & _). lia.
Qed.

Lemma find_maxima_spec : forall x i, In i (find_maxima x) <-> strict_max_at x i.
Proof.
  intros x i. unfold find_maxima, strict_max_at. rewrite In_maxima_from. split.
  - intros (j & a & b & c & Hk & H1 & H2 & H3 & H4 & H5). subst i.
    split; [lia|]. exists a, b, c.
    replace (S (0 + j) - 1)%nat with j by lia. cbn [Nat.add].
    repeat split; assumption.
  - intros (Hi & a & b & c & H1 & H2 & H3 & H4 & H5).
    exists (i - 1)%nat, a, b, c.
    replace (S (i - 1)) with i by lia.
    repeat split; try assumption. lia.
Qed.

Lemma find_maxima_sorted : forall x, StronglySorted lt (find_maxima x).
Proof. intros x. apply maxima_from_sorted. Qed.

(* ------------------------------------------------------------------------------------ *)
(* troughs, magnitudes                                                                  *)
(* ------------------------------------------------------------------------------------ *)

Lemma troughs_spec : forall x i, In i (fst (extrema Troughs x)) <-> strict_min_at x i.
Proof.
  intros x i. unfold extrema. cbn [fst transform]. rewrite find_maxima_spec.
  unfold strict_max_at, strict_min_at. split.
  - intros (Hi & a & b & c & H1 & H2 & H3 & H4 & H5). split; [exact Hi|].
    rewrite nth_error_map in H1, H2, H3.
    destruct (nth_error x (i - 1)) as [a'|]; [|discriminate H1].
    destruct (nth_error x i) as [b'|]; [|discriminate H2].
    destruct (nth_error x (S i)) as [c'|]; [|discriminate H3].
    cbn [option_map] in H1, H2, H3.
    injection H1 as <-. injection H2 as <-. injection H3 as <-.
    exists a', b', c'. repeat split; try reflexivity; lia.
  - intros (Hi & a & b & c & H1 & H2 & H3 & H4 & H5). split; [exact Hi|].
    exists (- a), (- b), (- c). rewrite !nth_error_map, H1, H2, H3. cbn [option_map].
    repeat split; try reflexivity; lia.
Qed.

Lemma nth_map0 : forall (f : Z -> Z) l i, f 0 = 0 -> nth i (map f l) 0 = f (nth i l 0).
Proof.
  intros f l i Hf. rewrite <- Hf at 1. apply map_nth.
Qed.

Lemma extrema_mags_spec : forall m x,
  snd (extrema m x) =
  map (fun i => match m with AbsPeaks => Z.abs (nth i x 0) | _ => nth i x 0 end) (fst (extrema m x)).
Proof.
  intros m x. unfold extrema. cbn [fst snd]. destruct m; cbn [transform].
  - reflexivity.
  - rewrite map_map. apply map_ext. intros i.
    rewrite (nth_map0 Z.opp) by reflexivity. apply Z.opp_involutive.
  - apply map_ext. intros i. apply (nth_map0 Z.abs). reflexivity.
Qed.

(* ------------------------------------------------------------------------------------ *)
(* strictly sorted integer lists                                                        *)
(* ------------------------------------------------------------------------------------ *)

Lemma SSorted_app : forall A B : list Z,
  StronglySorted Z.lt (A ++ B) <->
  StronglySorted Z.lt A /\ StronglySorted Z.lt B /\ (forall x y, In x A -> In y B -> x < y).
Proof.
  induction A as [|a A IH]; intros B; cbn [app].
  - split.
    + intros H. split; [constructor|]. split; [exact H|]. intros x y [].
    + intros (_ & H & _). exact H.
  - split.
    + intros H. apply StronglySorted_inv in H. destruct H as [Hs Hf].
      apply IH in Hs. destruct Hs as (HA & HB & Hx).
      rewrite Forall_forall in Hf.
      split.
      * constructor; [exact HA|]. apply Forall_forall. intros y Hy. apply Hf.
        apply in_or_app. left. exact Hy.
      * split; [exact HB|]. intros x y [Hxa|Hxa] Hy.
        -- subst x. apply Hf. apply in_or_app. right. exact Hy.
        -- apply Hx; assumption.
    + intros (HA & HB & Hx). apply StronglySorted_inv in HA. destruct HA as [HA Hf].
      rewrite Forall_forall in Hf.
      constructor.
      * apply IH. split; [exact HA|]. split; [exact HB|].
        intros x y Hx' Hy. apply Hx; [right; exact Hx'|exact Hy].
      * apply Forall_forall. intros y Hy. apply in_app_or in Hy. destruct Hy as [Hy|Hy].
        -- apply Hf. exact Hy.
        -- apply Hx; [left; reflexivity|exact Hy].
Qed.

Lemma sorted_hd_le : forall L x d, StronglySorted Z.lt L -> In x L -> hd d L <= x.
Proof.
  intros L x d HL Hx. destruct L as [|a t]; [destruct Hx|].
  cbn [hd]. apply StronglySorted_inv in HL. destruct HL as [_ Hf].
  rewrite Forall_forall in Hf. destruct Hx as [<-|Hx]; [lia|].
  specialize (Hf _ Hx). lia.
Qed.

Lemma last_cons_cons : forall (a b : Z) t d, last (a :: b :: t) d = last (b :: t) d.
Proof. reflexivity. Qed.

Lemma sorted_le_last_cons : forall t a x d,
  StronglySorted Z.lt (a :: t) -> In x (a :: t) -> x <= last (a :: t) d.
Proof.
  induction t as [|b t IH]; intros a x d HL Hx.
  - destruct Hx as [<-|[]]. cbn [last]. lia.
  - rewrite last_cons_cons. apply StronglySorted_inv in HL. destruct HL as [Hs Hf].
    destruct Hx as [<-|Hx].
    + apply Forall_inv in Hf.
      assert (H := IH b b d Hs (or_introl eq_refl)). lia.
    + apply IH; assumption.
Qed.

Lemma sorted_le_last : forall L x d, StronglySorted Z.lt L -> In x L -> x <= last L d.
Proof.
  intros L x d HL Hx. destruct L as [|a t]; [destruct Hx|].
  apply sorted_le_last_cons; assumption.
Qed.

Lemma sorted_prefix_gap : forall A c B d,
  StronglySorted Z.lt (A ++ c :: B) -> hd d (A ++ c :: B) <= c - Z.of_nat (length A).
Proof.
  induction A as [|a A IH]; intros c B d H.
  - cbn [app hd length]. lia.
  - cbn [app] in H. apply StronglySorted_inv in H. destruct H as [Hs Hf].
    specialize (IH c B d Hs).
    assert (Hlt : a < hd d (A ++ c :: B)).
    { destruct A as [|a' A]; cbn [app hd] in *; apply Forall_inv in Hf; exact Hf. }
    cbn [app hd length]. lia.
Qed.

Lemma sorted_suffix_gap0 : forall B c d,
  StronglySorted Z.lt (c :: B) -> c + Z.of_nat (length B) <= last (c :: B) d.
Proof.
  induction B as [|b B IH]; intros c d H.
  - cbn [last length]. lia.
  - rewrite last_cons_cons. apply StronglySorted_inv in H. destruct H as [Hs Hf].
    apply Forall_inv in Hf. specialize (IH b d Hs). cbn [length]. lia.
Qed.

Lemma sorted_suffix_gap : forall A c B d,
  StronglySorted Z.lt (A ++ c :: B) -> c + Z.of_nat (length B) <= last (A ++ c :: B) d.
Proof.
  induction A as [|a A IH]; intros c B d H.
  - cbn [app]. apply sorted_suffix_gap0. exact H.
  - cbn [app] in H. apply StronglySorted_inv in H. destruct H as [Hs _].
    specialize (IH c B d Hs).
    replace (last ((a :: A) ++ c :: B) d) with (last (A ++ c :: B) d); [exact IH|].
    cbn [app]. destruct A; reflexivity.
Qed.

Lemma zmin_list_sorted : forall t a, Forall (Z.lt a) t -> zmin_list a t = a.
Proof.
  induction t as [|b t IH]; intros a H; cbn [zmin_list]; [reflexivity|].
  assert (Hb := Forall_inv H). apply Forall_inv_tail in H. rewrite (IH a H). lia.
Qed.

Lemma sorted_list_min : forall L, StronglySorted Z.lt L -> list_min L = hd 0 L.
Proof.
  intros [|a t] H; [reflexivity|]. cbn [list_min hd].
  apply StronglySorted_inv in H. destruct H as [_ Hf]. apply zmin_list_sorted. exact Hf.
Qed.

Lemma sorted_list_max : forall L, StronglySorted Z.lt L -> list_max L = last L 0.
Proof.
  intros [|a t] H; [reflexivity|]. cbn [list_max].
  assert (Hin : In (zmax_list a t) (a :: t)).
  { destruct (zmax_list_in a t) as [E|E]; [left; symmetry; exact E|right; exact E]. }
  assert (H1 := sorted_le_last _ _ 0 H Hin).
  assert (H2 : last (a :: t) 0 <= zmax_list a t).
  { clear H Hin H1. revert a. induction t as [|b t IH]; intros a.
    - cbn [last zmax_list]. lia.
    - rewrite last_cons_cons. cbn [zmax_list].
      destruct t as [|c t].
      + cbn [last zmax_list]. lia.
      + specialize (IH a). rewrite last_cons_cons in IH. rewrite last_cons_cons.
        cbn [zmax_list] in IH. cbn [zmax_list]. lia. }
  lia.
Qed.

Lemma sorted_nth_lt : forall L i j,
  StronglySorted Z.lt L -> (i < j)%nat -> (j < length L)%nat -> nth i L 0 < nth j L 0.
Proof.
  induction L as [|a t IH]; intros i j H Hij Hj; [cbn [length] in Hj; lia|].
  apply StronglySorted_inv in H. destruct H as [Hs Hf].
  destruct j as [|j]; [lia|]. cbn [length] in Hj.
  destruct i as [|i].
  - cbn [nth]. rewrite Forall_forall in Hf. apply Hf. apply nth_In. lia.
  - cbn [nth]. apply IH; [exact Hs|lia|lia].
Qed.

Lemma hd_nth0 : forall (L : list Z) d, hd d L = nth 0 L d.
Proof. intros [|a t] d; reflexivity. Qed.

Lemma last_nth : forall (L : list Z) d, last L d = nth (length L - 1) L d.
Proof.
  induction L as [|a t IH]; intros d; [reflexivity|].
  destruct t as [|b t]; [reflexivity|].
  rewrite last_cons_cons, IH. cbn [length]. 
  replace (S (S (length t)) - 1)%nat with (S (S (length t) - 1)) by lia. reflexivity.
Qed.

Lemma map_seq_sorted : forall (g : nat -> Z) c s,
  (forall i j, (s <= i)%nat -> (i < j)%nat -> (j < s + c)%nat -> g i < g j) ->
  StronglySorted Z.lt (map g (seq s c)).
Proof.
  induction c as [|c IH]; intros s H; cbn [seq map]; [constructor|].
  constructor.
  - apply IH. intros i j H1 H2 H3. apply H; lia.
  - apply Forall_forall. intros y Hy. apply in_map_iff in Hy. destruct Hy as (k & <- & Hk).
    apply in_seq in Hk. apply H; lia.
Qed.

Lemma map_rev_seq_sorted : forall (g : nat -> Z) c s,
  (forall i j, (s <= i)%nat -> (i < j)%nat -> (j < s + c)%nat -> g j < g i) ->
  StronglySorted Z.lt (map g (rev (seq s c))).
Proof.
  induction c as [|c IH]; intros s H; [constructor|].
  rewrite seq_S, rev_app_distr. cbn [rev app map].
  constructor.
  - apply IH. intros i j H1 H2 H3. apply H; lia.
  - apply Forall_forall. intros y Hy. apply in_map_iff in Hy. destruct Hy as (k & <- & Hk).
    apply in_rev in Hk. apply in_seq in Hk. apply H; lia.
Qed.

(* ------------------------------------------------------------------------------------ *)
(* reflect_chunk / pad_reflect_odd                                                      *)
(* ------------------------------------------------------------------------------------ *)

Lemma nth_map_lt : forall (g : nat -> Z) l k d d0,
  (k < length l)%nat -> nth k (map g l) d = g (nth k l d0).
Proof.
  intros g l k d d0 H. rewrite nth_indep with (d' := g d0) by (rewrite map_length; exact H).
  apply map_nth.
Qed.

Lemma reflect_chunk_mirror : forall a c j,
  (1 <= j <= c)%nat -> (c <= length a - 1)%nat ->
  nth (c - j) (reflect_chunk a c) 0 = 2 * hd 0 a - nth j a 0 /\
  nth (c + length a - 1 + j) (reflect_chunk a c) 0 = 2 * last a 0 - nth (length a - 1 - j) a 0.
Proof.
  intros a c j Hj Hc. unfold reflect_chunk. split.
  - rewrite app_nth1 by (rewrite map_length, rev_length, seq_length; lia).
    rewrite nth_map_lt with (d0 := 0%nat) by (rewrite rev_length, seq_length; lia).
    rewrite rev_nth by (rewrite seq_length; lia).
    rewrite seq_length. rewrite seq_nth by lia.
    replace (1 + (c - S (c - j)))%nat with j by lia. reflexivity.
  - rewrite app_nth2 by (rewrite map_length, rev_length, seq_length; lia).
    rewrite map_length, rev_length, seq_length.
    rewrite app_nth2 by lia.
    replace (c + length a - 1 + j - c - length a)%nat with (j - 1)%nat by lia.
    rewrite nth_map_lt with (d0 := 0%nat) by (rewrite seq_length; lia).
    rewrite seq_nth by lia.
    replace (1 + (j - 1))%nat with j by lia. reflexivity.
Qed.

Lemma reflect_chunk_sorted : forall a c,
  StronglySorted Z.lt a -> (c <= length a - 1)%nat -> StronglySorted Z.lt (reflect_chunk a c).
Proof.
  intros a c Ha Hc. unfold reflect_chunk.
  apply SSorted_app. split; [|split].
  - apply map_rev_seq_sorted. intros i j H1 H2 H3.
    assert (H := sorted_nth_lt a i j Ha H2 ltac:(lia)). lia.
  - apply SSorted_app. split; [exact Ha|]. split.
    + apply map_seq_sorted. intros i j H1 H2 H3.
      assert (H := sorted_nth_lt a (length a - 1 - j) (length a - 1 - i) Ha ltac:(lia) ltac:(lia)). lia.
    + intros x y Hx Hy. apply in_map_iff in Hy. destruct Hy as (k & <- & Hk). apply in_seq in Hk.
      assert (H := sorted_le_last a x 0 Ha Hx).
      assert (H' := sorted_nth_lt a (length a - 1 - k) (length a - 1) Ha ltac:(lia) ltac:(lia)).
      rewrite <- last_nth in H'. lia.
  - intros x y Hx Hy. apply in_map_iff in Hx. destruct Hx as (k & <- & Hk).
    apply in_rev in Hk. apply in_seq in Hk.
    assert (H' := sorted_nth_lt a 0 k Ha ltac:(lia) ltac:(lia)). rewrite <- hd_nth0 in H'.
    apply in_app_or in Hy. destruct Hy as [Hy|Hy].
    + assert (H := sorted_hd_le a y 0 Ha Hy). lia.
    + apply in_map_iff in Hy. destruct Hy as (k' & <- & Hk'). apply in_seq in Hk'.
      assert (H := sorted_nth_lt a (length a - 1 - k') (length a - 1) Ha ltac:(lia) ltac:(lia)).
      rewrite <- last_nth in H.
      assert (H0 : In (hd 0 a) a). { destruct a; [cbn [length] in Hc; lia|left; reflexivity]. }
      assert (H1 := sorted_le_last a _ 0 Ha H0). lia.
Qed.

Lemma pad_reflect_odd_shape : forall fuel a p,
  (p <= fuel)%nat -> (2 <= length a)%nat -> StronglySorted Z.lt a ->
  exists Lp Rp, pad_reflect_odd fuel a p = Lp ++ a ++ Rp /\ length Lp = p /\ length Rp = p /\
                StronglySorted Z.lt (Lp ++ a ++ Rp).
Proof.
  induction fuel as [|f IH]; intros a p Hp Hlen Ha.
  - exists [], []. cbn [pad_reflect_odd app length]. rewrite app_nil_r.
    repeat split; try lia. exact Ha.
  - cbn [pad_reflect_odd]. destruct (Nat.eqb_spec p 0) as [E|E].
    + exists [], []. cbn [app length]. rewrite app_nil_r. repeat split; try lia. exact Ha.
    + destruct (Nat.leb_spec (length a) 1) as [E1|E1]; [lia|].
      set (c := Nat.min p (length a - 1)).
      assert (Hc1 : (1 <= c)%nat) by (unfold c; lia).
      assert (Hc2 : (c <= length a - 1)%nat) by (unfold c; lia).
      assert (Hc3 : (c <= p)%nat) by (unfold c; lia).
      assert (Hs := reflect_chunk_sorted a c Ha Hc2).
      assert (Hl : (2 <= length (reflect_chunk a c))%nat).
      { unfold reflect_chunk. rewrite !app_length. lia. }
      destruct (IH (reflect_chunk a c) (p - c)%nat ltac:(lia) Hl Hs) as (Lp & Rp & E2 & H1 & H2 & H3).
      rewrite E2. unfold reflect_chunk in *.
      set (L1 := map (fun k : nat => 2 * hd 0 a - nth k a 0) (rev (seq 1 c))) in *.
      set (R1 := map (fun k : nat => 2 * last a 0 - nth (length a - 1 - k) a 0) (seq 1 c)) in *.
      exists (Lp ++ L1), (R1 ++ Rp).
      assert (EE : Lp ++ (L1 ++ a ++ R1) ++ Rp = (Lp ++ L1) ++ a ++ R1 ++ Rp).
      { rewrite <- !app_assoc. reflexivity. }
      rewrite <- EE. split; [reflexivity|].
      rewrite !app_length. unfold L1, R1. rewrite !map_length, rev_length, !seq_length.
      repeat split; try lia. exact H3.
Qed.

(* ------------------------------------------------------------------------------------ *)
(* magnitudes: pad_edge                                                                 *)
(* ------------------------------------------------------------------------------------ *)

Lemma last_app_nonempty : forall (A B : list Z) d, B <> [] -> last (A ++ B) d = last B d.
Proof.
  induction A as [|a A IH]; intros B d HB; [reflexivity|].
  cbn [app]. rewrite <- (IH B d HB).
  destruct (A ++ B) eqn:E; [|reflexivity].
  apply app_eq_nil in E. destruct E as [_ E]. contradiction.
Qed.

Lemma last_repeat : forall (l : Z) k d, last (repeat l (S k)) d = l.
Proof.
  intros l k d. induction k as [|k IH]; [reflexivity|].
  change (repeat l (S (S k))) with (l :: l :: repeat l k). rewrite last_cons_cons. exact IH.
Qed.

Lemma hd_padded : forall (mags R : list Z) k,
  mags <> [] -> hd 0 (repeat (hd 0 mags) k ++ mags ++ R) = hd 0 mags.
Proof.
  intros mags R k H. destruct k; [|reflexivity].
  destruct mags; [contradiction|reflexivity].
Qed.

Lemma last_padded : forall (mags X : list Z) k,
  mags <> [] -> last (X ++ mags ++ repeat (last mags 0) k) 0 = last mags 0.
Proof.
  intros mags X k H. destruct k as [|k].
  - cbn [repeat]. rewrite app_nil_r. apply last_app_nonempty. exact H.
  - rewrite app_assoc. rewrite last_app_nonempty by discriminate. apply last_repeat.
Qed.

(* ------------------------------------------------------------------------------------ *)
(* the re-padding loop                                                                  *)
(* ------------------------------------------------------------------------------------ *)

Definition pinv (core mags L M : list Z) (k : nat) : Prop :=
  exists Lp Rp, L = Lp ++ core ++ Rp /\ length Lp = k /\ length Rp = k /\
    StronglySorted Z.lt L /\
    M = repeat (hd 0 mags) k ++ mags ++ repeat (last mags 0) k.

Lemma pinv_step : forall core mags L M k p,
  (2 <= length core)%nat -> mags <> [] -> pinv core mags L M k ->
  pinv core mags (pad_reflect_odd (S p) L p) (pad_edge M p) (p + k).
Proof.
  intros core mags L M k p Hc Hm (Lp & Rp & EL & H1 & H2 & Hs & EM).
  assert (HlL : (2 <= length L)%nat). { rewrite EL, !app_length. lia. }
  destruct (pad_reflect_odd_shape (S p) L p ltac:(lia) HlL Hs) as (Lp' & Rp' & E & H1' & H2' & Hs').
  exists (Lp' ++ Lp), (Rp ++ Rp'). rewrite E.
  split; [rewrite EL, <- !app_assoc; reflexivity|].
  rewrite !app_length. split; [lia|]. split; [lia|]. split; [exact Hs'|].
  unfold pad_edge. rewrite EM.
  rewrite hd_padded by exact Hm. rewrite last_padded by exact Hm.
  rewrite (repeat_app (hd 0 mags) p k).
  replace (repeat (last mags 0) (p + k)) with (repeat (last mags 0) (k + p))
    by (f_equal; lia).
  rewrite (repeat_app (last mags 0) k p).
  rewrite <- !app_assoc. reflexivity.
Qed.

Lemma pinv_bounds : forall core mags L M k N,
  (2 <= length core)%nat -> (forall c, In c core -> 1 <= c <= N - 2) ->
  pinv core mags L M k ->
  list_min L <= N - 2 - Z.of_nat k /\ 1 + Z.of_nat k <= list_max L.
Proof.
  intros core mags L M k N Hc Hb (Lp & Rp & EL & H1 & H2 & Hs & _).
  rewrite sorted_list_min, sorted_list_max by exact Hs.
  destruct core as [|c rest]; [cbn [length] in Hc; lia|].
  assert (Hcb := Hb c (or_introl eq_refl)).
  subst L. cbn [app] in *.
  assert (G1 := sorted_prefix_gap Lp c (rest ++ Rp) 0 Hs).
  assert (G2 := sorted_suffix_gap Lp c (rest ++ Rp) 0 Hs).
  rewrite app_length in G2. lia.
Qed.

Lemma pad_loop_inv : forall fuel N p core mags L M k,
  (1 <= p)%nat -> (2 <= length core)%nat -> mags <> [] ->
  (forall c, In c core -> 1 <= c <= N - 2) ->
  pinv core mags L M k -> (1 <= fuel)%nat -> N + 1 <= Z.of_nat k + Z.of_nat fuel ->
  exists L' M' k', pad_loop fuel N p L M = Padded L' M' /\ pinv core mags L' M' k' /\
                   list_min L' < 0 /\ N <= list_max L'.
Proof.
  induction fuel as [|f IH]; intros N p core mags L M k Hp Hc Hm Hb Hinv Hf Hk; [lia|].
  cbn [pad_loop].
  destruct ((list_max L <? N) || (0 <=? list_min L)) eqn:E.
  - assert (HkN : Z.of_nat k < N).
    { destruct (pinv_bounds core mags L M k N Hc Hb Hinv) as [B1 B2].
      apply orb_true_iff in E. destruct E as [E|E].
      - apply Z.ltb_lt in E. lia.
      - apply Z.leb_le in E. lia. }
    apply (IH N p core mags _ _ (p + k)%nat); try assumption.
    + apply pinv_step; assumption.
    + lia.
    + lia.
  - exists L, M, k. split; [reflexivity|]. split; [exact Hinv|].
    apply orb_false_iff in E. destruct E as [E1 E2].
    apply Z.ltb_ge in E1. apply Z.leb_gt in E2. lia.
Qed.

(* ------------------------------------------------------------------------------------ *)
(* get_padded_extrema                                                                   *)
(* ------------------------------------------------------------------------------------ *)

Lemma transform_length : forall m x, length (transform m x) = length x.
Proof. intros [] x; cbn [transform]; [reflexivity|apply map_length|apply map_length]. Qed.

Lemma extrema_locs_bounds : forall m x i,
  In i (fst (extrema m x)) -> (1 <= i)%nat /\ (S i < length x)%nat.
Proof.
  intros m x i H. unfold extrema in H. cbn [fst] in H. apply find_maxima_spec in H.
  destruct H as (Hi & a & b & c & _ & _ & H & _). split; [exact Hi|].
  rewrite <- (transform_length m x). apply nth_error_Some. rewrite H. discriminate.
Qed.

Lemma extrema_locs_sorted : forall m x, StronglySorted lt (fst (extrema m x)).
Proof. intros m x. unfold extrema. cbn [fst]. apply find_maxima_sorted. Qed.

Lemma extrema_mags_length : forall m x, length (snd (extrema m x)) = length (fst (extrema m x)).
Proof. intros m x. rewrite extrema_mags_spec. apply map_length. Qed.

Lemma map_of_nat_sorted : forall l, StronglySorted lt l -> StronglySorted Z.lt (map Z.of_nat l).
Proof.
  induction l as [|a t IH]; intros H; cbn [map]; [constructor|].
  apply StronglySorted_inv in H. destruct H as [Hs Hf]. constructor; [apply IH; exact Hs|].
  rewrite Forall_forall in *. intros y Hy. apply in_map_iff in Hy. destruct Hy as (j & <- & Hj).
  specialize (Hf _ Hj). lia.
Qed.

Lemma gpe_cases : forall x p m,
  ((length (fst (extrema m x)) <= 1)%nat /\ get_padded_extrema x p m = NoExtrema) \/
  ((2 <= length (fst (extrema m x)))%nat /\
   exists L M k, get_padded_extrema x p m = Padded L M /\
     pinv (map Z.of_nat (fst (extrema m x))) (snd (extrema m x)) L M k /\
     ((1 <= p)%nat -> list_min L < 0 /\ Z.of_nat (length x) <= list_max L)).
Proof.
  intros x p m.
  assert (Hb := extrema_locs_bounds m x).
  assert (Hs := extrema_locs_sorted m x).
  assert (Hl := extrema_mags_length m x).
  unfold get_padded_extrema.
  destruct (extrema m x) as [locs mags]. cbn [fst snd] in *.
  destruct (Nat.leb_spec (length locs) 1) as [E|E]; [left; split; [exact E|reflexivity]|].
  right. split; [lia|].
  set (core := map Z.of_nat locs).
  assert (Hcs : StronglySorted Z.lt core) by (apply map_of_nat_sorted; exact Hs).
  assert (Hcl : (2 <= length core)%nat) by (unfold core; rewrite map_length; lia).
  assert (Hm : mags <> []). { intros ->. cbn [length] in Hl. lia. }
  assert (Hcb : forall c, In c core -> 1 <= c <= Z.of_nat (length x) - 2).
  { intros c Hc. apply in_map_iff in Hc. destruct Hc as (i & <- & Hi). apply Hb in Hi. lia. }
  assert (Hinv0 : pinv core mags core mags 0).
  { exists [], []. cbn [app length repeat]. rewrite !app_nil_r. repeat split. exact Hcs. }
  destruct (Nat.eqb_spec (Nat.min p (length locs)) 0) as [E0|E0].
  - exists core, mags, 0%nat. split; [reflexivity|]. split; [exact Hinv0|]. intros Hp. lia.
  - set (q := Nat.min p (length locs)) in *.
    assert (Hinv1 := pinv_step core mags core mags 0 q Hcl Hm Hinv0).
    destruct (pad_loop_inv (length x + 2) (Z.of_nat (length x)) q core mags _ _ (q + 0)%nat
                ltac:(lia) Hcl Hm Hcb Hinv1 ltac:(lia) ltac:(lia))
      as (L' & M' & k' & EL & Hinv' & Hmin & Hmax).
    exists L', M', k'. split; [exact EL|]. split; [exact Hinv'|]. intros _. split; assumption.
Qed.

Lemma no_extrema_iff : forall x p m,
  get_padded_extrema x p m = NoExtrema <-> (length (fst (extrema m x)) <= 1)%nat.
Proof.
  intros x p m. destruct (gpe_cases x p m) as [[H1 H2]|[H1 (L & M & k & H2 & _)]].
  - split; intros _; assumption.
  - rewrite H2. split; [discriminate|lia].
Qed.

Lemma pad_loop_terminates : forall x p m, get_padded_extrema x p m <> PadOutOfFuel.
Proof.
  intros x p m. destruct (gpe_cases x p m) as [[H1 H2]|[H1 (L & M & k & H2 & _)]];
    rewrite H2; discriminate.
Qed.

Lemma pad_interior : forall x p m L M,
  get_padded_extrema x p m = Padded L M ->
  exists Lp Rp,
    L = Lp ++ map Z.of_nat (fst (extrema m x)) ++ Rp /\ length Lp = length Rp /\
    M = repeat (hd 0 (snd (extrema m x))) (length Lp) ++ snd (extrema m x)
        ++ repeat (last (snd (extrema m x)) 0) (length Rp).
Proof.
  intros x p m L M H. destruct (gpe_cases x p m) as [[H1 H2]|[H1 (L' & M' & k & H2 & Hinv & _)]].
  - rewrite H2 in H. discriminate.
  - rewrite H2 in H. injection H as <- <-.
    destruct Hinv as (Lp & Rp & EL & E1 & E2 & _ & EM).
    exists Lp, Rp. rewrite E1, E2. split; [exact EL|]. split; [reflexivity|exact EM].
Qed.

Lemma pad_strict_sorted : forall x p m L M,
  get_padded_extrema x p m = Padded L M -> StronglySorted Z.lt L.
Proof.
  intros x p m L M H. destruct (gpe_cases x p m) as [[H1 H2]|[H1 (L' & M' & k & H2 & Hinv & _)]].
  - rewrite H2 in H. discriminate.
  - rewrite H2 in H. injection H as <- <-.
    destruct Hinv as (Lp & Rp & _ & _ & _ & Hs & _). exact Hs.
Qed.

Lemma pad_covers : forall x p m L M,
  (1 <= p)%nat -> get_padded_extrema x p m = Padded L M ->
  list_min L < 0 /\ Z.of_nat (length x) <= list_max L.
Proof.
  intros x p m L M Hp H. destruct (gpe_cases x p m) as [[H1 H2]|[H1 (L' & M' & k & H2 & _ & Hc)]].
  - rewrite H2 in H. discriminate.
  - rewrite H2 in H. injection H as <- <-. apply Hc. exact Hp.
Qed.

(* ------------------------------------------------------------------------------------ *)
(* the sample grid                                                                      *)
(* ------------------------------------------------------------------------------------ *)

Lemma In_zrange : forall lo hi v, In v (zrange lo hi) <-> lo <= v < hi.
Proof.
  intros lo hi v. unfold zrange. rewrite in_map_iff. split.
  - intros (k & <- & Hk). apply in_seq in Hk. lia.
  - intros H. exists (Z.to_nat (v - lo)). split; [lia|]. apply in_seq. lia.
Qed.

Lemma map_seq_shift : forall n s d lo,
  map (fun k => lo + Z.of_nat k) (seq (d + s) n) =
  map (fun k => (lo + Z.of_nat d) + Z.of_nat k) (seq s n).
Proof.
  induction n as [|n IH]; intros s d lo; cbn [seq map]; [reflexivity|].
  f_equal; [lia|]. rewrite <- IH. f_equal. f_equal. lia.
Qed.

Lemma zrange_split : forall lo mid hi, lo <= mid <= hi -> zrange lo hi = zrange lo mid ++ zrange mid hi.
Proof.
  intros lo mid hi H. unfold zrange.
  replace (Z.to_nat (hi - lo)) with (Z.to_nat (mid - lo) + Z.to_nat (hi - mid))%nat by lia.
  rewrite seq_app, map_app. f_equal.
  cbn [Nat.add]. rewrite <- (Nat.add_0_r (Z.to_nat (mid - lo))).
  rewrite map_seq_shift. replace (lo + Z.of_nat (Z.to_nat (mid - lo))) with mid by lia.
  reflexivity.
Qed.

Lemma filter_none : forall (f : Z -> bool) l, (forall v, In v l -> f v = false) -> filter f l = [].
Proof.
  induction l as [|a t IH]; intros H; cbn [filter]; [reflexivity|].
  rewrite (H a (or_introl eq_refl)). apply IH. intros v Hv. apply H. right. exact Hv.
Qed.

Lemma filter_all : forall (f : Z -> bool) l, (forall v, In v l -> f v = true) -> filter f l = l.
Proof.
  induction l as [|a t IH]; intros H; cbn [filter]; [reflexivity|].
  rewrite (H a (or_introl eq_refl)). f_equal. apply IH. intros v Hv. apply H. right. exact Hv.
Qed.

Lemma filter_zrange : forall lo hi N, lo <= 0 -> N <= hi ->
  filter (fun v => (0 <=? v) && (v <? N)) (zrange lo hi) = zrange 0 N.
Proof.
  intros lo hi N Hlo Hhi. destruct (Z_le_gt_dec N 0) as [HN|HN].
  - unfold zrange at 2. replace (Z.to_nat (N - 0)) with 0%nat by lia. cbn [seq map].
    apply filter_none. intros v Hv. apply andb_false_iff.
    destruct (Z.leb_spec 0 v); [right; apply Z.ltb_ge; lia|left; reflexivity].
  - rewrite (zrange_split lo 0 hi) by lia. rewrite (zrange_split 0 N hi) by lia.
    rewrite !filter_app.
    rewrite (filter_none _ (zrange lo 0)), (filter_all _ (zrange 0 N)), (filter_none _ (zrange N hi)).
    + rewrite app_nil_r. reflexivity.
    + intros v Hv. apply In_zrange in Hv. apply andb_false_iff. right. apply Z.ltb_ge. lia.
    + intros v Hv. apply In_zrange in Hv. apply andb_true_iff. split; [apply Z.leb_le|apply Z.ltb_lt]; lia.
    + intros v Hv. apply In_zrange in Hv. apply andb_false_iff. left. apply Z.leb_gt. lia.
Qed.

Lemma zrange_length : forall N, 0 <= N -> Z.of_nat (length (zrange 0 N)) = N.
Proof. intros N H. unfold zrange. rewrite map_length, seq_length. lia. Qed.

Lemma envelope_on_sample_grid : forall x p m L M,
  (1 <= p)%nat -> get_padded_extrema x p m = Padded L M ->
  env_grid L (Z.of_nat (length x)) = Some (zrange 0 (Z.of_nat (length x))).
Proof.
  intros x p m L M Hp H.
  assert (Hs := pad_strict_sorted x p m L M H).
  destruct (pad_covers x p m L M Hp H) as [Hmin Hmax].
  rewrite sorted_list_min in Hmin by exact Hs. rewrite sorted_list_max in Hmax by exact Hs.
  unfold env_grid. rewrite filter_zrange by lia.
  rewrite zrange_length by lia. rewrite Z.eqb_refl. reflexivity.
Qed.

Lemma env_grid_q_spec : forall (first last_ : Q) N,
  (first < 0)%Q -> (inject_Z N <= last_)%Q -> env_grid_q first last_ N = zrange 0 N.
Proof.
  intros first last_ N H1 H2. unfold env_grid_q. apply filter_zrange.
  - unfold qceil.
    assert (H : (0 <= - first)%Q) by lra.
    apply Qfloor_resp_le in H. change (Qfloor 0) with 0 in H. lia.
  - unfold qceil.
    assert (H : (- last_ <= inject_Z (- N))%Q).
    { rewrite inject_Z_opp. lra. }
    apply Qfloor_resp_le in H. rewrite Qfloor_Z in H. lia.
Qed.

(* ------------------------------------------------------------------------------------ *)
(* parabolic refinement                                                                 *)
(* ------------------------------------------------------------------------------------ *)

Lemma Qsq_nonneg : forall q : Q, (0 <= q * q)%Q.
Proof.
  intros q. destruct (Qlt_le_dec q 0) as [H|H].
  - setoid_replace (q * q)%Q with ((- q) * (- q))%Q by ring.
    apply Qmult_le_0_compat; lra.
  - apply Qmult_le_0_compat; exact H.
Qed.

Lemma parabolic_vertex_close : forall y0 y1 y2 loc : Q,
  (y0 < y1)%Q -> (y2 < y1)%Q ->
  (loc - (1#2) < fst (parabolic_vertex y0 y1 y2 loc) < loc + (1#2))%Q /\
  (y1 <= snd (parabolic_vertex y0 y1 y2 loc))%Q.
Proof.
  intros y0 y1 y2 loc H0 H2. unfold parabolic_vertex. cbn [fst snd].
  set (D := (2 * y1 - y0 - y2)%Q).
  assert (HD : (0 < D)%Q) by (unfold D; lra).
  set (b := (- (5 # 2) * y0 + 4 * y1 - (3 # 2) * y2)%Q).
  assert (E : (- b / (2 * ((1 # 2) * y0 - y1 + (1 # 2) * y2)) == b / D)%Q).
  { unfold D. field. split; lra. }
  rewrite E.
  assert (L1 : ((3#2) < b / D)%Q).
  { apply Qlt_shift_div_l; [exact HD|]. unfold b, D. lra. }
  assert (L2 : (b / D < (5#2))%Q).
  { apply Qlt_shift_div_r; [exact HD|]. unfold b, D. lra. }
  split; [split; lra|].
  assert (E2 : (b / D * b / 2 == (b * b) / (2 * D))%Q).
  { field. lra. }
  rewrite E2.
  assert (L3 : (y1 - (3 * y0 - 3 * y1 + y2) <= (b * b) / (2 * D))%Q).
  { apply Qle_shift_div_l; [lra|].
    assert (S := Qsq_nonneg ((y2 - y0) / 2)).
    assert (E3 : (b * b - (y1 - (3 * y0 - 3 * y1 + y2)) * (2 * D)
                  == (y2 - y0) / 2 * ((y2 - y0) / 2))%Q).
    { unfold b, D. field. }
    lra. }
  lra.
Qed.

(* ------------------------------------------------------------------------------------ *)
(* the grid before the repair, and non-vacuity of the premises                          *)
(* ------------------------------------------------------------------------------------ *)

Lemma env_grid_v0_refuted : exists (first last_ : Q) N v,
  (first < 0)%Q /\ (inject_Z N <= last_)%Q /\
  In v (env_grid_q_v0 first last_ N) /\ Qden (Qred v) <> 1%positive.
Proof.
  exists (-1 # 2)%Q, 2%Q, 2, (1 # 2)%Q.
  split; [reflexivity|]. split; [discriminate|].
  split; [vm_compute; left; reflexivity|]. vm_compute. discriminate.
Qed.

Lemma c05_premises_hold :
  get_padded_extrema [0; 1; 0; 1; 0; 2; 0; 0; 1; 0] 2 Peaks
  = Padded [-3; -1; 1; 3; 5; 8; 11; 13] [1; 1; 1; 1; 2; 1; 1; 1] /\
  get_padded_extrema [0; 1; 0; 1; 0; 2; 0; 0; 1; 0] 2 Troughs
  = Padded [-6; -4; -2; 0; 2; 4; 6; 8; 10; 12] [0; 0; 0; 0; 0; 0; 0; 0; 0; 0].
Proof. split; vm_compute; reflexivity. Qed.
