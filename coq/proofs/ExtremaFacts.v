(* Facts about model/Extrema.v (property C05). *)
From Coq Require Import ZArith QArith Qround List Bool Lia Arith Sorted Lqa.
From EmdV Require Import lib.NpLite model.Extrema.
Import ListNotations.
Open Scope Z_scope.

(* ------------------------------------------------------------------------------------ *)
(* find_maxima                                                                          *)
(* ------------------------------------------------------------------------------------ *)

Lemma maxima_from_cons3 : forall i a b c t,
  maxima_from i (a :: b :: c :: t) =
  if (a <? b) && (c <? b) then S i :: maxima_from (S i) (b :: c :: t)
  else maxima_from (S i) (b :: c :: t).
Proof. reflexivity. Qed.

Lemma In_maxima_from : forall l i k,
  In k (maxima_from i l) <->
  exists j a b c, k = S (i + j) /\ nth_error l j = Some a /\ nth_error l (S j) = Some b /\
     nth_error l (S (S j)) = Some c /\ a < b /\ c < b.
Proof.
  induction l as [|a t IH]; intros i k.
  - split; [intros []|]. intros (j & a & b & c & _ & H & _). destruct j; discriminate H.
  - destruct t as [|b t].
    + split; [intros []|]. intros (j & a' & b' & c' & _ & _ & H & _).
      cbn [nth_error] in H. destruct j; discriminate H.
    + destruct t as [|c t].
      * split; [intros []|]. intros (j & a' & b' & c' & _ & _ & _ & H & _).
        cbn [nth_error] in H. destruct j as [|j]; [discriminate H|].
        cbn [nth_error] in H. destruct j; discriminate H.
      * rewrite maxima_from_cons3. specialize (IH (S i) k).
        split.
        -- intros Hin.
           assert (Hcase : (((a <? b) && (c <? b) = true) /\ k = S i) \/
                           In k (maxima_from (S i) (b :: c :: t))).
           { destruct ((a <? b) && (c <? b)) eqn:E.
             - destruct Hin as [Hk|Hin]; [left; split; [reflexivity|symmetry; exact Hk]|right; exact Hin].
             - right; exact Hin. }
           destruct Hcase as [[E Hk]|Hin'].
           ++ apply andb_true_iff in E. destruct E as [E1 E2].
              apply Z.ltb_lt in E1. apply Z.ltb_lt in E2.
              exists 0%nat, a, b, c. cbn [nth_error].
              repeat split; try assumption. lia.
           ++ apply IH in Hin'. destruct Hin' as (j & a' & b' & c' & Hk & H1 & H2 & H3 & H4 & H5).
              exists (S j), a', b', c'. cbn [nth_error].
              repeat split; try assumption. lia.
        -- intros (j & a' & b' & c' & Hk & H1 & H2 & H3 & H4 & H5).
           destruct j as [|j].
           ++ cbn [nth_error] in H1, H2, H3.
              injection H1 as <-. injection H2 as <-. injection H3 as <-.
              assert (E : (a <? b) && (c <? b) = true).
              { apply andb_true_iff; split; apply Z.ltb_lt; assumption. }
              rewrite E. left. lia.
           ++ assert (Hin : In k (maxima_from (S i) (b :: c :: t))).
              { apply IH. exists j, a', b', c'. cbn [nth_error] in H1, H2, H3.
                repeat split; try assumption. lia. }
              destruct ((a <? b) && (c <? b)); [right|]; exact Hin.
Qed.

Lemma maxima_from_sorted : forall l i, StronglySorted lt (maxima_from i l).
Proof.
  induction l as [|a t IH]; intros i.
  - constructor.
  - destruct t as [|b t]; [constructor|].
    destruct t as [|c t]; [constructor|].
    rewrite maxima_from_cons3.
    destruct ((a <? b) && (c <? b)); [|apply IH].
    constructor; [apply IH|].
    apply Forall_forall. intros k Hk. apply In_maxima_from in Hk.
    destruct Hk as (j & _ & _ & _ & Hk & _). lia.
Qed.

Lemma find_maxima_spec : forall x i, In i (find_maxima x) <-> strict_max_at x i.
Proof.
  intros x i. unfold find_maxima, strict_max_at. rewrite In_maxima_from. split.
  - intros (j & a & b & c & Hk & H1 & H2 & H3 & H4 & H5). subst i.
    split; [lia|]. exists a, b, c.
    replace (S (0 + j) - 1)%nat with j by lia. cbn [Nat.add].
    repeat split; assumption.
  - intros (Hi & a & b & c & H1 & H2 & H3 & H4 & H5).
    exists (i - 1)%nat, a, b, c.
    replace (S (i - 1)) with i by lia.
    repeat split; try assumption. lia.
Qed.

Lemma find_maxima_sorted : forall x, StronglySorted lt (find_maxima x).
Proof. intros x. apply maxima_from_sorted. Qed.

(* ------------------------------------------------------------------------------------ *)
(* troughs, magnitudes                                                                  *)
(* ------------------------------------------------------------------------------------ *)

Lemma troughs_spec : forall x i, In i (fst (extrema Troughs x)) <-> strict_min_at x i.
Proof.
  intros x i. unfold extrema. cbn [fst transform]. rewrite find_maxima_spec.
  unfold strict_max_at, strict_min_at. split.
  - intros (Hi & a & b & c & H1 & H2 & H3 & H4 & H5). split; [exact Hi|].
    rewrite nth_error_map in H1, H2, H3.
    destruct (nth_error x (i - 1)) as [a'|]; [|discriminate H1].
    destruct (nth_error x i) as [b'|]; [|discriminate H2].
    destruct (nth_error x (S i)) as [c'|]; [|discriminate H3].
    cbn [option_map] in H1, H2, H3.
    injection H1 as <-. injection H2 as <-. injection H3 as <-.
    exists a', b', c'. repeat split; try reflexivity; lia.
  - intros (Hi & a & b & c & H1 & H2 & H3 & H4 & H5). split; [exact Hi|].
    exists (- a), (- b), (- c). rewrite !nth_error_map, H1, H2, H3. cbn [option_map].
    repeat split; try reflexivity; lia.
Qed.

Lemma nth_map0 : forall (f : Z -> Z) l i, f 0 = 0 -> nth i (map f l) 0 = f (nth i l 0).
Proof.
  intros f l i Hf. rewrite <- Hf at 1. apply map_nth.
Qed.

Lemma extrema_mags_spec : forall m x,
  snd (extrema m x) =
  map (fun i => match m with AbsPeaks => Z.abs (nth i x 0) | _ => nth i x 0 end) (fst (extrema m x)).
Proof.
  intros m x. unfold extrema. cbn [fst snd]. destruct m; cbn [transform].
  - reflexivity.
  - rewrite map_map. apply map_ext. intros i.
    rewrite (nth_map0 Z.opp) by reflexivity. apply Z.opp_involutive.
  - apply map_ext. intros i. apply (nth_map0 Z.abs). reflexivity.
Qed.
