From Coq Require Import String List Bool Arith Lia.
From EmdV Require Import lib.PyLoop model.SiftCore proofs.SiftCoreFacts gen.Gen_Skeleton proofs.SkeletonFacts.
Import ListNotations.
Open Scope string_scope.

(* ============================================================================================== *)
(* sift: the outer loop                                                                           *)
(* ============================================================================================== *)
Section SiftTie.
  Variable V : Type.
  Variable vzero : V.
  Variable vadd vsub : V -> V -> V.
  Variable small : V -> bool.                  (* np.abs(next_imf).sum() < sift_thresh *)
  (* get_next_imf(residual, envelope_opts=.., extrema_opts=.., **imf_opts) as ONE opaque primitive:
     Some (imf, continue_flag), or None when it raises EMDSiftCovergeError *)
  Variable ext : V -> option (V * bool).

  Definition extract_of : nat -> list V -> V -> gni_result V :=
    fun _ _ r => match ext r with Some (p, fl) => Imf p fl 0 | None => ConvergeError 0 end.

  (* [nsamples x k] arrays: one column is the signal itself, more are an opaque "matrix" of columns *)
  Fixpoint sigs (l : list (val V)) : option (list V) :=
    match l with
    | [] => Some []
    | VSig x :: t => match sigs t with Some r => Some (x :: r) | None => None end
    | _ => None
    end.
  Definition cols_of (v : val V) : option (list V) :=
    match v with
    | VSig x => Some [x]
    | VOpaque t l => if String.eqb t "matrix" then sigs l else None
    | _ => None
    end.
  Definition mat_val (l : list V) : val V :=
    match l with [x] => VSig x | _ => VOpaque "matrix" (map VSig l) end.

  Lemma sigs_map : forall l, sigs (map VSig l) = Some l.
  Proof. induction l as [|a t IH]; [reflexivity|]. cbn [map sigs]. rewrite IH. reflexivity. Qed.

  Lemma cols_mat : forall l, cols_of (mat_val l) = Some l.
  Proof.
    intros [|a [|b t]]; try reflexivity.
    unfold mat_val, cols_of. cbn [String.eqb Ascii.eqb Bool.eqb andb]. apply sigs_map.
  Qed.

  Lemma mat_val_snoc : forall l x, l <> [] -> mat_val (l ++ [x]) = VOpaque "matrix" (map VSig (l ++ [x])).
  Proof. intros [|a [|b t]] x H; try reflexivity. contradiction. Qed.

  (* ---- the primitive mapping table of sift ---- *)
  Definition sift_table : list (string * handler V) :=
    [ ("{'env_step_size': 1, 'sd_thresh': 0.1}",
        fun args kw => match args, kw with [], [] => Ok (VOpaque "default_imf_opts" []) | _, _ => Bad end);
      ("bool",                                  (* a user-supplied, non-empty option dictionary *)
        fun args kw => match args, kw with
                       | [v], [] => if is_opaque0 v "imf_opts" then Ok (VBool true) else Bad
                       | _, _ => Bad
                       end);
      ("ensure_1d_with_singleton", ensure_1d);
      ("X.shape",
        fun args kw => match args, kw with
                       | [VSig x], [] => Ok (VList [VOpaque "nsamples" [VSig x]; VNat 1])
                       | _, _ => Bad
                       end);
      ("_nsamples_warn",                        (* only warns *)
        fun args kw => match args, kw with [_; _], [] => Ok VNone | _, _ => Bad end);
      ("X.copy()", sig_identity);
      ("get_next_imf",
        fun args kw =>
          match args, kw with
          | [VSig r], [_; _; _] =>
              if keys_are kw ["envelope_opts"; "extrema_opts"; "**"] then
                match ext r with
                | Some (p, fl) => Ok (VList [VSig p; VBool fl])
                | None => Exc "EMDSiftCovergeError"
                end
              else Bad
          | _, _ => Bad
          end);
      ("np.concatenate",
        fun args kw =>
          match args, kw with
          | [VList [a; b]], [(k, VNat 1)] =>
              if String.eqb k "axis" then
                match cols_of a, cols_of b with
                | Some la, Some lb => Ok (VOpaque "matrix" (map VSig (la ++ lb)))
                | _, _ => Bad
                end
              else Bad
          | _, _ => Bad
          end);
      ("imf.sum(axis=1)[:, None]",
        fun args kw => match args, kw with
                       | [m], [] => match cols_of m with
                                    | Some l => Ok (VSig (vsum V vzero vadd l))
                                    | None => Bad
                                    end
                       | _, _ => Bad
                       end);
      ("-", fun args kw => match args, kw with [VSig a; VSig b], [] => Ok (VSig (vsub a b)) | _, _ => Bad end);
      ("np.abs(next_imf).sum()",
        fun args kw => match args, kw with [VSig x], [] => Ok (VOpaque "abs_sum" [VSig x]) | _, _ => Bad end);
      ("<", fun args kw =>
              match args, kw with
              | [VOpaque t [VSig x]; th], [] =>
                  if String.eqb t "abs_sum" && is_opaque0 th "sift_thresh" then Ok (VBool (small x)) else Bad
              | _, _ => Bad
              end) ].

  Definition sift_prims : prims V := prims_of sift_table.

  Definition cap_val (cap : option nat) : val V := match cap with Some k => VNat k | None => VNone end.

  (* the parameters of sift, in the order of the def line *)
  Definition sift_args (cap : option nat) (X : V) (vb io eo xo : val V) : list (val V) :=
    [ VSig X;                          (* X *)
      VOpaque "sift_thresh" [];        (* sift_thresh *)
      cap_val cap;                     (* max_imfs *)
      vb;                              (* verbose: any value (consumed by the decorator) *)
      io;                              (* imf_opts: None or a non-empty dictionary *)
      eo;                              (* envelope_opts: any value *)
      xo ].                            (* extrema_opts: any value *)

  Definition io_ok (io : val V) : Prop := io = VNone \/ io = VOpaque "imf_opts" [].

  Definition sift_names : list string := Eval cbv in assigned prog_sift params_sift.

  Definition sift_env0 cap X vb io eo xo : env V :=
    frame params_sift sift_names (sift_args cap X vb io eo xo).

  Definition sift_render (r : list V * exit_flags) : outcome V :=
    let (acc, fl) := r in
    if out_of_fuel fl then OutOfFuel
    else if raised fl then Raise "EMDSiftCovergeError"
    else Return (mat_val acc).

  Definition sift_split := Eval cbv in split_at_while (spine prog_sift).
  Definition sift_pre : list stmt := match sift_split with Some (p, _, _) => p | None => [] end.
  Definition sift_cond : expr := match sift_split with Some (_, (c, _), _) => c | None => ENone end.
  Definition sift_body : stmt := match sift_split with Some (_, (_, b), _) => b | None => SSkip end.
  Definition sift_post : list stmt := match sift_split with Some (_, _, q) => q | None => [] end.

  Lemma sift_split_ok : split_at_while (spine prog_sift) = Some (sift_pre, (sift_cond, sift_body), sift_post).
  Proof. reflexivity. Qed.

  Ltac ev :=
    cbv beta iota zeta delta
        [exec eval eval_truth bind map_res truthy do_cmp do_arith do_index nat_cmp nat_arith
         upd lookup env_of assign_all cmp_name ar_name frame overlay
         sift_prims prims_of table_lookup sift_table keys_are is_opaque0 sig_identity ensure_1d iter_env
         sift_names sift_env0 sift_args params_sift cap_val
         sift_split sift_pre sift_cond sift_body sift_post
         String.eqb Ascii.eqb Bool.eqb fst snd nth_error andb negb orb].
  Ltac ev1 := ev; repeat (progress (cbn [Nat.eqb cols_of]; rewrite ?sigs_map; oracle_rw); ev).
  Ltac steps :=
    set (K := exec_list sift_prims);
    assert (K_cons : forall s t f e, K (s :: t) f e =
                       match exec sift_prims s f e with Normal e' => K t f e' | o => o end) by reflexivity;
    assert (K_nil : forall f e, K [] f e = Normal e) by reflexivity;
    repeat (rewrite K_cons; ev1); rewrite ?K_nil; ev1.

  Section Fixed.
    Variable cap : option nat.
    Variable X : V.

    Local Notation peel := (peel_loop V vzero vadd vsub small extract_of).
    Local Notation resid := (residual V vzero vadd vsub X).

    (* the environment at the loop head: L = layer, r = proto_imf, imfb = the binding of imf if any *)
    Definition sift_head (vb io eo xo : val V) (L : nat) (r : V) (imfb : list (string * val V)) (cs : bool)
               (junk : string -> option (val V)) : env V :=
      env_of sift_names
        (overlay imfb (overlay [ ("X", VSig X);
                    ("sift_thresh", VOpaque "sift_thresh" []);
                    ("max_imfs", cap_val cap);
                    ("verbose", vb);
                    ("imf_opts", io);
                    ("envelope_opts", eo);
                    ("extrema_opts", xo);
                    ("continue_sift", VBool cs);
                    ("layer", VNat L);
                    ("proto_imf", VSig r) ] junk)).

    Definition cap_test (L : nat) : bool := match cap with Some k => (L =? k)%nat | None => false end.

    Lemma sift_body_step : forall fb vb io eo xo L r imfb junk acc,
      match L with
      | O => imfb = [] /\ acc = []
      | S _ => exists m, imfb = [("imf", m)] /\ cols_of m = Some acc
      end ->
      let e := sift_head vb io eo xo L r imfb true junk in
      match ext r with
      | None => exec sift_prims sift_body fb e = Raise "EMDSiftCovergeError"
      | Some (nxt, fl) =>
          exists e', iter_env (exec sift_prims sift_body fb e) = Some e' /\
            e' = sift_head vb io eo xo (L + 1) (vsub X (vsum V vzero vadd (acc ++ [nxt])))
                   [("imf", match L with O => VSig nxt | S _ => VOpaque "matrix" (map VSig (acc ++ [nxt])) end)]
                   (fl && negb (cap_test (L + 1)) && negb (small nxt))
                   (fun x => lookup x e')
      end.
    Proof.
      intros fb vb io eo xo L r imfb junk acc HL e. subst e.
      unfold sift_head, cap_test. rewrite exec_spine. cbv [spine sift_body sift_split].
      destruct (ext r) as [[nxt fl]|] eqn:Ee.
      - destruct L as [|L'].
        + destruct HL as [-> ->].
          destruct cap as [k|]; [destruct (0 + 1 =? k)%nat eqn:Ek|]; destruct (small nxt) eqn:Es; destruct fl;
            (eexists; split; [steps; reflexivity | ev; reflexivity]).
        + destruct HL as (m & -> & Hm).
          destruct cap as [k|]; [destruct (S L' + 1 =? k)%nat eqn:Ek|]; destruct (small nxt) eqn:Es; destruct fl;
            (eexists; split; [steps; reflexivity | ev; reflexivity]).
      - destruct L as [|L'].
        + destruct HL as [-> ->]. steps. reflexivity.
        + destruct HL as (m & -> & Hm). steps. reflexivity.
    Qed.

    Lemma sift_test : forall vb io eo xo L r imfb cs junk,
      match imfb with [] => True | [(k, _)] => k = "imf" | _ => False end ->
      eval_truth sift_prims (sift_head vb io eo xo L r imfb cs junk) sift_cond = Ok cs.
    Proof.
      intros vb io eo xo L r imfb cs junk H. unfold sift_head.
      destruct imfb as [|[k m] [|? ?]]; try contradiction; [|subst k]; ev; reflexivity.
    Qed.

    (* the binding of `imf` at the loop head, after the layers in acc *)
    Definition imf_binding (acc : list V) : list (string * val V) :=
      match acc with [] => [] | _ => [("imf", mat_val acc)] end.

    Lemma imf_binding_shape : forall acc,
      match imf_binding acc with [] => True | [(k, _)] => k = "imf" | _ => False end.
    Proof. intros [|a t]; cbn; auto. Qed.

    Lemma residual_snoc : forall acc x, resid (acc ++ [x]) = vsub X (vsum V vzero vadd (acc ++ [x])).
    Proof. intros [|a t] x; reflexivity. Qed.

    Lemma imf_binding_snoc : forall acc x,
      imf_binding (acc ++ [x]) =
      [("imf", match length acc with O => VSig x | S _ => VOpaque "matrix" (map VSig (acc ++ [x])) end)].
    Proof.
      intros [|a t] x; [reflexivity|].
      unfold imf_binding. rewrite mat_val_snoc by discriminate.
      destruct ((a :: t) ++ [x]) eqn:E; [destruct t; discriminate|]. reflexivity.
    Qed.

    (* the while loop against peel_loop, for every fuel: one body execution per unit of model fuel *)
    Lemma sift_while : forall fb vb io eo xo f acc junk,
      let w := while_loop (fun e' => eval_truth sift_prims e' sift_cond)
                          (fun e' => exec sift_prims sift_body fb e') f
                          (sift_head vb io eo xo (length acc) (resid acc) (imf_binding acc) true junk) in
      let (acc', fl) := peel f cap X acc in
      if out_of_fuel fl then w = OutOfFuel
      else if raised fl then w = Raise "EMDSiftCovergeError"
      else acc' <> [] /\
           exists junk', w = Normal (sift_head vb io eo xo (length acc') (resid acc') (imf_binding acc') false junk').
    Proof.
      intros fb vb io eo xo. induction f as [|f IH]; intros acc junk w; subst w.
      - cbn [peel_loop out_of_fuel]. rewrite while_loop_unfold, sift_test by apply imf_binding_shape. reflexivity.
      - cbn [peel_loop]. rewrite while_loop_unfold, sift_test by apply imf_binding_shape.
        pose proof (sift_body_step fb vb io eo xo (length acc) (resid acc) (imf_binding acc) junk acc) as Hs.
        cbv zeta in Hs.
        assert (HL : match length acc with
                     | O => imf_binding acc = [] /\ acc = []
                     | S _ => exists m, imf_binding acc = [("imf", m)] /\ cols_of m = Some acc
                     end).
        { destruct acc as [|a t]; cbn [length]; [split; reflexivity|].
          exists (mat_val (a :: t)). split; [reflexivity|apply cols_mat]. }
        specialize (Hs HL). clear HL.
        unfold extract_of at 1.
        destruct (ext (resid acc)) as [[nxt flg]|].
        + destruct Hs as (e' & He' & Hs).
          assert (Hw : forall k,
                    match exec sift_prims sift_body fb
                            (sift_head vb io eo xo (length acc) (resid acc) (imf_binding acc) true junk) with
                    | Normal e1 | Continue e1 => k e1
                    | o => o
                    end = k e').
          { intros k. destruct (exec sift_prims sift_body fb _);
              cbn [iter_env] in He'; try discriminate; inversion He'; reflexivity. }
          rewrite Hw. clear Hw He'.
          rewrite <- imf_binding_snoc, <- residual_snoc in Hs.
          replace (length acc + 1)%nat with (length (acc ++ [nxt])) in Hs
            by (rewrite app_length; reflexivity).
          fold (cap_test (length (acc ++ [nxt]))).
          set (c := cap_test (length (acc ++ [nxt]))) in *.
          replace (flg && negb c && negb (small nxt)) with (negb (c || small nxt || negb flg)) in Hs
            by (destruct flg, c, (small nxt); reflexivity).
          destruct (c || small nxt || negb flg).
          * cbn [out_of_fuel raised]. split; [destruct acc; discriminate|].
            rewrite Hs. rewrite while_loop_unfold, sift_test by apply imf_binding_shape.
            eexists. reflexivity.
          * rewrite Hs. apply IH.
        + cbn [out_of_fuel raised]. rewrite Hs. reflexivity.
    Qed.

    Lemma sift_prefix : forall f vb io eo xo, io_ok io ->
      exists io' junk,
        exec_list sift_prims sift_pre f (sift_env0 cap X vb io eo xo) =
        Normal (sift_head vb io' eo xo 0 X [] true junk).
    Proof.
      intros f vb io eo xo [-> | ->]; eexists; exists (fun _ => None); unfold sift_head; ev; steps; reflexivity.
    Qed.

    Lemma sift_suffix : forall f vb io eo xo L r m junk,
      exec_list sift_prims sift_post f (sift_head vb io eo xo L r [("imf", m)] false junk) = Return m.
    Proof. intros. unfold sift_head. ev; steps; reflexivity. Qed.

    (* THE TIE for sift's outer loop, for every fuel (= bound on the number of layers): the translated body
       of sift returns exactly the columns peel_loop returns, raises iff the extraction raised, and runs out
       of fuel iff the model does (the loop is not guaranteed to end by the code) *)
    Theorem skeleton_sift_refines : forall f vb io eo xo, io_ok io ->
      exec sift_prims prog_sift f (sift_env0 cap X vb io eo xo) = sift_render (peel f cap X []).
    Proof.
      intros f vb io eo xo Hio. rewrite (exec_split _ _ _ _ _ _ _ _ _ sift_split_ok).
      destruct (sift_prefix f vb io eo xo Hio) as (io' & junk & Hpre). rewrite Hpre.
      cbn [exec].
      pose proof (sift_while f vb io' eo xo f [] junk) as Hw. cbv zeta in Hw.
      change (length (@nil V)) with 0%nat in Hw. change (resid []) with X in Hw.
      change (imf_binding []) with (@nil (string * val V)) in Hw.
      unfold sift_render.
      destruct (peel f cap X []) as [acc' fl].
      destruct (out_of_fuel fl); [rewrite Hw; reflexivity|].
      destruct (raised fl); [rewrite Hw; reflexivity|].
      destruct Hw as (Hne & junk' & Hw). rewrite Hw.
      destruct acc' as [|a t]; [contradiction|].
      change (imf_binding (a :: t)) with [("imf", mat_val (a :: t))].
      apply sift_suffix.
    Qed.
  End Fixed.
End SiftTie.
