(* The tie between the hand-written control skeletons of model/SiftCore.v and the source (DESIGN 3.2):
   gen/Gen_Skeleton.v is regenerated from emd/sift.py on every run by harness/gen_skeleton.py; here the loops
   gni_loop / get_next_imf_gen and peel_loop are proved to compute exactly what the translated programs
   compute under the interpreter of lib/PyLoop.v, for every behaviour of the oracles.

   The reviewable part - the PRIMITIVE MAPPING TABLES, the initial environments and the rendering of model
   results - is model/SkeletonPrims.v. *)
From Coq Require Import String List Bool Arith Lia.
From EmdV Require Import lib.PyLoop model.SiftCore proofs.SiftCoreFacts gen.Gen_Skeleton model.SkeletonPrims.
Import ListNotations.
Open Scope string_scope.


(* ---- generic helpers ------------------------------------------------------------------------ *)
(* a specification of an environment over a fixed list of names: the listed bindings, anything elsewhere *)
Fixpoint overlay {V : Type} (l : list (string * val V)) (junk : string -> option (val V)) (x : string)
  : option (val V) :=
  match l with
  | [] => junk x
  | (k, v) :: r => if String.eqb x k then Some v else overlay r junk x
  end.


Ltac oracle_rw :=
  repeat match goal with
         | H : _ = Some _ |- _ => rewrite H
         | H : _ = None |- _ => rewrite H
         | H : _ = true |- _ => rewrite H
         | H : _ = false |- _ => rewrite H
         end.

Definition iter_env {V : Type} (o : outcome V) : option (env V) :=
  match o with Normal e | Continue e => Some e | _ => None end.

(* the arithmetic detail of get_next_imf's first test: `niters == 3*max_iters//4` (which only logs) sits in
   front of `elif niters > max_iters: raise`; it can never mask the raise *)
Lemma three_quarters_le : forall m, (3 * m / 4 <= m)%nat.
Proof. intros m. apply Nat.div_le_upper_bound; lia. Qed.

Lemma log_test_never_masks_raise : forall n m, (n =? 3 * m / 4)%nat = true -> (m <? n)%nat = false.
Proof.
  intros n m H. apply Nat.eqb_eq in H. apply Nat.ltb_ge. subst n. apply three_quarters_le.
Qed.

(* ============================================================================================== *)
(* get_next_imf                                                                                   *)
(* ============================================================================================== *)
Section GniTie.
  Variable V : Type.
  Variable vsub : V -> V -> V.
  Variable vstep : V -> V.
  Variable vavg : V -> V -> V.
  Variable env_u env_l : V -> option V.          (* interp_envelope(x, mode='upper' / 'lower'); None = None *)
  Variable stop_sd : V -> V -> bool.
  Variable stop_ril : V -> V -> bool.
  Variable energy_fires : V -> V -> bool.

  Local Notation gni_prims := (SkeletonPrims.gni_prims V vsub vstep vavg env_u env_l stop_sd stop_ril energy_fires).
  Local Notation envs_of := (SkeletonPrims.envs_of V env_u env_l).

  (* prefix / loop / suffix of the translated body *)
  Definition gni_split := Eval cbv in split_at_while (spine prog_get_next_imf).
  Definition gni_pre : list stmt := match gni_split with Some (p, _, _) => p | None => [] end.
  Definition gni_cond : expr := match gni_split with Some (_, (c, _), _) => c | None => ENone end.
  Definition gni_body : stmt := match gni_split with Some (_, (_, b), _) => b | None => SSkip end.
  Definition gni_post : list stmt := match gni_split with Some (_, _, q) => q | None => [] end.

  Lemma gni_split_ok : split_at_while (spine prog_get_next_imf) = Some (gni_pre, (gni_cond, gni_body), gni_post).
  Proof. reflexivity. Qed.

  Ltac ev :=
    cbv beta iota zeta delta
        [exec eval eval_truth bind map_res truthy do_cmp do_arith do_index nat_cmp nat_arith
         upd lookup env_of assign_all cmp_name ar_name frame overlay
         SkeletonPrims.gni_prims prims_of table_lookup gni_table keys_are is_opaque0 sig_identity ensure_1d optsig iter_env
         gni_names gni_env0 gni_args params_get_next_imf
         gni_split gni_pre gni_cond gni_body gni_post
         String.eqb Ascii.eqb Bool.eqb fst snd nth_error andb negb orb].
  Ltac ev1 := ev; repeat (progress (cbn [Nat.eqb]; oracle_rw); ev).
  (* statement by statement: the continuation stays folded as [K rest fuel env] *)
  Ltac steps :=
    set (K := exec_list gni_prims);
    assert (K_cons : forall s t f e, K (s :: t) f e =
                       match exec gni_prims s f e with Normal e' => K t f e' | o => o end) by reflexivity;
    assert (K_nil : forall f e, K [] f e = Normal e) by reflexivity;
    repeat (rewrite K_cons; ev1); rewrite ?K_nil; ev1.

  Section Fixed.
    Variable method : stop_method.
    Variable max_iters : nat.
    Variable use_energy : bool.
    Variable X : V.

    Local Notation loopg := (gni_loop V vsub vstep vavg envs_of stop_sd stop_ril method max_iters false).
    Local Notation sfires := (stop_fires V stop_sd stop_ril method max_iters).

    (* get_next_imf_gen with an arbitrary loop bound (the model uses max_iters + 2) *)
    Definition gni_gen_fuel (f : nat) : gni_result V :=
      match loopg f 0 X with
      | Imf p flag n => Imf p (flag && negb (use_energy && energy_fires X (vsub X p))) n
      | r => r
      end.

    Lemma gni_gen_fuel_model :
      gni_gen_fuel (max_iters + 2) =
      get_next_imf_gen V vsub vstep vavg envs_of stop_sd stop_ril energy_fires method max_iters use_energy false X.
    Proof. reflexivity. Qed.

    (* the loop invariant: the environment at the loop head. [junk] is whatever the other locals hold. *)
    Definition gni_head (eo xo : val V) (p : V) (n : nat) (ci cf : bool) (junk : string -> option (val V)) : env V :=
      env_of gni_names
        (overlay [ ("X", VSig X);
                   ("env_step_size", VOpaque "env_step_size" []);
                   ("max_iters", VNat max_iters);
                   ("energy_thresh", if use_energy then VOpaque "energy_thresh" [] else VNone);
                   ("stop_method", VStr (method_str method));
                   ("sd_thresh", VOpaque "sd_thresh" []);
                   ("rilling_thresh", VList [VOpaque "sd1" []; VOpaque "sd2" []; VOpaque "tol" []]);
                   ("envelope_opts", eo);
                   ("extrema_opts", xo);
                   ("proto_imf", VSig p);
                   ("niters", VNat n);
                   ("continue_imf", VBool ci);
                   ("continue_flag", VBool cf) ] junk).

    Lemma gni_body_step : forall fb eo xo p n junk,
      let e := gni_head eo xo p n true true junk in
      if negb (is_fixed method) && (max_iters <? n)%nat
      then exec gni_prims gni_body fb e = Raise "EMDSiftCovergeError"
      else exists e', iter_env (exec gni_prims gni_body fb e) = Some e' /\
             let junk' := fun x => lookup x e' in
             match envs_of p with
             | None => e' = gni_head eo xo p (n + 1) false (1 <? n + 1)%nat junk'
             | Some (u, l) =>
                 let avg := vavg u l in
                 let x1 := vsub p avg in
                 if sfires (n + 1)%nat p x1 u l
                 then e' = gni_head eo xo x1 (n + 1) false true junk'
                 else e' = gni_head eo xo (vsub p (vstep avg)) (n + 1) true true junk'
             end.
    Proof.
      intros fb eo xo p n junk e. subst e.
      unfold SkeletonPrims.envs_of, gni_head. rewrite exec_spine. cbv [spine gni_body gni_split].
      destruct method; cbn [is_fixed negb andb method_str stop_fires] in *.
      - (* sd *)
        destruct (max_iters <? n)%nat eqn:Hlt; destruct (n =? 3 * max_iters / 4)%nat eqn:Hq.
        + rewrite (log_test_never_masks_raise _ _ Hq) in Hlt. discriminate.
        + steps. reflexivity.
        + destruct (env_u p) as [u|] eqn:Eu; destruct (env_l p) as [l|] eqn:El;
            [destruct (stop_sd p (vsub p (vavg u l))) eqn:Es| | |];
            (eexists; split; [steps; reflexivity | ev; reflexivity]).
        + destruct (env_u p) as [u|] eqn:Eu; destruct (env_l p) as [l|] eqn:El;
            [destruct (stop_sd p (vsub p (vavg u l))) eqn:Es| | |];
            (eexists; split; [steps; reflexivity | ev; reflexivity]).
      - (* rilling *)
        destruct (max_iters <? n)%nat eqn:Hlt; destruct (n =? 3 * max_iters / 4)%nat eqn:Hq.
        + rewrite (log_test_never_masks_raise _ _ Hq) in Hlt. discriminate.
        + steps. reflexivity.
        + destruct (env_u p) as [u|] eqn:Eu; destruct (env_l p) as [l|] eqn:El;
            [destruct (stop_ril u l) eqn:Es| | |];
            (eexists; split; [steps; reflexivity | ev; reflexivity]).
        + destruct (env_u p) as [u|] eqn:Eu; destruct (env_l p) as [l|] eqn:El;
            [destruct (stop_ril u l) eqn:Es| | |];
            (eexists; split; [steps; reflexivity | ev; reflexivity]).
      - (* fixed *)
        destruct (env_u p) as [u|] eqn:Eu; destruct (env_l p) as [l|] eqn:El;
          [destruct (n + 1 =? max_iters)%nat eqn:Es| | |];
          (eexists; split; [steps; reflexivity | ev; reflexivity]).
    Qed.

    Lemma gni_test : forall eo xo p n ci cf junk,
      eval_truth gni_prims (gni_head eo xo p n ci cf junk) gni_cond = Ok ci.
    Proof. intros. unfold gni_head. ev. reflexivity. Qed.

    (* the while loop against gni_loop, for every fuel: one body execution per unit of model fuel *)
    Lemma gni_while : forall fb eo xo f n p junk,
      let w := while_loop (fun e' => eval_truth gni_prims e' gni_cond)
                          (fun e' => exec gni_prims gni_body fb e') f
                          (gni_head eo xo p n true true junk) in
      match loopg f n p with
      | Imf p' fl n' => exists junk', w = Normal (gni_head eo xo p' n' false fl junk')
      | ConvergeError _ => w = Raise "EMDSiftCovergeError"
      | GniOutOfFuel => w = OutOfFuel
      end.
    Proof.
      intros fb eo xo. induction f as [|f IH]; intros n p junk w; subst w.
      - cbn [gni_loop]. rewrite while_loop_unfold, gni_test. reflexivity.
      - cbn [gni_loop]. rewrite while_loop_unfold, gni_test.
        pose proof (gni_body_step fb eo xo p n junk) as Hs. cbv zeta in Hs.
        destruct (negb (is_fixed method) && (max_iters <? n)%nat).
        + rewrite Hs. reflexivity.
        + destruct Hs as (e' & He' & Hs).
          replace (S n) with (n + 1)%nat by lia.
          assert (Hw : forall k,
                    match exec gni_prims gni_body fb (gni_head eo xo p n true true junk) with
                    | Normal e1 | Continue e1 => k e1
                    | o => o
                    end = k e').
          { intros k. destruct (exec gni_prims gni_body fb (gni_head eo xo p n true true junk));
              cbn [iter_env] in He'; try discriminate; inversion He'; reflexivity. }
          rewrite Hw. clear Hw He'.
          destruct (envs_of p) as [[u l]|].
          * destruct (sfires (n + 1)%nat p (vsub p (vavg u l)) u l).
            -- rewrite Hs. rewrite while_loop_unfold, gni_test. eexists. reflexivity.
            -- rewrite Hs. apply IH.
          * rewrite Hs. rewrite while_loop_unfold, gni_test. eexists. reflexivity.
    Qed.

    Lemma gni_prefix : forall f eo xo,
      exists eo' junk,
        exec_list gni_prims gni_pre f (gni_env0 method max_iters use_energy X eo xo) =
        Normal (gni_head eo' xo X 0 true true junk).
    Proof.
      intros f eo xo.
      destruct eo; eexists; exists (fun _ => None); unfold gni_head; ev; steps; reflexivity.
    Qed.

    Lemma gni_suffix : forall f eo xo p n fl junk,
      exec_list gni_prims gni_post f (gni_head eo xo p n false fl junk) =
      Return (VList [VSig p; VBool (fl && negb (use_energy && energy_fires X (vsub X p)))]).
    Proof.
      intros f eo xo p n fl junk. unfold gni_head.
      destruct use_energy; [destruct (energy_fires X (vsub X p)) eqn:Ee|]; destruct fl;
        ev; steps; reflexivity.
    Qed.

    (* THE TIE, for every loop bound: the translated body of get_next_imf, run with fuel f, does what
       the hand-written model does with loop bound f *)
    Theorem skeleton_get_next_imf_exact : forall f eo xo,
      exec gni_prims prog_get_next_imf f (gni_env0 method max_iters use_energy X eo xo) =
      gni_render (gni_gen_fuel f).
    Proof.
      intros f eo xo. rewrite (exec_split _ _ _ _ _ _ _ _ _ gni_split_ok).
      destruct (gni_prefix f eo xo) as (eo' & junk & Hpre). rewrite Hpre.
      cbn [exec]. unfold gni_gen_fuel.
      pose proof (gni_while f eo' xo f 0 X junk) as Hw. cbv zeta in Hw.
      destruct (loopg f 0 X) as [p fl n| n |].
      - destruct Hw as (junk' & Hw). rewrite Hw. rewrite gni_suffix. reflexivity.
      - rewrite Hw. reflexivity.
      - rewrite Hw. reflexivity.
    Qed.

    (* more fuel changes nothing once the model's loop has ended *)
    Lemma gni_loop_fuel_mono : forall f k n p,
      loopg f n p <> GniOutOfFuel -> loopg (f + k) n p = loopg f n p.
    Proof.
      induction f as [|f IH]; intros k n p H; [cbn in H; contradiction|].
      cbn [Nat.add gni_loop] in *.
      destruct (negb (is_fixed method) && (max_iters <? n)%nat); [reflexivity|].
      destruct (envs_of p) as [[u l]|]; [|reflexivity].
      destruct (sfires (S n) p (vsub p (vavg u l)) u l); [reflexivity|].
      apply IH. exact H.
    Qed.

    (* with the model's own bound, and with any larger one when the options are in range *)
    Theorem skeleton_get_next_imf_model : forall eo xo,
      exec gni_prims prog_get_next_imf (max_iters + 2) (gni_env0 method max_iters use_energy X eo xo) =
      gni_render (get_next_imf_gen V vsub vstep vavg envs_of stop_sd stop_ril energy_fires
                                   method max_iters use_energy false X).
    Proof. intros. rewrite skeleton_get_next_imf_exact. rewrite gni_gen_fuel_model. reflexivity. Qed.

    Theorem skeleton_get_next_imf_any_fuel : forall f eo xo,
      (method = Fixed -> (1 <= max_iters)%nat) -> (max_iters + 2 <= f)%nat ->
      exec gni_prims prog_get_next_imf f (gni_env0 method max_iters use_energy X eo xo) =
      gni_render (get_next_imf_gen V vsub vstep vavg envs_of stop_sd stop_ril energy_fires
                                   method max_iters use_energy false X).
    Proof.
      intros f eo xo Hr Hf. rewrite skeleton_get_next_imf_exact. rewrite <- gni_gen_fuel_model.
      unfold gni_gen_fuel. replace f with (max_iters + 2 + (f - (max_iters + 2)))%nat by lia.
      rewrite gni_loop_fuel_mono; [reflexivity|].
      apply (gni_never_out_of_fuel V vsub vstep vavg envs_of stop_sd stop_ril method max_iters X Hr).
    Qed.

    (* the same, spelled out: which outcome of the program corresponds to which result of the model *)
    Theorem skeleton_get_next_imf_refines : forall f eo xo,
      (method = Fixed -> (1 <= max_iters)%nat) -> (max_iters + 2 <= f)%nat ->
      let o := exec gni_prims prog_get_next_imf f (gni_env0 method max_iters use_energy X eo xo) in
      let m := get_next_imf_gen V vsub vstep vavg envs_of stop_sd stop_ril energy_fires
                                method max_iters use_energy false X in
      (forall p flag, o = Return (VList [VSig p; VBool flag]) <-> exists n, m = Imf p flag n) /\
      (o = Raise "EMDSiftCovergeError" <-> exists n, m = ConvergeError n) /\
      ((exists p flag, o = Return (VList [VSig p; VBool flag])) \/ o = Raise "EMDSiftCovergeError").
    Proof.
      intros f eo xo Hr Hf o m. subst o.
      rewrite (skeleton_get_next_imf_any_fuel f eo xo Hr Hf). fold m.
      assert (Hm : m <> GniOutOfFuel).
      { subst m. unfold get_next_imf_gen.
        pose proof (gni_never_out_of_fuel V vsub vstep vavg envs_of stop_sd stop_ril method max_iters X Hr) as H.
        destruct (gni_loop V vsub vstep vavg envs_of stop_sd stop_ril method max_iters false (max_iters + 2) 0 X);
          [discriminate|discriminate|contradiction]. }
      destruct m as [p fl n|n|]; [| |contradiction]; cbn [gni_render].
      - split; [|split].
        + intros p' fl'. split.
          * intros H. inversion H; subst. exists n. reflexivity.
          * intros [n' H]. inversion H; subst. reflexivity.
        + split; [discriminate|]. intros [n' H]. discriminate.
        + left. exists p, fl. reflexivity.
      - split; [|split].
        + intros p' fl'. split; [discriminate|]. intros [n' H]. discriminate.
        + split; [intros _; exists n; reflexivity|reflexivity].
        + right. reflexivity.
    Qed.
  End Fixed.
End GniTie.


(* ============================================================================================== *)
(* sift: the outer loop                                                                           *)
(* ============================================================================================== *)
Section SiftTie.
  Variable V : Type.
  Variable vzero : V.
  Variable vadd vsub : V -> V -> V.
  Variable small : V -> bool.                  (* np.abs(next_imf).sum() < sift_thresh *)
  (* get_next_imf(residual, envelope_opts=.., extrema_opts=.., **imf_opts) as ONE opaque primitive:
     Some (imf, continue_flag), or None when it raises EMDSiftCovergeError *)
  Variable ext : V -> option (V * bool).
  Local Notation sift_prims := (SkeletonPrims.sift_prims V vzero vadd vsub small ext).
  Local Notation extract_of := (SkeletonPrims.extract_of V ext).


  Lemma sigs_map : forall l : list V, sigs (map VSig l) = Some l.
  Proof. induction l as [|a t IH]; [reflexivity|]. cbn [map sigs]. rewrite IH. reflexivity. Qed.

  Lemma cols_mat : forall l : list V, cols_of (mat_val l) = Some l.
  Proof.
    intros [|a [|b t]]; try reflexivity.
    unfold mat_val, cols_of. cbn [String.eqb Ascii.eqb Bool.eqb andb]. apply sigs_map.
  Qed.

  Lemma mat_val_snoc : forall (l : list V) x, l <> [] -> mat_val (l ++ [x]) = VOpaque "matrix" (map VSig (l ++ [x])).
  Proof. intros [|a [|b t]] x H; try reflexivity. contradiction. Qed.

  (* ---- the primitive mapping table of sift ---- *)

  Definition sift_split := Eval cbv in split_at_while (spine prog_sift).
  Definition sift_pre : list stmt := match sift_split with Some (p, _, _) => p | None => [] end.
  Definition sift_cond : expr := match sift_split with Some (_, (c, _), _) => c | None => ENone end.
  Definition sift_body : stmt := match sift_split with Some (_, (_, b), _) => b | None => SSkip end.
  Definition sift_post : list stmt := match sift_split with Some (_, _, q) => q | None => [] end.

  Lemma sift_split_ok : split_at_while (spine prog_sift) = Some (sift_pre, (sift_cond, sift_body), sift_post).
  Proof. reflexivity. Qed.

  Ltac ev :=
    cbv beta iota zeta delta
        [exec eval eval_truth bind map_res truthy do_cmp do_arith do_index nat_cmp nat_arith
         upd lookup env_of assign_all cmp_name ar_name frame overlay
         SkeletonPrims.sift_prims prims_of table_lookup sift_table keys_are is_opaque0 sig_identity ensure_1d iter_env
         sift_names sift_env0 sift_args params_sift cap_val
         sift_split sift_pre sift_cond sift_body sift_post
         String.eqb Ascii.eqb Bool.eqb fst snd nth_error andb negb orb].
  Ltac ev1 := ev; repeat (progress (cbn [Nat.eqb cols_of]; rewrite ?sigs_map; oracle_rw); ev).
  Ltac steps :=
    set (K := exec_list sift_prims);
    assert (K_cons : forall s t f e, K (s :: t) f e =
                       match exec sift_prims s f e with Normal e' => K t f e' | o => o end) by reflexivity;
    assert (K_nil : forall f e, K [] f e = Normal e) by reflexivity;
    repeat (rewrite K_cons; ev1); rewrite ?K_nil; ev1.

  Section Fixed.
    Variable cap : option nat.
    Variable X : V.

    Local Notation peel := (peel_loop V vzero vadd vsub small extract_of).
    Local Notation resid := (residual V vzero vadd vsub X).

    (* the environment at the loop head: L = layer, r = proto_imf, imfb = the binding of imf if any *)
    Definition sift_head (vb io eo xo : val V) (L : nat) (r : V) (imfb : list (string * val V)) (cs : bool)
               (junk : string -> option (val V)) : env V :=
      env_of sift_names
        (overlay imfb (overlay [ ("X", VSig X);
                    ("sift_thresh", VOpaque "sift_thresh" []);
                    ("max_imfs", cap_val cap);
                    ("verbose", vb);
                    ("imf_opts", io);
                    ("envelope_opts", eo);
                    ("extrema_opts", xo);
                    ("continue_sift", VBool cs);
                    ("layer", VNat L);
                    ("proto_imf", VSig r) ] junk)).

    Definition cap_test (L : nat) : bool := match cap with Some k => (L =? k)%nat | None => false end.

    Lemma sift_body_step : forall fb vb io eo xo L r imfb junk acc,
      match L with
      | O => imfb = [] /\ acc = []
      | S _ => exists m, imfb = [("imf", m)] /\ cols_of m = Some acc
      end ->
      let e := sift_head vb io eo xo L r imfb true junk in
      match ext r with
      | None => exec sift_prims sift_body fb e = Raise "EMDSiftCovergeError"
      | Some (nxt, fl) =>
          exists e', iter_env (exec sift_prims sift_body fb e) = Some e' /\
            e' = sift_head vb io eo xo (L + 1) (vsub X (vsum V vzero vadd (acc ++ [nxt])))
                   [("imf", match L with O => VSig nxt | S _ => VOpaque "matrix" (map VSig (acc ++ [nxt])) end)]
                   (fl && negb (cap_test (L + 1)) && negb (small nxt))
                   (fun x => lookup x e')
      end.
    Proof.
      intros fb vb io eo xo L r imfb junk acc HL e. subst e.
      unfold sift_head, cap_test. rewrite exec_spine. cbv [spine sift_body sift_split].
      destruct (ext r) as [[nxt fl]|] eqn:Ee.
      - destruct L as [|L'].
        + destruct HL as [-> ->].
          destruct cap as [k|]; [destruct (0 + 1 =? k)%nat eqn:Ek|]; destruct (small nxt) eqn:Es; destruct fl;
            (eexists; split; [steps; reflexivity | ev; reflexivity]).
        + destruct HL as (m & -> & Hm).
          destruct cap as [k|]; [destruct (S L' + 1 =? k)%nat eqn:Ek|]; destruct (small nxt) eqn:Es; destruct fl;
            (eexists; split; [steps; reflexivity | ev; reflexivity]).
      - destruct L as [|L'].
        + destruct HL as [-> ->]. steps. reflexivity.
        + destruct HL as (m & -> & Hm). steps. reflexivity.
    Qed.

    Lemma sift_test : forall vb io eo xo L r imfb cs junk,
      match imfb with [] => True | [(k, _)] => k = "imf" | _ => False end ->
      eval_truth sift_prims (sift_head vb io eo xo L r imfb cs junk) sift_cond = Ok cs.
    Proof.
      intros vb io eo xo L r imfb cs junk H. unfold sift_head.
      destruct imfb as [|[k m] [|? ?]]; try contradiction; [|subst k]; ev; reflexivity.
    Qed.

    (* the binding of `imf` at the loop head, after the layers in acc *)
    Definition imf_binding (acc : list V) : list (string * val V) :=
      match acc with [] => [] | _ => [("imf", mat_val acc)] end.

    Lemma imf_binding_shape : forall acc,
      match imf_binding acc with [] => True | [(k, _)] => k = "imf" | _ => False end.
    Proof. intros [|a t]; cbn; auto. Qed.

    Lemma residual_snoc : forall acc x, resid (acc ++ [x]) = vsub X (vsum V vzero vadd (acc ++ [x])).
    Proof. intros [|a t] x; reflexivity. Qed.

    Lemma imf_binding_snoc : forall acc x,
      imf_binding (acc ++ [x]) =
      [("imf", match length acc with O => VSig x | S _ => VOpaque "matrix" (map VSig (acc ++ [x])) end)].
    Proof.
      intros [|a t] x; [reflexivity|].
      unfold imf_binding. rewrite mat_val_snoc by discriminate.
      destruct ((a :: t) ++ [x])%list eqn:E; [destruct t; discriminate|]. reflexivity.
    Qed.

    (* the while loop against peel_loop, for every fuel: one body execution per unit of model fuel *)
    Lemma sift_while : forall fb vb io eo xo f acc junk,
      let w := while_loop (fun e' => eval_truth sift_prims e' sift_cond)
                          (fun e' => exec sift_prims sift_body fb e') f
                          (sift_head vb io eo xo (length acc) (resid acc) (imf_binding acc) true junk) in
      let (acc', fl) := peel f cap X acc in
      if out_of_fuel fl then w = OutOfFuel
      else if raised fl then w = Raise "EMDSiftCovergeError"
      else acc' <> [] /\
           exists junk', w = Normal (sift_head vb io eo xo (length acc') (resid acc') (imf_binding acc') false junk').
    Proof.
      intros fb vb io eo xo. induction f as [|f IH]; intros acc junk w; subst w.
      - cbn [peel_loop out_of_fuel]. rewrite while_loop_unfold, sift_test by apply imf_binding_shape. reflexivity.
      - cbn [peel_loop]. rewrite while_loop_unfold, sift_test by apply imf_binding_shape.
        pose proof (sift_body_step fb vb io eo xo (length acc) (resid acc) (imf_binding acc) junk acc) as Hs.
        cbv zeta in Hs.
        assert (HL : match length acc with
                     | O => imf_binding acc = [] /\ acc = []
                     | S _ => exists m, imf_binding acc = [("imf", m)] /\ cols_of m = Some acc
                     end).
        { destruct acc as [|a t]; cbn [length]; [split; reflexivity|].
          exists (mat_val (a :: t)). split; [reflexivity|apply cols_mat]. }
        specialize (Hs HL). clear HL.
        unfold SkeletonPrims.extract_of at 1.
        destruct (ext (resid acc)) as [[nxt flg]|].
        + destruct Hs as (e' & He' & Hs).
          assert (Hw : forall k,
                    match exec sift_prims sift_body fb
                            (sift_head vb io eo xo (length acc) (resid acc) (imf_binding acc) true junk) with
                    | Normal e1 | Continue e1 => k e1
                    | o => o
                    end = k e').
          { intros k. destruct (exec sift_prims sift_body fb _);
              cbn [iter_env] in He'; try discriminate; inversion He'; reflexivity. }
          rewrite Hw. clear Hw He'.
          rewrite <- imf_binding_snoc, <- residual_snoc in Hs.
          replace (length acc + 1)%nat with (length (acc ++ [nxt])) in Hs
            by (rewrite app_length; reflexivity).
          fold (cap_test (length (acc ++ [nxt]))).
          set (c := cap_test (length (acc ++ [nxt]))) in *.
          replace (flg && negb c && negb (small nxt)) with (negb (c || small nxt || negb flg)) in Hs
            by (destruct flg, c, (small nxt); reflexivity).
          destruct (c || small nxt || negb flg).
          * cbn [out_of_fuel raised]. split; [destruct acc; discriminate|].
            rewrite Hs. rewrite while_loop_unfold, sift_test by apply imf_binding_shape.
            eexists. reflexivity.
          * rewrite Hs. apply IH.
        + cbn [out_of_fuel raised]. rewrite Hs. reflexivity.
    Qed.

    Lemma sift_prefix : forall f vb io eo xo, io_ok io ->
      exists io' junk,
        exec_list sift_prims sift_pre f (sift_env0 cap X vb io eo xo) =
        Normal (sift_head vb io' eo xo 0 X [] true junk).
    Proof.
      intros f vb io eo xo [-> | ->]; eexists; exists (fun _ => None); unfold sift_head; ev; steps; reflexivity.
    Qed.

    Lemma sift_suffix : forall f vb io eo xo L r m junk,
      exec_list sift_prims sift_post f (sift_head vb io eo xo L r [("imf", m)] false junk) = Return m.
    Proof. intros. unfold sift_head. ev; steps; reflexivity. Qed.

    (* THE TIE for sift's outer loop, for every fuel (= bound on the number of layers): the translated body
       of sift returns exactly the columns peel_loop returns, raises iff the extraction raised, and runs out
       of fuel iff the model does (the loop is not guaranteed to end by the code) *)
    Theorem skeleton_sift_refines : forall f vb io eo xo, io_ok io ->
      exec sift_prims prog_sift f (sift_env0 cap X vb io eo xo) = sift_render (peel f cap X []).
    Proof.
      intros f vb io eo xo Hio. rewrite (exec_split _ _ _ _ _ _ _ _ _ sift_split_ok).
      destruct (sift_prefix f vb io eo xo Hio) as (io' & junk & Hpre). rewrite Hpre.
      cbn [exec].
      pose proof (sift_while f vb io' eo xo f [] junk) as Hw. cbv zeta in Hw.
      change (length (@nil V)) with 0%nat in Hw. change (resid []) with X in Hw.
      change (imf_binding []) with (@nil (string * val V)) in Hw.
      unfold sift_render.
      destruct (peel f cap X []) as [acc' fl].
      destruct (out_of_fuel fl); [rewrite Hw; reflexivity|].
      destruct (raised fl); [rewrite Hw; reflexivity|].
      destruct Hw as (Hne & junk' & Hw). rewrite Hw.
      destruct acc' as [|a t]; [contradiction|].
      change (imf_binding (a :: t)) with [("imf", mat_val (a :: t))].
      apply sift_suffix.
    Qed.

    (* peel_loop only looks at (imf, flag) / "raised": any per-residual extraction, e.g. the model's own
       get_next_imf, gives the same run as the opaque primitive that returns its (imf, flag) *)
    Lemma peel_extract_of : forall (g : V -> gni_result V),
      (forall r, ext r = match g r with Imf p fl _ => Some (p, fl) | _ => None end) ->
      forall f acc, peel_loop V vzero vadd vsub small (fun _ _ r => g r) f cap X acc = peel f cap X acc.
    Proof.
      intros g Hg. induction f as [|f IH]; intros acc; [reflexivity|].
      cbn [peel_loop]. unfold SkeletonPrims.extract_of at 1. rewrite Hg.
      destruct (g (resid acc)) as [p fl n|n|]; try reflexivity.
      destruct (_ || _ || _); [reflexivity|apply IH].
    Qed.
  End Fixed.
End SiftTie.

(* ============================================================================================== *)
(* mask_sift: the outer loop                                                                      *)
(* ============================================================================================== *)
Section MaskTie.
  Variable V : Type.
  Variable vzero : V.
  Variable vadd vsub : V -> V -> V.
  Variable small : V -> bool.
  Variable gm : V -> val V -> val V -> option (V * bool).
  Variable fs : list (val V).
  Variable mode : amp_mode3.
  Variable ma : option (list (val V)).
  Variable sd0 : val V.

  Local Notation mask_prims := (SkeletonPrims.mask_prims V vzero vadd vsub small gm).
  Local Notation mask_extract := (SkeletonPrims.mask_extract V vzero gm fs mode ma sd0).
  Local Notation sd_at := (SkeletonPrims.sd_at V vzero mode sd0).
  Local Notation amp_at := (SkeletonPrims.amp_at V vzero mode ma sd0).
  Local Notation ma_val := (SkeletonPrims.ma_val V ma).
  Local Notation mask_env0 := (SkeletonPrims.mask_env0 V fs mode ma sd0).

  Definition mask_split := Eval cbv in split_at_while (spine prog_mask_sift).
  Definition mask_pre : list stmt := match mask_split with Some (p, _, _) => p | None => [] end.
  Definition mask_cond : expr := match mask_split with Some (_, (c, _), _) => c | None => ENone end.
  Definition mask_body : stmt := match mask_split with Some (_, (_, b), _) => b | None => SSkip end.
  Definition mask_post : list stmt := match mask_split with Some (_, _, q) => q | None => [] end.

  Lemma mask_split_ok :
    split_at_while (spine prog_mask_sift) = Some (mask_pre, (mask_cond, mask_body), mask_post).
  Proof. reflexivity. Qed.

  (* the body in three segments: amplitude / extraction and accumulation / exit tests and counter *)
  Definition mask_segA : list stmt := Eval cbv in firstn 3 (spine mask_body).
  Definition mask_segB : list stmt := Eval cbv in firstn 3 (skipn 3 (spine mask_body)).
  Definition mask_segC : list stmt := Eval cbv in skipn 6 (spine mask_body).

  Lemma mask_segments : spine mask_body = (mask_segA ++ mask_segB ++ mask_segC)%list.
  Proof. reflexivity. Qed.

  Lemma mask_segC_length : length mask_segC = 3%nat.
  Proof. reflexivity. Qed.

  Ltac ev :=
    cbv beta iota zeta delta
        [exec eval eval_truth bind map_res truthy do_cmp do_arith do_index nat_cmp nat_arith
         upd lookup env_of assign_all cmp_name ar_name frame overlay
         SkeletonPrims.mask_prims prims_of table_lookup mask_table keys_are is_opaque0 sig_identity iter_env
         mask_names mask_entry SkeletonPrims.mask_env0 mask_args params_mask_sift cap_val option_map
         SkeletonPrims.ma_val mode_str amp_entry
         r_step_factor r_nphases r_nprocesses r_verbose r_imf_opts r_envelope_opts r_extrema_opts
         mask_split mask_pre mask_cond mask_body mask_post mask_segA mask_segB mask_segC
         String.eqb Ascii.eqb Bool.eqb fst snd andb negb orb].
  Ltac ev1 := ev; repeat (progress (cbn [Nat.eqb Nat.leb Nat.ltb cols_of app]; rewrite ?sigs_map, ?nth_error_map; oracle_rw; cbn [option_map]); ev).
  Ltac steps :=
    set (K := exec_list mask_prims);
    assert (K_cons : forall s t f e, K (s :: t) f e =
                       match exec mask_prims s f e with Normal e' => K t f e' | o => o end) by reflexivity;
    assert (K_nil : forall f e, K [] f e = Normal e) by reflexivity;
    repeat (rewrite K_cons; ev1); rewrite ?K_nil; ev1.

  Section Fixed.
    Variable k : option nat.                   (* max_imfs = None, or S k *)
    Variable rmf : bool.                       (* ret_mask_freq *)
    Variable X : V.
    Variable o : mask_rest V.

    Local Notation cap := (option_map S k).
    Local Notation peel := (peel_loop V vzero vadd vsub small mask_extract).
    Local Notation resid := (residual V vzero vadd vsub X).

    (* the environment inside the loop: [extra] holds imf (and amp, next_imf between the segments) *)
    Definition mask_head (extra : list (string * val V)) (L : nat) (r : V) (sdv : val V) (cs : bool)
               (junk : string -> option (val V)) : env V :=
      env_of mask_names
        (overlay extra
           (overlay [ ("X", VSig X);
                      ("mask_amp", ma_val);
                      ("mask_amp_mode", VStr (mode_str mode));
                      ("mask_freqs", VList fs);
                      ("mask_step_factor", r_step_factor V o);
                      ("ret_mask_freq", VBool rmf);
                      ("max_imfs", cap_val cap);
                      ("sift_thresh", VOpaque "sift_thresh" []);
                      ("nphases", r_nphases V o);
                      ("nprocesses", r_nprocesses V o);
                      ("verbose", r_verbose V o);
                      ("imf_opts", r_imf_opts V o);
                      ("envelope_opts", r_envelope_opts V o);
                      ("extrema_opts", r_extrema_opts V o);
                      ("sd", sdv);
                      ("continue_sift", VBool cs);
                      ("imf_layer", VNat L);
                      ("proto_imf", VSig r) ] junk)).

    (* `imf_layer == max_imfs - 1` *)
    Definition cap_test_m (L : nat) : bool := match k with Some k1 => (L =? S k1 - 1)%nat | None => false end.

    (* what imf holds after the layers acc *)
    Definition imf_ok (L : nat) (imfv : val V) (acc : list V) : Prop :=
      match L with
      | O => imfv = VList [] /\ acc = []
      | S _ => cols_of imfv = Some acc
      end.

    (* segment A: sd and amp *)
    Lemma mask_stepA : forall fb L r imfv sdv junk acc, imf_ok L imfv acc ->
      let sd' := if is_ratio_imf mode && (0 <? L)%nat then VOpaque "std" [VSig (last acc vzero)] else sdv in
      let ampo := match ma with
                  | None => Some (VOpaque "amp" [VOpaque "mask_amp" []; sd'])
                  | Some l => match nth_error l L with
                              | Some a => Some (VOpaque "amp" [amp_entry V a; sd'])
                              | None => None
                              end
                  end in
      let w := exec_list mask_prims mask_segA fb (mask_head [("imf", imfv)] L r sdv true junk) in
      match ampo with
      | None => w = Raise "IndexError"
      | Some amp => exists e1, w = Normal e1 /\
                      e1 = mask_head [("imf", imfv); ("amp", amp)] L r sd' true (fun x => lookup x e1)
      end.
    Proof.
      intros fb L r imfv sdv junk acc HL sd' ampo w. subst sd' ampo w.
      unfold mask_head, imf_ok in *.
      destruct mode; cbn [andb is_ratio_imf mode_str];
        (destruct L as [|L']; [destruct HL as [-> ->]|]); cbn [Nat.ltb Nat.leb];
        (destruct ma as [l|] eqn:Ema; [destruct (nth_error l _) as [a|] eqn:Ea|]);
        first [ eexists; split; [ev; steps; reflexivity | ev; reflexivity] | ev; steps; reflexivity ].
    Qed.

    (* segment B: the extraction, the column accumulation, the new residual *)
    Lemma mask_stepB : forall fb L r imfv amp sdv junk acc, imf_ok L imfv acc ->
      let w := exec_list mask_prims mask_segB fb
                 (mask_head [("imf", imfv); ("amp", amp)] L r sdv true junk) in
      match nth_error fs L with
      | None => w = Raise "IndexError"
      | Some z =>
          match gm r z amp with
          | None => w = Raise "EMDSiftCovergeError"
          | Some (nxt, fl) =>
              exists e2, w = Normal e2 /\
                e2 = mask_head [("imf", match L with
                                        | O => VSig nxt
                                        | S _ => VOpaque "matrix" (map VSig (acc ++ [nxt]))
                                        end);
                                ("amp", amp); ("next_imf", VSig nxt)]
                       L (vsub X (vsum V vzero vadd (acc ++ [nxt]))) sdv fl (fun x => lookup x e2)
          end
      end.
    Proof.
      intros fb L r imfv amp sdv junk acc HL w. subst w.
      unfold mask_head, imf_ok in *.
      destruct (nth_error fs L) as [z|] eqn:Ez; [destruct (gm r z amp) as [[nxt fl]|] eqn:Eg|];
        (destruct L as [|L']; [destruct HL as [-> ->]|]);
        first [ eexists; split; [ev; steps; reflexivity | ev; reflexivity] | ev; steps; reflexivity ].
    Qed.

    (* segment C: the two exit tests and the layer counter *)
    Lemma mask_stepC : forall fb L r imfv amp nxt sdv fl junk,
      exists e3,
        exec_list mask_prims mask_segC fb
          (mask_head [("imf", imfv); ("amp", amp); ("next_imf", VSig nxt)] L r sdv fl junk) = Normal e3 /\
        e3 = mask_head [("imf", imfv)] (L + 1) r sdv (fl && negb (cap_test_m L) && negb (small nxt))
               (fun x => lookup x e3).
    Proof.
      intros fb L r imfv amp nxt sdv fl junk. unfold mask_head, cap_test_m.
      destruct k as [k1|]; [destruct (L =? S k1 - 1)%nat eqn:Ek|]; destruct (small nxt) eqn:Es; destruct fl;
        (eexists; split; [ev; steps; reflexivity | ev; reflexivity]).
    Qed.

    (* one execution of the body *)
    Lemma mask_body_step : forall fb L r imfv sdv junk acc, imf_ok L imfv acc ->
      let e := mask_head [("imf", imfv)] L r sdv true junk in
      let sd' := if is_ratio_imf mode && (0 <? L)%nat then VOpaque "std" [VSig (last acc vzero)] else sdv in
      let ampo := match ma with
                  | None => Some (VOpaque "amp" [VOpaque "mask_amp" []; sd'])
                  | Some l => match nth_error l L with
                              | Some a => Some (VOpaque "amp" [amp_entry V a; sd'])
                              | None => None
                              end
                  end in
      match ampo, nth_error fs L with
      | Some amp, Some z =>
          match gm r z amp with
          | None => exec mask_prims mask_body fb e = Raise "EMDSiftCovergeError"
          | Some (nxt, fl) =>
              exists e', exec mask_prims mask_body fb e = Normal e' /\
                e' = mask_head [("imf", match L with
                                        | O => VSig nxt
                                        | S _ => VOpaque "matrix" (map VSig (acc ++ [nxt]))
                                        end)]
                       (L + 1) (vsub X (vsum V vzero vadd (acc ++ [nxt]))) sd'
                       (fl && negb (cap_test_m L) && negb (small nxt)) (fun x => lookup x e')
          end
      | _, _ => exec mask_prims mask_body fb e = Raise "IndexError"
      end.
    Proof.
      intros fb L r imfv sdv junk acc HL e sd' ampo. subst e.
      rewrite exec_spine, mask_segments, exec_list_app.
      pose proof (mask_stepA fb L r imfv sdv junk acc HL) as HA. cbv zeta in HA. fold sd' in HA. fold ampo in HA.
      destruct ampo as [amp|].
      - destruct HA as (e1 & HA & He1). rewrite HA. rewrite exec_list_app. rewrite He1. clear HA He1.
        pose proof (mask_stepB fb L r imfv amp sd' (fun x => lookup x e1) acc HL) as HB. cbv zeta in HB.
        destruct (nth_error fs L) as [z|].
        + destruct (gm r z amp) as [[nxt fl]|].
          * destruct HB as (e2 & HB & He2). rewrite HB, He2. clear HB He2.
            apply mask_stepC.
          * rewrite HB. reflexivity.
        + rewrite HB. reflexivity.
      - rewrite HA. destruct (nth_error fs L); reflexivity.
    Qed.

    Lemma mask_test : forall imfv L r sdv cs junk,
      eval_truth mask_prims (mask_head [("imf", imfv)] L r sdv cs junk) mask_cond = Ok cs.
    Proof. intros. unfold mask_head. ev. reflexivity. Qed.

    (* what imf holds at the loop head, after the layers in acc *)
    Definition imf_at (acc : list V) : val V := match acc with [] => VList [] | _ => mat_val acc end.

    Lemma imf_at_ok : forall acc, imf_ok (length acc) (imf_at acc) acc.
    Proof. intros [|a t]; cbn [length imf_at imf_ok]; [split; reflexivity|apply cols_mat]. Qed.

    Lemma imf_at_snoc : forall acc x,
      imf_at (acc ++ [x]) =
      match length acc with O => VSig x | S _ => VOpaque "matrix" (map VSig (acc ++ [x])) end.
    Proof.
      intros [|a t] x; [reflexivity|].
      unfold imf_at. rewrite mat_val_snoc by discriminate.
      destruct ((a :: t) ++ [x])%list eqn:E; [destruct t; discriminate|]. reflexivity.
    Qed.

    Lemma residual_snoc_m : forall acc x, resid (acc ++ [x]) = vsub X (vsum V vzero vadd (acc ++ [x])).
    Proof. intros [|a t] x; reflexivity. Qed.

    Lemma cap_test_m_spec : forall L,
      cap_test_m L = match cap with Some c => (L + 1 =? c)%nat | None => false end.
    Proof.
      intros L. unfold cap_test_m. destruct k as [k1|]; [|reflexivity]. cbn [option_map].
      destruct (L =? S k1 - 1)%nat eqn:E1; destruct (L + 1 =? S k1)%nat eqn:E2; try reflexivity;
        [apply Nat.eqb_eq in E1; apply Nat.eqb_neq in E2|apply Nat.eqb_neq in E1; apply Nat.eqb_eq in E2]; lia.
    Qed.

    (* sd at the loop head after the layers acc: untouched unless the mode is ratio_imf *)
    Definition sd_head_ok (acc : list V) (sdv : val V) : Prop :=
      (is_ratio_imf mode = false \/ acc = []) -> sdv = sd0.

    (* the while loop against peel_loop with the per-layer extraction mask_extract, for every fuel *)
    Lemma mask_while : forall fb f acc sdv junk, sd_head_ok acc sdv ->
      let w := while_loop (fun e' => eval_truth mask_prims e' mask_cond)
                          (fun e' => exec mask_prims mask_body fb e') f
                          (mask_head [("imf", imf_at acc)] (length acc) (resid acc) sdv true junk) in
      let (acc', fl) := peel f cap X acc in
      if out_of_fuel fl then w = OutOfFuel
      else if raised fl then w = Raise "EMDSiftCovergeError" \/ w = Raise "IndexError"
      else acc' <> [] /\
           exists sdv' junk', w = Normal (mask_head [("imf", imf_at acc')] (length acc') (resid acc') sdv' false junk').
    Proof.
      intros fb. induction f as [|f IH]; intros acc sdv junk Hsd w; subst w.
      - cbn [peel_loop out_of_fuel]. rewrite while_loop_unfold, mask_test. reflexivity.
      - cbn [peel_loop]. rewrite while_loop_unfold, mask_test.
        pose proof (mask_body_step fb (length acc) (resid acc) (imf_at acc) sdv junk acc (imf_at_ok acc)) as Hs.
        cbv zeta in Hs.
        unfold SkeletonPrims.mask_extract at 1. unfold SkeletonPrims.amp_at, SkeletonPrims.sd_at.
        assert (Hsdv : (if is_ratio_imf mode && (0 <? length acc)%nat
                        then VOpaque "std" [VSig (last acc vzero)] else sdv) =
                       (if is_ratio_imf mode && (0 <? length acc)%nat
                        then VOpaque "std" [VSig (last acc vzero)] else sd0)).
        { destruct (is_ratio_imf mode) eqn:Er; cbn [andb].
          - destruct acc as [|a t]; cbn [length Nat.ltb Nat.leb]; [|reflexivity]. apply Hsd. right. reflexivity.
          - apply Hsd. left. exact Er. }
        rewrite Hsdv in Hs. clear Hsdv.
        set (sd' := if is_ratio_imf mode && (0 <? length acc)%nat
                    then VOpaque "std" [VSig (last acc vzero)] else sd0) in *.
        destruct (match ma with
                  | None => Some (VOpaque "amp" [VOpaque "mask_amp" []; sd'])
                  | Some l => match nth_error l (length acc) with
                              | Some a => Some (VOpaque "amp" [amp_entry V a; sd'])
                              | None => None
                              end
                  end) as [amp|].
        + destruct (nth_error fs (length acc)) as [z|].
          * destruct (gm (resid acc) z amp) as [[nxt flg]|].
            -- destruct Hs as (e' & He' & Hs). rewrite He'. clear He'.
               rewrite <- imf_at_snoc, <- residual_snoc_m in Hs.
               rewrite cap_test_m_spec in Hs.
               replace (length acc + 1)%nat with (length (acc ++ [nxt])) in Hs
                 by (rewrite app_length; reflexivity).
               set (c := match cap with Some c0 => (length (acc ++ [nxt]) =? c0)%nat | None => false end) in *.
               replace (flg && negb c && negb (small nxt)) with (negb (c || small nxt || negb flg)) in Hs
                 by (destruct flg, c, (small nxt); reflexivity).
               destruct (c || small nxt || negb flg).
               ++ cbn [out_of_fuel raised]. split; [destruct acc; discriminate|].
                  rewrite Hs. rewrite while_loop_unfold, mask_test. eexists. eexists. reflexivity.
               ++ rewrite Hs. apply IH.
                  intros [Hr|Hn]; [|destruct acc; discriminate].
                  subst sd'. rewrite Hr. reflexivity.
            -- cbn [out_of_fuel raised]. rewrite Hs. left. reflexivity.
          * cbn [out_of_fuel raised]. rewrite Hs. right. reflexivity.
        + cbn [out_of_fuel raised].
          destruct (nth_error fs (length acc)); rewrite Hs; right; reflexivity.
    Qed.

    Lemma mask_prefix : forall f,
      exists junk,
        exec_list mask_prims mask_pre f (mask_env0 k rmf X o) =
        Normal (mask_head [("imf", VList [])] 0 X sd0 true junk).
    Proof.
      intros f. exists (fun _ => None). unfold mask_head. ev. steps. reflexivity.
    Qed.

    Lemma mask_suffix : forall f L r m sdv junk,
      exec_list mask_prims mask_post f (mask_head [("imf", m)] L r sdv false junk) =
      Return (if rmf then VList [m; VList fs] else m).
    Proof. intros. unfold mask_head. destruct rmf; ev; steps; reflexivity. Qed.

    (* THE TIE for mask_sift's outer loop, for every fuel *)
    Theorem skeleton_mask_sift_refines : forall f,
      mask_agrees fs rmf (exec mask_prims prog_mask_sift f (mask_env0 k rmf X o)) (peel f cap X []).
    Proof.
      intros f. rewrite (exec_split _ _ _ _ _ _ _ _ _ mask_split_ok).
      destruct (mask_prefix f) as (junk & Hpre). rewrite Hpre.
      cbn [exec].
      pose proof (mask_while f f [] sd0 junk (fun _ => eq_refl)) as Hw. cbv zeta in Hw.
      change (length (@nil V)) with 0%nat in Hw. change (resid []) with X in Hw.
      change (imf_at []) with (@VList V []) in Hw.
      unfold mask_agrees.
      destruct (peel f cap X []) as [acc' fl].
      destruct (out_of_fuel fl); [rewrite Hw; reflexivity|].
      destruct (raised fl); [destruct Hw as [Hw|Hw]; rewrite Hw; [left|right]; reflexivity|].
      destruct Hw as (Hne & sdv' & junk' & Hw). rewrite Hw.
      destruct acc' as [|a t]; [contradiction|].
      change (imf_at (a :: t)) with (mat_val (a :: t)).
      apply mask_suffix.
    Qed.
  End Fixed.
End MaskTie.
