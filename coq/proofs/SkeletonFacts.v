(* The tie between the hand-written control skeletons of model/SiftCore.v and the source (DESIGN 3.2):
   gen/Gen_Skeleton.v is regenerated from emd/sift.py on every run by harness/gen_skeleton.py; here the loops
   gni_loop / get_next_imf_gen and peel_loop are proved to compute exactly what the translated programs
   compute under the interpreter of lib/PyLoop.v, for every behaviour of the oracles.

   The reviewable part is the PRIMITIVE MAPPING TABLE of each section: it says which oracle of the model
   stands for which opaque primitive name emitted by the translator (and with which argument shapes; any
   other name or shape is [Bad], i.e. the program gets Stuck and the theorems fail). *)
From Coq Require Import String List Bool Arith Lia.
From EmdV Require Import lib.PyLoop model.SiftCore proofs.SiftCoreFacts gen.Gen_Skeleton.
Import ListNotations.
Open Scope string_scope.

(* ---- generic helpers ------------------------------------------------------------------------ *)
Definition handler (V : Type) := list (val V) -> list (string * val V) -> res (val V).

Fixpoint table_lookup {V : Type} (t : list (string * handler V)) (f : string) : option (handler V) :=
  match t with
  | [] => None
  | (k, h) :: r => if String.eqb k f then Some h else table_lookup r f
  end.

Definition prims_of {V : Type} (t : list (string * handler V)) : prims V :=
  fun f args kw => match table_lookup t f with Some h => h args kw | None => Bad end.

Fixpoint keys_are {V : Type} (kw : list (string * val V)) (ks : list string) : bool :=
  match kw, ks with
  | [], [] => true
  | (k, _) :: r, k' :: r' => String.eqb k k' && keys_are r r'
  | _, _ => false
  end.

Definition is_opaque0 {V : Type} (v : val V) (tag : string) : bool :=
  match v with VOpaque t [] => String.eqb t tag | _ => false end.

(* a frame: the parameters bound to the call's arguments, every other assigned name listed but unbound *)
Definition frame {V : Type} (params names : list string) (args : list (val V)) : env V :=
  match assign_all params args (env_of names (fun _ => None)) with Some e => e | None => [] end.

(* a specification of an environment over a fixed list of names: the listed bindings, anything elsewhere *)
Fixpoint overlay {V : Type} (l : list (string * val V)) (junk : string -> option (val V)) (x : string)
  : option (val V) :=
  match l with
  | [] => junk x
  | (k, v) :: r => if String.eqb x k then Some v else overlay r junk x
  end.

Definition sig_identity {V : Type} : handler V :=
  fun args kw => match args, kw with [VSig x], [] => Ok (VSig x) | _, _ => Bad end.

Definition ensure_1d {V : Type} : handler V :=
  fun args kw => match args, kw with
                 | [VList [VSig x]; VList [VStr _]; VStr _], [] => Ok (VSig x)
                 | _, _ => Bad
                 end.

Ltac oracle_rw :=
  repeat match goal with
         | H : _ = Some _ |- _ => rewrite H
         | H : _ = None |- _ => rewrite H
         | H : _ = true |- _ => rewrite H
         | H : _ = false |- _ => rewrite H
         end.

Definition iter_env {V : Type} (o : outcome V) : option (env V) :=
  match o with Normal e | Continue e => Some e | _ => None end.

(* the arithmetic detail of get_next_imf's first test: `niters == 3*max_iters//4` (which only logs) sits in
   front of `elif niters > max_iters: raise`; it can never mask the raise *)
Lemma three_quarters_le : forall m, (3 * m / 4 <= m)%nat.
Proof. intros m. apply Nat.div_le_upper_bound; lia. Qed.

Lemma log_test_never_masks_raise : forall n m, (n =? 3 * m / 4)%nat = true -> (m <? n)%nat = false.
Proof.
  intros n m H. apply Nat.eqb_eq in H. apply Nat.ltb_ge. subst n. apply three_quarters_le.
Qed.

(* ============================================================================================== *)
(* get_next_imf                                                                                   *)
(* ============================================================================================== *)
Section GniTie.
  Variable V : Type.
  Variable vsub : V -> V -> V.
  Variable vstep : V -> V.
  Variable vavg : V -> V -> V.
  Variable env_u env_l : V -> option V.          (* interp_envelope(x, mode='upper' / 'lower'); None = None *)
  Variable stop_sd : V -> V -> bool.
  Variable stop_ril : V -> V -> bool.
  Variable energy_fires : V -> V -> bool.

  Definition envs_of (x : V) : option (V * V) :=
    match env_u x, env_l x with Some u, Some l => Some (u, l) | _, _ => None end.

  Definition optsig (o : option V) : val V := match o with Some v => VSig v | None => VNone end.

  Definition method_str (m : stop_method) : string :=
    match m with SD => "sd" | Rilling => "rilling" | Fixed => "fixed" end.

  (* ---- the primitive mapping table of get_next_imf ---- *)
  Definition gni_table : list (string * handler V) :=
    [ ("ensure_1d_with_singleton", ensure_1d);
      ("{}", fun args kw => match args, kw with [], [] => Ok (VOpaque "{}" []) | _, _ => Bad end);
      ("X.copy()", sig_identity);
      ("x1.copy()", sig_identity);
      ("str.format", fun args kw => match args, kw with [VStr _; VNat _], [] => Ok (VStr "") | _, _ => Bad end);
      ("interp_envelope",
        fun args kw =>
          match args, kw with
          | [VSig p], [(_, VStr m); _; _] =>
              if keys_are kw ["mode"; "**"; "extrema_opts"] then
                if String.eqb m "upper" then Ok (optsig (env_u p))
                else if String.eqb m "lower" then Ok (optsig (env_l p)) else Bad
              else Bad
          | _, _ => Bad
          end);
      ("np.mean([upper, lower], axis=0)[:, None]",
        fun args kw => match args, kw with [VSig u; VSig l], [] => Ok (VSig (vavg u l)) | _, _ => Bad end);
      ("-", fun args kw => match args, kw with [VSig a; VSig b], [] => Ok (VSig (vsub a b)) | _, _ => Bad end);
      ("*", fun args kw =>
              match args, kw with
              | [s; VSig a], [] => if is_opaque0 s "env_step_size" then Ok (VSig (vstep a)) else Bad
              | _, _ => Bad
              end);
      ("sd_stop",
        fun args kw =>
          match args, kw with
          | [VSig p; VSig x1], [(_, t); (_, VNat _)] =>
              if keys_are kw ["sd"; "niters"] && is_opaque0 t "sd_thresh"
              then Ok (VList [VBool (stop_sd p x1); VOpaque "metric" []]) else Bad
          | _, _ => Bad
          end);
      ("rilling_stop",
        fun args kw =>
          match args, kw with
          | [VSig u; VSig l], [(_, VNat _); (_, a); (_, b); (_, c)] =>
              if keys_are kw ["niters"; "sd1"; "sd2"; "tol"]
                 && is_opaque0 a "sd1" && is_opaque0 b "sd2" && is_opaque0 c "tol"
              then Ok (VList [VBool (stop_ril u l); VOpaque "metric" []]) else Bad
          | _, _ => Bad
          end);
      ("fixed_stop",
        fun args kw => match args, kw with [VNat n; VNat m], [] => Ok (VBool (Nat.eqb n m)) | _, _ => Bad end);
      ("proto_imf.ndim",                      (* signals are [nsamples x 1] columns throughout *)
        fun args kw => match args, kw with [VSig _], [] => Ok (VNat 2) | _, _ => Bad end);
      ("_energy_difference",
        fun args kw => match args, kw with
                       | [VSig a; VSig b], [] => Ok (VOpaque "energy_db" [VSig a; VSig b])
                       | _, _ => Bad
                       end);
      (">", fun args kw =>
              match args, kw with
              | [VOpaque t [VSig a; VSig b]; th], [] =>
                  if String.eqb t "energy_db" && is_opaque0 th "energy_thresh"
                  then Ok (VBool (energy_fires a b)) else Bad
              | _, _ => Bad
              end) ].

  Definition gni_prims : prims V := prims_of gni_table.

  (* ---- the initial environment: the parameters of get_next_imf, in the order of the def line ---- *)
  Definition gni_args (method : stop_method) (max_iters : nat) (use_energy : bool)
             (X : V) (eo xo : val V) : list (val V) :=
    [ VSig X;                                                            (* X *)
      VOpaque "env_step_size" [];                                        (* env_step_size *)
      VNat max_iters;                                                    (* max_iters *)
      if use_energy then VOpaque "energy_thresh" [] else VNone;          (* energy_thresh *)
      VStr (method_str method);                                          (* stop_method *)
      VOpaque "sd_thresh" [];                                            (* sd_thresh *)
      VList [VOpaque "sd1" []; VOpaque "sd2" []; VOpaque "tol" []];      (* rilling_thresh *)
      eo;                                                                (* envelope_opts: any value *)
      xo ].                                                              (* extrema_opts: any value *)

  (* every name of the frame: the parameters, then the locals in order of first assignment *)
  Definition gni_names : list string := Eval cbv in assigned prog_get_next_imf params_get_next_imf.

  Definition gni_env0 method max_iters use_energy X eo xo : env V :=
    frame params_get_next_imf gni_names (gni_args method max_iters use_energy X eo xo).

  (* ---- how a model result shows at the Python level ---- *)
  Definition gni_render (r : gni_result V) : outcome V :=
    match r with
    | Imf p fl _ => Return (VList [VSig p; VBool fl])
    | ConvergeError _ => Raise "EMDSiftCovergeError"
    | GniOutOfFuel => OutOfFuel
    end.

  (* prefix / loop / suffix of the translated body *)
  Definition gni_split := Eval cbv in split_at_while (spine prog_get_next_imf).
  Definition gni_pre : list stmt := match gni_split with Some (p, _, _) => p | None => [] end.
  Definition gni_cond : expr := match gni_split with Some (_, (c, _), _) => c | None => ENone end.
  Definition gni_body : stmt := match gni_split with Some (_, (_, b), _) => b | None => SSkip end.
  Definition gni_post : list stmt := match gni_split with Some (_, _, q) => q | None => [] end.

  Lemma gni_split_ok : split_at_while (spine prog_get_next_imf) = Some (gni_pre, (gni_cond, gni_body), gni_post).
  Proof. reflexivity. Qed.

  Ltac ev :=
    cbv beta iota zeta delta
        [exec eval eval_truth bind map_res truthy do_cmp do_arith do_index nat_cmp nat_arith
         upd lookup env_of assign_all cmp_name ar_name frame overlay
         gni_prims prims_of table_lookup gni_table keys_are is_opaque0 sig_identity ensure_1d optsig iter_env
         gni_names gni_env0 gni_args params_get_next_imf
         gni_split gni_pre gni_cond gni_body gni_post
         String.eqb Ascii.eqb Bool.eqb fst snd nth_error andb negb orb].
  Ltac ev1 := ev; repeat (progress (cbn [Nat.eqb]; oracle_rw); ev).
  (* statement by statement: the continuation stays folded as [K rest fuel env] *)
  Ltac steps :=
    set (K := exec_list gni_prims);
    assert (K_cons : forall s t f e, K (s :: t) f e =
                       match exec gni_prims s f e with Normal e' => K t f e' | o => o end) by reflexivity;
    assert (K_nil : forall f e, K [] f e = Normal e) by reflexivity;
    repeat (rewrite K_cons; ev1); rewrite ?K_nil; ev1.

  Section Fixed.
    Variable method : stop_method.
    Variable max_iters : nat.
    Variable use_energy : bool.
    Variable X : V.

    Local Notation loopg := (gni_loop V vsub vstep vavg envs_of stop_sd stop_ril method max_iters false).
    Local Notation sfires := (stop_fires V stop_sd stop_ril method max_iters).

    (* get_next_imf_gen with an arbitrary loop bound (the model uses max_iters + 2) *)
    Definition gni_gen_fuel (f : nat) : gni_result V :=
      match loopg f 0 X with
      | Imf p flag n => Imf p (flag && negb (use_energy && energy_fires X (vsub X p))) n
      | r => r
      end.

    Lemma gni_gen_fuel_model :
      gni_gen_fuel (max_iters + 2) =
      get_next_imf_gen V vsub vstep vavg envs_of stop_sd stop_ril energy_fires method max_iters use_energy false X.
    Proof. reflexivity. Qed.

    (* the loop invariant: the environment at the loop head. [junk] is whatever the other locals hold. *)
    Definition gni_head (eo xo : val V) (p : V) (n : nat) (ci cf : bool) (junk : string -> option (val V)) : env V :=
      env_of gni_names
        (overlay [ ("X", VSig X);
                   ("env_step_size", VOpaque "env_step_size" []);
                   ("max_iters", VNat max_iters);
                   ("energy_thresh", if use_energy then VOpaque "energy_thresh" [] else VNone);
                   ("stop_method", VStr (method_str method));
                   ("sd_thresh", VOpaque "sd_thresh" []);
                   ("rilling_thresh", VList [VOpaque "sd1" []; VOpaque "sd2" []; VOpaque "tol" []]);
                   ("envelope_opts", eo);
                   ("extrema_opts", xo);
                   ("proto_imf", VSig p);
                   ("niters", VNat n);
                   ("continue_imf", VBool ci);
                   ("continue_flag", VBool cf) ] junk).

    Lemma gni_body_step : forall fb eo xo p n junk,
      let e := gni_head eo xo p n true true junk in
      if negb (is_fixed method) && (max_iters <? n)%nat
      then exec gni_prims gni_body fb e = Raise "EMDSiftCovergeError"
      else exists e', iter_env (exec gni_prims gni_body fb e) = Some e' /\
             let junk' := fun x => lookup x e' in
             match envs_of p with
             | None => e' = gni_head eo xo p (n + 1) false (1 <? n + 1)%nat junk'
             | Some (u, l) =>
                 let avg := vavg u l in
                 let x1 := vsub p avg in
                 if sfires (n + 1)%nat p x1 u l
                 then e' = gni_head eo xo x1 (n + 1) false true junk'
                 else e' = gni_head eo xo (vsub p (vstep avg)) (n + 1) true true junk'
             end.
    Proof.
      intros fb eo xo p n junk e. subst e.
      unfold envs_of, gni_head. rewrite exec_spine. cbv [spine gni_body gni_split].
      destruct method; cbn [is_fixed negb andb method_str stop_fires] in *.
      - (* sd *)
        destruct (max_iters <? n)%nat eqn:Hlt; destruct (n =? 3 * max_iters / 4)%nat eqn:Hq.
        + rewrite (log_test_never_masks_raise _ _ Hq) in Hlt. discriminate.
        + steps. reflexivity.
        + destruct (env_u p) as [u|] eqn:Eu; destruct (env_l p) as [l|] eqn:El;
            [destruct (stop_sd p (vsub p (vavg u l))) eqn:Es| | |];
            (eexists; split; [steps; reflexivity | ev; reflexivity]).
        + destruct (env_u p) as [u|] eqn:Eu; destruct (env_l p) as [l|] eqn:El;
            [destruct (stop_sd p (vsub p (vavg u l))) eqn:Es| | |];
            (eexists; split; [steps; reflexivity | ev; reflexivity]).
      - (* rilling *)
        destruct (max_iters <? n)%nat eqn:Hlt; destruct (n =? 3 * max_iters / 4)%nat eqn:Hq.
        + rewrite (log_test_never_masks_raise _ _ Hq) in Hlt. discriminate.
        + steps. reflexivity.
        + destruct (env_u p) as [u|] eqn:Eu; destruct (env_l p) as [l|] eqn:El;
            [destruct (stop_ril u l) eqn:Es| | |];
            (eexists; split; [steps; reflexivity | ev; reflexivity]).
        + destruct (env_u p) as [u|] eqn:Eu; destruct (env_l p) as [l|] eqn:El;
            [destruct (stop_ril u l) eqn:Es| | |];
            (eexists; split; [steps; reflexivity | ev; reflexivity]).
      - (* fixed *)
        destruct (env_u p) as [u|] eqn:Eu; destruct (env_l p) as [l|] eqn:El;
          [destruct (n + 1 =? max_iters)%nat eqn:Es| | |];
          (eexists; split; [steps; reflexivity | ev; reflexivity]).
    Qed.

    Lemma gni_test : forall eo xo p n ci cf junk,
      eval_truth gni_prims (gni_head eo xo p n ci cf junk) gni_cond = Ok ci.
    Proof. intros. unfold gni_head. ev. reflexivity. Qed.

    (* the while loop against gni_loop, for every fuel: one body execution per unit of model fuel *)
    Lemma gni_while : forall fb eo xo f n p junk,
      let w := while_loop (fun e' => eval_truth gni_prims e' gni_cond)
                          (fun e' => exec gni_prims gni_body fb e') f
                          (gni_head eo xo p n true true junk) in
      match loopg f n p with
      | Imf p' fl n' => exists junk', w = Normal (gni_head eo xo p' n' false fl junk')
      | ConvergeError _ => w = Raise "EMDSiftCovergeError"
      | GniOutOfFuel => w = OutOfFuel
      end.
    Proof.
      intros fb eo xo. induction f as [|f IH]; intros n p junk w; subst w.
      - cbn [gni_loop]. rewrite while_loop_unfold, gni_test. reflexivity.
      - cbn [gni_loop]. rewrite while_loop_unfold, gni_test.
        pose proof (gni_body_step fb eo xo p n junk) as Hs. cbv zeta in Hs.
        destruct (negb (is_fixed method) && (max_iters <? n)%nat).
        + rewrite Hs. reflexivity.
        + destruct Hs as (e' & He' & Hs).
          replace (S n) with (n + 1)%nat by lia.
          assert (Hw : forall k,
                    match exec gni_prims gni_body fb (gni_head eo xo p n true true junk) with
                    | Normal e1 | Continue e1 => k e1
                    | o => o
                    end = k e').
          { intros k. destruct (exec gni_prims gni_body fb (gni_head eo xo p n true true junk));
              cbn [iter_env] in He'; try discriminate; inversion He'; reflexivity. }
          rewrite Hw. clear Hw He'.
          destruct (envs_of p) as [[u l]|].
          * destruct (sfires (n + 1)%nat p (vsub p (vavg u l)) u l).
            -- rewrite Hs. rewrite while_loop_unfold, gni_test. eexists. reflexivity.
            -- rewrite Hs. apply IH.
          * rewrite Hs. rewrite while_loop_unfold, gni_test. eexists. reflexivity.
    Qed.

    Lemma gni_prefix : forall f eo xo,
      exists eo' junk,
        exec_list gni_prims gni_pre f (gni_env0 method max_iters use_energy X eo xo) =
        Normal (gni_head eo' xo X 0 true true junk).
    Proof.
      intros f eo xo.
      destruct eo; eexists; exists (fun _ => None); unfold gni_head; ev; steps; reflexivity.
    Qed.

    Lemma gni_suffix : forall f eo xo p n fl junk,
      exec_list gni_prims gni_post f (gni_head eo xo p n false fl junk) =
      Return (VList [VSig p; VBool (fl && negb (use_energy && energy_fires X (vsub X p)))]).
    Proof.
      intros f eo xo p n fl junk. unfold gni_head.
      destruct use_energy; [destruct (energy_fires X (vsub X p)) eqn:Ee|]; destruct fl;
        ev; steps; reflexivity.
    Qed.

    (* THE TIE, for every loop bound: the translated body of get_next_imf, run with fuel f, does what
       the hand-written model does with loop bound f *)
    Theorem skeleton_get_next_imf_exact : forall f eo xo,
      exec gni_prims prog_get_next_imf f (gni_env0 method max_iters use_energy X eo xo) =
      gni_render (gni_gen_fuel f).
    Proof.
      intros f eo xo. rewrite (exec_split _ _ _ _ _ _ _ _ _ gni_split_ok).
      destruct (gni_prefix f eo xo) as (eo' & junk & Hpre). rewrite Hpre.
      cbn [exec]. unfold gni_gen_fuel.
      pose proof (gni_while f eo' xo f 0 X junk) as Hw. cbv zeta in Hw.
      destruct (loopg f 0 X) as [p fl n| n |].
      - destruct Hw as (junk' & Hw). rewrite Hw. rewrite gni_suffix. reflexivity.
      - rewrite Hw. reflexivity.
      - rewrite Hw. reflexivity.
    Qed.
  End Fixed.
End GniTie.

