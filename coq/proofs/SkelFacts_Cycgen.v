(* Proofs of the control-skeleton tie of the generator methods of IterateCycles and of IterateCycles.__init__
   (notes/TIE_CYCGEN.md): the programs of gen/Gen_Skel_Cycgen.v compute, under the table of model/SkelPrims_Cycgen.v,
   the list-level models gen_cycles / gen_valids / gen_subset / gen_chains / looper_init; plus the laws about those
   models that props/Prop_Tie_Cycgen.v states. *)
From Coq Require Import String List Bool Arith ZArith Lia Sorted.
From EmdV Require Import lib.NpLite model.CycleMaps model.CycleVec model.CycleStat model.CyclesObj.
From EmdV Require Import proofs.CycleMapsFacts.
From EmdV Require Import lib.PyLoop lib.PyLoopTools.
From EmdV Require Import model.SkelPrims_Cyciter proofs.SkelFacts_Cyciter gen.Gen_Skel_Cycgen model.SkelPrims_Cycgen.
Import ListNotations.
Open Scope string_scope.

Local Notation V := ival.

(* the three top-level statements of every translated generator: [__yield = []; for ..; return __yield] *)
Definition gc_pre : list stmt := Eval cbv in firstn 1 (spine prog_IterateCycles_iterate_cycles).
Definition gc_for : stmt := Eval cbv in nth 1 (spine prog_IterateCycles_iterate_cycles) SSkip.
Definition gc_post : list stmt := Eval cbv in skipn 2 (spine prog_IterateCycles_iterate_cycles).
Definition gc_body : stmt := Eval cbv in match gc_for with SFor _ _ b => b | _ => SSkip end.
Definition gv_pre : list stmt := Eval cbv in firstn 1 (spine prog_IterateCycles_iterate_valids).
Definition gv_for : stmt := Eval cbv in nth 1 (spine prog_IterateCycles_iterate_valids) SSkip.
Definition gv_post : list stmt := Eval cbv in skipn 2 (spine prog_IterateCycles_iterate_valids).
Definition gv_body : stmt := Eval cbv in match gv_for with SFor _ _ b => b | _ => SSkip end.
Definition gs_pre : list stmt := Eval cbv in firstn 1 (spine prog_IterateCycles_iterate_subset).
Definition gs_for : stmt := Eval cbv in nth 1 (spine prog_IterateCycles_iterate_subset) SSkip.
Definition gs_post : list stmt := Eval cbv in skipn 2 (spine prog_IterateCycles_iterate_subset).
Definition gs_body : stmt := Eval cbv in match gs_for with SFor _ _ b => b | _ => SSkip end.
Definition gh_pre : list stmt := Eval cbv in firstn 1 (spine prog_IterateCycles_iterate_chains).
Definition gh_for : stmt := Eval cbv in nth 1 (spine prog_IterateCycles_iterate_chains) SSkip.
Definition gh_post : list stmt := Eval cbv in skipn 2 (spine prog_IterateCycles_iterate_chains).
Definition gh_body : stmt := Eval cbv in match gh_for with SFor _ _ b => b | _ => SSkip end.

Ltac ev :=
  cbv beta iota zeta delta
      [exec final_env eval eval_truth bind map_res truthy do_cmp do_arith do_index nat_cmp nat_arith iter_list
       upd lookup env_of assign_all cmp_name ar_name frame overlay normal_env
       try_finish try_finish_env exn_matches exec_list
       gen_prims prims_of table_lookup gen_table gen_rows table_app base_table fallback iter_table keys_are is_opaque0 range_val
       h_store load h_attr h_count h_max vobj attr set_attr get_attr
       call_aug call_map_cycle_to_samples call_sub_sample call_sub_aug call_chain_samples max_res
       as_scalar as_int venum
       vvec vint vidx varr vloop voptvec vbools
       names_init names_gcycles names_gvalids names_gsubset names_gchains
       env0_init env0_gcycles env0_gvalids env0_gsubset env0_gchains
       params_IterateCycles_init params_IterateCycles_iterate_cycles params_IterateCycles_iterate_valids
       params_IterateCycles_iterate_subset params_IterateCycles_iterate_chains
       prog_IterateCycles_init prog_IterateCycles_iterate_cycles prog_IterateCycles_iterate_valids
       prog_IterateCycles_iterate_subset prog_IterateCycles_iterate_chains
       gc_pre gc_for gc_post gc_body gv_pre gv_for gv_post gv_body gs_pre gs_for gs_post gs_body
       gh_pre gh_for gh_post gh_body
       mode_str through_str l_through l_mode l_valids l_cv l_sv l_chv l_ph
       String.eqb Ascii.eqb Bool.eqb fst snd nth_error andb negb orb].
Ltac ev1 := ev; repeat (progress (cbn [Nat.eqb Nat.leb length vec_max count_val]; oracle_rw); ev).

(* ====================================================================================================== *)
(* the loop of a translated generator, once and for all                                                    *)
(* ====================================================================================================== *)
Section Collect.
  Variable A : Type.
  Variable elem : A -> val V.                  (* how an element of the iterated list shows *)
  Variable step : A -> res (option item).      (* the model's step *)
  Variable P : prims V.
  Variable x : string.
  Variable body : stmt.
  Variable fb : nat.
  Variable head : list item -> (string -> option (val V)) -> env V.   (* loop-head environment: items so far, junk *)
  Hypothesis Hstep : forall a acc junk,
    match step a with
    | Ok (Some it) => exists e2, exec P body fb (upd x (elem a) (head acc junk)) = Normal e2 /\
                                 e2 = head (acc ++ [it]) (fun y => lookup y e2)
    | Ok None => exists e2, (exec P body fb (upd x (elem a) (head acc junk)) = Continue e2 \/
                             exec P body fb (upd x (elem a) (head acc junk)) = Normal e2) /\
                            e2 = head acc (fun y => lookup y e2)
    | Exc n => exec P body fb (upd x (elem a) (head acc junk)) = Raise n
    | Bad => exec P body fb (upd x (elem a) (head acc junk)) = Stuck
    end.

  Lemma collect_loop : forall l acc junk, exists junk',
    for_loop x (fun e' => exec P body fb e') (map elem l) (head acc junk) =
    match gen_collect step l with
    | Ok r => Normal (head (acc ++ r) junk')
    | Exc n => Raise n
    | Bad => Stuck
    end.
  Proof.
    induction l as [|a t IH]; intros acc junk.
    - exists junk. cbn [map gen_collect]. rewrite for_loop_nil, app_nil_r. reflexivity.
    - cbn [map gen_collect]. rewrite for_loop_cons. pose proof (Hstep a acc junk) as H.
      destruct (step a) as [[it|]|n|].
      + destruct H as (e2 & H1 & H2). rewrite H1, H2.
        destruct (IH (acc ++ [it])%list (fun y => lookup y e2)) as (j' & Hj). exists j'. rewrite Hj.
        destruct (gen_collect step t); try reflexivity. rewrite <- app_assoc. reflexivity.
      + destruct H as (e2 & [H1|H1] & H2); rewrite H1, H2;
          destruct (IH acc (fun y => lookup y e2)) as (j' & Hj); exists j'; rewrite Hj;
          destruct (gen_collect step t); reflexivity.
      + exists junk. rewrite H. reflexivity.
      + exists junk. rewrite H. reflexivity.
  Qed.
End Collect.

Lemma aug_res_inds : forall trough cv ph k, aug_res trough cv ph k = inds_val (aug_inds trough cv ph k).
Proof.
  intros trough cv ph k. unfold aug_res, aug_inds.
  destruct (filter _ (map_cycle_to_samples cv (k - 1))); [reflexivity|].
  destruct (map_cycle_to_samples_aug trough cv ph k); reflexivity.
Qed.

Lemma map_vitem_snoc : forall (acc : list item) it,
  (map vitem acc ++ [VList [VNat (fst it); vinds (snd it)]])%list = map vitem (acc ++ [it]).
Proof. intros acc it. rewrite map_app. reflexivity. Qed.

(* the environment after `__yield = list.append(__yield, (idx, inds))` is the head with one more item *)
Ltac snoc_env := ev; rewrite map_app; cbn [map vitem vinds vidx fst snd]; reflexivity.

Lemma vec_max_cons : forall a t, vec_max (a :: t) = Some (zmax_list a t).
Proof. reflexivity. Qed.

Section Tie.
  Variable trough : Z.
  Local Notation P := (gen_prims trough).

  (* ====================================================================================================== *)
  (* iterate_cycles                                                                                          *)
  (* ====================================================================================================== *)
  Section Gcycles.
    Variables (th : through) (m : pymode) (v : option (list bool)) (sv chv ph : option (list Z)).
    Variables (a : Z) (t : list Z).
    Let cv := a :: t.
    Let lp := {| l_through := th; l_mode := m; l_valids := v; l_cv := Some cv; l_sv := sv; l_chv := chv; l_ph := ph |}.

    Definition gc_head (acc : list item) (junk : string -> option (val V)) : env V :=
      env_of names_gcycles (overlay [ ("self", vloop lp); ("__yield", VList (map vitem acc)) ] junk).

    Lemma gc_step : forall fb k acc junk,
      match yield_item k (cycle_inds trough m cv ph (Z.of_nat k)) with
      | Ok (Some it) => exists e2, exec P gc_body fb (upd "ii" (VNat k) (gc_head acc junk)) = Normal e2 /\
                                   e2 = gc_head (acc ++ [it]) (fun y => lookup y e2)
      | Ok None => exists e2, (exec P gc_body fb (upd "ii" (VNat k) (gc_head acc junk)) = Continue e2 \/
                               exec P gc_body fb (upd "ii" (VNat k) (gc_head acc junk)) = Normal e2) /\
                              e2 = gc_head acc (fun y => lookup y e2)
      | Exc n => exec P gc_body fb (upd "ii" (VNat k) (gc_head acc junk)) = Raise n
      | Bad => exec P gc_body fb (upd "ii" (VNat k) (gc_head acc junk)) = Stuck
      end.
    Proof.
      intros fb k acc junk. unfold gc_head, cycle_inds, gc_body, lp.
      destruct m as [[|]|]; cbn [yield_item].
      - eexists. split; [ev1; reflexivity | snoc_env].
      - destruct ph as [p|]; [|ev1; reflexivity].
        pose proof (aug_res_inds trough cv p (Z.of_nat k)) as Ha. fold cv.
        destruct (aug_inds trough cv p (Z.of_nat k)) as [o|n|]; cbn [inds_val yield_item] in *.
        + eexists. split; [ev1; fold cv; rewrite Ha; ev1; reflexivity | snoc_env].
        + ev1. fold cv. rewrite Ha. reflexivity.
        + ev1. fold cv. rewrite Ha. reflexivity.
      - ev1. reflexivity.
    Qed.

    Lemma gc_run : forall fuel,
      exec P prog_IterateCycles_iterate_cycles fuel (env0_gcycles lp) =
      gen_render (gen_cycles trough m cv ph).
    Proof.
      intros fuel.
      rewrite (exec_nth_split V P prog_IterateCycles_iterate_cycles 1 gc_for fuel _ eq_refl).
      change (firstn 1 (spine prog_IterateCycles_iterate_cycles)) with gc_pre.
      change (skipn 2 (spine prog_IterateCycles_iterate_cycles)) with gc_post.
      assert (Hpre : exec_list P gc_pre fuel (env0_gcycles lp) = Normal (gc_head [] (fun _ => None)))
        by (unfold gc_head, lp; ev1; reflexivity).
      rewrite Hpre. unfold gc_for. rewrite exec_for.
      assert (Hit : bind (eval P (gc_head [] (fun _ => None)) (ECall "range" [ECall "self.ncycles" [EVar "self"] []] []))
                         (iter_list P) = Ok (map VNat (seq 0 (ncycles cv)))).
      { unfold gc_head, lp, cv. ev1. unfold ncycles. rewrite <- max_plus1_nat. reflexivity. }
      rewrite Hit.
      match goal with |- context [for_loop "ii" (fun e' => exec P ?b fuel e')] => change b with gc_body end.
      destruct (collect_loop nat (@VNat V) (fun k => yield_item k (cycle_inds trough m cv ph (Z.of_nat k)))
                  P "ii" gc_body fuel gc_head (gc_step fuel) (seq 0 (ncycles cv)) [] (fun _ => None)) as (j' & Hl).
      rewrite Hl. unfold gen_cycles.
      destruct (gen_collect _ (seq 0 (ncycles cv))) as [r|n|]; cbn [gen_render app]; [|reflexivity|reflexivity].
      unfold gc_head. ev. reflexivity.
    Qed.
  End Gcycles.

  Theorem skeleton_iterate_cycles : forall lp cv fuel, l_cv lp = Some cv -> cv <> [] ->
    exec P prog_IterateCycles_iterate_cycles fuel (env0_gcycles lp) =
    gen_render (gen_cycles trough (l_mode lp) cv (l_ph lp)).
  Proof.
    intros [th m v cv0 sv chv ph] cv fuel Hcv Hne. cbn [l_cv l_mode l_ph] in *. subst cv0.
    destruct cv as [|a t]; [congruence|]. exact (gc_run th m v sv chv ph a t fuel).
  Qed.

  (* an object built without cycle_vect has no attribute ncycles *)
  Theorem skeleton_iterate_cycles_novect : forall lp fuel, l_cv lp = None ->
    exec P prog_IterateCycles_iterate_cycles fuel (env0_gcycles lp) = Raise "AttributeError".
  Proof. intros [th m v cv sv chv ph] fuel H. cbn [l_cv] in H. subst cv. ev1. reflexivity. Qed.
  (* ====================================================================================================== *)
  (* iterate_valids                                                                                          *)
  (* ====================================================================================================== *)
  Section Gvalids.
    Variables (th : through) (m : pymode) (v : list bool) (cv : list Z) (sv chv ph : option (list Z)).
    Let lp := {| l_through := th; l_mode := m; l_valids := Some v; l_cv := Some cv; l_sv := sv; l_chv := chv; l_ph := ph |}.

    Definition gv_head (acc : list item) (junk : string -> option (val V)) : env V :=
      env_of names_gvalids (overlay [ ("self", vloop lp); ("__yield", VList (map vitem acc)) ] junk).

    Lemma gv_step : forall fb ik acc junk,
      match yield_skip (fst ik) (cycle_inds trough m cv ph (Z.of_nat (snd ik))) with
      | Ok (Some it) => exists e2, exec P gv_body fb (upd "(idx, ii)" (venum ik) (gv_head acc junk)) = Normal e2 /\
                                   e2 = gv_head (acc ++ [it]) (fun y => lookup y e2)
      | Ok None => exists e2, (exec P gv_body fb (upd "(idx, ii)" (venum ik) (gv_head acc junk)) = Continue e2 \/
                               exec P gv_body fb (upd "(idx, ii)" (venum ik) (gv_head acc junk)) = Normal e2) /\
                              e2 = gv_head acc (fun y => lookup y e2)
      | Exc n => exec P gv_body fb (upd "(idx, ii)" (venum ik) (gv_head acc junk)) = Raise n
      | Bad => exec P gv_body fb (upd "(idx, ii)" (venum ik) (gv_head acc junk)) = Stuck
      end.
    Proof.
      intros fb [i k] acc junk. unfold gv_head, cycle_inds, lp. cbn [fst snd].
      destruct m as [[|]|]; cbn [yield_skip].
      - eexists. split; [ev1; reflexivity | snoc_env].
      - destruct ph as [p|]; [|ev1; reflexivity].
        pose proof (aug_res_inds trough cv p (Z.of_nat k)) as Ha.
        destruct (aug_inds trough cv p (Z.of_nat k)) as [[l|]|n|]; cbn [inds_val vinds yield_skip] in *.
        + eexists. split; [ev1; rewrite Ha; ev1; reflexivity | snoc_env].
        + eexists. split; [left; ev1; rewrite Ha; ev1; reflexivity | ev; reflexivity].
        + ev1. rewrite Ha. reflexivity.
        + ev1. rewrite Ha. reflexivity.
      - ev1. reflexivity.
    Qed.

    Lemma gv_run : forall fuel,
      exec P prog_IterateCycles_iterate_valids fuel (env0_gvalids lp) = gen_render (gen_valids trough m v cv ph).
    Proof.
      intros fuel.
      rewrite (exec_nth_split V P prog_IterateCycles_iterate_valids 1 gv_for fuel _ eq_refl).
      change (firstn 1 (spine prog_IterateCycles_iterate_valids)) with gv_pre.
      change (skipn 2 (spine prog_IterateCycles_iterate_valids)) with gv_post.
      assert (Hpre : exec_list P gv_pre fuel (env0_gvalids lp) = Normal (gv_head [] (fun _ => None)))
        by (unfold gv_head, lp; ev1; reflexivity).
      rewrite Hpre. unfold gv_for. rewrite exec_for.
      assert (Hit : bind (eval P (gv_head [] (fun _ => None))
                               (ECall "enumerate" [EIndex (ECall "np.where" [ECall "self.valids" [EVar "self"] []] []) (ENat 0)] []))
                         (iter_list P) = Ok (map venum (enumerate (where_mask v)))).
      { unfold gv_head, lp. ev1. reflexivity. }
      rewrite Hit.
      match goal with |- context [for_loop "(idx, ii)" (fun e' => exec P ?b fuel e')] => change b with gv_body end.
      destruct (collect_loop (nat * nat) venum
                  (fun ik => yield_skip (fst ik) (cycle_inds trough m cv ph (Z.of_nat (snd ik))))
                  P "(idx, ii)" gv_body fuel gv_head (gv_step fuel) (enumerate (where_mask v)) [] (fun _ => None)) as (j' & Hl).
      rewrite Hl. unfold gen_valids.
      destruct (gen_collect _ (enumerate (where_mask v))) as [r|n|]; cbn [gen_render app]; [|reflexivity|reflexivity].
      unfold gv_head. ev. reflexivity.
    Qed.
  End Gvalids.

  Theorem skeleton_iterate_valids : forall lp v cv fuel, l_valids lp = Some v -> l_cv lp = Some cv ->
    exec P prog_IterateCycles_iterate_valids fuel (env0_gvalids lp) =
    gen_render (gen_valids trough (l_mode lp) v cv (l_ph lp)).
  Proof.
    intros [th m v0 cv0 sv chv ph] v cv fuel Hv Hcv. cbn [l_valids l_cv l_mode l_ph] in *. subst v0 cv0.
    exact (gv_run th m v cv sv chv ph fuel).
  Qed.

  (* ====================================================================================================== *)
  (* iterate_subset                                                                                          *)
  (* ====================================================================================================== *)
  Section Gsubset.
    Variables (th : through) (m : pymode) (v : option (list bool)) (cv : list Z) (chv ph : option (list Z)).
    Variables (a : Z) (t : list Z).
    Let lp := {| l_through := th; l_mode := m; l_valids := v; l_cv := Some cv; l_sv := Some (a :: t); l_chv := chv; l_ph := ph |}.

    Definition gs_head (acc : list item) (junk : string -> option (val V)) : env V :=
      env_of names_gsubset (overlay [ ("self", vloop lp); ("__yield", VList (map vitem acc)) ] junk).

    Lemma gs_step : forall fb j acc junk,
      match yield_item j (subset_inds trough m (a :: t) cv ph (Z.of_nat j)) with
      | Ok (Some it) => exists e2, exec P gs_body fb (upd "ii" (VNat j) (gs_head acc junk)) = Normal e2 /\
                                   e2 = gs_head (acc ++ [it]) (fun y => lookup y e2)
      | Ok None => exists e2, (exec P gs_body fb (upd "ii" (VNat j) (gs_head acc junk)) = Continue e2 \/
                               exec P gs_body fb (upd "ii" (VNat j) (gs_head acc junk)) = Normal e2) /\
                              e2 = gs_head acc (fun y => lookup y e2)
      | Exc n => exec P gs_body fb (upd "ii" (VNat j) (gs_head acc junk)) = Raise n
      | Bad => exec P gs_body fb (upd "ii" (VNat j) (gs_head acc junk)) = Stuck
      end.
    Proof.
      intros fb j acc junk. unfold gs_head, subset_inds, lp.
      destruct m as [[|]|]; cbn [yield_item].
      - destruct (map_subset_to_sample (a :: t) cv (Z.of_nat j)) as [l|] eqn:E; cbn [yield_item].
        + eexists. split; [ev1; reflexivity | snoc_env].
        + ev1. reflexivity.
      - destruct ph as [p|]; [|ev1; reflexivity].
        destruct (map_subset_to_cycle (a :: t) (Z.of_nat j)) as [|k [|k2 r]] eqn:E; cbn [yield_item].
        1, 3: ev1; rewrite E; reflexivity.
        pose proof (aug_res_inds trough cv p (Z.of_nat k)) as Ha.
        destruct (aug_inds trough cv p (Z.of_nat k)) as [o|n|]; cbn [inds_val yield_item] in *.
        + eexists. split; [ev1; rewrite E, Ha; ev1; reflexivity | snoc_env].
        + ev1. rewrite E, Ha. reflexivity.
        + ev1. rewrite E, Ha. reflexivity.
      - ev1. reflexivity.
    Qed.

    Lemma gs_run : forall fuel,
      exec P prog_IterateCycles_iterate_subset fuel (env0_gsubset lp) = gen_render (gen_subset trough m (a :: t) cv ph).
    Proof.
      intros fuel.
      rewrite (exec_nth_split V P prog_IterateCycles_iterate_subset 1 gs_for fuel _ eq_refl).
      change (firstn 1 (spine prog_IterateCycles_iterate_subset)) with gs_pre.
      change (skipn 2 (spine prog_IterateCycles_iterate_subset)) with gs_post.
      assert (Hpre : exec_list P gs_pre fuel (env0_gsubset lp) = Normal (gs_head [] (fun _ => None)))
        by (unfold gs_head, lp; ev1; reflexivity).
      rewrite Hpre. unfold gs_for. rewrite exec_for.
      assert (Hit : bind (eval P (gs_head [] (fun _ => None)) (ECall "range" [ECall "self.nsubset" [EVar "self"] []] []))
                         (iter_list P) = Ok (map VNat (seq 0 (nsubset (a :: t))))).
      { unfold gs_head, lp. ev1. unfold nsubset. rewrite <- max_plus1_nat. reflexivity. }
      rewrite Hit.
      match goal with |- context [for_loop "ii" (fun e' => exec P ?b fuel e')] => change b with gs_body end.
      destruct (collect_loop nat (@VNat V) (fun j => yield_item j (subset_inds trough m (a :: t) cv ph (Z.of_nat j)))
                  P "ii" gs_body fuel gs_head (gs_step fuel) (seq 0 (nsubset (a :: t))) [] (fun _ => None)) as (j' & Hl).
      rewrite Hl. unfold gen_subset.
      destruct (gen_collect _ (seq 0 (nsubset (a :: t)))) as [r|n|]; cbn [gen_render app]; [|reflexivity|reflexivity].
      unfold gs_head. ev. reflexivity.
    Qed.
  End Gsubset.

  Theorem skeleton_iterate_subset : forall lp sv cv fuel, l_sv lp = Some sv -> sv <> [] -> l_cv lp = Some cv ->
    exec P prog_IterateCycles_iterate_subset fuel (env0_gsubset lp) =
    gen_render (gen_subset trough (l_mode lp) sv cv (l_ph lp)).
  Proof.
    intros [th m v cv0 sv0 chv ph] sv cv fuel Hsv Hne Hcv. cbn [l_sv l_cv l_mode l_ph] in *. subst sv0 cv0.
    destruct sv as [|a t]; [congruence|]. exact (gs_run th m v cv chv ph a t fuel).
  Qed.

  Theorem skeleton_iterate_subset_novect : forall lp fuel, l_sv lp = None ->
    exec P prog_IterateCycles_iterate_subset fuel (env0_gsubset lp) = Raise "AttributeError".
  Proof. intros [th m v cv sv chv ph] fuel H. cbn [l_sv] in H. subst sv. ev1. reflexivity. Qed.

  (* ====================================================================================================== *)
  (* iterate_chains                                                                                          *)
  (* ====================================================================================================== *)
  Section Gchains.
    Variables (th : through) (m : pymode) (v : option (list bool)) (cv sv : list Z) (ph : option (list Z)).
    Variables (a : Z) (t : list Z).
    Let lp := {| l_through := th; l_mode := m; l_valids := v; l_cv := Some cv; l_sv := Some sv; l_chv := Some (a :: t); l_ph := ph |}.

    Definition gh_head (acc : list item) (junk : string -> option (val V)) : env V :=
      env_of names_gchains (overlay [ ("self", vloop lp); ("__yield", VList (map vitem acc)) ] junk).

    Lemma gh_step : forall fb c acc junk,
      match yield_item c (chain_inds (a :: t) sv cv (Z.of_nat c)) with
      | Ok (Some it) => exists e2, exec P gh_body fb (upd "ii" (VNat c) (gh_head acc junk)) = Normal e2 /\
                                   e2 = gh_head (acc ++ [it]) (fun y => lookup y e2)
      | Ok None => exists e2, (exec P gh_body fb (upd "ii" (VNat c) (gh_head acc junk)) = Continue e2 \/
                               exec P gh_body fb (upd "ii" (VNat c) (gh_head acc junk)) = Normal e2) /\
                              e2 = gh_head acc (fun y => lookup y e2)
      | Exc n => exec P gh_body fb (upd "ii" (VNat c) (gh_head acc junk)) = Raise n
      | Bad => exec P gh_body fb (upd "ii" (VNat c) (gh_head acc junk)) = Stuck
      end.
    Proof.
      intros fb c acc junk. unfold gh_head, chain_inds, lp.
      destruct (map_chain_to_subset (a :: t) (Z.of_nat c)) as [|j0 js] eqn:E; cbn [yield_item].
      - ev1. rewrite E. reflexivity.
      - destruct (map_chain_to_samples (a :: t) sv cv (Z.of_nat c)) as [l|] eqn:E2; cbn [yield_item].
        + eexists. split; [ev1; rewrite E; ev1; reflexivity | snoc_env].
        + ev1. rewrite E. ev1. reflexivity.
    Qed.

    Lemma gh_run : forall fuel,
      exec P prog_IterateCycles_iterate_chains fuel (env0_gchains lp) = gen_render (gen_chains (a :: t) sv cv).
    Proof.
      intros fuel.
      rewrite (exec_nth_split V P prog_IterateCycles_iterate_chains 1 gh_for fuel _ eq_refl).
      change (firstn 1 (spine prog_IterateCycles_iterate_chains)) with gh_pre.
      change (skipn 2 (spine prog_IterateCycles_iterate_chains)) with gh_post.
      assert (Hpre : exec_list P gh_pre fuel (env0_gchains lp) = Normal (gh_head [] (fun _ => None)))
        by (unfold gh_head, lp; ev1; reflexivity).
      rewrite Hpre. unfold gh_for. rewrite exec_for.
      assert (Hit : bind (eval P (gh_head [] (fun _ => None)) (ECall "range" [ECall "self.nchain" [EVar "self"] []] []))
                         (iter_list P) = Ok (map VNat (seq 0 (nchains (a :: t))))).
      { unfold gh_head, lp. ev1. unfold nchains. rewrite <- max_plus1_nat. reflexivity. }
      rewrite Hit.
      match goal with |- context [for_loop "ii" (fun e' => exec P ?b fuel e')] => change b with gh_body end.
      destruct (collect_loop nat (@VNat V) (fun c => yield_item c (chain_inds (a :: t) sv cv (Z.of_nat c)))
                  P "ii" gh_body fuel gh_head (gh_step fuel) (seq 0 (nchains (a :: t))) [] (fun _ => None)) as (j' & Hl).
      rewrite Hl. unfold gen_chains.
      destruct (gen_collect _ (seq 0 (nchains (a :: t)))) as [r|n|]; cbn [gen_render app]; [|reflexivity|reflexivity].
      unfold gh_head. ev. reflexivity.
    Qed.
  End Gchains.

  Theorem skeleton_iterate_chains : forall lp chv sv cv fuel,
    l_chv lp = Some chv -> chv <> [] -> l_sv lp = Some sv -> l_cv lp = Some cv ->
    exec P prog_IterateCycles_iterate_chains fuel (env0_gchains lp) = gen_render (gen_chains chv sv cv).
  Proof.
    intros [th m v cv0 sv0 chv0 ph] chv sv cv fuel Hchv Hne Hsv Hcv. cbn [l_chv l_sv l_cv] in *. subst chv0 sv0 cv0.
    destruct chv as [|a t]; [congruence|]. exact (gh_run th m v cv sv ph a t fuel).
  Qed.

  Theorem skeleton_iterate_chains_novect : forall lp fuel, l_chv lp = None ->
    exec P prog_IterateCycles_iterate_chains fuel (env0_gchains lp) = Raise "AttributeError".
  Proof. intros [th m v cv sv chv ph] fuel H. cbn [l_chv] in H. subst chv. ev1. reflexivity. Qed.
  (* ====================================================================================================== *)
  (* IterateCycles.__init__ <-> looper_init                                                                  *)
  (* ====================================================================================================== *)
  Theorem skeleton_IterateCycles_init : forall t m v cv sv chv ph fuel,
    match looper_init t m v cv sv chv ph with
    | Ok lp => exists e', exec P prog_IterateCycles_init fuel (env0_init t m v cv sv chv ph) = Normal e' /\
                          lookup "self" e' = Some (vobj (looper_attrs lp))
    | Exc x => exec P prog_IterateCycles_init fuel (env0_init t m v cv sv chv ph) = Raise x
    | Bad => False
    end.
  Proof.
    intros t m v cv sv chv ph fuel. unfold looper_init.
    destruct v as [v|]; destruct cv as [[|a1 l1]|]; destruct sv as [[|a2 l2]|]; destruct chv as [[|a3 l3]|];
      cbn [empty_vec orb];
      try (ev1; reflexivity);
      (eexists; split;
       [ ev1; reflexivity
       | unfold looper_attrs, count_attr; cbn [l_cv l_sv l_chv l_ph l_valids l_mode l_through count_val vec_max app];
         ev; change (Z.of_nat 1) with 1%Z; reflexivity ]).
  Qed.

  (* the attribute rows of a finished object [ILoop lp] answer from the dictionary __init__ builds *)
  Definition looper_attr_names : list string :=
    ["cycle_vect"; "subset_vect"; "chain_vect"; "phase"; "valids"; "mode"; "ncycles"; "nsubset"; "nchain"].

  Theorem looper_attrs_rows : forall lp name,
    empty_vec (l_cv lp) || empty_vec (l_sv lp) || empty_vec (l_chv lp) = false ->
    In name looper_attr_names ->
    P ("self." ++ name) [vloop lp] [] = load name (looper_attrs lp).
  Proof.
    intros [th m v cv sv chv ph] name Hne Hin. cbn [l_cv l_sv l_chv] in Hne.
    unfold looper_attr_names in Hin. unfold looper_attrs, count_attr, load.
    cbn [l_cv l_sv l_chv l_ph l_valids l_mode l_through].
    destruct cv as [[|a1 l1]|]; destruct sv as [[|a2 l2]|]; destruct chv as [[|a3 l3]|];
      cbn [empty_vec orb] in Hne; try discriminate; clear Hne;
      cbn [count_val vec_max app];
      repeat (destruct Hin as [<-|Hin]; [cbn [String.append]; ev1; reflexivity|]); destruct Hin.
  Qed.

  (* iter_through is answered by the row of SkelPrims_Cyciter.v *)
  Theorem looper_attrs_iter_through : forall lp,
    P "self.iter_through" [vloop lp] [] = load "iter_through" (looper_attrs lp).
  Proof. intros [th m v cv sv chv ph]. unfold looper_attrs, load. cbn [l_through app]. ev1. reflexivity. Qed.
End Tie.

(* ====================================================================================================== *)
(* LAWS about the models                                                                                   *)
(* ====================================================================================================== *)
(* ---- gen_collect with `yield idx, inds` for every element ------------------------------------------------ *)
Lemma collect_item_ok : forall (f : nat -> inds_res) l items,
  gen_collect (fun k => yield_item k (f k)) l = Ok items ->
  map fst items = l /\ map (fun it => Ok (snd it)) items = map f l.
Proof.
  intros f. induction l as [|a t IH]; intros items H; cbn [gen_collect] in H.
  - injection H as <-. split; reflexivity.
  - destruct (f a) as [o|n|] eqn:E; cbn [yield_item] in H; try discriminate.
    destruct (gen_collect (fun k => yield_item k (f k)) t) as [r|n|] eqn:E2; try discriminate.
    injection H as <-. destruct (IH r eq_refl) as [H1 H2]. cbn [map fst snd]. rewrite E, H1, H2. split; reflexivity.
Qed.

Lemma collect_item_total : forall (f : nat -> inds_res) (g : nat -> option (list nat)) l,
  (forall k, In k l -> f k = Ok (g k)) ->
  gen_collect (fun k => yield_item k (f k)) l = Ok (map (fun k => (k, g k)) l).
Proof.
  intros f g. induction l as [|a t IH]; intros H; cbn [gen_collect map]; [reflexivity|].
  rewrite (H a (or_introl eq_refl)). cbn [yield_item]. rewrite IH by (intros k Hk; apply H; right; exact Hk).
  reflexivity.
Qed.

(* the generator raises exactly when the map of some element raises (the first one that does) *)
Lemma collect_item_exc : forall (f : nat -> inds_res) l x,
  gen_collect (fun k => yield_item k (f k)) l = Exc x ->
  exists l1 k l2, l = (l1 ++ k :: l2)%list /\ f k = Exc x /\ forall k', In k' l1 -> exists o, f k' = Ok o.
Proof.
  intros f. induction l as [|a t IH]; intros x H; cbn [gen_collect] in H; [discriminate|].
  destruct (f a) as [o|n|] eqn:E; cbn [yield_item] in H; try discriminate.
  - destruct (gen_collect (fun k => yield_item k (f k)) t) as [r|n|] eqn:E2; try discriminate.
    injection H as ->. destruct (IH x eq_refl) as (l1 & k & l2 & Hl & Hk & Hb).
    exists (a :: l1), k, l2. split; [rewrite Hl; reflexivity|]. split; [exact Hk|].
    intros k' [<-|Hk']; [exists o; exact E | apply Hb; exact Hk'].
  - injection H as ->. exists [], a, t. split; [reflexivity|]. split; [exact E|]. intros k' [].
Qed.

Lemma items_nth : forall (f : nat -> inds_res) n items k,
  map fst items = seq 0 n -> map (fun it => Ok (snd it)) items = map f (seq 0 n) -> (k < n)%nat ->
  exists o, nth_error items k = Some (k, o) /\ f k = Ok o.
Proof.
  intros f n items k H1 H2 Hk.
  assert (Hs : nth_error (seq 0 n) k = Some k).
  { rewrite nth_error_nth' with (d := 0%nat) by (rewrite seq_length; exact Hk). rewrite seq_nth by exact Hk. reflexivity. }
  pose proof (f_equal (fun l => nth_error l k) H1) as E1. cbn beta in E1. rewrite nth_error_map, Hs in E1.
  pose proof (f_equal (fun l => nth_error l k) H2) as E2. cbn beta in E2. rewrite !nth_error_map, Hs in E2.
  destruct (nth_error items k) as [[i o]|]; [|discriminate]. cbn [option_map fst snd] in *.
  injection E1 as ->. injection E2 as E2. exists o. split; [reflexivity | symmetry; exact E2].
Qed.

(* ---- gen_collect with `if inds is None: continue; yield idx, inds` ---------------------------------------- *)
Lemma collect_skip_ok : forall (A : Type) (idx : A -> nat) (f : A -> inds_res) l items,
  gen_collect (fun a => yield_skip (idx a) (f a)) l = Ok items ->
  items = flat_map (fun a => match f a with Ok (Some s) => [(idx a, Some s)] | _ => [] end) l /\
  Forall (fun a => exists o, f a = Ok o) l.
Proof.
  intros A idx f. induction l as [|a t IH]; intros items H; cbn [gen_collect] in H.
  - injection H as <-. split; [reflexivity | constructor].
  - destruct (f a) as [[s|]|n|] eqn:E; cbn [yield_skip] in H; try discriminate;
      (destruct (gen_collect (fun a => yield_skip (idx a) (f a)) t) as [r|n|] eqn:E2; try discriminate);
      injection H as <-; destruct (IH r eq_refl) as [H1 H2]; cbn [flat_map]; rewrite E, <- H1;
      (split; [reflexivity | constructor; [eexists; exact E | exact H2]]).
Qed.

Lemma collect_skip_total : forall (A : Type) (idx : A -> nat) (f : A -> inds_res) (g : A -> list nat) l,
  (forall a, In a l -> f a = Ok (Some (g a))) ->
  gen_collect (fun a => yield_skip (idx a) (f a)) l = Ok (map (fun a => (idx a, Some (g a))) l).
Proof.
  intros A idx f g. induction l as [|a t IH]; intros H; cbn [gen_collect map]; [reflexivity|].
  rewrite (H a (or_introl eq_refl)). cbn [yield_skip]. rewrite IH by (intros k Hk; apply H; right; exact Hk).
  reflexivity.
Qed.

Lemma enumerate_snd : forall (A : Type) (l : list A), map snd (enumerate l) = l.
Proof.
  intros A l. unfold enumerate. generalize 0%nat. induction l as [|a t IH]; intros i; [reflexivity|].
  cbn [length seq combine map snd]. rewrite IH. reflexivity.
Qed.

Lemma enumerate_fst : forall (A : Type) (l : list A), map fst (enumerate l) = seq 0 (length l).
Proof.
  intros A l. unfold enumerate. generalize 0%nat. induction l as [|a t IH]; intros i; [reflexivity|].
  cbn [length seq combine map fst]. rewrite IH. reflexivity.
Qed.

Lemma positions_from_count : forall (l : list bool) i, length (positions_from (fun b : bool => b) l i) = count_true l.
Proof.
  induction l as [|b t IH]; intros i; [reflexivity|]. cbn [positions_from count_true].
  destruct b; cbn [length]; rewrite IH; reflexivity.
Qed.

Lemma where_mask_length : forall v, length (where_mask v) = count_true v.
Proof. intros v. apply positions_from_count. Qed.

Section Laws.
  Variable trough : Z.

  (* ---- (1) iterate_cycles ---------------------------------------------------------------------------------- *)
  Theorem iterate_cycles_law : forall m cv ph items,
    gen_cycles trough m cv ph = Ok items ->
    map fst items = seq 0 (ncycles cv) /\
    map (fun it => Ok (snd it)) items = map (fun k => cycle_inds trough m cv ph (Z.of_nat k)) (seq 0 (ncycles cv)).
  Proof. intros m cv ph items H. exact (collect_item_ok _ _ _ H). Qed.

  Theorem iterate_cycles_nth : forall m cv ph items k,
    gen_cycles trough m cv ph = Ok items -> (k < ncycles cv)%nat ->
    exists o, nth_error items k = Some (k, o) /\ cycle_inds trough m cv ph (Z.of_nat k) = Ok o.
  Proof.
    intros m cv ph items k H Hk. destruct (iterate_cycles_law _ _ _ _ H) as [H1 H2].
    exact (items_nth (fun k => cycle_inds trough m cv ph (Z.of_nat k)) _ _ _ H1 H2 Hk).
  Qed.

  Theorem iterate_cycles_cycle_mode : forall cv ph,
    gen_cycles trough (PyMode MCycle) cv ph =
    Ok (map (fun k => (k, Some (map_cycle_to_samples cv (Z.of_nat k)))) (seq 0 (ncycles cv))).
  Proof. intros cv ph. unfold gen_cycles. apply collect_item_total. intros k _. reflexivity. Qed.

  Theorem iterate_cycles_raises : forall m cv ph x,
    gen_cycles trough m cv ph = Exc x ->
    exists k, (k < ncycles cv)%nat /\ cycle_inds trough m cv ph (Z.of_nat k) = Exc x /\
              forall k', (k' < k)%nat -> exists o, cycle_inds trough m cv ph (Z.of_nat k') = Ok o.
  Proof.
    intros m cv ph x H. apply collect_item_exc in H. destruct H as (l1 & k & l2 & Hl & Hk & Hb).
    destruct (range_prefix 0 (ncycles cv) l1 k l2 Hl) as (Hl1 & Hk1 & Hlt). cbn [Nat.add] in Hk1.
    exists k. split; [lia|]. split; [exact Hk|]. intros k' Hk'. apply Hb. rewrite Hl1. apply in_seq. lia.
  Qed.

  (* FINDING: an unknown mode is an error only when there is something to iterate *)
  Theorem iterate_cycles_other_mode : forall cv ph,
    gen_cycles trough PyOther cv ph = match ncycles cv with O => Ok [] | S _ => Exc "ValueError" end.
  Proof.
    intros cv ph. unfold gen_cycles. destruct (ncycles cv) as [|n]; [reflexivity|].
    cbn [seq gen_collect cycle_inds yield_item]. reflexivity.
  Qed.

  (* ---- (2) iterate_valids ---------------------------------------------------------------------------------- *)
  Theorem iterate_valids_law : forall m v cv ph items,
    gen_valids trough m v cv ph = Ok items ->
    items = flat_map (fun ik => match cycle_inds trough m cv ph (Z.of_nat (snd ik)) with
                                | Ok (Some s) => [(fst ik, Some s)]
                                | _ => []
                                end) (enumerate (where_mask v)).
  Proof.
    intros m v cv ph items H.
    exact (proj1 (collect_skip_ok (nat * nat) fst (fun ik => cycle_inds trough m cv ph (Z.of_nat (snd ik))) _ _ H)).
  Qed.

  Theorem iterate_valids_cycle_mode : forall v cv ph,
    gen_valids trough (PyMode MCycle) v cv ph =
    Ok (map (fun ik => (fst ik, Some (map_cycle_to_samples cv (Z.of_nat (snd ik))))) (enumerate (where_mask v))).
  Proof.
    intros v cv ph. unfold gen_valids.
    apply (collect_skip_total (nat * nat) fst (fun ik => cycle_inds trough (PyMode MCycle) cv ph (Z.of_nat (snd ik)))
                              (fun ik => map_cycle_to_samples cv (Z.of_nat (snd ik)))).
    intros a _. reflexivity.
  Qed.

  (* the cycles visited: those whose flag is set, increasing; the yielded index is the rank 0, 1, 2, ... *)
  Theorem valids_selection : forall v,
    map snd (enumerate (where_mask v)) = where_mask v /\
    map fst (enumerate (where_mask v)) = seq 0 (count_true v) /\
    StronglySorted lt (where_mask v) /\
    (forall k, In k (where_mask v) <-> nth_error v k = Some true).
  Proof.
    intros v. split; [apply enumerate_snd|]. split; [rewrite enumerate_fst, where_mask_length; reflexivity|].
    split; [apply positions_sorted|]. intros k. unfold where_mask. rewrite In_positions. split.
    - intros (x & Hx & Hb). subst x. exact Hx.
    - intros H. exists true. split; [exact H | reflexivity].
  Qed.

  (* FINDING (F2 of notes/TIE_CYCITER.md, now against the tied generator): niters is one more than the number of
     items the iteration yields in mode 'cycle' (and at least one more in mode 'augmented') *)
  Theorem valids_count_vs_niters : forall lp v cv items,
    l_through lp = TValids -> l_valids lp = Some v ->
    gen_valids trough (PyMode MCycle) v cv (l_ph lp) = Ok items ->
    niters_model lp = Ok (Some (Z.of_nat (length items) + 1)%Z).
  Proof.
    intros lp v cv items Ht Hv H. rewrite iterate_valids_cycle_mode in H. injection H as <-.
    rewrite map_length. unfold enumerate. rewrite combine_length, seq_length, Nat.min_id, where_mask_length.
    apply niters_valids_off_by_one; assumption.
  Qed.

  (* ---- (3) iterate_subset ---------------------------------------------------------------------------------- *)
  Theorem iterate_subset_law : forall m sv cv ph items,
    gen_subset trough m sv cv ph = Ok items ->
    map fst items = seq 0 (nsubset sv) /\
    map (fun it => Ok (snd it)) items = map (fun j => subset_inds trough m sv cv ph (Z.of_nat j)) (seq 0 (nsubset sv)).
  Proof. intros m sv cv ph items H. exact (collect_item_ok _ _ _ H). Qed.

  (* for the subset vector of a selection: the generator yields the visits of iter_subset_cycles, each with the
     samples of the one cycle it selects - iter_subset_cycles is hereby tied to the code *)
  Theorem subset_generator_law : forall valids cv ph,
    let sv := get_subset_vector valids in
    gen_subset trough (PyMode MCycle) sv cv ph = Ok (subset_items cv (iter_subset_cycles sv)) /\
    map snd (iter_subset_cycles sv) = map (fun k => [k]) (selected_cycles sv) /\
    StronglySorted lt (selected_cycles sv) /\
    (forall k, In k (selected_cycles sv) <-> nth_error valids k = Some true).
  Proof.
    intros valids cv ph sv. split; [|exact (subset_iteration_law valids)]. subst sv.
    unfold gen_subset, subset_items, iter_subset_cycles. rewrite map_map. cbn [fst snd].
    apply collect_item_total. intros j Hj. apply in_seq in Hj. rewrite nsubset_count in Hj.
    destruct (subset_index_exists valids j) as (k & Hk); [lia|].
    unfold subset_inds, map_subset_to_sample.
    rewrite (subset_to_cycle_singleton valids k (Z.of_nat j) Hk) by lia.
    cbn [flat_map]. rewrite app_nil_r. reflexivity.
  Qed.

  (* ---- (4) iterate_chains ---------------------------------------------------------------------------------- *)
  Theorem iterate_chains_law : forall chv sv cv items,
    gen_chains chv sv cv = Ok items ->
    map fst items = seq 0 (nchains chv) /\
    map (fun it => Ok (snd it)) items = map (fun c => chain_inds chv sv cv (Z.of_nat c)) (seq 0 (nchains chv)).
  Proof. intros chv sv cv items H. exact (collect_item_ok _ _ _ H). Qed.

  Lemma concat_opt_flat : forall sv cv js l,
    concat_opt (map (fun j => map_subset_to_sample sv cv (Z.of_nat j)) js) = Some l ->
    l = flat_map (fun j => flat_map (fun k => map_cycle_to_samples cv (Z.of_nat k)) (map_subset_to_cycle sv (Z.of_nat j))) js /\
    forall j, In j js -> exists k, map_subset_to_cycle sv (Z.of_nat j) = [k].
  Proof.
    intros sv cv. induction js as [|j t IH]; intros l H; cbn [map concat_opt] in H.
    - injection H as <-. split; [reflexivity | intros j []].
    - unfold map_subset_to_sample at 1 in H.
      destruct (map_subset_to_cycle sv (Z.of_nat j)) as [|k [|k2 r]] eqn:E; try discriminate.
      destruct (concat_opt (map (fun j => map_subset_to_sample sv cv (Z.of_nat j)) t)) as [r|] eqn:E2; [|discriminate].
      injection H as <-. destruct (IH r eq_refl) as [H1 H2]. split.
      + cbn [flat_map]. rewrite E. cbn [flat_map]. rewrite app_nil_r, <- H1. reflexivity.
      + intros j' [<-|Hj']; [exists k; exact E | apply H2; exact Hj'].
  Qed.

  Lemma flat_map_flat_map : forall (A B C : Type) (f : B -> list C) (g : A -> list B) l,
    flat_map f (flat_map g l) = flat_map (fun x => flat_map f (g x)) l.
  Proof.
    intros A B C f g. induction l as [|a t IH]; [reflexivity|]. cbn [flat_map]. rewrite flat_map_app, IH. reflexivity.
  Qed.

  (* what a chain is yielded with: the concatenation, in order, of the samples of its cycles *)
  Theorem chain_inds_concat : forall chv sv cv c o,
    chain_inds chv sv cv c = Ok o ->
    map_chain_to_subset chv c <> [] /\
    o = Some (flat_map (fun k => map_cycle_to_samples cv (Z.of_nat k)) (map_chain_to_cycle chv sv c)) /\
    (forall j, In j (map_chain_to_subset chv c) -> exists k, map_subset_to_cycle sv (Z.of_nat j) = [k]) /\
    map_chain_to_samples chv sv cv c = o.
  Proof.
    intros chv sv cv c o H. unfold chain_inds in H.
    destruct (map_chain_to_subset chv c) as [|j0 js] eqn:E; [discriminate|].
    destruct (map_chain_to_samples chv sv cv c) as [l|] eqn:E2; [|discriminate]. injection H as <-.
    split; [discriminate|]. unfold map_chain_to_samples in E2. rewrite E in E2.
    destruct (concat_opt_flat sv cv _ _ E2) as [H1 H2].
    split; [|split; [exact H2 | reflexivity]].
    unfold map_chain_to_cycle. rewrite E, flat_map_flat_map. rewrite H1. reflexivity.
  Qed.

  Theorem iterate_chains_nth : forall chv sv cv items c,
    gen_chains chv sv cv = Ok items -> (c < nchains chv)%nat ->
    nth_error items c =
    Some (c, Some (flat_map (fun k => map_cycle_to_samples cv (Z.of_nat k)) (map_chain_to_cycle chv sv (Z.of_nat c)))).
  Proof.
    intros chv sv cv items c H Hc. destruct (iterate_chains_law _ _ _ _ H) as [H1 H2].
    destruct (items_nth (fun c => chain_inds chv sv cv (Z.of_nat c)) _ _ _ H1 H2 Hc) as (o & Hn & Ho).
    destruct (chain_inds_concat _ _ _ _ _ Ho) as (_ & -> & _). exact Hn.
  Qed.
End Laws.
