(* Proofs of the control-skeleton tie of the cycle iteration helpers (notes/TIE_CYCITER.md): the translated programs
   of gen/Gen_Skel_Cycitersupport.v and gen/Gen_Skel_Cyciter.v compute, under the table of model/SkelPrims_Cyciter.v,
   what model/CyclesObj.v / model/CycleMaps.v (or the list-level models of SkelPrims_Cyciter.v) define; plus the
   laws about those models that props/Prop_Tie_Cyciter.v states. *)
From Coq Require Import String List Bool Arith ZArith Lia Sorted.
From EmdV Require Import lib.NpLite model.CycleMaps model.CycleVec model.CycleStat model.CyclesObj.
From EmdV Require Import proofs.CycleMapsFacts.
From EmdV Require Import lib.PyLoop lib.PyLoopTools.
From EmdV Require Import gen.Gen_Skel_Cycitersupport gen.Gen_Skel_Cyciter model.SkelPrims_Cyciter.
Import ListNotations.
Open Scope string_scope.

Local Notation V := ival.

Ltac ev :=
  cbv beta iota zeta delta
      [exec final_env eval eval_truth bind map_res truthy do_cmp do_arith do_index nat_cmp nat_arith iter_list
       upd lookup env_of assign_all cmp_name ar_name frame overlay normal_env
       try_finish try_finish_env exn_matches exec_list
       iter_prims prims_of table_lookup iter_table keys_are is_opaque0 range_val
       call_aug call_map_cycle_to_samples call_map_subset_to_cycle max_res loop_res iter_res h_gen h_loop_max
       vvec vint vidx varr vself vloop voptvec vbools of_optvec of_bools res_outcome as_call
       opt_idx_outcome niters_outcome loop_outcome
       names_slice_len names_aug names_subaug names_substat names_get_inds names_iterate names_citer names_cpic
       names_chain_len names_niters names_liter names_gci
       env0_slice_len env0_aug env0_subaug env0_substat env0_get_inds env0_iterate env0_citer env0_cpic
       env0_chain_len env0_niters env0_liter env0_gci
       params_slice_len params_map_cycle_to_samples_augmented params_map_subset_to_sample_augmented
       params_get_subset_stat_from_samples params_Cycles_get_inds_of_cycle params_Cycles_iterate params_Cycles_iter
       params_Cycles_compute_position_in_chain params_get_chain_len params_IterateCycles_niters
       params_IterateCycles_iter params_get_cycle_inds
       prog_slice_len prog_map_cycle_to_samples_augmented prog_map_subset_to_sample_augmented
       prog_Cycles_get_inds_of_cycle prog_Cycles_iterate prog_Cycles_iter prog_get_chain_len
       prog_IterateCycles_niters prog_IterateCycles_iter prog_get_cycle_inds
       prog_get_subset_stat_from_samples prog_Cycles_compute_position_in_chain
       mode_str through_str l_through l_mode l_valids l_cv l_sv l_chv l_ph
       String.eqb Ascii.eqb Bool.eqb fst snd nth_error andb negb orb].
Ltac ev1 := ev; repeat (progress (cbn [Nat.eqb Nat.leb length as_scalar as_int vec_max]; oracle_rw); ev).

(* ====================================================================================================== *)
(* _slice_len                                                                                              *)
(* ====================================================================================================== *)
Section Tie.
  Variable trough : Z.
  Variable gm : res (list bool).
  Variable gcv : res (val V).
  Local Notation P := (iter_prims trough gm gcv).

  Theorem skeleton_slice_len : forall a b f,
    exec P prog_slice_len f (env0_slice_len a b) = Return (vint (slice_len (a, b))).
  Proof. intros a b f. ev1. reflexivity. Qed.

  (* FINDING: the docstring says "length of array returned by a slice"; the function returns one more *)
  Lemma slice_len_off_by_one : forall (A : Type) (l : list A) a b, (a <= b <= length l)%nat ->
    slice_len (a, b) = (Z.of_nat (length (slice l a b)) + 1)%Z.
  Proof.
    intros A l a b H. unfold slice_len, slice. cbn [fst snd].
    rewrite firstn_length, skipn_length. lia.
  Qed.

  (* ====================================================================================================== *)
  (* map_cycle_to_samples_augmented                                                                          *)
  (* ====================================================================================================== *)
  (* np.where(phase[prev] > 1.5pi)[0]: empty iff no member of prev is above the trough code; otherwise its
     first element indexes the first such member *)
  Lemma first_trough_from : forall (g : nat -> bool) prev off,
    match filter g prev with
    | [] => positions_from (fun b : bool => b) (map g prev) off = []
    | p :: _ => exists j r, positions_from (fun b : bool => b) (map g prev) off = (off + j)%nat :: r /\
                            nth_error prev j = Some p
    end.
  Proof.
    intros g prev. induction prev as [|a t IH]; intros off; [reflexivity|].
    cbn [filter map positions_from]. destruct (g a) eqn:Ga.
    - exists 0%nat. eexists. split; [rewrite Nat.add_0_r; reflexivity | reflexivity].
    - specialize (IH (S off)). destruct (filter g t) as [|p r]; [exact IH|].
      destruct IH as (j & r' & H1 & H2). exists (S j), r'. split; [rewrite H1; f_equal; lia | exact H2].
  Qed.

  Lemma first_trough : forall ph prev,
    match filter (fun i => Z.ltb trough (nth i ph 0%Z)) prev with
    | [] => where_mask (gt_mask trough (take_inds ph prev)) = []
    | p :: _ => exists j r, where_mask (gt_mask trough (take_inds ph prev)) = j :: r /\ nth_error prev j = Some p
    end.
  Proof.
    intros ph prev. unfold where_mask, gt_mask, take_inds, positions. rewrite map_map.
    pose proof (first_trough_from (fun i => Z.ltb trough (nth i ph 0%Z)) prev 0) as H.
    destruct (filter _ prev); exact H.
  Qed.

  Lemma where_eq : forall l k, where_mask (eq_mask l k) = positions (Z.eqb k) l.
  Proof.
    intros l k. unfold where_mask, eq_mask, positions. generalize 0%nat.
    induction l as [|a t IH]; intros i; [reflexivity|]. cbn [map positions_from].
    destruct (Z.eqb k a); rewrite IH; reflexivity.
  Qed.

  Lemma positions_in_range : forall (A : Type) (p : A -> bool) l n, (length l <= n)%nat ->
    in_range n (positions p l) = true.
  Proof.
    intros A p l n H. unfold in_range. apply forallb_forall. intros k Hk.
    apply In_positions in Hk. destruct Hk as (x & Hx & _). apply Nat.ltb_lt.
    assert (k < length l)%nat by (apply nth_error_Some; congruence). lia.
  Qed.

  Lemma where_eq' : forall l k, where_mask (eq_mask l k) = map_cycle_to_samples l k.
  Proof. intros. apply where_eq. Qed.

  Theorem row_aug : forall cv ph ii k f, scalar_form ii k -> (length cv <= length ph)%nat ->
    exec P prog_map_cycle_to_samples_augmented f (env0_aug cv ii ph) = res_outcome (aug_res trough cv ph k).
  Proof.
    intros cv ph ii k f Hii Hlen.
    pose proof (first_trough ph (map_cycle_to_samples cv (k - 1))) as Hft.
    assert (Hr : in_range (length ph) (map_cycle_to_samples cv (k - 1)) = true)
      by (apply positions_in_range; exact Hlen).
    unfold aug_res, map_cycle_to_samples_aug.
    destruct Hii as [->|[(j & -> & ->)|(n & -> & ->)]].
    3: replace (Z.of_nat (S n) - 1)%Z with (Z.of_nat n) in * by lia.
    all: match goal with
         | |- context [match filter ?g ?l with _ => _ end] => destruct (filter g l) as [|p r] eqn:Ef
         end.
    all: try (ev1; cbn [Nat.sub]; rewrite ?Nat.sub_0_r; change (Z.of_nat 1) with 1%Z; rewrite ?where_eq'; ev1;
              rewrite Hft; ev1; reflexivity).
    all: destruct Hft as (j' & r' & Hpsi & Hj);
         match goal with
         | |- context [match map_cycle_to_samples ?c ?x with _ => _ end] =>
             destruct (map_cycle_to_samples c x) as [|i t] eqn:El
         end;
         ev1; cbn [Nat.sub]; rewrite ?Nat.sub_0_r; change (Z.of_nat 1) with 1%Z; rewrite ?where_eq'; ev1;
         rewrite Hpsi; ev1; unfold first_of; rewrite Hj; ev1; rewrite El; unfold last_of; ev1;
         rewrite ?Nat.add_1_r; reflexivity.
  Qed.
  (* what the code-level row says in terms of the hand model CyclesObj.map_cycle_to_samples_aug *)
  Lemma aug_res_of_model : forall cv ph k l,
    map_cycle_to_samples_aug trough cv ph k = Some l -> aug_res trough cv ph k = Ok (vidx l).
  Proof.
    intros cv ph k l H. unfold aug_res. unfold map_cycle_to_samples_aug in H |- *.
    destruct (filter _ (map_cycle_to_samples cv (k - 1))) as [|p r]; [discriminate|]. rewrite H. reflexivity.
  Qed.

  (* where the model says None the code returns None (no trough candidate in the previous cycle) or raises
     IndexError (a candidate, but cycle k has no sample: FINDING, outside Cycles containers) *)
  Lemma aug_res_of_model_none : forall cv ph k,
    map_cycle_to_samples_aug trough cv ph k = None ->
    (aug_res trough cv ph k = Ok VNone /\
     filter (fun i => Z.ltb trough (nth i ph 0%Z)) (map_cycle_to_samples cv (k - 1)) = []) \/
    (aug_res trough cv ph k = Exc "IndexError" /\ map_cycle_to_samples cv k = [] /\
     filter (fun i => Z.ltb trough (nth i ph 0%Z)) (map_cycle_to_samples cv (k - 1)) <> []).
  Proof.
    intros cv ph k H. unfold aug_res. unfold map_cycle_to_samples_aug in H |- *.
    destruct (filter _ (map_cycle_to_samples cv (k - 1))) as [|p r]; [left; split; reflexivity|].
    right. rewrite H. destruct (map_cycle_to_samples cv k); [|discriminate]. repeat split. discriminate.
  Qed.

  (* ====================================================================================================== *)
  (* map_subset_to_sample_augmented                                                                          *)
  (* ====================================================================================================== *)
  Theorem skeleton_map_subset_to_sample_augmented : forall sv cv ph ii j f, as_scalar ii = Some j ->
    exec P prog_map_subset_to_sample_augmented f (env0_subaug sv cv ii ph) =
    match map_subset_to_cycle sv j with
    | [k] => res_outcome (aug_res trough cv ph (Z.of_nat k))
    | _ => Stuck
    end.
  Proof.
    intros sv cv ph ii j f Hii.
    destruct (map_subset_to_cycle sv j) as [|k [|k2 r]] eqn:E; ev1; rewrite E; ev1; reflexivity.
  Qed.

  (* ====================================================================================================== *)
  (* Cycles.get_inds_of_cycle                                                                                *)
  (* ====================================================================================================== *)
  Theorem skeleton_get_inds_of_cycle : forall st ii k m f, as_scalar ii = Some k ->
    as_call (exec P prog_Cycles_get_inds_of_cycle f (env0_get_inds st ii m)) =
    match m with
    | PyMode MCycle => Return (vidx (map_cycle_to_samples (s_cv st) k))
    | PyMode MAug => res_outcome (aug_res trough (s_cv st) (s_ph st) k)
    | PyOther => Return VNone
    end.
  Proof.
    intros st ii k m f Hii. destruct m as [[|]|]; ev1; try reflexivity.
    destruct (aug_res trough (s_cv st) (s_ph st) k); reflexivity.
  Qed.

  (* ====================================================================================================== *)
  (* Cycles.iterate, Cycles.__iter__                                                                         *)
  (* ====================================================================================================== *)
  Lemma through_roundtrip : forall t, through_of_str (through_str t) = t.
  Proof. destruct t; reflexivity. Qed.
  Lemma mode_roundtrip : forall m, mode_of_str (mode_str m) = m.
  Proof. destruct m as [[|]|]; reflexivity. Qed.

  Theorem skeleton_iterate : forall st t conds m f,
    exec P prog_Cycles_iterate f (env0_iterate st t (conds_val conds) m) =
    loop_outcome (iterate_model gm st t (is_some conds) m).
  Proof.
    intros st t conds m f. unfold iterate_model, env0_iterate.
    pose proof (through_roundtrip t) as Ht. pose proof (mode_roundtrip m) as Hm.
    remember (through_str t) as ts eqn:Hts. remember (mode_str m) as ms eqn:Hms. clear Hts Hms.
    destruct conds as [cs|]; [destruct gm as [v| |]|]; destruct (s_subset st) eqn:Es; destruct (s_chain st) eqn:Ec;
      cbn [conds_val option_map is_some]; ev1; rewrite ?Ht, ?Hm;
      try (match goal with
           | |- context [looper_init ?a ?b ?c ?d ?e ?g ?h] => destruct (looper_init a b c d e g h)
           end; ev1); reflexivity.
  Qed.

  Theorem skeleton_Cycles_iter : forall st f,
    exec P prog_Cycles_iter f (env0_citer st) =
    match iterate_model gm st TCycles false (PyMode MCycle) with
    | Ok lp => res_outcome (iter_res lp)
    | Exc x => Raise x
    | Bad => Stuck
    end.
  Proof.
    intros st f. ev1. destruct (iterate_model gm st TCycles false (PyMode MCycle)) as [lp| |]; try reflexivity.
  Qed.

  (* ====================================================================================================== *)
  (* IterateCycles.niters, IterateCycles.__iter__                                                            *)
  (* ====================================================================================================== *)
  Theorem skeleton_niters : forall lp f,
    as_call (exec P prog_IterateCycles_niters f (env0_niters lp)) = niters_outcome (niters_model lp).
  Proof.
    intros [t m v cv sv chv ph] f. unfold niters_model, max_plus1. cbn [l_through l_valids l_cv l_sv l_chv].
    destruct t; [destruct cv as [[|a l]|] | destruct v | destruct sv as [[|a l]|] | destruct chv as [[|a l]|] | ];
      ev1; cbn [vec_max]; ev1; change (Z.of_nat 1) with 1%Z; reflexivity.
  Qed.

  Theorem skeleton_IterateCycles_iter : forall lp f,
    exec P prog_IterateCycles_iter f (env0_liter lp) = res_outcome (iter_res lp).
  Proof. intros [t m v cv sv chv ph] f. destruct t; ev1; reflexivity. Qed.

  (* FINDING: for iter_through = 'valids', niters is the number of selected cycles PLUS ONE *)
  Lemma niters_valids_off_by_one : forall lp v, l_through lp = TValids -> l_valids lp = Some v ->
    niters_model lp = Ok (Some (Z.of_nat (count_true v) + 1)%Z).
  Proof. intros lp v Ht Hv. unfold niters_model. rewrite Ht, Hv. reflexivity. Qed.

  (* ====================================================================================================== *)
  (* get_cycle_inds, _get_chain_len                                                                          *)
  (* ====================================================================================================== *)
  Theorem skeleton_get_cycle_inds : forall args kwargs f,
    exec P prog_get_cycle_inds f (env0_gci args kwargs) = res_outcome gcv.
  Proof. intros args kwargs f. destruct gcv; ev1; reflexivity. Qed.

  Theorem skeleton_get_chain_len : forall x f,
    exec P prog_get_chain_len f (env0_chain_len x) = Return (VNat (nunique x)).
  Proof. intros x f. ev1. reflexivity. Qed.

  Lemma nunique_model : forall x, Z.of_nat (nunique x) = f_nunique x.
  Proof. reflexivity. Qed.

  (* ====================================================================================================== *)
  (* get_subset_stat_from_samples: a for loop with a store                                                   *)
  (* ====================================================================================================== *)
  Lemma all_some_spec : forall (A : Type) (lo : list (option A)) l, all_some lo = Some l -> lo = map Some l.
  Proof.
    intros A lo. induction lo as [|o t IH]; intros l H; cbn [all_some] in H.
    - injection H as <-. reflexivity.
    - destruct o as [x|]; [|discriminate]. destruct (all_some t) as [r|]; [|discriminate].
      injection H as <-. cbn [map]. f_equal. apply IH. reflexivity.
  Qed.

  Lemma firstn_S_nth : forall (A : Type) (l : list A) d x, nth_error l d = Some x ->
    firstn (S d) l = (firstn d l ++ [x])%list.
  Proof.
    intros A l. induction l as [|a t IH]; intros d x H; [destruct d; discriminate|].
    destruct d as [|d]; cbn [nth_error] in H.
    - injection H as <-. reflexivity.
    - cbn [firstn app]. f_equal. apply IH. exact H.
  Qed.

  Lemma zmax_shift : forall e d l, Z.max e (zmax_list d l) = zmax_list (Z.max e d) l.
  Proof. intros e d l. induction l as [|x t IH]; cbn [zmax_list]; [reflexivity|]. rewrite <- IH. lia. Qed.

  Lemma max_plus1_nat : forall a t, Z.to_nat (zmax_list a t + 1) = Z.to_nat (zmax_list (-1) (a :: t) + 1).
  Proof.
    intros a t. cbn [zmax_list]. rewrite zmax_shift.
    assert (E : zmax_list (Z.max a (-1)) t = Z.max (-1) (zmax_list a t))
      by (rewrite zmax_shift; f_equal; apply Z.max_comm).
    rewrite E. lia.
  Qed.

  Section Substat.
    Variable f : list Z -> Z.
    Variables vals sv cv : list Z.
    Variable l : list Z.
    Variables (a : Z) (t : list Z).
    Hypothesis Hsv : sv = a :: t.
    Hypothesis Hmax : (-1 <= zmax_list a t)%Z.
    Hypothesis Hlen : (length cv <= length vals)%nat.
    Hypothesis Hmodel : subset_stat f sv cv vals = Some l.
    Let n := Z.to_nat (zmax_list a t + 1).

    Definition substat_pre : list stmt := Eval cbv in firstn 2 (spine prog_get_subset_stat_from_samples).
    Definition substat_for : stmt := Eval cbv in nth 2 (spine prog_get_subset_stat_from_samples) SSkip.
    Definition substat_post : list stmt := Eval cbv in skipn 3 (spine prog_get_subset_stat_from_samples).
    Definition substat_body : stmt := Eval cbv in match substat_for with SFor _ _ b => b | _ => SSkip end.

    Ltac evs :=
      cbv beta iota zeta delta
          [exec final_env eval eval_truth bind map_res truthy do_cmp do_arith do_index nat_cmp nat_arith iter_list
           upd lookup env_of assign_all cmp_name ar_name frame overlay normal_env exec_list
           iter_prims prims_of table_lookup iter_table keys_are is_opaque0
           max_res vvec vint vidx varr
           names_substat env0_substat params_get_subset_stat_from_samples
           substat_pre substat_for substat_post substat_body
           String.eqb Ascii.eqb Bool.eqb fst snd nth_error andb negb orb].
    Ltac evs1 := evs; repeat (progress (cbn [Nat.eqb length as_scalar as_int vec_max]; oracle_rw); evs).

    Lemma substat_n : n = nsubset sv.
    Proof. unfold n, nsubset. rewrite Hsv. apply max_plus1_nat. Qed.

    Lemma substat_spec : map (fun j => option_map (fun inds => f (take_inds vals inds))
                                                  (map_subset_to_sample sv cv (Z.of_nat j))) (seq 0 n) = map Some l.
    Proof. rewrite substat_n. apply all_some_spec. exact Hmodel. Qed.

    Lemma substat_length : length l = n.
    Proof. pose proof (f_equal (@length _) substat_spec) as H. rewrite !map_length, seq_length in H. lia. Qed.

    Lemma substat_at : forall d, (d < n)%nat ->
      exists inds, map_subset_to_sample sv cv (Z.of_nat d) = Some inds /\
                   nth_error l d = Some (f (take_inds vals inds)) /\ in_range (length vals) inds = true.
    Proof.
      intros d Hd. pose proof (f_equal (fun x => nth_error x d) substat_spec) as H. cbn beta in H.
      rewrite !nth_error_map in H.
      assert (Hs : nth_error (seq 0 n) d = Some d).
      { rewrite nth_error_nth' with (d := 0%nat) by (rewrite seq_length; exact Hd). rewrite seq_nth by exact Hd. reflexivity. }
      rewrite Hs in H. cbn [option_map] in H.
      destruct (map_subset_to_sample sv cv (Z.of_nat d)) as [inds|] eqn:E.
      - exists inds. split; [reflexivity|]. cbn [option_map] in H.
        destruct (nth_error l d) as [x|]; [|discriminate]. cbn [option_map] in H. injection H as H. split; [f_equal; auto|].
        unfold map_subset_to_sample in E. destruct (map_subset_to_cycle sv (Z.of_nat d)) as [|k [|k2 r]]; try discriminate.
        injection E as <-. apply positions_in_range. exact Hlen.
      - cbn [option_map] in H. destruct (nth_error l d); discriminate.
    Qed.

    Definition out_at (d : nat) : list (option Z) := (map Some (firstn d l) ++ zeros (n - d))%list.

    Lemma out_at_length : forall d, (d <= n)%nat -> length (out_at d) = n.
    Proof.
      intros d H. unfold out_at, zeros. rewrite app_length, map_length, firstn_length, repeat_length, substat_length. lia.
    Qed.

    Lemma set_nth_out : forall d x, (d < n)%nat -> nth_error l d = Some x ->
      set_nth d (Some x) (out_at d) = out_at (S d).
    Proof.
      intros d x H Hx. unfold set_nth, out_at, zeros.
      assert (Hl : length (map (@Some Z) (firstn d l)) = d) by (rewrite map_length, firstn_length, substat_length; lia).
      rewrite firstn_app, Hl, Nat.sub_diag, firstn_O, app_nil_r, firstn_all2 by lia.
      rewrite skipn_app, Hl, (skipn_all2 (n := S d)) by lia. cbn [app].
      replace (S d - d)%nat with 1%nat by lia.
      replace (n - d)%nat with (S (n - S d)) by lia. cbn [repeat skipn].
      rewrite (firstn_S_nth _ l d x Hx), map_app, <- app_assoc. reflexivity.
    Qed.

    Definition substat_head (d : nat) (junk : string -> option (val V)) : env V :=
      env_of names_substat
        (overlay [ ("vals", vvec vals); ("subset_vect", vvec sv); ("cycle_vect", vvec cv); ("func", VSig (IFun f));
                   ("ncycles", vint (zmax_list a t + 1)); ("out", varr (out_at d)) ] junk).

    Lemma substat_step : forall fb d junk, (d < n)%nat ->
      exists e2, normal_env (exec P substat_body fb (upd "ii" (VNat d) (substat_head d junk))) = Some e2 /\
                 e2 = substat_head (S d) (fun x => lookup x e2).
    Proof.
      intros fb d junk Hd. unfold substat_head.
      destruct (substat_at d Hd) as (inds & Hm & Hx & Hr).
      assert (Hlt : (d <? length (out_at d))%nat = true) by (apply Nat.ltb_lt; rewrite out_at_length; lia).
      eexists. split.
      - evs1. rewrite (set_nth_out d _ Hd Hx). reflexivity.
      - evs. reflexivity.
    Qed.

    Lemma substat_loop : forall fb junk,
      exists junk', for_loop "ii" (fun e' => exec P substat_body fb e') (map VNat (seq 0 n)) (substat_head 0 junk)
                    = Normal (substat_head n junk').
    Proof.
      intros fb junk.
      destruct (for_loop_inv V (fun done e => exists j, e = substat_head (length done) j)
                  "ii" (fun e' => exec P substat_body fb e') (map VNat (seq 0 n)) (substat_head 0 junk))
        as (e' & He' & (j & Hj)).
      - exists junk. reflexivity.
      - intros done v rest e1 Hl (j & He1).
        destruct (range_val_split n done v rest Hl) as (_ & Hv & Hlt). subst v e1.
        destruct (substat_step fb (length done) j Hlt) as (e2 & H2 & He2).
        exists e2. split; [exact H2|]. rewrite app_length, Nat.add_1_r. eexists. exact He2.
      - rewrite map_length, seq_length in Hj. exists j. rewrite He'. rewrite Hj. reflexivity.
    Qed.

    Lemma substat_run : forall fuel,
      exec P prog_get_subset_stat_from_samples fuel (env0_substat vals sv cv f) = Return (varr (map Some l)).
    Proof.
      intros fuel.
      rewrite (exec_nth_split V P prog_get_subset_stat_from_samples 2 substat_for fuel _ eq_refl).
      change (firstn 2 (spine prog_get_subset_stat_from_samples)) with substat_pre.
      change (skipn 3 (spine prog_get_subset_stat_from_samples)) with substat_post.
      assert (Hneg : (zmax_list a t + 1 <? 0)%Z = false) by (apply Z.ltb_ge; lia).
      assert (Hpre : exec_list P substat_pre fuel (env0_substat vals sv cv f) = Normal (substat_head 0 (fun _ => None))).
      { unfold substat_head, out_at. rewrite Hsv. evs1. change (Z.of_nat 1) with 1%Z. evs1.
        cbn [firstn map app]. rewrite Nat.sub_0_r. reflexivity. }
      rewrite Hpre. unfold substat_for. rewrite exec_for.
      assert (Hit : bind (eval P (substat_head 0 (fun _ => None)) (ECall "range" [EVar "ncycles"] [])) (iter_list P)
                    = Ok (map VNat (seq 0 n))) by (unfold substat_head; evs1; reflexivity).
      rewrite Hit.
      destruct (substat_loop fuel (fun _ => None)) as (junk' & Hloop).
      match goal with |- context [for_loop "ii" (fun e' => exec P ?b fuel e')] => change b with substat_body end.
      rewrite Hloop. unfold substat_head, out_at. evs1.
      rewrite Nat.sub_diag. cbn [zeros repeat]. rewrite app_nil_r, firstn_all2 by (rewrite substat_length; lia).
      reflexivity.
    Qed.
  End Substat.

  Theorem skeleton_get_subset_stat_from_samples : forall f vals sv cv l fuel,
    Exists (fun s => (-1 <= s)%Z) sv -> (length cv <= length vals)%nat ->
    subset_stat f sv cv vals = Some l ->
    exec P prog_get_subset_stat_from_samples fuel (env0_substat vals sv cv f) = Return (varr (map Some l)).
  Proof.
    intros f vals sv cv l fuel Hex Hlen Hm.
    destruct sv as [|a t]; [inversion Hex|].
    apply (substat_run f vals (a :: t) cv l a t eq_refl); try assumption.
    apply Exists_exists in Hex. destruct Hex as (x & [<-|Hx] & Hge).
    - pose proof (zmax_list_ge_d a t). lia.
    - pose proof (zmax_list_ge a t x Hx). lia.
  Qed.

  (* an empty subset vector: np.max raises *)
  Theorem skeleton_get_subset_stat_empty : forall f vals cv fuel,
    exec P prog_get_subset_stat_from_samples fuel (env0_substat vals [] cv f) = Raise "ValueError".
  Proof. intros. ev1. reflexivity. Qed.

  (* ====================================================================================================== *)
  (* Cycles.compute_position_in_chain: a for loop with a scatter store, then a store into self.metrics        *)
  (* ====================================================================================================== *)
  Lemma set_nth_length : forall (A : Type) i (v : A) l, (i < length l)%nat -> length (set_nth i v l) = length l.
  Proof.
    intros A i v l H. unfold set_nth. rewrite app_length, firstn_length. cbn [length]. rewrite skipn_length. lia.
  Qed.

  Lemma scatter_length : forall inds vals cp, in_range (length cp) inds = true ->
    length (scatter cp inds vals) = length cp.
  Proof.
    induction inds as [|i ti IH]; intros vals cp H; [reflexivity|].
    destruct vals as [|v tv]; [reflexivity|]. cbn [scatter].
    unfold in_range in H. cbn [forallb] in H. apply andb_prop in H. destruct H as [Hi Ht].
    apply Nat.ltb_lt in Hi. rewrite IH; rewrite set_nth_length by exact Hi; [reflexivity | exact Ht].
  Qed.

  Lemma pos_upto_S : forall chv d, pos_upto chv (S d) = pos_step chv (pos_upto chv d) d.
  Proof. intros chv d. unfold pos_upto. rewrite seq_snoc, fold_left_app. reflexivity. Qed.

  Lemma pos_upto_length : forall chv d, length (pos_upto chv d) = length chv.
  Proof.
    intros chv d. induction d as [|d IH]; [unfold pos_upto; cbn [seq fold_left]; apply map_length|].
    rewrite pos_upto_S. unfold pos_step. rewrite scatter_length; [exact IH|].
    rewrite IH. apply positions_in_range. lia.
  Qed.

  Lemma fill_nan_total : forall v l, forallb is_some (fill_nan v l) = true.
  Proof.
    intros v l. unfold fill_nan. apply forallb_forall. intros x Hx. apply in_map_iff in Hx.
    destruct Hx as ([y|] & <- & _); reflexivity.
  Qed.

  Section Cpic.
    Variable st : cstate.
    Variables chv sv : list Z.
    Variables (a : Z) (t : list Z).
    Hypothesis Ec : s_chain st = Some chv.
    Hypothesis Es : s_subset st = Some sv.
    Hypothesis Hchv : chv = a :: t.
    Let n := Z.to_nat (zmax_list a t + 1).

    Definition cpic_pre : list stmt := Eval cbv in firstn 2 (spine prog_Cycles_compute_position_in_chain).
    Definition cpic_for : stmt := Eval cbv in nth 2 (spine prog_Cycles_compute_position_in_chain) SSkip.
    Definition cpic_post : list stmt := Eval cbv in skipn 3 (spine prog_Cycles_compute_position_in_chain).
    Definition cpic_body : stmt := Eval cbv in match cpic_for with SFor _ _ b => b | _ => SSkip end.

    Ltac evc :=
      cbv beta iota zeta delta
          [exec final_env eval eval_truth bind map_res truthy do_cmp do_arith do_index nat_cmp nat_arith iter_list
           upd lookup env_of assign_all cmp_name ar_name frame overlay normal_env exec_list
           iter_prims prims_of table_lookup iter_table keys_are is_opaque0
           max_res vvec vint vidx varr vself voptvec
           names_cpic env0_cpic params_Cycles_compute_position_in_chain
           cpic_pre cpic_for cpic_post cpic_body
           String.eqb Ascii.eqb Bool.eqb fst snd nth_error andb negb orb].
    Ltac evc1 := evc; repeat (progress (cbn [Nat.eqb length as_scalar as_int vec_max]; oracle_rw); evc).

    Lemma cpic_n : n = nchains chv.
    Proof. unfold n, nchains. rewrite Hchv. apply max_plus1_nat. Qed.

    Definition cpic_head (d : nat) (junk : string -> option (val V)) : env V :=
      env_of names_cpic (overlay [ ("self", vself st); ("chain_pos", vvec (pos_upto chv d)) ] junk).

    Lemma cpic_step : forall fb d junk,
      exists e2, normal_env (exec P cpic_body fb (upd "ii" (VNat d) (cpic_head d junk))) = Some e2 /\
                 e2 = cpic_head (S d) (fun x => lookup x e2).
    Proof.
      intros fb d junk. unfold cpic_head.
      assert (Hr : in_range (length (pos_upto chv d)) (where_mask (eq_mask chv (Z.of_nat d))) = true)
        by (rewrite where_eq, pos_upto_length; apply positions_in_range; lia).
      assert (Hl : (length (where_mask (eq_mask chv (Z.of_nat d))) =?
                    length (arange (length (where_mask (eq_mask chv (Z.of_nat d))))))%nat = true)
        by (apply Nat.eqb_eq; unfold arange; rewrite map_length, seq_length; reflexivity).
      eexists. split.
      - evc1. rewrite where_eq.
        change (scatter (pos_upto chv d) (positions (Z.eqb (Z.of_nat d)) chv)
                        (arange (length (positions (Z.eqb (Z.of_nat d)) chv))))
          with (pos_step chv (pos_upto chv d) d).
        rewrite <- pos_upto_S. reflexivity.
      - evc. reflexivity.
    Qed.

    Lemma cpic_loop : forall fb junk,
      exists junk', for_loop "ii" (fun e' => exec P cpic_body fb e') (map VNat (seq 0 n)) (cpic_head 0 junk)
                    = Normal (cpic_head n junk').
    Proof.
      intros fb junk.
      destruct (for_loop_inv V (fun done e => exists j, e = cpic_head (length done) j)
                  "ii" (fun e' => exec P cpic_body fb e') (map VNat (seq 0 n)) (cpic_head 0 junk))
        as (e' & He' & (j & Hj)).
      - exists junk. reflexivity.
      - intros done v rest e1 Hl (j & He1).
        destruct (range_val_split n done v rest Hl) as (_ & Hv & Hlt). subst v e1.
        destruct (cpic_step fb (length done) j) as (e2 & H2 & He2).
        exists e2. split; [exact H2|]. rewrite app_length, Nat.add_1_r. eexists. exact He2.
      - rewrite map_length, seq_length in Hj. exists j. rewrite He'. rewrite Hj. reflexivity.
    Qed.

    Lemma cpic_run : forall fuel,
      exists e', exec P prog_Cycles_compute_position_in_chain fuel (env0_cpic st) = Normal e' /\
                 lookup "self" e' = Some (vself (force_metric st "chain_position" (PChainT 4) (position_vals chv sv))).
    Proof.
      intros fuel.
      rewrite (exec_nth_split V P prog_Cycles_compute_position_in_chain 2 cpic_for fuel _ eq_refl).
      change (firstn 2 (spine prog_Cycles_compute_position_in_chain)) with cpic_pre.
      change (skipn 3 (spine prog_Cycles_compute_position_in_chain)) with cpic_post.
      assert (Hpre : exec_list P cpic_pre fuel (env0_cpic st) = Normal (cpic_head 0 (fun _ => None))).
      { unfold cpic_head, pos_upto. cbn [seq fold_left]. evc1. reflexivity. }
      rewrite Hpre. unfold cpic_for. rewrite exec_for.
      assert (Hit : bind (eval P (cpic_head 0 (fun _ => None))
                               (ECall "range" [EArith AAdd (ECall "self.chain_vect.max()" [EVar "self"] []) (ENat 1)] []))
                         (iter_list P) = Ok (map VNat (seq 0 n))).
      { unfold cpic_head. evc1. rewrite Hchv. evc1. change (Z.of_nat 1) with 1%Z. reflexivity. }
      rewrite Hit.
      destruct (cpic_loop fuel (fun _ => None)) as (junk' & Hloop).
      match goal with |- context [for_loop "ii" (fun e' => exec P ?b fuel e')] => change b with cpic_body end.
      rewrite Hloop. unfold cpic_head.
      pose proof (fill_nan_total (-1) (project_subset_to_cycles (pos_upto chv n) sv)) as Hall.
      eexists. split.
      - evc1. reflexivity.
      - evc. unfold position_vals. rewrite <- cpic_n. reflexivity.
    Qed.
  End Cpic.

  Theorem skeleton_compute_position_in_chain : forall st chv sv fuel,
    s_chain st = Some chv -> s_subset st = Some sv -> chv <> [] ->
    exists e', exec P prog_Cycles_compute_position_in_chain fuel (env0_cpic st) = Normal e' /\
               lookup "self" e' = Some (vself (force_metric st "chain_position" (PChainT 4) (position_vals chv sv))).
  Proof.
    intros st chv sv fuel Ec Es Hne. destruct chv as [|a t]; [congruence|].
    exact (cpic_run st (a :: t) sv a t Ec Es eq_refl fuel).
  Qed.

  Theorem skeleton_compute_position_in_chain_nochain : forall st fuel,
    s_chain st = None -> exec P prog_Cycles_compute_position_in_chain fuel (env0_cpic st) = Raise "ValueError".
  Proof. intros st fuel Ec. ev1. reflexivity. Qed.

  Lemma nth_map_seq : forall (A : Type) (g : nat -> A) n j d, (j < n)%nat -> nth j (map g (seq 0 n)) d = g j.
  Proof.
    intros A g n j d H. rewrite nth_indep with (d' := g 0%nat) by (rewrite map_length, seq_length; exact H).
    rewrite map_nth, seq_nth by exact H. reflexivity.
  Qed.

  Lemma nth_map_nth_error : forall (A B : Type) (g : A -> B) l j x d, nth_error l j = Some x -> nth j (map g l) d = g x.
  Proof.
    intros A B g l j x d H. apply nth_error_nth. rewrite nth_error_map, H. reflexivity.
  Qed.

  (* ====================================================================================================== *)
  (* LAWS about the models                                                                                   *)
  (* ====================================================================================================== *)
  (* ---- augmented sample set: a contiguous index range that starts at a trough sample of the previous cycle,
     ends with the last sample of the cycle and contains every sample of the cycle from its start on -------- *)
  Lemma last_cons : forall (t : list nat) a b, last (b :: t) a = last t b.
  Proof.
    induction t as [|c t IH]; intros a b; [reflexivity|].
    change (last (b :: c :: t) a) with (last (c :: t) a). rewrite (IH a c), (IH b c). reflexivity.
  Qed.

  Lemma sorted_le_last : forall (l : list nat) a i, StronglySorted lt (a :: l) -> In i (a :: l) -> (i <= last l a)%nat.
  Proof.
    induction l as [|b t IH]; intros a i Hs Hin.
    - destruct Hin as [Heq|[]]. subst. cbn [last]. lia.
    - inversion Hs as [|? ? Hs' Hf]; subst. rewrite last_cons. destruct Hin as [Heq|Hin].
      + subst i. assert (Hab : (a < b)%nat) by (inversion Hf; assumption).
        pose proof (IH b b Hs' (or_introl eq_refl)) as H. lia.
      + exact (IH b i Hs' Hin).
  Qed.

  Lemma aug_contains_cycle : forall cv ph k l,
    map_cycle_to_samples_aug trough cv ph k = Some l ->
    exists p n, l = seq p n /\
                In p (map_cycle_to_samples cv (k - 1)) /\ (trough < nth p ph 0)%Z /\
                (forall i, In i (map_cycle_to_samples cv k) -> (i < p + n)%nat) /\
                (forall i, In i (map_cycle_to_samples cv k) -> (p <= i)%nat -> In i l) /\
                (forall i, In i l -> (p <= i)%nat /\ exists j, In j (map_cycle_to_samples cv k) /\ (i <= j)%nat).
  Proof.
    intros cv ph k l H. unfold map_cycle_to_samples_aug in H.
    destruct (filter _ (map_cycle_to_samples cv (k - 1))) as [|p r] eqn:Ef; [discriminate|].
    destruct (map_cycle_to_samples cv k) as [|i0 t] eqn:Ek; [discriminate|].
    assert (Hl : seq p (S (last t i0) - p) = l) by congruence. clear H. subst l.
    assert (Hp : In p (filter (fun i => Z.ltb trough (nth i ph 0%Z)) (map_cycle_to_samples cv (k - 1))))
      by (rewrite Ef; left; reflexivity).
    apply filter_In in Hp. destruct Hp as [Hp1 Hp2]. apply Z.ltb_lt in Hp2.
    assert (Hs : StronglySorted lt (i0 :: t)) by (rewrite <- Ek; apply positions_sorted).
    assert (Hlast : In (last t i0) (i0 :: t)).
    { destruct t as [|b t']; [left; reflexivity|]. right.
      assert (Hu : b :: t' <> []) by discriminate.
      destruct (exists_last Hu) as (u' & x & Hx). rewrite Hx, last_last.
      apply in_or_app. right. left. reflexivity. }
    exists p, (S (last t i0) - p)%nat. split; [reflexivity|]. split; [exact Hp1|]. split; [exact Hp2|].
    split; [|split].
    - intros i Hi. pose proof (sorted_le_last t i0 i Hs Hi). lia.
    - intros i Hi Hpi. pose proof (sorted_le_last t i0 i Hs Hi). apply in_seq. lia.
    - intros i Hi. apply in_seq in Hi. split; [lia|]. exists (last t i0). split; [exact Hlast|lia].
  Qed.

  (* ---- iteration through the subset: visits the cycles with subset index >= 0, each once, increasing ------ *)
  Lemma subset_from_max : forall valids c, (0 <= c)%Z ->
    (zmax_list (-1) (subset_from valids c) + 1 =
     if (count_true valids =? 0)%nat then 0 else c + Z.of_nat (count_true valids))%Z.
  Proof.
    induction valids as [|b t IH]; intros c Hc; [reflexivity|].
    destruct b; cbn [subset_from zmax_list count_true].
    - specialize (IH (c + 1)%Z ltac:(lia)). destruct (count_true t =? 0)%nat eqn:E.
      + apply Nat.eqb_eq in E. rewrite E. cbn [Nat.add Nat.eqb]. lia.
      + cbn [Nat.add Nat.eqb]. lia.
    - specialize (IH c Hc). pose proof (zmax_list_ge_d (-1) (subset_from t c)). cbn [Nat.add]. lia.
  Qed.

  Lemma nsubset_count : forall valids, nsubset (get_subset_vector valids) = count_true valids.
  Proof.
    intros valids. unfold nsubset, get_subset_vector. rewrite subset_from_max by lia.
    destruct (count_true valids =? 0)%nat eqn:E; [apply Nat.eqb_eq in E; rewrite E; reflexivity | lia].
  Qed.

  Lemma iter_subset_visits : forall valids,
    map snd (iter_subset_cycles (get_subset_vector valids)) =
    map (fun k => [k]) (selected_cycles (get_subset_vector valids)).
  Proof.
    intros valids. set (sv := get_subset_vector valids). unfold iter_subset_cycles.
    rewrite map_map. cbn [snd]. unfold sv at 2. rewrite nsubset_count. fold sv.
    apply nth_ext with (d := []) (d' := []).
    - rewrite !map_length, seq_length. unfold sv. rewrite selected_length. reflexivity.
    - intros j Hj. rewrite map_length, seq_length in Hj.
      rewrite nth_map_seq by exact Hj.
      destruct (nth_error (selected_cycles sv) j) as [k|] eqn:Ek.
      + rewrite (nth_map_nth_error _ _ _ _ _ _ _ Ek).
        apply subset_to_cycle_singleton; [apply selected_nth; exact Ek | lia].
      + apply nth_error_None in Ek. unfold sv in Ek. rewrite selected_length in Ek. lia.
  Qed.

  Theorem subset_iteration_law : forall valids,
    let sv := get_subset_vector valids in
    map snd (iter_subset_cycles sv) = map (fun k => [k]) (selected_cycles sv) /\
    StronglySorted lt (selected_cycles sv) /\
    (forall k, In k (selected_cycles sv) <-> nth_error valids k = Some true).
  Proof.
    intros valids sv. split; [apply iter_subset_visits|]. split; [apply positions_sorted|].
    intros k. unfold selected_cycles. rewrite In_positions. unfold sv. split.
    - intros (x & Hx & Hlt). rewrite subset_vector_spec in Hx.
      destruct (nth_error valids k) as [[|]|]; cbn [option_map] in Hx; try discriminate; [reflexivity|].
      injection Hx as <-. discriminate.
    - intros H. rewrite subset_vector_spec, H. cbn [option_map]. eexists. split; [reflexivity|].
      apply Z.ltb_lt. lia.
  Qed.

  (* ---- position in chain: 0, 1, 2, ... inside each chain ------------------------------------------------ *)
  Lemma set_nth_nth : forall (A : Type) (l : list A) i v j d, (i < length l)%nat ->
    nth j (set_nth i v l) d = if (j =? i)%nat then v else nth j l d.
  Proof.
    intros A l. induction l as [|a t IH]; intros i v j d H; [cbn [length] in H; lia|].
    destruct i as [|i].
    - unfold set_nth. cbn [firstn skipn app]. destruct j; reflexivity.
    - change (set_nth (S i) v (a :: t)) with (a :: set_nth i v t). destruct j as [|j]; [reflexivity|].
      cbn [nth Nat.eqb]. apply IH. cbn [length] in H. lia.
  Qed.

  Lemma scatter_nth_notin : forall inds vals cp j d, in_range (length cp) inds = true -> ~ In j inds ->
    nth j (scatter cp inds vals) d = nth j cp d.
  Proof.
    induction inds as [|i ti IH]; intros vals cp j d Hr Hn; [reflexivity|].
    destruct vals as [|v tv]; [reflexivity|]. cbn [scatter].
    unfold in_range in Hr. cbn [forallb] in Hr. apply andb_prop in Hr. destruct Hr as [Hi Ht]. apply Nat.ltb_lt in Hi.
    rewrite IH.
    - rewrite set_nth_nth by exact Hi. destruct (Nat.eqb_spec j i) as [->|_]; [exfalso; apply Hn; left; reflexivity|reflexivity].
    - rewrite set_nth_length by exact Hi. exact Ht.
    - intro Hin. apply Hn. right. exact Hin.
  Qed.

  Lemma scatter_nth_in : forall inds vals cp r j d, NoDup inds -> in_range (length cp) inds = true ->
    length inds = length vals -> nth_error inds r = Some j ->
    nth j (scatter cp inds vals) d = nth r vals d.
  Proof.
    induction inds as [|i ti IH]; intros vals cp r j d Hnd Hr Hl Hj; [destruct r; discriminate|].
    destruct vals as [|v tv]; [discriminate|]. cbn [scatter].
    unfold in_range in Hr. cbn [forallb] in Hr. apply andb_prop in Hr. destruct Hr as [Hi Ht]. apply Nat.ltb_lt in Hi.
    inversion Hnd as [|? ? Hni Hnd']; subst.
    assert (Ht' : in_range (length (set_nth i v cp)) ti = true) by (rewrite set_nth_length by exact Hi; exact Ht).
    destruct r as [|r]; cbn [nth_error] in Hj.
    - injection Hj as <-. rewrite scatter_nth_notin by assumption.
      rewrite set_nth_nth by exact Hi. rewrite Nat.eqb_refl. reflexivity.
    - cbn [nth]. apply IH; try assumption. cbn [length] in Hl. lia.
  Qed.

  (* rank of j among the members of its chain = its index in np.where(chain_vect == c)[0] *)
  Lemma positions_rank : forall (A : Type) (p : A -> bool) l off j x, nth_error l j = Some x -> p x = true ->
    nth_error (positions_from p l off) (count_true (map p (firstn j l))) = Some (off + j)%nat.
  Proof.
    intros A p l. induction l as [|a t IH]; intros off j x Hj Hp; [destruct j; discriminate|].
    destruct j as [|j]; cbn [nth_error] in Hj.
    - injection Hj as ->. cbn [firstn map count_true positions_from]. rewrite Hp. cbn [nth_error]. f_equal. lia.
    - cbn [firstn map count_true positions_from]. destruct (p a).
      + cbn [Nat.add nth_error]. rewrite (IH (S off) j x Hj Hp). f_equal. lia.
      + cbn [Nat.add]. rewrite (IH (S off) j x Hj Hp). f_equal. lia.
  Qed.

  Definition rank_of (chv : list Z) (j : nat) : Z :=
    Z.of_nat (count_true (map (Z.eqb (nth j chv (-1)%Z)) (firstn j chv))).

  Lemma pos_upto_spec : forall chv, Forall (fun c => (0 <= c)%Z) chv -> forall d j, (j < length chv)%nat ->
    nth j (pos_upto chv d) 0%Z = if (nth j chv (-1) <? Z.of_nat d)%Z then rank_of chv j else 0%Z.
  Proof.
    intros chv Hpos d. induction d as [|d IH]; intros j Hj.
    - unfold pos_upto. cbn [seq fold_left].
      rewrite (nth_map_nth_error _ _ _ _ _ _ _ (nth_error_nth' chv (-1)%Z Hj)).
      rewrite Forall_forall in Hpos. specialize (Hpos (nth j chv (-1)%Z) (nth_In _ _ Hj)).
      destruct (Z.ltb_spec (nth j chv (-1)) (Z.of_nat 0)); [lia|reflexivity].
    - rewrite pos_upto_S. unfold pos_step.
      assert (Hr : in_range (length (pos_upto chv d)) (positions (Z.eqb (Z.of_nat d)) chv) = true)
        by (rewrite pos_upto_length; apply positions_in_range; lia).
      assert (Hc : nth_error chv j = Some (nth j chv (-1)%Z)) by (apply nth_error_nth'; exact Hj).
      destruct (Z.eq_dec (nth j chv (-1)) (Z.of_nat d)) as [E|E].
      + pose proof (positions_rank Z (Z.eqb (Z.of_nat d)) chv 0 j _ Hc ltac:(apply Z.eqb_eq; symmetry; exact E)) as Hrk.
        cbn [Nat.add] in Hrk.
        rewrite (scatter_nth_in (positions (Z.eqb (Z.of_nat d)) chv) (arange (length (positions (Z.eqb (Z.of_nat d)) chv)))
                                (pos_upto chv d) (count_true (map (Z.eqb (Z.of_nat d)) (firstn j chv))) j 0%Z
                                (positions_NoDup _ _ _) Hr).
        * assert (Hlt : (count_true (map (Z.eqb (Z.of_nat d)) (firstn j chv)) < length (positions (Z.eqb (Z.of_nat d)) chv))%nat)
            by (apply nth_error_Some; unfold positions; rewrite Hrk; discriminate).
          unfold arange. rewrite nth_map_seq by exact Hlt.
          destruct (Z.ltb_spec (nth j chv (-1)) (Z.of_nat (S d))); [|lia].
          unfold rank_of. rewrite E. reflexivity.
        * unfold arange. rewrite map_length, seq_length. reflexivity.
        * exact Hrk.
      + rewrite scatter_nth_notin; [|exact Hr|].
        * rewrite IH by exact Hj.
          destruct (Z.ltb_spec (nth j chv (-1)) (Z.of_nat d)); destruct (Z.ltb_spec (nth j chv (-1)) (Z.of_nat (S d)));
            try reflexivity; lia.
        * intro Hin. apply In_positions in Hin. destruct Hin as (x & Hx & Hxe). rewrite Hc in Hx. injection Hx as <-.
          apply Z.eqb_eq in Hxe. congruence.
  Qed.

  (* the loop of the code computes the hand model CyclesObj.chain_pos (labels must be real chain labels) *)
  Theorem pos_upto_chain_pos : forall chv, Forall (fun c => (0 <= c)%Z) chv ->
    pos_upto chv (nchains chv) = chain_pos chv.
  Proof.
    intros chv Hpos. apply nth_ext with (d := 0%Z) (d' := 0%Z).
    - rewrite pos_upto_length. unfold chain_pos. rewrite map_length, seq_length. reflexivity.
    - intros j Hj. rewrite pos_upto_length in Hj. rewrite pos_upto_spec by assumption.
      assert (Hin : In (nth j chv (-1)%Z) chv) by (apply nth_In; exact Hj).
      pose proof (zmax_list_ge (-1) chv _ Hin) as Hm.
      rewrite Forall_forall in Hpos. specialize (Hpos _ Hin).
      unfold nchains. destruct (Z.ltb_spec (nth j chv (-1)) (Z.of_nat (Z.to_nat (zmax_list (-1) chv + 1)))); [|lia].
      unfold chain_pos. rewrite nth_map_seq by exact Hj. reflexivity.
  Qed.

  (* position in chain counts 0, 1, 2, ... along the members of each chain (and so restarts at each chain) *)
  Theorem chain_position_counts : forall chv c, Forall (fun x => (0 <= x)%Z) chv ->
    map (fun j => nth j (pos_upto chv (nchains chv)) 0%Z) (map_chain_to_subset chv c) =
    arange (length (map_chain_to_subset chv c)).
  Proof.
    intros chv c Hpos. rewrite pos_upto_chain_pos by exact Hpos. unfold map_chain_to_subset.
    apply nth_ext with (d := 0%Z) (d' := 0%Z).
    - unfold arange. rewrite !map_length, seq_length. reflexivity.
    - intros r Hr. rewrite map_length in Hr.
      destruct (nth_error (positions (Z.eqb c) chv) r) as [j|] eqn:Ej; [|apply nth_error_None in Ej; lia].
      assert (Hin : In j (positions (Z.eqb c) chv)) by (eapply nth_error_In; exact Ej).
      apply In_positions in Hin. destruct Hin as (x & Hx & Hxe). apply Z.eqb_eq in Hxe. subst x.
      assert (Hj : (j < length chv)%nat) by (apply nth_error_Some; congruence).
      rewrite (nth_map_nth_error _ _ _ _ _ _ _ Ej).
      unfold chain_pos. rewrite nth_map_seq by exact Hj.
      rewrite (nth_error_nth _ _ (-1)%Z Hx).
      pose proof (positions_rank Z (Z.eqb c) chv 0 j c Hx (Z.eqb_refl c)) as Hrk. cbn [Nat.add] in Hrk.
      assert (Hrr : count_true (map (Z.eqb c) (firstn j chv)) = r).
      { pose proof (positions_NoDup Z (Z.eqb c) chv) as Hnd. unfold positions in *.
        eapply NoDup_nth_error; [exact Hnd | apply nth_error_Some; rewrite Hrk; discriminate | rewrite Hrk, Ej; reflexivity]. }
      rewrite Hrr. unfold arange. rewrite nth_map_seq by exact Hr. reflexivity.
  Qed.

  (* ---- what compute_position_in_chain stores is the model's compute_chain_timings kind 4 ------------------ *)
  Lemma project_by_length : forall (A : Type) (vect : list Z) (vals : list A), length (project_by vect vals) = length vect.
  Proof.
    intros A vect vals.
    assert (H1 : nth_error (project_by vect vals) (length vect) = None)
      by (rewrite project_by_spec; rewrite (proj2 (nth_error_None vect (length vect)) (le_n _)); reflexivity).
    apply nth_error_None in H1.
    assert (H2 : nth_error vect (length (project_by vect vals)) = None).
    { pose proof (project_by_spec A vect vals (length (project_by vect vals))) as H.
      rewrite (proj2 (nth_error_None _ _) (le_n _)) in H.
      destruct (nth_error vect (length (project_by vect vals))); [discriminate|reflexivity]. }
    apply nth_error_None in H2. lia.
  Qed.

  Theorem position_vals_model : forall st chv sv, Forall (fun c => (0 <= c)%Z) chv ->
    chain_t_vals st chv sv 4 = Some (position_vals chv sv).
  Proof.
    intros st chv sv Hpos. unfold chain_t_vals, position_vals. rewrite pos_upto_chain_pos by exact Hpos. reflexivity.
  Qed.

  Theorem force_metric_model : forall st chv sv, length sv = ncyc st ->
    force_metric st "chain_position" (PChainT 4) (position_vals chv sv) =
    fst (add_metric st (chain_t_name 4) (PChainT 4) (position_vals chv sv)).
  Proof.
    intros st chv sv Hl. unfold add_metric.
    assert (E : length (position_vals chv sv) = ncyc st).
    { unfold position_vals, fill_nan, project_subset_to_cycles. rewrite map_length, project_by_length. exact Hl. }
    rewrite E, Nat.eqb_refl. reflexivity.
  Qed.
End Tie.
