(* Refinement proofs of the control-skeleton tie of SiftConfig / get_config (notes/TIE_CONFIG.md, property C18).
   Tables, environments, renderings: model/SkelPrims_Config.v; statements: props/Prop_Tie_Config.v. *)
From Coq Require Import String List Bool Arith ZArith Lia.
From EmdV Require Import lib.PyLoop lib.PyLoopTools gen.Gen_Skel_Config model.SkelPrims_Config.
From EmdV Require model.Config.
Import ListNotations.
Open Scope string_scope.

(* the three top-level statements of _array_or_tuple_to_list: out = {} ; the for ; return out *)
Definition listify_pre : list stmt := Eval cbv in firstn 1 (spine prog_array_or_tuple_to_list).
Definition listify_for : stmt := Eval cbv in nth 1 (spine prog_array_or_tuple_to_list) SSkip.
Definition listify_post : list stmt := Eval cbv in skipn 2 (spine prog_array_or_tuple_to_list).
Definition listify_body : stmt := Eval cbv in match listify_for with SFor _ _ b => b | _ => SSkip end.

(* the evaluator: cbv with an explicit delta whitelist (the interpreter, the tables, the environment helpers, string
   comparison); the operations of model/Config.v are NOT unfolded: their results are destructed first *)
Ltac ev :=
  cbv beta iota zeta delta
      [exec final_env eval eval_truth bind map_res truthy do_cmp do_arith do_index nat_cmp nat_arith iter_list
       upd lookup env_of assign_all cmp_name ar_name frame overlay normal_env for_loop
       try_finish try_finish_env exn_matches exec_list
       prims_of table_lookup keys_are is_opaque0 len_handler
       cv tree_val obj_val text_val doc_val res_of returns is_list isinstance_list builtin key2 key3 set_store
       keytransform_table keytransform_prims keytransform_names keytransform_env0 keytransform_res
       params_keytransform prog_keytransform
       item_table item_prims getitem_names getitem_env0 setitem_names setitem_env0 delitem_names delitem_env0
       params_getitem prog_getitem params_setitem prog_setitem params_delitem prog_delitem
       getitem_render setitem_render delitem_render agrees_loaded exn_is err_name
       is_kind item_val listify_table listify_prims listify_names listify_env0
       params_array_or_tuple_to_list
       untree doc_of_val tree_of_val type_dict yamlsafe_res config_val fresh_config first_type
       yaml_table yaml_prims yamlsafe_names yamlsafe_env0 to_text_names to_text_env0
       from_file_names from_file_env0 from_stream_names from_stream_env0
       params_get_yamlsafe_dict prog_get_yamlsafe_dict params_to_yaml_text prog_to_yaml_text
       params_from_yaml_file prog_from_yaml_file params_from_yaml_stream prog_from_yaml_stream
       listify_pre listify_for listify_post listify_body
       func_table func_prims func_names func_env0 func_render params_get_func prog_get_func
       file_var tprog_to_yaml_file to_file_entry to_file_names to_file_env0 to_file_render params_to_yaml_file
       String.eqb Ascii.eqb Bool.eqb fst snd nth_error andb negb orb].

(* ================================================================================================ *)
(* key paths                                                                                          *)
(* ================================================================================================ *)
Lemma split_slash_nonempty : forall s, Config.split_slash s <> [].
Proof.
  intros s. destruct s as [|c r]; cbn [Config.split_slash]; [discriminate|].
  destruct (Ascii.eqb c Config.slash); [discriminate|].
  destruct (Config.split_slash r); discriminate.
Qed.

(* the four shapes of a key *)
Inductive key_shape (key : string) : Prop :=
| KS1 a : Config.split_slash key = [a] -> Config.keytransform key = Config.Ok [a] -> key_shape key
| KS2 a b : Config.split_slash key = [a; b] -> Config.keytransform key = Config.Ok [a; b] -> key_shape key
| KS3 a b c : Config.split_slash key = [a; b; c] -> Config.keytransform key = Config.Ok [a; b; c] -> key_shape key
| KS4 a b c d r : Config.split_slash key = a :: b :: c :: d :: r ->
                  Config.keytransform key = Config.Err Config.ETooDeep -> key_shape key.

Lemma key_cases : forall key, key_shape key.
Proof.
  intros key. pose proof (split_slash_nonempty key) as Hne.
  destruct (Config.split_slash key) as [|a [|b [|c [|d r]]]] eqn:E; unfold Config.keytransform.
  - congruence.
  - apply (KS1 key a); [exact E|unfold Config.keytransform; rewrite E; reflexivity].
  - apply (KS2 key a b); [exact E|unfold Config.keytransform; rewrite E; reflexivity].
  - apply (KS3 key a b c); [exact E|unfold Config.keytransform; rewrite E; reflexivity].
  - apply (KS4 key a b c d r); [exact E|unfold Config.keytransform; rewrite E].
    replace (3 <? Z.of_nat (length (a :: b :: c :: d :: r)))%Z with true; [reflexivity|].
    symmetry. apply Z.ltb_lt. cbn [length]. lia.
Qed.

Section KeyTransform.
  Variable Y : Type.
  Local Notation P := (keytransform_prims Y).

  Theorem skeleton_keytransform : forall (self : cv Y) (key : string) (f : nat),
    exec P prog_keytransform f (keytransform_env0 Y self key) = returns Y (keytransform_res Y key).
  Proof.
    intros self key f.
    destruct (key_cases key) as [a Hs Hk|a b Hs Hk|a b c Hs Hk|a b c d r Hs Hk];
      unfold keytransform_res; rewrite Hk; ev; rewrite Hs;
      cbn [parts_val map key_val]; ev; cbn [length Nat.eqb Nat.ltb Nat.leb]; ev; reflexivity.
  Qed.
End KeyTransform.

(* ================================================================================================ *)
(* the item methods                                                                                   *)
(* ================================================================================================ *)
Lemma nget2 : forall a b s, Config.nget [a; b] s = Config.bind (Config.idx a s) (Config.idx b).
Proof.
  intros a b s. cbn [Config.nget]. destruct (Config.idx a s) as [t|e]; cbn [Config.bind]; [|reflexivity].
  destruct (Config.idx b t); reflexivity.
Qed.

Lemma nget3 : forall a b c s,
  Config.nget [a; b; c] s = Config.bind (Config.bind (Config.idx a s) (Config.idx b)) (Config.idx c).
Proof.
  intros a b c s. cbn [Config.nget]. destruct (Config.idx a s) as [t|e]; cbn [Config.bind]; [|reflexivity].
  destruct (Config.idx b t) as [u|e]; cbn [Config.bind]; [|reflexivity].
  destruct (Config.idx c u); reflexivity.
Qed.

Lemma nset2 : forall a b v s, Config.nset [a; b] v s =
  Config.bind (Config.idx a s) (fun i1 => Config.bind (Config.idx_set b v i1) (fun i1' => Config.idx_set a i1' s)).
Proof. reflexivity. Qed.
Lemma nset3 : forall a b c v s, Config.nset [a; b; c] v s =
  Config.bind (Config.idx a s) (fun i1 => Config.bind (Config.idx b i1) (fun i2 =>
  Config.bind (Config.idx_set c v i2) (fun i2' =>
  Config.bind (Config.idx_set b i2' i1) (fun i1' => Config.idx_set a i1' s)))).
Proof.
  intros a b c v s. cbn [Config.nset]. destruct (Config.idx a s) as [i1|e]; cbn [Config.bind]; [|reflexivity].
  destruct (Config.idx b i1) as [i2|e]; cbn [Config.bind]; [|reflexivity].
  destruct (Config.idx_set c v i2) as [i2'|e]; cbn [Config.bind]; reflexivity.
Qed.
Lemma ndel2 : forall a b s, Config.ndel [a; b] s =
  Config.bind (Config.idx a s) (fun i1 => Config.bind (Config.idx_del b i1) (fun i1' => Config.idx_set a i1' s)).
Proof. reflexivity. Qed.
Lemma ndel3 : forall a b c s, Config.ndel [a; b; c] s =
  Config.bind (Config.idx a s) (fun i1 => Config.bind (Config.idx b i1) (fun i2 =>
  Config.bind (Config.idx_del c i2) (fun i2' =>
  Config.bind (Config.idx_set b i2' i1) (fun i1' => Config.idx_set a i1' s)))).
Proof.
  intros a b c s. cbn [Config.ndel]. destruct (Config.idx a s) as [i1|e]; cbn [Config.bind]; [|reflexivity].
  destruct (Config.idx b i1) as [i2|e]; cbn [Config.bind]; [|reflexivity].
  destruct (Config.idx_del c i2) as [i2'|e]; cbn [Config.bind]; reflexivity.
Qed.

Section Items.
  Variable Y : Type.
  Local Notation P := (item_prims Y).

  Ltac kt Hk := repeat (progress (rewrite ?Hk; cbn [parts_val map key_val length Nat.eqb]; ev)).

  Theorem skeleton_getitem : forall (ty s : Config.tree) (key : string) (f : nat),
    exec P prog_getitem f (getitem_env0 Y ty s key) = getitem_render Y (Config.getitem key s).
  Proof.
    intros ty s key f. unfold Config.getitem.
    destruct (key_cases key) as [a Hs Hk|a b Hs Hk|a b c Hs Hk|a b c d r Hs Hk]; rewrite Hk; cbv beta iota.
    - ev. kt Hk. reflexivity.
    - rewrite <- nget2. ev. kt Hk. reflexivity.
    - rewrite <- nget3. ev. kt Hk. reflexivity.
    - ev. kt Hk. reflexivity.
  Qed.

  Theorem skeleton_setitem : forall (ty s : Config.tree) (key : string) (v : Config.tree) (f : nat),
    exec P prog_setitem f (setitem_env0 Y ty s key v) = setitem_render Y ty key v (Config.setitem key v s).
  Proof.
    intros ty s key v f. unfold Config.setitem, setitem_render, key_after.
    destruct (key_cases key) as [a Hs Hk|a b Hs Hk|a b c Hs Hk|a b c d r Hs Hk]; rewrite Hk; cbv beta iota.
    - change (Config.idx_set a v s) with (Config.nset [a] v s).
      destruct (Config.nset [a] v s) as [s'|e] eqn:E; ev; kt Hk; rewrite ?E; ev; reflexivity.
    - rewrite <- nset2.
      destruct (Config.nset [a; b] v s) as [s'|e] eqn:E; ev; kt Hk; rewrite ?E; ev; reflexivity.
    - rewrite <- nset3.
      destruct (Config.nset [a; b; c] v s) as [s'|e] eqn:E; ev; kt Hk; rewrite ?E; ev; reflexivity.
    - ev. kt Hk. reflexivity.
  Qed.

  Theorem skeleton_delitem : forall (ty s : Config.tree) (key : string) (f : nat),
    exec P prog_delitem f (delitem_env0 Y ty s key) = delitem_render Y ty key (Config.delitem key s).
  Proof.
    intros ty s key f. unfold Config.delitem, delitem_render, key_after.
    destruct (key_cases key) as [a Hs Hk|a b Hs Hk|a b c Hs Hk|a b c d r Hs Hk]; rewrite Hk; cbv beta iota.
    - change (Config.idx_del a s) with (Config.ndel [a] s).
      destruct (Config.ndel [a] s) as [s'|e] eqn:E; ev; kt Hk; rewrite ?E; ev; reflexivity.
    - rewrite <- ndel2.
      destruct (Config.ndel [a; b] s) as [s'|e] eqn:E; ev; kt Hk; rewrite ?E; ev; reflexivity.
    - rewrite <- ndel3.
      destruct (Config.ndel [a; b; c] s) as [s'|e] eqn:E; ev; kt Hk; rewrite ?E; ev; reflexivity.
    - ev. kt Hk. reflexivity.
  Qed.
End Items.

(* ================================================================================================ *)
(* the YAML routes                                                                                    *)
(* ================================================================================================ *)
Section Yaml.
  Variable Y : Type.
  Variable dump : Config.ydoc -> Y.
  Variable dump_all : list Config.ydoc -> Y.
  Variable load : Y -> option Config.ydoc.
  Variable load_all : Y -> list Config.ydoc.
  Variable content : Y.
  Local Notation P := (yaml_prims Y dump dump_all load load_all content).

  (* _get_yamlsafe_dict, for every object state *)
  Theorem skeleton_get_yamlsafe_dict : forall (ty : Config.tree) (st : Config.ydoc) (f : nat),
    exec P prog_get_yamlsafe_dict f (yamlsafe_env0 Y ty st) = returns Y (yamlsafe_res Y ty st).
  Proof.
    intros ty st f. destruct st as [[v|kids]|l]; ev; reflexivity.
  Qed.

  (* on a configuration (the store is a dict) this is Config.yamlsafe *)
  Lemma yamlsafe_res_config : forall (c : Config.config) kids, Config.cstore c = Config.Node kids ->
    yamlsafe_res Y (Config.Leaf (Config.VStr (Config.ctype c))) (Config.DTree (Config.cstore c))
    = Ok (VList (map (tree_val Y) (Config.yamlsafe c))).
  Proof. intros c kids H. unfold Config.yamlsafe, Config.type_doc. rewrite H. reflexivity. Qed.

  Theorem skeleton_to_yaml_text : forall (c : Config.config) kids (f : nat),
    Config.cstore c = Config.Node kids ->
    exec P prog_to_yaml_text f (to_text_env0 Y c) = Return (text_val Y (Config.to_yaml_text Y dump c)).
  Proof.
    intros c kids f H. unfold Config.to_yaml_text, Config.yamlsafe, Config.type_doc.
    destruct c as [ty st]. cbn [Config.cstore Config.ctype] in *. subst st. ev. reflexivity.
  Qed.

  (* the state plumbing added to to_yaml_file is plumbing only *)
  Lemma to_yaml_file_erasure : erase_w file_var file_writers tprog_to_yaml_file = prog_to_yaml_file.
  Proof. reflexivity. Qed.

  Theorem skeleton_to_yaml_file : forall (old : cv Y) (c : Config.config) kids (f : nat),
    Config.cstore c = Config.Node kids ->
    exec P tprog_to_yaml_file f (to_file_env0 Y old c) = to_file_render Y c (Config.to_yaml_file Y dump_all c).
  Proof.
    intros old c kids f H. unfold Config.to_yaml_file, Config.yamlsafe, Config.type_doc.
    destruct c as [ty st]. cbn [Config.cstore Config.ctype] in *. subst st. ev. reflexivity.
  Qed.

  (* from_yaml_file: every file content *)
  Theorem skeleton_from_yaml_file : forall (cls : cv Y) (f : nat),
    agrees_loaded Y (exec P prog_from_yaml_file f (from_file_env0 Y cls)) (Config.from_yaml_file Y load_all content).
  Proof.
    intros cls f. unfold Config.from_yaml_file.
    destruct (load_all content) as [|d0 [|d1 r]] eqn:E.
    - ev. rewrite E. cbn [map length Nat.eqb]. ev. right. reflexivity.
    - ev. rewrite E. cbn [map length Nat.eqb]. ev. destruct d0 as [t|l]; ev; reflexivity.
    - destruct d0 as [t|l].
      + cbn [Config.doc_tree]. destruct (Config.idx "sift_type" t) as [ty|e] eqn:Ei;
          ev; rewrite E; cbn [map length Nat.eqb]; ev; rewrite Ei; ev.
        * destruct d1 as [t1|l1]; ev; reflexivity.
        * destruct e; try reflexivity; left; reflexivity.
      + ev. rewrite E. cbn [map length Nat.eqb]. ev. reflexivity.
  Qed.

  (* from_yaml_stream: every text whose document has a regular shape *)
  Theorem skeleton_from_yaml_stream : forall (cls : cv Y) (text : Y) (f : nat),
    stream_regular (load text) = true ->
    agrees_loaded Y (exec P prog_from_yaml_stream f (from_stream_env0 Y cls text)) (Config.from_yaml_stream Y load text).
  Proof.
    intros cls text f Hreg. unfold Config.from_yaml_stream.
    destruct (load text) as [[t|l]|] eqn:E.
    - (* a mapping / scalar: the store, type Unknown *)
      destruct t as [v|kids].
      + destruct v; try discriminate Hreg; ev; rewrite E; ev; reflexivity.
      + ev. rewrite E. ev. reflexivity.
    - destruct l as [|d0 [|d1 r]]; unfold Config.split_pair.
      + ev. rewrite E. ev. right. reflexivity.
      + cbn [stream_regular] in Hreg. destruct (Config.idx "sift_type" d0) as [ty|e] eqn:Ei; [|discriminate Hreg].
        ev. rewrite E. ev. rewrite Ei. ev. right. reflexivity.
      + destruct (Config.idx "sift_type" d0) as [ty|e] eqn:Ei; ev; rewrite E; ev; rewrite Ei; ev.
        * reflexivity.
        * destruct e; try reflexivity; left; reflexivity.
    - ev. rewrite E. ev. left. reflexivity.
  Qed.

  (* FINDING 1: a top-level sequence that is not a sequence of dicts (`[]`, `[1, 2]`: the harness and the model call
     it DTree (Leaf (VList l))).  The code tests isinstance(cfg, list) and raises; Config.from_yaml_stream installs
     the list as the store with type Unknown. *)
  Theorem stream_list_leaf : forall (cls : cv Y) (text : Y) (l : list Config.val) (f : nat),
    load text = Some (Config.DTree (Config.Leaf (Config.VList l))) ->
    exec P prog_from_yaml_stream f (from_stream_env0 Y cls text)
    = Raise (match l with [] => "IndexError" | _ => "TypeError" end)
    /\ Config.from_yaml_stream Y load text
       = Config.Ok (Config.Leaf (Config.VStr Config.UNKNOWN), Config.DTree (Config.Leaf (Config.VList l))).
  Proof.
    intros cls text l f E. split.
    - destruct l; ev; rewrite E; ev; reflexivity.
    - unfold Config.from_yaml_stream. rewrite E. reflexivity.
  Qed.

  (* FINDING 2 (error class only): a one-element sequence whose element has no 'sift_type': the code raises the
     lookup's KeyError / TypeError (cfg[0]['sift_type'] comes before cfg[1]), the model says EYaml *)
  Theorem stream_short_pair : forall (cls : cv Y) (text : Y) (d0 : Config.tree) (e : Config.err) (f : nat),
    load text = Some (Config.DSeq [d0]) -> Config.idx "sift_type" d0 = Config.Err e ->
    exec P prog_from_yaml_stream f (from_stream_env0 Y cls text) = Raise (err_name e)
    /\ Config.from_yaml_stream Y load text = Config.Err Config.EYaml.
  Proof.
    intros cls text d0 e f E Ei. split.
    - ev. rewrite E. ev. rewrite Ei. ev. reflexivity.
    - unfold Config.from_yaml_stream. rewrite E. reflexivity.
  Qed.
End Yaml.

(* ================================================================================================ *)
(* _array_or_tuple_to_list                                                                            *)
(* ================================================================================================ *)
(* one entry of the converted copy *)
Definition lf (kt : string * Config.tree) : string * Config.tree := (fst kt, Config.listify (snd kt)).
Definition lf_step (o : list (string * Config.tree)) (kt : string * Config.tree) : list (string * Config.tree) :=
  Config.aset (fst kt) (Config.listify (snd kt)) o.

Lemma aset_fresh : forall k v l, ~ In k (map fst l) -> Config.aset k v l = (l ++ [(k, v)])%list.
Proof.
  intros k v l. induction l as [|[k' t] r IH]; intros H; cbn [Config.aset app]; [reflexivity|].
  cbn [map fst In] in H. destruct (String.eqb k k') eqn:E.
  - apply String.eqb_eq in E. subst k'. exfalso. apply H. left. reflexivity.
  - rewrite IH; [reflexivity|]. intros Hin. apply H. right. exact Hin.
Qed.

Lemma lf_fold : forall rest done, NoDup (map fst (done ++ rest)) ->
  fold_left lf_step rest (map lf done) = map lf (done ++ rest).
Proof.
  induction rest as [|[k c] rest IH]; intros done H.
  - rewrite app_nil_r. reflexivity.
  - cbn [fold_left]. unfold lf_step at 2. cbn [fst snd].
    rewrite aset_fresh.
    + replace (map lf done ++ [(k, Config.listify c)])%list with (map lf (done ++ [(k, c)])).
      * rewrite IH; rewrite <- app_assoc; [reflexivity | exact H].
      * rewrite map_app. reflexivity.
    + rewrite map_map. cbn [lf fst]. rewrite map_app in H. apply NoDup_remove_2 in H.
      intros Hin. apply H. apply in_or_app. left. exact Hin.
Qed.

Lemma listify_node : forall kids, Config.listify (Config.Node kids) = Config.Node (map lf kids).
Proof.
  intros kids. cbn [Config.listify]. f_equal. apply map_ext. intros [k c]. reflexivity.
Qed.

Section Listify.
  Variable Y : Type.
  Local Notation P := (listify_prims Y).
  Variable kids : list (string * Config.tree).       (* conf *)

  Definition listify_head (o : list (string * Config.tree)) (junk : string -> option (cv Y)) : env (cval Y) :=
    env_of listify_names
      (overlay [ ("conf", tree_val Y (Config.Node kids)); ("out", tree_val Y (Config.Node o)) ] junk).

  (* one iteration: the entry (k, c) *)
  Lemma listify_step : forall fb k c o junk,
    exists e2, exec P listify_body fb (upd "(key, val)" (item_val Y (k, c)) (listify_head o junk)) = Normal e2 /\
               e2 = listify_head (lf_step o (k, c)) (fun x => lookup x e2).
  Proof.
    intros fb k c o junk. unfold listify_head, lf_step. cbn [fst snd].
    destruct c as [v|g]; [destruct v|]; cbn [Config.listify Config.listify_val];
      eexists; (split; [ev; reflexivity | ev; reflexivity]).
  Qed.

  Lemma listify_loop : forall fb rest o junk,
    exists junk', for_loop "(key, val)" (fun e' => exec P listify_body fb e') (map (item_val Y) rest) (listify_head o junk)
                  = Normal (listify_head (fold_left lf_step rest o) junk').
  Proof.
    intros fb rest. induction rest as [|[k c] rest IH]; intros o junk.
    - exists junk. reflexivity.
    - cbn [map]. rewrite for_loop_cons.
      destruct (listify_step fb k c o junk) as (e2 & H2 & He2). rewrite H2. rewrite He2.
      destruct (IH (lf_step o (k, c)) (fun x => lookup x e2)) as (junk' & Hl).
      exists junk'. rewrite Hl. reflexivity.
  Qed.

  Theorem skeleton_listify : forall (f : nat), NoDup (map fst kids) ->
    exec P prog_array_or_tuple_to_list f (listify_env0 Y (Config.Node kids))
    = Return (tree_val Y (Config.listify (Config.Node kids))).
  Proof.
    intros f Hnd.
    rewrite (exec_nth_split _ P prog_array_or_tuple_to_list 1 listify_for f _ eq_refl).
    change (firstn 1 (spine prog_array_or_tuple_to_list)) with listify_pre.
    change (skipn 2 (spine prog_array_or_tuple_to_list)) with listify_post.
    assert (Hpre : exec_list P listify_pre f (listify_env0 Y (Config.Node kids))
                   = Normal (listify_head [] (fun _ => None))).
    { unfold listify_head. ev. reflexivity. }
    rewrite Hpre. unfold listify_for. rewrite exec_for.
    assert (Hit : bind (eval P (listify_head [] (fun _ => None)) (ECall "conf.items()" [EVar "conf"] [])) (iter_list P)
                  = Ok (map (item_val Y) kids)) by (unfold listify_head; ev; reflexivity).
    rewrite Hit.
    destruct (listify_loop f kids [] (fun _ => None)) as (junk' & Hloop).
    match goal with |- context [for_loop _ (fun e' => exec P ?b f e')] => change b with listify_body end.
    rewrite Hloop.
    change (@nil (string * Config.tree)) with (map lf []). rewrite (lf_fold kids [] Hnd). cbn [app].
    rewrite listify_node. unfold listify_head. ev. reflexivity.
  Qed.

  (* a non-dict argument: conf.items() raises *)
  Theorem listify_not_a_dict : forall (v : Config.val) (f : nat),
    exec P prog_array_or_tuple_to_list f (listify_env0 Y (Config.Leaf v)) = Raise "AttributeError".
  Proof. intros v f. ev. reflexivity. Qed.
End Listify.

Section GetFunc.
  Variable Y : Type.
  Theorem skeleton_get_func : forall (ty : Config.tree) (st : Config.ydoc) (f : nat),
    exec (func_prims Y) prog_get_func f (func_env0 Y ty st) = func_render Y ty st.
  Proof. intros ty st f. ev. reflexivity. Qed.
End GetFunc.
