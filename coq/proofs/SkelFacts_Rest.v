(* Proofs of the control-skeleton tie "rest" (notes/TIE_REST.md): model/SkelPrims_Rest.v vs the generated programs. *)
From Coq Require Import String List Bool Arith ZArith QArith Qcanon Lia.
From EmdV Require Import lib.PyLoop lib.PyLoopTools gen.Gen_Skel_Rest gen.Gen_Skel_Restspectra gen.Gen_Skel_Restcycles
     model.SkelPrims_Rest.
From EmdV Require model.Config gen.Gen_Defaults model.Freq proofs.FreqFacts model.CycleStat.
Close Scope Q_scope.
Close Scope Z_scope.
Open Scope nat_scope.
Import ListNotations.
Open Scope string_scope.

(* ================================================================================================== *)
(* 1a. _get_function_opts: the loop, for every table, function and ignore list                          *)
(* ================================================================================================== *)
Section OptsTie.
  Variable sigs : Config.sigtab.
  Local Notation P := (opts_prims sigs).

  Definition opts_pre : list stmt := Eval cbv in firstn 3 (spine prog_get_function_opts).
  Definition opts_for : stmt := Eval cbv in nth 3 (spine prog_get_function_opts) SSkip.
  Definition opts_post : list stmt := Eval cbv in skipn 4 (spine prog_get_function_opts).
  Definition opts_body : stmt := Eval cbv in match opts_for with SFor _ _ b => b | _ => SSkip end.

  Ltac ev :=
    cbv beta iota zeta delta
        [exec final_env eval eval_truth bind map_res truthy do_cmp do_arith do_index nat_cmp nat_arith iter_list
         upd lookup env_of assign_all cmp_name ar_name frame overlay normal_env
         try_finish try_finish_env exn_matches
         opts_prims prims_of table_lookup opts_table keys_are is_opaque0 tagged1 const builtin tree_val fn_val
         opts_names opts_env0 params_get_function_opts opts_pre opts_for opts_post opts_body exec_list
         String.eqb Ascii.eqb Bool.eqb fst snd nth_error andb negb orb].
  Ltac ev1 := ev; repeat (progress (cbn [Nat.eqb]; oracle_rw); ev).

  Lemma strs_map : forall l, strs (map (@VStr rval) l) = Some l.
  Proof. induction l as [|a t IH]; [reflexivity|]. cbn [map strs]. rewrite IH. reflexivity. Qed.

  (* the environment between iterations: out = Node o *)
  Definition opts_head (fn : string) (ign : list string) (o : list (string * Config.tree))
             (junk : string -> option rv) : env rval :=
    env_of opts_names
      (overlay [ ("func", fn_val fn); ("ignore", strs_val ign); ("out", tree_val (Config.Node o));
                 ("sig", VOpaque "signature" [VStr fn]) ] junk).

  Lemma fold_opts_none : forall fn ign ps, fold_left (opts_step sigs fn ign) ps None = None.
  Proof. intros fn ign ps. induction ps as [|p t IH]; [reflexivity|]. exact IH. Qed.

  (* one iteration on parameter p *)
  Lemma opts_step_exec : forall fb fn ign o o' p junk,
    opts_step sigs fn ign (Some o) p = Some o' ->
    exists e2, exec P opts_body fb (upd "p" (VStr p) (opts_head fn ign o junk)) = Normal e2 /\
               e2 = opts_head fn ign o' (fun x => lookup x e2).
  Proof.
    intros fb fn ign o o' p junk H. unfold opts_step in H. unfold opts_head, strs_val.
    destruct (Config.amem p o) eqn:Em; cbn [negb andb] in H.
    - injection H as <-. eexists. split; [ev1; reflexivity | ev; reflexivity].
    - destruct (Config.mem_str p ign) eqn:Ei; cbn [negb] in H.
      + injection H as <-. eexists. split.
        * ev1. rewrite strs_map. ev1. reflexivity.
        * ev. reflexivity.
      + destruct (Config.lookup p (Config.params sigs fn)) as [[t|]|] eqn:El; try discriminate H.
        injection H as <-. eexists. split.
        * ev1. rewrite strs_map. ev1. reflexivity.
        * ev. reflexivity.
  Qed.

  Lemma opts_loop : forall fb fn ign ps o o' junk,
    fold_left (opts_step sigs fn ign) ps (Some o) = Some o' ->
    exists junk', for_loop "p" (fun e' => exec P opts_body fb e') (map (@VStr rval) ps) (opts_head fn ign o junk)
                  = Normal (opts_head fn ign o' junk').
  Proof.
    intros fb fn ign ps. induction ps as [|p t IH]; intros o o' junk H.
    - cbn [fold_left] in H. injection H as <-. exists junk. reflexivity.
    - cbn [fold_left] in H.
      destruct (opts_step sigs fn ign (Some o) p) as [o1|] eqn:E1; [|rewrite fold_opts_none in H; discriminate H].
      destruct (opts_step_exec fb fn ign o o1 p junk E1) as (e2 & H2 & He2).
      cbn [map]. rewrite for_loop_cons. rewrite H2. rewrite He2. exact (IH o1 o' _ H).
  Qed.

  Theorem skeleton_get_function_opts : forall fn ign o f,
    fn_opts sigs fn (ignore_list ign) = Some o ->
    exec P prog_get_function_opts f (opts_env0 fn ign) = Return (tree_val (Config.Node o)).
  Proof.
    intros fn ign o f H.
    rewrite (exec_nth_split rval P prog_get_function_opts 3 opts_for f _ eq_refl).
    change (firstn 3 (spine prog_get_function_opts)) with opts_pre.
    change (skipn 4 (spine prog_get_function_opts)) with opts_post.
    assert (Hpre : exec_list P opts_pre f (opts_env0 fn ign)
                   = Normal (opts_head fn (ignore_list ign) [] (fun _ => None))).
    { unfold opts_head, strs_val. destruct ign as [l|]; cbn [ignore_list ignore_val].
      - unfold strs_val. destruct l; ev1; reflexivity.
      - ev1. reflexivity. }
    rewrite Hpre. unfold opts_for. rewrite exec_for.
    assert (Hit : bind (eval P (opts_head fn (ignore_list ign) [] (fun _ => None))
                          (ECall "sig.parameters" [EVar "sig"] [])) (iter_list P)
                  = Ok (map (@VStr rval) (map fst (Config.params sigs fn))))
      by (unfold opts_head; ev; reflexivity).
    rewrite Hit.
    destruct (opts_loop f fn (ignore_list ign) _ [] o (fun _ => None) H) as (junk' & Hloop).
    match goal with |- context [for_loop "p" (fun e' => exec P ?b f e')] => change b with opts_body end.
    rewrite Hloop. unfold opts_head. ev1. reflexivity.
  Qed.

  (* a required parameter that is not ignored: the dict would hold inspect.Parameter.empty - outside the value type *)
End OptsTie.

(* ================================================================================================== *)
(* 1b. get_config over the regenerated tables (Gen_Defaults.sig_defaults / config_trees / undefined_variants) *)
(* ================================================================================================== *)
Section ConfigTie.
  Local Notation SIGS := Gen_Defaults.sig_defaults.
  Local Notation P := (config_prims Gen_Defaults.sig_defaults Gen_Defaults.undefined_variants).

  (* every variant of the table: the whole body, by computation (no while loop: the fuel is never looked at) *)
  Theorem skeleton_get_config : forall v t f, In (v, t) Gen_Defaults.config_trees ->
    exec P prog_get_config f (config_env0 v) = Return (cfg_val v t).
  Proof.
    intros v t f H. unfold Gen_Defaults.config_trees in H. cbn [In] in H.
    repeat (destruct H as [H|H]; [injection H as <- <-; vm_compute; reflexivity|]).
    contradiction.
  Qed.

  (* the names get_config lists but the module does not define: getattr raises *)
  Theorem skeleton_get_config_undefined : forall v f, In v Gen_Defaults.undefined_variants ->
    exec P prog_get_config f (config_env0 v) = Raise "AttributeError".
  Proof.
    intros v f H. unfold Gen_Defaults.undefined_variants in H. cbn [In] in H.
    repeat (destruct H as [H|H]; [subst v; vm_compute; reflexivity|]).
    contradiction.
  Qed.

  (* every listed name is one or the other *)
  Theorem sift_types_covered : forall s, In s SIFT_TYPES ->
    (exists t, In (s, t) Gen_Defaults.config_trees) \/ In s Gen_Defaults.undefined_variants.
  Proof.
    intros s H. unfold SIFT_TYPES in H. cbn [In] in H.
    repeat (destruct H as [H|H];
            [subst s; first [ left; eexists; unfold Gen_Defaults.config_trees; cbn [In];
                              repeat (first [left; reflexivity | right]); fail
                            | right; unfold Gen_Defaults.undefined_variants; cbn [In]; tauto ]|]).
    contradiction.
  Qed.
  Ltac evc :=
    cbv beta iota zeta delta
        [exec final_env eval eval_truth bind map_res truthy do_cmp do_arith do_index nat_cmp nat_arith iter_list
         upd lookup env_of assign_all cmp_name ar_name frame overlay normal_env
         config_prims prims_of table_lookup config_table keys_are is_opaque0 tagged1 const builtin tree_val fn_val strs
         config_names config_env0 params_get_config prog_get_config
         String.eqb Ascii.eqb Bool.eqb fst snd nth_error andb negb orb].

  (* any other name: the else branch raises AttributeError (after the three stage dicts were built) *)
  Theorem skeleton_get_config_unknown : forall s f, Config.mem_str s SIFT_TYPES = false ->
    exec P prog_get_config f (config_env0 s) = Raise "AttributeError".
  Proof.
    intros s f H. unfold SIFT_TYPES in H.
    destruct (fn_opts SIGS "get_padded_extrema" ["X"; "mag_pad_opts"; "loc_pad_opts"; "mode"]) as [o1|] eqn:E1;
      [|vm_compute in E1; discriminate E1].
    destruct (fn_opts SIGS "interp_envelope" ["X"; "extrema_opts"; "mode"; "ret_extrema"]) as [o2|] eqn:E2;
      [|vm_compute in E2; discriminate E2].
    destruct (fn_opts SIGS "get_next_imf" ["X"; "envelope_opts"; "extrema_opts"]) as [o3|] eqn:E3;
      [|vm_compute in E3; discriminate E3].
    evc. rewrite E1. evc. rewrite E2. evc. rewrite E3. evc. rewrite H. evc. reflexivity.
  Qed.
  (* ---- the missing comma of `ignore=['X', 'imf_opts' 'envelope_opts', 'extrema_opts']` ---- *)
  (* what the code does: the variant's own options still contain imf_opts / envelope_opts (None, from the def line) ... *)
  Theorem missing_comma_visible : forall v t, In (v, t) Gen_Defaults.config_trees ->
    exists so so',
      fn_opts SIGS v VARIANT_IGNORE_AS_WRITTEN = Some so /\
      Config.aget "imf_opts" so = Some (Config.Leaf Config.VNone) /\
      Config.aget "envelope_opts" so = Some (Config.Leaf Config.VNone) /\
      Config.amem "extrema_opts" so = false /\
      fn_opts SIGS v VARIANT_IGNORE_INTENDED = Some so' /\
      Config.amem "imf_opts" so' = false /\ Config.amem "envelope_opts" so' = false.
  Proof.
    intros v t H. unfold Gen_Defaults.config_trees in H. cbn [In] in H.
    repeat (destruct H as [H|H];
            [injection H as <- <-; eexists; eexists; repeat split; vm_compute; reflexivity|]).
    contradiction.
  Qed.

  (* ... and the three `out[...] =` lines overwrite them, in place: the store is what the intended list gives *)
  Theorem missing_comma_harmless : forall v t, In (v, t) Gen_Defaults.config_trees ->
    config_model SIGS VARIANT_IGNORE_AS_WRITTEN v = Some (Config.Ok t) /\
    config_model SIGS VARIANT_IGNORE_INTENDED v = Some (Config.Ok t).
  Proof.
    intros v t H. unfold Gen_Defaults.config_trees in H. cbn [In] in H.
    repeat (destruct H as [H|H]; [injection H as <- <-; split; vm_compute; reflexivity|]).
    contradiction.
  Qed.

  (* the three stage dicts are the model's stage parameters (Config.stage_names with IMF_SKIP / ENV_SKIP / EXT_SKIP,
     the lists effective_options uses) with the defaults of the def lines: the ignore lists agree *)
  Definition stage_dict (fn : string) (skip : list string) : list (string * Config.tree) :=
    map (fun p => (p, Config.sig_default SIGS fn p)) (Config.stage_names SIGS fn skip).
  Theorem stage_dicts_are_stage_names :
    fn_opts SIGS "get_next_imf" ["X"; "envelope_opts"; "extrema_opts"] = Some (stage_dict "get_next_imf" Config.IMF_SKIP) /\
    fn_opts SIGS "interp_envelope" ["X"; "extrema_opts"; "mode"; "ret_extrema"]
      = Some (stage_dict "interp_envelope" Config.ENV_SKIP) /\
    fn_opts SIGS "get_padded_extrema" ["X"; "mag_pad_opts"; "loc_pad_opts"; "mode"]
      = Some (stage_dict "get_padded_extrema" Config.EXT_SKIP).
  Proof. repeat split; vm_compute; reflexivity. Qed.
End ConfigTie.

(* ================================================================================================== *)
(* 2. spectra.quadrature_transform                                                                      *)
(* ================================================================================================== *)
Section QuadTie.
  Variable qsqrt : Qc -> Qc.
  Variable env_comb : list Qc -> option (list Qc).
  Variable thresh : Qc.
  Local Notation P := (quad_prims qsqrt env_comb thresh).
  Local Notation nrm := (fun c => map Freq.clip1 (Freq.amplitude_normalise env_comb thresh c)).

  Definition quad_pre : list stmt := Eval cbv in firstn 4 (spine prog_quadrature_transform).
  Definition quad_post : list stmt := Eval cbv in skipn 4 (spine prog_quadrature_transform).

  Ltac evq :=
    cbv beta iota zeta delta
        [exec final_env eval eval_truth bind map_res truthy do_cmp do_arith do_index nat_cmp nat_arith iter_list
         upd lookup env_of assign_all cmp_name ar_name frame overlay normal_env
         quad_prims prims_of table_lookup quad_table keys_are is_opaque0
         quad_names quad_env0 params_quadrature_transform quad_pre quad_post exec_list
         String.eqb Ascii.eqb Bool.eqb fst snd nth_error andb negb orb].
  Ltac evq1 := evq; repeat (progress (cbn [Nat.eqb]; oracle_rw); evq).

  (* the code's mask of one normalised column before the last row is appended:
     ((diff > 0) * -2 + 1), then the entries equal to 0 replaced by -1 *)
  Definition code_mask (nx : list Qc) : list Qc :=
    map (fun v => if Qc_eq_bool v 0%Qc then (- (1))%Qc else v)
      (map (fun v => (v + 1)%Qc)
         (map (fun t : bool => if t then (- Freq.q2)%Qc else 0%Qc)
            (map (fun d => Freq.qltb 0%Qc d) (Freq.diffs nx)))).

  (* after `mask[mask == 0] = -1` *)
  Definition quad_mid (a : list (list Qc)) (junk : string -> option (val qv)) : env qv :=
    env_of quad_names
      (overlay [ ("X", VSig (QArr a)); ("nX", VSig (QArr (norm_arr env_comb thresh a)));
                 ("imagX", VSig (QArr (map2 (fun v => qsqrt (1 - v * v)%Qc) (norm_arr env_comb thresh a))));
                 ("mask", VSig (QArr (map code_mask (norm_arr env_comb thresh a)))) ] junk).

  Lemma map2_map : forall {A B C} (f : B -> C) (g : A -> list B) (l : list A),
    map2 f (map g l) = map (fun x => map f (g x)) l.
  Proof. intros. unfold map2. rewrite map_map. reflexivity. Qed.

  Lemma quad_pre_exec : forall a f,
    exec_list P quad_pre f (quad_env0 a) = Normal (quad_mid a (fun _ => None)).
  Proof.
    intros a f. unfold quad_mid. evq1.
    unfold code_mask, map2. rewrite !map_map. reflexivity.
  Qed.

  (* ---- list facts ---- *)
  Lemma zipw_map_same : forall {A B C D} (f : B -> C -> D) (g : A -> B) (h : A -> C) (l : list A),
    Freq.zipw f (map g l) (map h l) = map (fun x => f (g x) (h x)) l.
  Proof. intros. induction l as [|x t IH]; [reflexivity|]. cbn [map Freq.zipw]. rewrite IH. reflexivity. Qed.

  Lemma zipw_pair_combine : forall {A B} (a : list A) (b : list B), Freq.zipw pair a b = combine a b.
  Proof.
    intros A B a. induction a as [|x t IH]; intros [|y b]; try reflexivity.
    cbn [Freq.zipw combine]. rewrite IH. reflexivity.
  Qed.

  Lemma last_default : forall {A} (l : list A) (x y : A), l <> [] -> last l x = last l y.
  Proof.
    intros A l x y. induction l as [|a t IH]; intros H; [contradiction|].
    destruct t as [|b t']; [reflexivity|]. cbn [last] in *. apply IH. discriminate.
  Qed.

  Lemma qc_m2p1 : (- Freq.q2 + 1)%Qc = (- (1))%Qc.
  Proof. apply Qc_is_canon. reflexivity. Qed.
  Lemma qc_m1_ne0 : Qc_eq_bool (- (1))%Qc 0%Qc = false.
  Proof.
    destruct (Qc_eq_bool (- (1))%Qc 0%Qc) eqn:E; [|reflexivity].
    apply Qc_eq_bool_correct in E. apply (f_equal this) in E. vm_compute in E. discriminate E.
  Qed.
  Lemma qc_1_ne0 : Qc_eq_bool 1%Qc 0%Qc = false.
  Proof.
    destruct (Qc_eq_bool 1%Qc 0%Qc) eqn:E; [|reflexivity].
    apply Qc_eq_bool_correct in E. apply (f_equal this) in E. vm_compute in E. discriminate E.
  Qed.

  (* the arithmetic of the mask is the model's sign rule; `mask[mask == 0] = -1` never fires *)
  Lemma code_mask_signs : forall nx,
    code_mask nx = map (fun dd => if Freq.qltb 0%Qc dd then (- (1))%Qc else 1%Qc) (Freq.diffs nx).
  Proof.
    intros nx. unfold code_mask. rewrite !map_map. apply map_ext. intros dd.
    destruct (Freq.qltb 0%Qc dd).
    - rewrite qc_m2p1, qc_m1_ne0. reflexivity.
    - rewrite Qcplus_0_l, qc_1_ne0. reflexivity.
  Qed.

  Lemma existsb_map' : forall {A B} (f : B -> bool) (g : A -> B) l,
    existsb f (map g l) = existsb (fun x => f (g x)) l.
  Proof. intros. induction l as [|x t IH]; [reflexivity|]. cbn [map existsb]. rewrite IH. reflexivity. Qed.

  Lemma is_nil_map : forall {A B} (f : A -> B) l, is_nil (map f l) = is_nil l.
  Proof. intros A B f [|x t]; reflexivity. Qed.

  Lemma is_nil_diffs : forall c, is_nil (Freq.diffs c) = Nat.ltb (length c) 2.
  Proof. intros [|x [|y t]]; reflexivity. Qed.

  Lemma code_mask_nil : forall nx, is_nil (code_mask nx) = Nat.ltb (length nx) 2.
  Proof. intros nx. unfold code_mask. rewrite !is_nil_map. apply is_nil_diffs. Qed.

  Lemma short_mask : forall A, existsb is_nil (map code_mask A) = short_col A.
  Proof.
    intros A. unfold short_col. induction A as [|c t IH]; [reflexivity|].
    cbn [map existsb]. rewrite IH, code_mask_nil. reflexivity.
  Qed.

  (* one column: the code's composition is the model's quadrature *)
  Lemma quad_column : forall c, Nat.ltb (length (nrm c)) 2 = false ->
    Freq.zipw pair (nrm c)
      (Freq.zipw Qcmult (map (fun v => qsqrt (1 - v * v)%Qc) (nrm c))
                 (code_mask (nrm c) ++ [last (code_mask (nrm c)) 0%Qc])%list)
    = Freq.quadrature qsqrt env_comb thresh c.
  Proof.
    intros c Hc. unfold Freq.quadrature, Freq.quad_mask. cbv zeta.
    rewrite zipw_pair_combine. rewrite code_mask_signs.
    set (d := map (fun dd => if Freq.qltb 0%Qc dd then (- (1))%Qc else 1%Qc) (Freq.diffs (nrm c))).
    rewrite (last_default d 0%Qc 1%Qc); [reflexivity|].
    intro E. assert (H : is_nil d = true) by (rewrite E; reflexivity).
    unfold d in H. rewrite is_nil_map, is_nil_diffs in H. cbv beta in Hc, H. rewrite Hc in H. discriminate H.
  Qed.

  Theorem skeleton_quadrature_transform : forall a f,
    exec P prog_quadrature_transform f (quad_env0 a)
    = quad_render qsqrt env_comb thresh (short_col (norm_arr env_comb thresh a)) a.
  Proof.
    intros a f. rewrite exec_spine.
    change (spine prog_quadrature_transform) with (quad_pre ++ quad_post)%list.
    rewrite exec_list_app, quad_pre_exec. unfold quad_mid.
    pose proof (short_mask (norm_arr env_comb thresh a)) as Hs.
    destruct (short_col (norm_arr env_comb thresh a)) eqn:Es; unfold quad_render.
    - evq1. reflexivity.
    - evq1. do 3 f_equal.
      unfold zip2, map2, norm_arr. rewrite !map_map.
      rewrite (zipw_map_same (Freq.zipw Qcmult)). rewrite (zipw_map_same (Freq.zipw pair)).
      apply map_ext_in. intros c Hin. apply quad_column.
      unfold short_col, norm_arr in Es. rewrite existsb_map' in Es.
      destruct (Nat.ltb (length (nrm c)) 2) eqn:El; [|reflexivity].
      assert (Hex : existsb (fun c0 => Nat.ltb (length (nrm c0)) 2) a = true)
        by (apply existsb_exists; exists c; split; [exact Hin | exact El]).
      rewrite Hex in Es. discriminate Es.
  Qed.

  (* with the shape contract of the envelope oracle (an envelope has the length of its signal) the normalised array
     has the shape of the input: the IndexError is exactly "a column of X has fewer than 2 samples" - the row of
     quadrature_transform in the table of the freq tie (SkelPrims_Freq.h_quadrature) *)
  Lemma short_norm : (forall x e, env_comb x = Some e -> length e = length x) ->
    forall a, short_col (norm_arr env_comb thresh a) = short_col a.
  Proof.
    intros Hlen a. unfold short_col, norm_arr. rewrite existsb_map'.
    induction a as [|c t IH]; [reflexivity|]. cbn [existsb]. rewrite IH, map_length.
    rewrite (FreqFacts.normalise_length env_comb thresh Hlen). reflexivity.
  Qed.

  Theorem skeleton_quadrature_transform_input :
    (forall x e, env_comb x = Some e -> length e = length x) ->
    forall a f, exec P prog_quadrature_transform f (quad_env0 a) = quad_render qsqrt env_comb thresh (short_col a) a.
  Proof. intros Hlen a f. rewrite skeleton_quadrature_transform, (short_norm Hlen). reflexivity. Qed.
End QuadTie.

(* ================================================================================================== *)
(* 3. cycles.phase_align                                                                                *)
(* ================================================================================================== *)
Section AlignTie.
  Variable pairs : pmode -> list (nat * option (list nat)).
  Variable nsamples niters : nat.
  Variable grid edges : pmode -> nat -> list Q.
  Variable unwrap : list Q -> list Q.
  Variable tau : Q.
  Local Notation P := (align_prims pairs nsamples niters grid edges unwrap tau).
  Local Notation step := (align_step grid unwrap tau).
  Local Notation fold := (align_fold grid unwrap tau).

  Definition align_pre : list stmt := Eval cbv in firstn 12 (spine prog_phase_align).
  Definition align_for : stmt := Eval cbv in nth 12 (spine prog_phase_align) SSkip.
  Definition align_post : list stmt := Eval cbv in skipn 13 (spine prog_phase_align).
  Definition align_body : stmt := Eval cbv in match align_for with SFor _ _ b => b | _ => SSkip end.
  Definition align_target : string := Eval cbv in match align_for with SFor x _ _ => x | _ => "" end.

  Definition nc_env (o : outcome pval) : option (env pval) :=
    match o with Normal e | Continue e => Some e | _ => None end.

  Ltac eva :=
    cbv beta iota zeta delta
        [exec final_env eval eval_truth bind map_res truthy do_cmp do_arith do_index nat_cmp nat_arith iter_list
         upd lookup env_of assign_all cmp_name ar_name frame overlay normal_env nc_env
         align_prims prims_of table_lookup align_table keys_are is_opaque0 pmode_str pair_val cycles_val ii_val
         align_names align_env0 params_phase_align align_pre align_for align_post align_body align_target exec_list
         prog_phase_align
         String.eqb Ascii.eqb Bool.eqb fst snd nth_error andb negb orb].
  Ltac eva1 := eva; repeat (progress (cbn [Nat.eqb]; oracle_rw); eva).

  (* the environment between iterations: the mode has been SET on the cycles object, phase_bins is the grid of
     that mode, avg holds the columns computed so far *)
  Definition align_head (m : pmode) (ii : option nat) (ip x : list Q) (n : nat) (cols : list (list Q))
             (junk : string -> option (val pval)) : env pval :=
    env_of align_names
      (overlay [ ("ip", VSig (PVec ip)); ("x", VSig (PVec x)); ("cycles", VSig (PCyc (pmode_str m)));
                 ("npoints", VNat n); ("interp_kind", VStr "linear"); ("ii", ii_val ii);
                 ("mode", VStr (pmode_str m)); ("phase_bins", VSig (PVec (grid m n)));
                 ("avg", VSig (PMat cols)) ] junk).

  (* everything before the loop *)
  Lemma align_pre_exec : forall fb m ii ip x c n,
    Nat.eqb (length ip) (length x) = true -> Nat.eqb nsamples (length ip) = true ->
    exists e1, exec_list P align_pre fb (align_env0 ip x c n ii m) = Normal e1 /\
               e1 = align_head m ii ip x n (zeros n niters) (fun y => lookup y e1).
  Proof.
    intros fb m ii ip x c n Hxy Hns. unfold align_head.
    destruct m; destruct c as [m0|]; destruct ii as [i|];
      (eexists; split; [eva1; reflexivity | eva; reflexivity]).
  Qed.

  (* one pair yielded by the iterator *)
  Lemma align_step_exec : forall fb m ii ip x n cols pr junk,
    match step m ii ip x n cols pr with
    | Some cols' =>
        exists e2, nc_env (exec P align_body fb (upd align_target (pair_val pr) (align_head m ii ip x n cols junk)))
                   = Some e2 /\ e2 = align_head m ii ip x n cols' (fun y => lookup y e2)
    | None => exec P align_body fb (upd align_target (pair_val pr) (align_head m ii ip x n cols junk))
              = Raise "IndexError"
    end.
  Proof.
    intros fb m ii ip x n cols [c oinds] junk. unfold align_step, align_head, align_col, cycle_phase. cbn [fst snd].
    destruct ii as [i|]; [destruct (Nat.eqb c i) eqn:Eci|];
      (destruct oinds as [inds|]; [destruct (Nat.ltb c (length cols)) eqn:Elt|]);
      destruct m;
      first [ eexists; split; [eva1; reflexivity | eva; reflexivity] | eva1; reflexivity ].
  Qed.

  Lemma align_loop : forall fb m ii ip x n l cols junk,
    match fold m ii ip x n cols l with
    | Some cols' =>
        exists junk', for_loop align_target (fun e' => exec P align_body fb e') (map pair_val l)
                        (align_head m ii ip x n cols junk) = Normal (align_head m ii ip x n cols' junk')
    | None => for_loop align_target (fun e' => exec P align_body fb e') (map pair_val l)
                (align_head m ii ip x n cols junk) = Raise "IndexError"
    end.
  Proof.
    intros fb m ii ip x n l. induction l as [|pr t IH]; intros cols junk.
    - cbn [align_fold map]. exists junk. reflexivity.
    - cbn [align_fold map]. rewrite for_loop_cons.
      pose proof (align_step_exec fb m ii ip x n cols pr junk) as Hs.
      destruct (step m ii ip x n cols pr) as [cols1|].
      + destruct Hs as (e2 & H2 & He2).
        destruct (exec P align_body fb (upd align_target (pair_val pr) (align_head m ii ip x n cols junk)))
          as [e'|e'| | | |]; cbn [nc_env] in H2; try discriminate H2;
          injection H2 as ->; rewrite He2; apply IH.
      + rewrite Hs. reflexivity.
  Qed.

  Theorem skeleton_phase_align : forall m ii ip x c n f,
    exec P prog_phase_align f (align_env0 ip x c n ii m)
    = align_render pairs nsamples niters grid unwrap tau m ii ip x n.
  Proof.
    intros m ii ip x c n f. unfold align_render.
    destruct (Nat.eqb (length ip) (length x)) eqn:Hxy; cbn [negb].
    2: { destruct m; destruct c as [m0|]; destruct ii as [i|]; eva1; reflexivity. }
    destruct (Nat.eqb nsamples (length ip)) eqn:Hns; cbn [negb].
    2: { destruct m; destruct c as [m0|]; destruct ii as [i|]; eva1; reflexivity. }
    rewrite (exec_nth_split pval P prog_phase_align 12 align_for f _ eq_refl).
    change (firstn 12 (spine prog_phase_align)) with align_pre.
    change (skipn 13 (spine prog_phase_align)) with align_post.
    destruct (align_pre_exec f m ii ip x c n Hxy Hns) as (e1 & H1 & He1).
    rewrite H1, He1. unfold align_for. rewrite exec_for.
    assert (Hit : bind (eval P (align_head m ii ip x n (zeros n niters) (fun y => lookup y e1)) (EVar "cycles"))
                       (iter_list P) = Ok (map pair_val (pairs m)))
      by (unfold align_head; destruct m; eva; reflexivity).
    rewrite Hit.
    change "(cind, cycle_inds)" with align_target.
    match goal with |- context [for_loop align_target (fun e' => exec P ?b f e')] => change b with align_body end.
    pose proof (align_loop f m ii ip x n (pairs m) (zeros n niters) (fun y => lookup y e1)) as Hl.
    unfold phase_align_model.
    destruct (fold m ii ip x n (zeros n niters) (pairs m)) as [cols'|].
    - destruct Hl as (junk' & Hl). rewrite Hl. unfold align_head. destruct m; eva1; reflexivity.
    - rewrite Hl. reflexivity.
  Qed.
End AlignTie.
