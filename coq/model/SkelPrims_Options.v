(* Tie of model/Options.v (property C06) to the TEXT of emd/sift.py: definitions only.

   What is tied.  C06 is a statement about which option bundle is forwarded where.  gen/Gen_Skel_Options.v holds the
   translator's rendering of the whole bodies of the twelve functions that thread imf_opts / envelope_opts /
   extrema_opts, and their parameter lists.  This file defines
     1. a STATIC EXTRACTION over those terms: [sites_of prog params] walks the program once, in program order,
        with an abstract value per frame name ([aval]: "still the entry value of parameter p", "p after its
        fall-back `if not p: p = <literal>`", "None", "data", "a list of tuples (e1, .., ek)", "functools.partial(f,
        **kw)", "d with d['k'] possibly overwritten", "unknown") and returns every CALL SITE of a stage function / sift variant with the abstract values of
        its positional and keyword arguments ([site]).  Three syntactic forms are call sites: a direct call
        `f(args, k=v, **d)`; `pool.starmap(f, args)` where `args` is a comprehension of tuples (both are opaque
        TEXT for the translator - N7 - so the two texts are parsed here: [parse_tuple_comp], [parse_starmap]);
        and the same through `f = functools.partial(g, **frozen)`.
     2. Python's argument binding [bind_args params pos kws] against the callee's parameter list params_<callee>
        emitted by the translator (too many positionals, an unknown keyword, a keyword that is already bound
        positionally, a repeated keyword = TypeError = None).
     3. the DENOTATION of a bound site in the vocabulary of model/Options.v ([den_site]): entry value of
        parameter p = [arg fn kw p]; a fall-back is accepted only if the table gen/Gen_Defaults.fallbacks has the
        same parameter, the same test (`not p` / `p is None`) and a literal that PRINTS ([tree_repr]) to the text
        found in the program, and then denotes [fallback fn p _]; `**d` = [dict_kids]; anything unknown = no
        denotation (None), so a theorem about it cannot be proved.
   proofs/SkelFacts_Options.v computes (1)-(3) on the generated terms and proves that they are the bindings the
   call-site functions of model/Options.v encode.  This is a static comparison of program text, NOT an [exec]
   refinement: how often a site runs and with what data is not claimed here (ties Sift / Ensemble / Mask do that). *)
From Coq Require Import ZArith List Bool String Ascii Arith.
From EmdV Require Import lib.PyLoop model.Config gen.Gen_Defaults model.Options.
Import ListNotations.
Open Scope string_scope.

(* ------------------------------------------------------------------ text helpers *)
Fixpoint strip_prefix (p s : string) : option string :=
  match p with
  | EmptyString => Some s
  | String a p' => match s with
                   | String b s' => if Ascii.eqb a b then strip_prefix p' s' else None
                   | EmptyString => None
                   end
  end.

Fixpoint rev_string (l : list ascii) (acc : string) : string :=
  match l with [] => acc | a :: t => rev_string t (String a acc) end.

Definition is_open (a : ascii) : bool := Ascii.eqb a "(" || Ascii.eqb a "[" || Ascii.eqb a "{".
Definition is_close (a : ascii) : bool := Ascii.eqb a ")" || Ascii.eqb a "]" || Ascii.eqb a "}".

(* elements of a display up to its closing bracket: split at commas of depth 0, one blank after a comma dropped.
   [cur] = the current element reversed.  Returns the elements and the text after the closing bracket.
   Quotes are not interpreted (a bracket or comma inside a string literal would be miscounted). *)
Fixpoint scan_elems (s : string) (depth : nat) (cur : list ascii) (acc : list string) : option (list string * string) :=
  match s with
  | EmptyString => None
  | String a r =>
      if is_open a then scan_elems r (S depth) (a :: cur) acc
      else if is_close a then
        match depth with
        | O => Some (rev (rev_string cur "" :: acc), r)
        | S d => scan_elems r d (a :: cur) acc
        end
      else if Ascii.eqb a "," && Nat.eqb depth 0 then
        scan_elems (match r with String " " r' => r' | _ => r end) depth [] (rev_string cur "" :: acc)
      else scan_elems r depth (a :: cur) acc
  end.

(* "[(e1, .., ek) for ..." / "[[e1, .., ek] for ..."  ->  [e1; ..; ek] *)
Definition parse_tuple_comp (t : string) : option (list string) :=
  match t with
  | String "[" (String b r) =>
      if is_open b then
        match scan_elems r 0 [] [] with
        | Some (es, rest) => match strip_prefix " for " rest with Some _ => Some es | None => None end
        | None => None
        end
      else None
  | _ => None
  end.

(* the opaque form "<p>.starmap(<f>, <a>)" with its free variables [p; a] (f a global name) or [p; f; a] *)
Definition parse_starmap (text : string) (fvs : list expr) : option (expr * string) :=
  match fvs with
  | [EVar p; EVar a] =>
      let pre := p ++ ".starmap(" in
      let suf := ", " ++ a ++ ")" in
      let f := substring (String.length pre) (String.length text - String.length pre - String.length suf) text in
      if String.eqb text (pre ++ f ++ suf) then Some (ECall f [] [], a) else None
  | [EVar p; EVar f; EVar a] =>
      if String.eqb text (p ++ ".starmap(" ++ f ++ ", " ++ a ++ ")") then Some (EVar f, a) else None
  | _ => None
  end.

(* "<x>['<k>'] ="  ->  k   (N11: the store primitive of `x['k'] = v`) *)
Fixpoint until_quote (s : string) (cur : list ascii) : option (string * string) :=
  match s with
  | EmptyString => None
  | String a r => if Ascii.eqb a "'" then Some (rev_string cur "", r) else until_quote r (a :: cur)
  end.
Definition store_key (x text : string) : option string :=
  match strip_prefix (x ++ "['") text with
  | Some r => match until_quote r [] with
              | Some (k, rest) => if String.eqb rest "] =" then Some k else None
              | None => None
              end
  | None => None
  end.

(* "{'<k>': <one expression>}"  ->  k *)
Definition single_key_dict (t : string) : option string :=
  match t with
  | String "{" (String "'" r) =>
      match until_quote r [] with
      | Some (k, rest) =>
          match strip_prefix ": " rest with
          | Some v => match scan_elems v 0 [] [] with
                      | Some ([_], EmptyString) => Some k
                      | _ => None
                      end
          | None => None
          end
      | None => None
      end
  | _ => None
  end.

(* ------------------------------------------------------------------ abstract values *)
Inductive aval :=
| AParam (p : string)                                   (* the value parameter p had on entry *)
| AFb (by_truth : bool) (p : string) (a : aval) (lit : string)
                                                        (* a, after `if not p: p = lit` (true) / `if p is None: p = lit` (false) *)
| ANone                                                 (* the literal None *)
| AStr (s : string)                                     (* a string literal *)
| AData                                                 (* anything else that was computed: data, not a bundle *)
| ATuples (elems : list aval)                           (* [(e1, .., ek) for ii in range(..)] *)
| APartial (f : string) (kw : list (string * aval))     (* functools.partial(f, **kw) *)
| AEmpty                                                (* the dictionary {} *)
| AStore (k : string) (a : aval)                        (* a, possibly after a['k'] = .. *)
| ATop.                                                 (* unknown: two different values can arrive here *)

Fixpoint aval_eqb (a b : aval) : bool :=
  match a, b with
  | AParam p, AParam q => String.eqb p q
  | AFb t p x l, AFb t' p' x' l' => Bool.eqb t t' && String.eqb p p' && aval_eqb x x' && String.eqb l l'
  | ANone, ANone => true
  | AStr s, AStr s' => String.eqb s s'
  | AData, AData => true
  | ATuples l, ATuples l' =>
      (fix go (l l' : list aval) : bool :=
         match l, l' with
         | [], [] => true
         | x :: t, y :: t' => aval_eqb x y && go t t'
         | _, _ => false
         end) l l'
  | APartial f kw, APartial f' kw' =>
      String.eqb f f' &&
      (fix go (l l' : list (string * aval)) : bool :=
         match l, l' with
         | [], [] => true
         | (k, x) :: t, (k', y) :: t' => String.eqb k k' && aval_eqb x y && go t t'
         | _, _ => false
         end) kw kw'
  | AEmpty, AEmpty => true
  | AStore k x, AStore k' x' => String.eqb k k' && aval_eqb x x'
  | ATop, ATop => true
  | _, _ => false
  end.

(* least upper bound; "maybe stored" absorbs "not stored" (they agree on every other key) *)
Definition ajoin (a b : aval) : aval :=
  if aval_eqb a b then a
  else if match a with AStore _ x => aval_eqb x b | _ => false end then a
  else if match b with AStore _ y => aval_eqb a y | _ => false end then b
  else ATop.

Definition astate := list (string * aval).

Fixpoint aset (x : string) (a : aval) (st : astate) : astate :=
  match st with
  | [] => [(x, a)]
  | (y, b) :: t => if String.eqb x y then (y, a) :: t else (y, b) :: aset x a t
  end.
(* a name that is not in the frame is a global / builtin: data *)
Definition alookup (x : string) (st : astate) : aval :=
  match Config.lookup x st with Some a => a | None => AData end.

(* a name bound on one side only is unbound on the other: reading it there is an error, its value is the bound one *)
Definition merge (s1 s2 : astate) : astate :=
  (map (fun xa => (fst xa, match Config.lookup (fst xa) s2 with Some b => ajoin (snd xa) b | None => snd xa end)) s1
   ++ filter (fun xb => match Config.lookup (fst xb) s1 with Some _ => false | None => true end) s2)%list.

Definition kill (xs : list string) (st : astate) : astate := fold_left (fun s x => aset x ATop s) xs st.

Fixpoint astate_eqb (s1 s2 : astate) : bool :=
  match s1, s2 with
  | [], [] => true
  | (x, a) :: t, (y, b) :: t' => String.eqb x y && aval_eqb a b && astate_eqb t t'
  | _, _ => false
  end.

(* the state at the head of a loop whose body maps a head state to [body s]: the state before the loop joined with
   what one pass leaves, if a second pass adds nothing to it (then it contains the entry state and is closed
   under the body); otherwise every name the body assigns is unknown unless one pass from there restores it *)
Definition loop_head (body : astate -> astate) (assigned_names : list string) (st : astate) : astate :=
  let head1 := merge st (body st) in
  if astate_eqb (merge head1 (body head1)) head1 then head1
  else merge st (body (kill assigned_names st)).

(* ------------------------------------------------------------------ abstract evaluation of an expression *)
Definition elem_aval (st : astate) (t : string) : aval :=
  if String.eqb t "None" then ANone else alookup t st.

Definition aatom (st : astate) (e : expr) : aval :=
  match e with
  | EVar x => alookup x st
  | ENone => ANone
  | EStr s => AStr s
  | _ => AData
  end.

Definition aopaque (st : astate) (f : string) : aval :=
  match parse_tuple_comp f with
  | Some es => ATuples (map (elem_aval st) es)
  | None => match single_key_dict f with
            | Some k => AStore k AEmpty                                            (* {'k': v} = {} with d['k'] = v *)
            | None => AData
            end
  end.

Definition aeval (st : astate) (e : expr) : aval :=
  match e with
  | ECall f args kws =>
      if String.eqb f "functools.partial" then
        match args with
        | [ECall g [] []] => APartial g (map (fun ke => (fst ke, aatom st (snd ke))) kws)
        | _ => AData
        end
      else
        match args, kws with
        | [EVar x], [] =>
            if String.eqb f (x ++ ".copy()") then alookup x st                       (* a copy is the same options *)
            else
              (* `<lit> if x is None else dict(x)` *)
              let suf := " if " ++ x ++ " is None else dict(" ++ x ++ ")" in
              let lit := substring 0 (String.length f - String.length suf) f in
              if String.eqb f (lit ++ suf) then AFb false x (alookup x st) lit
              else aopaque st f
        | _, [] => aopaque st f
        | _, _ => AData
        end
  | _ => aatom st e
  end.

(* x = e;  `x['k'] = v` is the store primitive on x (N11) *)
Definition assign_aval (st : astate) (x : string) (e : expr) : aval :=
  match e with
  | ECall f (EVar y :: _) [] =>
      if String.eqb x y then
        match store_key x f with
        | Some k => match alookup x st with
                    | AStore k' a => if String.eqb k k' then AStore k' a else AStore k (AStore k' a)
                    | a => AStore k a
                    end
        | None => aeval st e
        end
      else aeval st e
  | _ => aeval st e
  end.

(* ------------------------------------------------------------------ call sites *)
Record site := { s_callee : string;                      (* the function that ends up being called *)
                 s_pos : list aval;                      (* positional arguments *)
                 s_kw : list (string * aval);            (* keywords in source order; key "**" = a **splat *)
                 s_guard : list (bool * expr) }.         (* enclosing `if` tests, innermost first, with the branch taken *)

(* the functions whose calls are collected *)
Definition CALLEES : list string :=
  ["sift"; "_sift_with_noise"; "ensemble_sift"; "complete_ensemble_sift"; "get_next_imf_mask"; "get_mask_freqs";
   "mask_sift"; "sift_second_layer"; "mask_sift_second_layer"; "get_next_imf"; "interp_envelope";
   "get_padded_extrema"; "sift_func"; "np.pad"].

Definition through_partial (st : astate) (f : string) : string * list (string * aval) :=
  match Config.lookup f st with
  | Some (APartial g kw) => (g, kw)
  | _ => (f, [])
  end.

Section Sites.
  Variable st : astate.
  Variable g : list (bool * expr).

  Definition direct_site (f : string) (args : list expr) (kws : list (string * expr)) : site :=
    let (callee, frozen) := through_partial st f in
    {| s_callee := callee; s_pos := map (aeval st) args;
       s_kw := (map (fun ke => (fst ke, aeval st (snd ke))) kws ++ frozen)%list; s_guard := g |}.

  Definition starmap_site (c : expr) (a : string) : site :=
    let (callee, frozen) := match c with
                            | ECall f [] [] => (f, [])
                            | EVar x => through_partial st x
                            | _ => ("<unknown>", [])
                            end in
    {| s_callee := callee;
       s_pos := match alookup a st with ATuples es => es | _ => [ATop] end;
       s_kw := frozen; s_guard := g |}.

  (* every call inside e, inner calls first.  `ECall f [] []` of a callee is a call with no arguments or the
     name read in value position (N15): both are reported (as a site with no arguments), except as the function
     argument of functools.partial, where the partial itself is followed instead. *)
  Fixpoint esites (e : expr) : list site :=
    match e with
    | ECall f args kws =>
        ((if String.eqb f "functools.partial" then match args with [] => [] | _ :: t => flat_map esites t end
          else flat_map esites args)
         ++ flat_map (fun ke => match ke with (_, x) => esites x end) kws
         ++ (if mem_str f CALLEES then [direct_site f args kws]
             else match parse_starmap f args with
                  | Some (c, a) => [starmap_site c a]
                  | None => []
                  end))%list
    | EIsNone a | ENot a => esites a
    | EOr a b | EAnd a b | ECmp _ a b | EArith _ a b | EIndex a b => (esites a ++ esites b)%list
    | EList es => flat_map esites es
    | _ => []
    end.
End Sites.

(* `if not p: p = <lit>` [else: p = p.copy()]  /  `if p is None: p = <lit>` *)
Definition fallback_shape (c : expr) (a b : stmt) : option (bool * string * string) :=
  match c, a with
  | ENot (EVar p), SAssign q (ECall lit [] []) =>
      if String.eqb p q then
        match b with
        | SSkip => Some (true, p, lit)
        | SAssign q' (ECall cp [EVar q''] []) =>
            if String.eqb p q' && String.eqb p q'' && String.eqb cp (p ++ ".copy()") then Some (true, p, lit) else None
        | _ => None
        end
      else None
  | EIsNone (EVar p), SAssign q (ECall lit [] []) =>
      if String.eqb p q then match b with SSkip => Some (false, p, lit) | _ => None end else None
  | _, _ => None
  end.

(* `if p is None: p = {'k': v}` else: `p = p.copy(); [p['k'] = v]`  =  (p, or {} if it is None) with 'k' possibly stored *)
Definition if_none_join (c : expr) (st s1 s2 m : astate) : astate :=
  match c with
  | EIsNone (EVar p) =>
      match Config.lookup p s1, Config.lookup p s2 with
      | Some (AStore k AEmpty), Some (AStore k' x) =>
          if String.eqb k k' && aval_eqb x (alookup p st) then aset p (AStore k (AFb false p x "{}")) m else m
      | _, _ => m
      end
  | _ => m
  end.

(* one pass in program order.  Loops: the names the body assigns are unknown at the head unless the body
   leaves in them what was there before the loop ([loop_head]). *)
Fixpoint walk (s : stmt) (g : list (bool * expr)) (st : astate) : list site * astate :=
  match s with
  | SSkip | SContinue => ([], st)
  | SAssign x e => (esites st g e, aset x (assign_aval st x e) st)
  | SUnpack xs e => (esites st g e, fold_left (fun s x => aset x AData s) xs st)
  | SSeq a b =>
      let (l1, s1) := walk a g st in
      let (l2, s2) := walk b g s1 in ((l1 ++ l2)%list, s2)
  | SIf c a b =>
      match fallback_shape c a b with
      | Some (bt, p, lit) => (esites st g c, aset p (AFb bt p (alookup p st) lit) st)
      | None =>
          let (l1, s1) := walk a ((true, c) :: g) st in
          let (l2, s2) := walk b ((false, c) :: g) st in
          ((esites st g c ++ l1 ++ l2)%list, if_none_join c st s1 s2 (merge s1 s2))
      end
  | SWhile c body =>
      let head := loop_head (fun s => snd (walk body g s)) (assigned body []) st in
      let (l, _) := walk body g head in ((esites head g c ++ l)%list, head)
  | SFor x it body =>
      let head := loop_head (fun s => snd (walk body g (aset x AData s))) (x :: assigned body []) st in
      let (l, _) := walk body g (aset x AData head) in ((esites st g it ++ l)%list, aset x AData head)
  | SRaise _ args => (flat_map (esites st g) args, st)
  | SReturn e | SExpr e => (esites st g e, st)
  | STry b hs f =>                                      (* none of the tied functions has one: nothing is known after it *)
      let (l1, s1) := walk b g st in
      let (l2, s2) := walk f g (kill (map fst s1) s1) in ((l1 ++ l2)%list, s2)
  end.

Definition entry_state (params : list string) : astate := map (fun p => (p, AParam p)) params.
Definition sites_of (prog : stmt) (params : list string) : list site := fst (walk prog [] (entry_state params)).
Definition sites_to (callee : string) (l : list site) : list site := filter (fun s => String.eqb (s_callee s) callee) l.

(* ------------------------------------------------------------------ Python's argument binding *)
Fixpoint keys_nodup (l : list string) : bool :=
  match l with [] => true | k :: t => negb (mem_str k t) && keys_nodup t end.

Definition bind_args (params : list string) (pos : list aval) (kws : list (string * aval))
  : option (list (string * aval)) :=
  if (List.length params <? List.length pos)%nat then None                  (* too many positional arguments *)
  else
    let bound := firstn (List.length pos) params in
    let named := filter (fun k => negb (String.eqb k "**")) (map fst kws) in
    if forallb (fun k => mem_str k params && negb (mem_str k bound)) named   (* unexpected keyword / multiple values *)
       && keys_nodup named                                                    (* keyword argument repeated *)
    then Some (combine bound pos ++ kws)%list
    else None.

(* ------------------------------------------------------------------ printing a literal the way ast.unparse does *)
Definition digit (n : nat) : string := String (ascii_of_nat (48 + n)) "".
Fixpoint nat_dec (fuel n : nat) : string :=
  match fuel with
  | O => "?"
  | S f => if (n <? 10)%nat then digit n else nat_dec f (n / 10) ++ digit (n mod 10)
  end.
Definition z_repr (z : Z) : string :=
  match z with
  | Z0 => "0"
  | Zpos _ => nat_dec 20 (Z.to_nat z)
  | Zneg _ => "-" ++ nat_dec 20 (Z.to_nat (Z.opp z))
  end.
Definition val_repr (v : Config.val) : string :=
  match v with
  | Config.VNone => "None"
  | Config.VBool true => "True"
  | Config.VBool false => "False"
  | Config.VInt z => z_repr z
  | Config.VFloat r => r
  | Config.VStr s => "'" ++ s ++ "'"
  | _ => "<unsupported>"                                 (* no fall-back literal holds a list / tuple / array *)
  end.
Fixpoint tree_repr (t : tree) : string :=
  match t with
  | Leaf v => val_repr v
  | Node kids =>
      "{" ++ (fix go (l : list (string * tree)) : string :=
                match l with
                | [] => ""
                | [(k, c)] => "'" ++ k ++ "': " ++ tree_repr c
                | (k, c) :: r => "'" ++ k ++ "': " ++ tree_repr c ++ ", " ++ go r
                end) kids ++ "}"
  end.

(* the fall-back found in the text of fn is the one the table gen/Gen_Defaults.fallbacks has for (fn, p) *)
Definition fb_matches (fn p : string) (by_truth : bool) (lit : string) : bool :=
  match Config.lookup fn fallbacks with
  | Some l => match Config.lookup p l with
              | Some (bt, t) => Bool.eqb bt by_truth && String.eqb (tree_repr t) lit
              | None => false
              end
  | None => false
  end.

(* ------------------------------------------------------------------ denotation in the vocabulary of model/Options.v *)
Section Den.
  Variable V : Type.
  Variable vfalsy : V -> bool.
  Variable inj : Config.val -> V.
  Variable fn : string.                                  (* the function the site is in *)
  Variable kw : kwargs V.                                (* the keywords fn was called with *)

  Fixpoint den (a : aval) : option (obj V) :=
    match a with
    | AParam p => Some (arg V inj fn kw p)
    | AFb bt p a' lit =>
        if fb_matches fn p bt lit then option_map (fallback V vfalsy inj fn p) (den a') else None
    | ANone => Some ONone
    | AStr _ | AData => Some (DATA V)
    | _ => None
    end.

  (* l ++ t, a trailing splat written without the `++ []` *)
  Definition splat_then (l t : kwargs V) : kwargs V := match t with [] => l | _ => (l ++ t)%list end.

  Fixpoint den_kws (l : list (string * aval)) : option (kwargs V) :=
    match l with
    | [] => Some []
    | (k, a) :: r =>
        match den a, den_kws r with
        | Some o, Some t => Some (if String.eqb k "**" then splat_then (dict_kids V o) t else (k, o) :: t)
        | _, _ => None
        end
    end.

  (* the keywords the callee receives, positional arguments named by Python's binding *)
  Definition den_site (params_callee : list string) (s : site) : option (kwargs V) :=
    match bind_args params_callee (s_pos s) (s_kw s) with
    | Some b => den_kws b
    | None => None
    end.
End Den.

(* interp_envelope's / get_padded_extrema's mode strings *)
Definition emode_of_env (s : string) : option emode :=
  if String.eqb s "upper" then Some Upper else if String.eqb s "lower" then Some Lower
  else if String.eqb s "combined" then Some Combined else None.
Definition emode_of_ext (s : string) : option emode :=
  if String.eqb s "peaks" then Some Upper else if String.eqb s "troughs" then Some Lower
  else if String.eqb s "abs_peaks" then Some Combined else None.
Definition site_mode (of_str : string -> option emode) (s : site) : option emode :=
  match Config.lookup "mode" (s_kw s) with Some (AStr m) => of_str m | _ => None end.
(* the innermost enclosing test of a site is `mode == '<m>'`, taken *)
Definition guard_mode (s : site) : option emode :=
  match s_guard s with
  | (true, ECmp CEq (EVar "mode") (EStr m)) :: _ => emode_of_env m
  | _ => None
  end.

(* ------------------------------------------------------------------ the sites of a program, bound and denoted *)
From EmdV Require Import gen.Gen_Skel_Options.

(* the parameter list a call of <callee> is bound against: the translator's params_<callee>.  sift_func is
   sift_second_layer's parameter (default: sift); np.pad(array, pad_width, mode, **kwargs) is numpy's. *)
Definition params_of (callee : string) : list string :=
  if String.eqb callee "sift" then params_sift
  else if String.eqb callee "sift_func" then params_sift
  else if String.eqb callee "_sift_with_noise" then params_sift_with_noise
  else if String.eqb callee "ensemble_sift" then params_ensemble_sift
  else if String.eqb callee "complete_ensemble_sift" then params_complete_ensemble_sift
  else if String.eqb callee "get_next_imf_mask" then params_get_next_imf_mask
  else if String.eqb callee "get_mask_freqs" then params_get_mask_freqs
  else if String.eqb callee "mask_sift" then params_mask_sift
  else if String.eqb callee "sift_second_layer" then params_sift_second_layer
  else if String.eqb callee "mask_sift_second_layer" then params_mask_sift_second_layer
  else if String.eqb callee "get_next_imf" then params_get_next_imf
  else if String.eqb callee "interp_envelope" then params_interp_envelope
  else if String.eqb callee "get_padded_extrema" then params_get_padded_extrema
  else if String.eqb callee "np.pad" then ["array"; "pad_width"; "mode"]
  else [].

(* every call site of [prog] (the body of fn, called with keywords kw), in program order: the callee and the
   keywords it receives *)
Definition bound_sites (V : Type) (vfalsy : V -> bool) (inj : Config.val -> V) (fn : string) (kw : kwargs V)
    (prog : stmt) (params : list string) : list (string * option (kwargs V)) :=
  map (fun s => (s_callee s, den_site V vfalsy inj fn kw (params_of (s_callee s)) s)) (sites_of prog params).

(* second-layer entry points: the dictionary that is splatted is parameter p (or {} when p is None - model/Options.v
   writes both as []) with these keys possibly overwritten *)
Fixpoint dict_edits (p : string) (a : aval) : option (list string) :=
  match a with
  | AParam q => if String.eqb q p then Some [] else None
  | AFb false q a' lit => if String.eqb q p && String.eqb lit "{}" then dict_edits p a' else None
  | AStore k a' => option_map (cons k) (dict_edits p a')
  | _ => None
  end.
Definition site_edits (p : string) (s : site)
  : string * list aval * option (list (string * aval)) * list (string * option (list string)) :=
  (s_callee s, s_pos s, bind_args (params_of (s_callee s)) (s_pos s) (s_kw s),
   map (fun ka => (fst ka, dict_edits p (snd ka))) (s_kw s)).

(* ------------------------------------------------------------------ THE BINDINGS (what the theorems say the code does):
   the keywords each call site hands to its callee, written in the vocabulary of model/Options.v.
   [arg fn kw p] = the value of parameter p inside fn (given or default), [fallback fn p _] = fn's literal fall-back
   for p, [DATA] = a positional data argument (signal, threshold, index; also the mode strings), [gni_kw io eo xo] =
   envelope_opts=eo, extrema_opts=xo, **io. *)
Section Expected.
  Variable V : Type.
  Variable vfalsy : V -> bool.
  Variable inj : Config.val -> V.
  Local Notation obj := (Options.obj V).
  Local Notation kwargs := (Options.kwargs V).
  Local Notation kget := (Options.kget V).
  Local Notation dict_kids := (Options.dict_kids V).
  Local Notation DATA := (Options.DATA V).
  Local Notation arg := (Options.arg V inj).
  Local Notation fallback := (Options.fallback V vfalsy inj).
  Local Notation gni_kw := (Options.gni_kw V).

  Definition K_sift (kw : kwargs) : kwargs :=
    ("X", DATA) :: gni_kw (fallback "sift" "imf_opts" (arg "sift" kw "imf_opts"))
                          (arg "sift" kw "envelope_opts") (arg "sift" kw "extrema_opts").

  Definition K_swn (kw : kwargs) : kwargs :=
    [("X", DATA); ("sift_thresh", arg "_sift_with_noise" kw "sift_thresh"); ("max_imfs", arg "_sift_with_noise" kw "max_imfs");
     ("imf_opts", arg "_sift_with_noise" kw "imf_opts"); ("envelope_opts", arg "_sift_with_noise" kw "envelope_opts");
     ("extrema_opts", arg "_sift_with_noise" kw "extrema_opts")].

  Definition K_members (fn : string) (kw : kwargs) (max_imfs : obj) : kwargs :=
    [("X", DATA); ("noise_scaling", DATA); ("noise", DATA); ("noise_mode", arg fn kw "noise_mode");
     ("sift_thresh", arg fn kw "sift_thresh"); ("max_imfs", max_imfs); ("job_ind", DATA);
     ("imf_opts", arg fn kw "imf_opts"); ("envelope_opts", arg fn kw "envelope_opts");
     ("extrema_opts", arg fn kw "extrema_opts")].

  Definition K_noise (kw : kwargs) : kwargs :=
    [("X", DATA); ("sift_thresh", arg "complete_ensemble_sift" kw "sift_thresh"); ("max_imfs", DATA); ("verbose", ONone);
     ("imf_opts", arg "complete_ensemble_sift" kw "imf_opts");
     ("envelope_opts", arg "complete_ensemble_sift" kw "envelope_opts");
     ("extrema_opts", arg "complete_ensemble_sift" kw "extrema_opts")].

  Definition K_gnim (kw : kwargs) : kwargs :=
    ("X", DATA) :: gni_kw (fallback "get_next_imf_mask" "imf_opts" (arg "get_next_imf_mask" kw "imf_opts"))
                          (arg "get_next_imf_mask" kw "envelope_opts") (arg "get_next_imf_mask" kw "extrema_opts").

  Definition K_gmf (kw : kwargs) : kwargs :=
    ("X", arg "get_mask_freqs" kw "X")
    :: gni_kw (fallback "get_mask_freqs" "imf_opts" (arg "get_mask_freqs" kw "imf_opts"))
              (arg "get_mask_freqs" kw "envelope_opts") (arg "get_mask_freqs" kw "extrema_opts").

  Definition K_ms_gmf (kw : kwargs) : kwargs :=
    [("X", DATA); ("first_mask_mode", arg "mask_sift" kw "mask_freqs"); ("imf_opts", arg "mask_sift" kw "imf_opts");
     ("envelope_opts", arg "mask_sift" kw "envelope_opts"); ("extrema_opts", arg "mask_sift" kw "extrema_opts")].

  Definition K_ms_gnim (kw : kwargs) : kwargs :=
    [("X", DATA); ("z", DATA); ("amp", DATA); ("nphases", arg "mask_sift" kw "nphases");
     ("nprocesses", arg "mask_sift" kw "nprocesses"); ("imf_opts", arg "mask_sift" kw "imf_opts");
     ("envelope_opts", arg "mask_sift" kw "envelope_opts"); ("extrema_opts", arg "mask_sift" kw "extrema_opts")].

  Definition edits_agree (ks : list string) (d kw : kwargs) : Prop :=
    forall k, mem_str k ks = false -> kget k d = kget k kw.

  Definition K_env (kw : kwargs) : kwargs :=
    (("X", DATA) :: ("mode", DATA)
     :: dict_kids (fallback "get_next_imf" "envelope_opts" (arg "get_next_imf" kw "envelope_opts"))
     ++ [("extrema_opts", arg "get_next_imf" kw "extrema_opts")])%list.

  Definition K_ext (kw : kwargs) : kwargs :=
    (("X", arg "interp_envelope" kw "X") :: ("mode", DATA)
     :: dict_kids (fallback "interp_envelope" "extrema_opts" (arg "interp_envelope" kw "extrema_opts")))%list.
End Expected.
