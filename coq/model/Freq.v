(* Model of the instantaneous phase / frequency / amplitude computation (property C09):
   emd/spectra.py  frequency_transform (hilbert, nht, quad; smooth_phase), quadrature_transform,
                   phase_from_complex_signal, freq_from_phase, phase_from_freq
   emd/utils.py    wrap_phase (mode '2pi', repaired form + the form before the repair), amplitude_normalise
   numpy           np.gradient (edge_order 1), np.cumsum, np.unwrap (documented algorithm), float `%`
   scipy           signal.medfilt(x, 5) (zero padded)

   Numbers are canonical rationals [Qc] (Q in lowest terms, so that [=] is Leibniz equality);
   [tau] stands for 2*pi (any positive rational: the executable instance uses 8, the trace
   correspondence uses the rational value of the double 2*pi).  scipy's Hilbert transform, np.angle,
   np.abs, sqrt and the envelope interpolants are Section variables (oracles).
   Definitions only; lemmas in proofs/FreqFacts.v. *)
From Coq Require Import ZArith QArith Qcanon Qround List Bool.
From EmdV Require Import lib.NpLite.
Import ListNotations.
Open Scope Qc_scope.

(* ---- scalars ------------------------------------------------------------------------ *)
Definition q2 : Qc := Q2Qc 2.
Definition q4 : Qc := Q2Qc 4.
Definition qz (z : Z) : Qc := Q2Qc (inject_Z z).
Definition qn (n : nat) : Qc := qz (Z.of_nat n).
Definition qfloor (x : Qc) : Z := Qfloor x.
Definition qleb (x y : Qc) : bool := Qle_bool x y.
Definition qltb (x y : Qc) : bool := negb (Qle_bool y x).
Definition qabs (x : Qc) : Qc := if qleb 0 x then x else - x.
Definition nthq (l : list Qc) (k : nat) : Qc := nth k l 0.
Definition qscale (c : Qc) (l : list Qc) : list Qc := map (Qcmult c) l.

Fixpoint zipw {A B C} (f : A -> B -> C) (a : list A) (b : list B) : list C :=
  match a, b with
  | x :: a', y :: b' => f x y :: zipw f a' b'
  | _, _ => []
  end.

(* numpy's float remainder x % t (floor based: the result has the sign of t) *)
Definition qmod (x t : Qc) : Qc := x - t * qz (qfloor (x / t)).

(* ---- np.gradient(f, axis=0): unit spacing, edge_order=1 ------------------------------- *)
(* ValueError for fewer than 2 samples = None *)
Definition gradient (l : list Qc) : option (list Qc) :=
  let n := length l in
  if (n <? 2)%nat then None
  else Some (map (fun k =>
                    if (k =? 0)%nat then nthq l 1 - nthq l 0
                    else if (k =? n - 1)%nat then nthq l (n - 1) - nthq l (n - 2)
                    else (nthq l (k + 1) - nthq l (k - 1)) / q2)
                 (seq 0 n)).

(* ---- np.cumsum ------------------------------------------------------------------------- *)
Fixpoint cumsum_from (acc : Qc) (l : list Qc) : list Qc :=
  match l with
  | [] => []
  | x :: t => (acc + x) :: cumsum_from (acc + x) t
  end.
Definition cumsum (l : list Qc) : list Qc := cumsum_from 0 l.

Fixpoint qsum (l : list Qc) : Qc := match l with [] => 0 | x :: t => x + qsum t end.

(* np.diff *)
Definition diffs (l : list Qc) : list Qc :=
  map (fun k => nthq l (S k) - nthq l k) (seq 0 (length l - 1)).

(* ---- scipy.signal.medfilt(x, 5): zero padded running median ---------------------------- *)
Fixpoint insert_sorted (x : Qc) (l : list Qc) : list Qc :=
  match l with
  | [] => [x]
  | y :: t => if qleb x y then x :: l else y :: insert_sorted x t
  end.
Definition sortq (l : list Qc) : list Qc := fold_right insert_sorted [] l.
Definition median5 (a b c d e : Qc) : Qc := nthq (sortq [a; b; c; d; e]) 2.

(* x[i] with zeros outside the array *)
Definition padded (l : list Qc) (i : Z) : Qc :=
  if ((0 <=? i) && (i <? Z.of_nat (length l)))%Z then nthq l (Z.to_nat i) else 0.

Definition medfilt5 (l : list Qc) : list Qc :=
  map (fun k => let i := Z.of_nat k in
                median5 (padded l (i - 2)) (padded l (i - 1)) (padded l i) (padded l (i + 1)) (padded l (i + 2)))
      (seq 0 (length l)).

Section Freq.
Variable tau : Qc.                 (* 2*pi *)

(* ---- utils.wrap_phase(mode='2pi', ncycles=1) -------------------------------------------- *)
(* [rnd] is the rounding of the exact remainder to the floating point grid: the identity in exact
   arithmetic.  Before the repair the rounded remainder was returned as it is; a tiny negative
   phase has remainder tau - tiny which rounds to tau itself.  The repaired code maps a result that
   reached the period to phase zero. *)
Variable rnd : Qc -> Qc.
Definition wrap_v0 (x : Qc) : Qc := rnd (qmod x tau).
Definition wrap (x : Qc) : Qc := let r := rnd (qmod x tau) in if qleb tau r then 0 else r.

(* ---- np.unwrap(p, axis=0): period tau, discont tau/2 (numpy's documented algorithm) -------- *)
Definition ph_correct (dd : Qc) : Qc :=
  let half := tau / q2 in
  let ddmod0 := qmod (dd + half) tau - half in
  let ddmod := if Qc_eq_bool ddmod0 (- half) && qltb 0 dd then half else ddmod0 in
  if qltb (qabs dd) half then 0 else ddmod - dd.

Definition unwrap (p : list Qc) : list Qc :=
  match p with
  | [] => []
  | p0 :: t => p0 :: zipw Qcplus t (cumsum (map ph_correct (diffs p)))
  end.

(* ---- spectra.freq_from_phase / phase_from_freq ----------------------------------------------- *)
(* ifrequency = np.gradient(iphase) / (2 pi) * sample_rate *)
Definition freq_from_phase (iphase : list Qc) (sr : Qc) : option (list Qc) :=
  option_map (map (fun g => g / tau * sr)) (gradient iphase).

(* iphase = phase_start + np.cumsum(ifrequency / sample_rate * (2 pi)) *)
Definition phase_from_freq (ifreq : list Qc) (sr phase_start : Qc) : list Qc :=
  map (fun s => phase_start + s) (cumsum (map (fun f => f / sr * tau) ifreq)).

(* ---- spectra.phase_from_complex_signal(.., smoothing, ret_phase='unwrapped', phase_jump='ascending')
        applied to the angles of the complex signal ------------------------------------------- *)
Definition unwrapped_phase (smooth : bool) (angles : list Qc) : list Qc :=
  map (fun u => u + tau / q4) ((if smooth then medfilt5 else (fun l => l)) (unwrap angles)).

(* the part of frequency_transform after the complex signal: unwrapped phase U, IF from U, IP = wrap U *)
Definition ft_from_angles (smooth : bool) (sr : Qc) (angles : list Qc) : option (list Qc * list Qc) :=
  let U := unwrapped_phase smooth angles in
  match freq_from_phase U sr with
  | None => None
  | Some f => Some (map wrap U, f)
  end.

(* ---- oracles: scipy.signal.hilbert, np.angle, np.abs, sqrt, sift.interp_envelope ---------------- *)
Variable analytic : list Qc -> list (Qc * Qc).          (* signal.hilbert(x): (re, im) per sample *)
Variable angle : Qc * Qc -> Qc.                         (* np.angle *)
Variable cabs : Qc * Qc -> Qc.                          (* np.abs of a complex number *)
Variable qsqrt : Qc -> Qc.                              (* np.lib.scimath.sqrt(.).real *)
Variable env_upper : list Qc -> option (list Qc).       (* interp_envelope(mode='upper'); None: too few extrema *)
Variable env_comb : list Qc -> option (list Qc).        (* interp_envelope(mode='combined') *)
Variable thresh : Qc.                                   (* amplitude_normalise's 1e-10 *)

(* ---- utils.amplitude_normalise(X, thresh, clip, max_iters=3), one column ------------------------- *)
(* x / env is numpy's elementwise division; the model's x/0 = 0 differs from numpy's inf/nan, so
   statements about values assume a non-vanishing envelope; scale invariance does not depend on it *)
Fixpoint normalise_loop (fuel : nat) (x env : list Qc) : list Qc :=
  match fuel with
  | O => x
  | S fuel' =>
      let x' := zipw Qcdiv x env in
      match env_comb x' with
      | None => x'
      | Some e' => if qltb (qabs (qsum e' - qn (length e'))) thresh then x' else normalise_loop fuel' x' e'
      end
  end.

Definition amplitude_normalise (x : list Qc) : list Qc :=
  match env_comb x with
  | None => x
  | Some e => normalise_loop 3 x e
  end.

Definition clip1 (x : Qc) : Qc := if qltb x (Qcopp 1) then Qcopp 1 else if qltb 1 x then 1 else x.

(* ---- spectra.quadrature_transform: sign rule ------------------------------------------------------ *)
(* mask = -1 where the normalised signal rises to the next sample, +1 elsewhere; the last sample
   repeats its predecessor's sign.  (`mask[mask == 0] = -1` in the source can never fire.) *)
Definition quad_mask (nx : list Qc) : list Qc :=
  let d := map (fun dd => if qltb 0 dd then Qcopp 1 else 1) (diffs nx) in
  d ++ [last d 1].

Definition quadrature (x : list Qc) : list (Qc * Qc) :=
  let nx := map clip1 (amplitude_normalise x) in
  combine nx (zipw Qcmult (map (fun v => qsqrt (1 - v * v)) nx) (quad_mask nx)).

(* ---- spectra.frequency_transform, one IMF column ----------------------------------------------------- *)
Inductive method := Hilbert | Nht | Quad.

Definition complex_signal (m : method) (x : list Qc) : list (Qc * Qc) :=
  match m with
  | Hilbert => analytic x
  | Nht => analytic (amplitude_normalise x)
  | Quad => quadrature x
  end.

(* hilbert: modulus of the analytic signal; nht, quad: upper envelope (None = numpy fills the column with nan) *)
Definition amplitude (m : method) (x : list Qc) : option (list Qc) :=
  match m with
  | Hilbert => Some (map cabs (analytic x))
  | _ => env_upper x
  end.

Record ft_out := { IP : list Qc; IFq : list Qc; IA : option (list Qc) }.

Definition ft_col (m : method) (smooth : bool) (sr : Qc) (x : list Qc) : option ft_out :=
  match ft_from_angles smooth sr (map angle (complex_signal m x)) with
  | None => None
  | Some (p, f) => Some {| IP := p; IFq := f; IA := amplitude m x |}
  end.

(* the whole array, column by column (every stage works along axis 0); an error in any column is an error *)
Fixpoint all_some {A} (l : list (option A)) : option (list A) :=
  match l with
  | [] => Some []
  | None :: _ => None
  | Some a :: t => match all_some t with None => None | Some r => Some (a :: r) end
  end.

Definition frequency_transform (m : method) (smooth : bool) (sr : Qc) (cols : list (list Qc)) : option (list ft_out) :=
  all_some (map (ft_col m smooth sr) cols).

(* rescaling one output by c: phase and frequency untouched, amplitude times c *)
Definition scale_out (c : Qc) (o : ft_out) : ft_out :=
  {| IP := IP o; IFq := IFq o; IA := option_map (qscale c) (IA o) |}.

End Freq.

Definition cscale (c : Qc) (z : Qc * Qc) : Qc * Qc := (c * fst z, c * snd z).

(* exact arithmetic: no rounding *)
Definition id_rnd (x : Qc) : Qc := x.

(* ---- a toy floating point grid for the wrap_phase corner: numbers below 4 keep quarter resolution,
        numbers from 4 up are rounded to the nearest integer (ties up) ------------------------------ *)
Definition toy_rnd (x : Qc) : Qc :=
  if qltb x q4 then x else qz (qfloor (x + Q2Qc (1 # 2))).


(* ---- a toy instance of the oracles (shows their contracts are satisfiable; used in Examples) ------ *)
Definition qhalf : Qc := Q2Qc (1 # 2).
Definition tau8 : Qc := Q2Qc 8.

Definition toy_analytic (x : list Qc) : list (Qc * Qc) := map (fun a => (a, a + a)) x.
Definition toy_angle (z : Qc * Qc) : Qc :=
  if qltb 0 (snd z) then 1 else if qltb (snd z) 0 then Qcopp 1 else if qltb (fst z) 0 then q4 else 0.
Definition toy_cabs (z : Qc * Qc) : Qc := qabs (fst z) + qabs (snd z).
Definition toy_env (x : list Qc) : option (list Qc) := if (length x <? 3)%nat then None else Some (map qabs x).
Definition toy_sqrt (v : Qc) : Qc := v.

Definition toy_ft := ft_col tau8 id_rnd toy_analytic toy_angle toy_cabs toy_sqrt toy_env toy_env (Q2Qc (1 # 1000)).
Definition zq (l : list Z) : list Qc := map qz l.

(* ---- rendering for the correspondence harness (DESIGN A.3) ---------------------------------------- *)
Definition render_q (q : Qc) : list Z := [Qnum q; Zpos (Qden q)].
Definition render_ql (l : list Qc) : list Z := flat_map render_q l.
Definition mkq (p : list Z) : Qc := Q2Qc (Qmake (nth 0 p 0%Z) (Z.to_pos (nth 1 p 1%Z))).

(* op 0: freq_from_phase, 1: phase_from_freq, 2: wrap (exact), 3: wrap on the toy grid, 4: wrap_v0 on the toy grid,
   5: gradient, 6: cumsum, 7: unwrap, 8: medfilt5, 9: quad_mask;  a, b: scalar arguments *)
Definition run_freq (op : Z) (tau a b : list Z) (l : list (list Z)) : list Z :=
  let t := mkq tau in let x := map mkq l in
  let ropt (o : option (list Qc)) := match o with None => [(-2)%Z] | Some r => render_ql r end in
  match op with
  | 0%Z => ropt (freq_from_phase t x (mkq a))
  | 1%Z => render_ql (phase_from_freq t x (mkq a) (mkq b))
  | 2%Z => render_ql (map (wrap t id_rnd) x)
  | 3%Z => render_ql (map (wrap t toy_rnd) x)
  | 4%Z => render_ql (map (wrap_v0 t toy_rnd) x)
  | 5%Z => ropt (gradient x)
  | 6%Z => render_ql (cumsum x)
  | 7%Z => render_ql (unwrap t x)
  | 8%Z => render_ql (medfilt5 x)
  | _ => render_ql (quad_mask x)
  end.

(* the pipeline after the complex signal: [IP ++ -7 ++ IF] or [-2] *)
Definition run_pipeline (smooth : bool) (tau sr : list Z) (angles : list (list Z)) : list Z :=
  match ft_from_angles (mkq tau) id_rnd smooth (mkq sr) (map mkq angles) with
  | None => [(-2)%Z]
  | Some (p, f) => render_ql p ++ [(-7)%Z; (-7)%Z] ++ render_ql f
  end.
