(* TIE of emd/sift.py get_padded_extrema, interp_envelope, _find_extrema to model/Extrema.v and model/Envelope.v:
   THE REVIEWABLE PART - the primitive mapping tables, the initial environments, the rendering. Definitions only;
   the proofs are in proofs/SkelFacts_Extrema.v, the statements in props/Prop_Tie_Extrema.v.

   gen/Gen_Skel_Extrema.v (regenerated from /repo on every run by harness/gen_skel_extrema.py) holds the three
   whole bodies as programs of lib/PyLoop.v.

   VALUES. The abstract value type is [xval A]: an integer ndarray [XZ l] (signals, extrema locations - padding
   makes them negative - and magnitudes: integer signals as in model/Extrema.v, so every comparison the code makes is
   exact), an envelope [XA l] (values of the interpolant, type A, reals in the code) or a boolean ndarray [XB l]
   (the window `tinds`). A numpy integer scalar z is [vint z] = VOpaque "int" [XZ [z]]; Python ints that are
   non-negative by construction (len, .size, pad_width, .shape) are native [VNat]. A 2-D input of get_padded_extrema
   whose first column is x is [VOpaque "2d" [vz x]]. The option dicts are opaque constants (below).

   NOT MODELLED (see notes/TIE_EXTREMA.md): `d.pop('mode')` mutates d in place - primitives are pure, so the dict
   that reaches `np.pad(.., **d)` is still the un-popped one and the np.pad row accepts exactly that; user-supplied
   NON-DEFAULT pad options; parabolic_extrema=True inside get_padded_extrema / interp_envelope (the model has integer
   locations). *)
From Coq Require Import String List Bool Arith ZArith Lia.
From EmdV Require Import lib.NpLite model.Extrema model.Envelope lib.PyLoop lib.PyLoopTools gen.Gen_Skel_Extrema.
Import ListNotations.
Open Scope string_scope.

(* ---- the abstract value type -------------------------------------------------------------------- *)
Inductive xval (A : Type) :=
| XZ (l : list Z)          (* integer ndarray *)
| XA (l : list A)          (* envelope: values of the interpolant *)
| XB (l : list bool).      (* boolean ndarray *)
Arguments XZ {A}. Arguments XA {A}. Arguments XB {A}.

(* ---- list operations the tables use -------------------------------------------------------------- *)
(* a[mask] *)
Fixpoint select {B : Type} (l : list B) (m : list bool) : list B :=
  match l, m with
  | a :: t, b :: r => if b then a :: select t r else select t r
  | _, _ => []
  end.
(* np.logical_and *)
Fixpoint and_list (a b : list bool) : list bool :=
  match a, b with
  | x :: a', y :: b' => (x && y) :: and_list a' b'
  | _, _ => []
  end.
(* X[locs] for an integer index array *)
Definition take (y locs : list Z) : list Z := map (fun i => nth (Z.to_nat i) y 0%Z) locs.

(* the model's get_padded_extrema with the fuel of its re-padding loop as a parameter: a literal copy of
   Extrema.get_padded_extrema ([gpe_fuel_model]: at fuel length x + 2 it IS the model, by reflexivity) *)
Definition gpe_fuel (fuel : nat) (x : list Z) (pad_width : nat) (m : emode) : pad_result :=
  let '(locs, mags) := extrema m x in
  if (length locs <=? 1)%nat then NoExtrema
  else
    let p := Nat.min pad_width (length locs) in
    let zl := map Z.of_nat locs in
    if (p =? 0)%nat then Padded zl mags
    else pad_loop fuel (Z.of_nat (length x)) p (pad_reflect_odd (S p) zl p) (pad_edge mags p).

Inductive imeth := Splrep | MonoPchip | Pchip.                 (* interp_method *)
Definition imeth_str (i : imeth) : string :=
  match i with Splrep => "splrep" | MonoPchip => "mono_pchip" | Pchip => "pchip" end.
Definition mode_str (m : emode) : string :=                     (* get_padded_extrema's mode *)
  match m with Peaks => "peaks" | Troughs => "troughs" | AbsPeaks => "abs_peaks" end.
Definition env_mode_str (m : emode) : string :=                 (* interp_envelope's mode *)
  match m with Peaks => "upper" | Troughs => "lower" | AbsPeaks => "combined" end.

(* a pad-options argument as the caller passes it *)
Inductive pad_opt := OptNone | OptEmpty | OptDefault.           (* None | {} | the default dict, spelled out *)

(* extrema_opts as the caller passes it: None | {} | {'pad_width': p, 'loc_pad_opts': None, 'mag_pad_opts': None} *)
Inductive ext_opt := EoNone | EoEmpty | EoPad (p : nat).

Section Values.
  Variable A : Type.
  Local Notation V := (xval A).
  Local Notation val := (val V).

  Definition vz (l : list Z) : val := VSig (XZ l).
  Definition va (l : list A) : val := VSig (XA l).
  Definition vb (l : list bool) : val := VSig (XB l).
  Definition vint (z : Z) : val := VOpaque "int" [vz [z]].

  (* the option dicts: opaque constants. [loc_dict] = {'mode': 'reflect', 'reflect_type': 'odd'},
     [mag_dict] = {'mode': 'median', 'stat_length': 1}, [empty_dict] = {} *)
  Definition loc_dict : val := VOpaque "{'mode': 'reflect', 'reflect_type': 'odd'}" [].
  Definition mag_dict : val := VOpaque "{'mode': 'median', 'stat_length': 1}" [].
  Definition empty_dict : val := VOpaque "{}" [].
  Definition loc_opt_val (o : pad_opt) : val :=
    match o with OptNone => VNone | OptEmpty => empty_dict | OptDefault => loc_dict end.
  Definition mag_opt_val (o : pad_opt) : val :=
    match o with OptNone => VNone | OptEmpty => empty_dict | OptDefault => mag_dict end.

  (* anything that is not one of the mode strings / interp_method strings *)
  Definition bad_mode : val := VOpaque "bad_mode" [].
  Definition bad_method : val := VOpaque "bad_method" [].

  (* the input signal of get_padded_extrema: 1-D, or 2-D with first column x *)
  Definition xarg (two_d : bool) (x : list Z) : val := if two_d then VOpaque "2d" [vz x] else vz x.

  (* what _find_extrema(y, parabolic_extrema=False) returns: (locations, values) of the strict interior maxima *)
  Definition fe_value (y : list Z) : val :=
    VList [vz (map Z.of_nat (find_maxima y)); vz (map (fun i => nth i y 0%Z) (find_maxima y))].

  (* what get_padded_extrema returns *)
  Definition gpe_value (r : pad_result) : res val :=
    match r with
    | NoExtrema => Ok (VList [VNone; VNone])
    | Padded L M => Ok (VList [vz L; vz M])
    | PadOutOfFuel => Bad
    end.
  Definition gpe_render (r : pad_result) : outcome V :=
    match r with
    | NoExtrema => Return (VList [VNone; VNone])
    | Padded L M => Return (VList [vz L; vz M])
    | PadOutOfFuel => OutOfFuel
    end.

  (* ================================================================================================ *)
  (* 1. get_padded_extrema                                                                            *)
  (* ================================================================================================ *)
  Definition gpe_table : list (string * handler V) :=
    [ (* truthiness of a dict: non-empty *)
      ("bool", fun args kw => match args, kw with
                              | [VOpaque t []], [] =>
                                  if String.eqb t "{}" then Ok (VBool false)
                                  else if String.eqb t "{'mode': 'reflect', 'reflect_type': 'odd'}" then Ok (VBool true)
                                  else if String.eqb t "{'mode': 'median', 'stat_length': 1}" then Ok (VBool true)
                                  else Bad
                              | _, _ => Bad end);
      ("{'mode': 'reflect', 'reflect_type': 'odd'}",
        fun args kw => match args, kw with [], [] => Ok loc_dict | _, _ => Bad end);
      ("{'mode': 'median', 'stat_length': 1}",
        fun args kw => match args, kw with [], [] => Ok mag_dict | _, _ => Bad end);
      ("loc_pad_opts.copy()", fun args kw => match args, kw with
                                             | [d], [] => if is_opaque0 d "{'mode': 'reflect', 'reflect_type': 'odd'}"
                                                          then Ok d else Bad
                                             | _, _ => Bad end);
      ("mag_pad_opts.copy()", fun args kw => match args, kw with
                                             | [d], [] => if is_opaque0 d "{'mode': 'median', 'stat_length': 1}"
                                                          then Ok d else Bad
                                             | _, _ => Bad end);
      (* d.pop('mode'): the value under 'mode' (the removal of the key is NOT modelled: primitives are pure) *)
      ("loc_pad_opts.pop('mode')", fun args kw => match args, kw with
                                                  | [d], [] => if is_opaque0 d "{'mode': 'reflect', 'reflect_type': 'odd'}"
                                                               then Ok (VStr "reflect") else Bad
                                                  | _, _ => Bad end);
      ("mag_pad_opts.pop('mode')", fun args kw => match args, kw with
                                                  | [d], [] => if is_opaque0 d "{'mode': 'median', 'stat_length': 1}"
                                                               then Ok (VStr "median") else Bad
                                                  | _, _ => Bad end);
      ("X.ndim", fun args kw => match args, kw with
                                | [VSig (XZ _)], [] => Ok (VNat 1)
                                | [VOpaque t [VSig (XZ _)]], [] => if String.eqb t "2d" then Ok (VNat 2) else Bad
                                | _, _ => Bad end);
      ("X[:, 0]", fun args kw => match args, kw with
                                 | [VOpaque t [VSig (XZ x)]], [] => if String.eqb t "2d" then Ok (vz x) else Bad
                                 | _, _ => Bad end);
      (* a mode that is none of the three strings compares unequal to each of them *)
      ("==", fun args kw => match args, kw with
                            | [m; VStr _], [] => if is_opaque0 m "bad_mode" then Ok (VBool false) else Bad
                            | _, _ => Bad end);
      ("str.format", fun args kw => match args, kw with [VStr _; _], [] => Ok (VStr "") | _, _ => Bad end);
      (* _find_extrema(y, parabolic_extrema=False): tie 3 proves the translated _find_extrema returns this *)
      ("_find_extrema", fun args kw => match args, kw with
                                       | [VSig (XZ y)], [(k, VBool false)] =>
                                           if String.eqb k "parabolic_extrema" then Ok (fe_value y) else Bad
                                       | _, _ => Bad end);
      ("-X", fun args kw => match args, kw with [VSig (XZ x)], [] => Ok (vz (map Z.opp x)) | _, _ => Bad end);
      ("np.abs", fun args kw => match args, kw with [VSig (XZ x)], [] => Ok (vz (map Z.abs x)) | _, _ => Bad end);
      ("-max_ext", fun args kw => match args, kw with [VSig (XZ x)], [] => Ok (vz (map Z.opp x)) | _, _ => Bad end);
      ("len", fun args kw => match args, kw with [VSig (XZ l)], [] => Ok (VNat (length l)) | _, _ => Bad end);
      ("max_locs.size", fun args kw => match args, kw with [VSig (XZ l)], [] => Ok (VNat (length l)) | _, _ => Bad end);
      (* `max_locs.size < None` (pad_width=None): TypeError; `max(locs) < len(X)` on a numpy int *)
      ("<", fun args kw => match args, kw with
                           | [VNat _; VNone], [] => Exc "TypeError"
                           | [VOpaque t [VSig (XZ [z])]; VNat n], [] =>
                               if String.eqb t "int" then Ok (VBool (z <? Z.of_nat n)%Z) else Bad
                           | _, _ => Bad end);
      (">=", fun args kw => match args, kw with
                            | [VOpaque t [VSig (XZ [z])]; VNat n], [] =>
                                if String.eqb t "int" then Ok (VBool (Z.of_nat n <=? z)%Z) else Bad
                            | _, _ => Bad end);
      (* np.pad for the default options: 'reflect' + reflect_type='odd' -> pad_reflect_odd,
         'median' + stat_length=1 -> pad_edge (model/Extrema.v); any other combination is not modelled *)
      ("np.pad", fun args kw => match args, kw with
                                | [VSig (XZ a); VNat p; VStr md], [(k, d)] =>
                                    if String.eqb k "**" then
                                      if String.eqb md "reflect" && is_opaque0 d "{'mode': 'reflect', 'reflect_type': 'odd'}"
                                      then Ok (vz (pad_reflect_odd (S p) a p))
                                      else if String.eqb md "median" && is_opaque0 d "{'mode': 'median', 'stat_length': 1}"
                                      then Ok (vz (pad_edge a p))
                                      else Bad
                                    else Bad
                                | _, _ => Bad end);
      (* the builtins max / min of a non-empty integer array (ValueError on an empty one) *)
      ("max", fun args kw => match args, kw with
                             | [VSig (XZ [])], [] => Exc "ValueError"
                             | [VSig (XZ l)], [] => Ok (vint (list_max l))
                             | _, _ => Bad end);
      ("min", fun args kw => match args, kw with
                             | [VSig (XZ [])], [] => Exc "ValueError"
                             | [VSig (XZ l)], [] => Ok (vint (list_min l))
                             | _, _ => Bad end) ].
  Definition gpe_prims : prims V := prims_of gpe_table.

  Definition gpe_names : list string := Eval cbv in assigned prog_get_padded_extrema params_get_padded_extrema.

  (* get_padded_extrema(X, pad_width, mode, parabolic_extrema=False, loc_pad_opts, mag_pad_opts) *)
  Definition gpe_env0 (two_d : bool) (x : list Z) (pw md : val) (lo mo : pad_opt) : env V :=
    frame params_get_padded_extrema gpe_names
      [xarg two_d x; pw; md; VBool false; loc_opt_val lo; mag_opt_val mo].

  (* ================================================================================================ *)
  (* 3. _find_extrema                                                                                 *)
  (* ================================================================================================ *)
  (* the parabolic refinement is opaque: whatever compute_parabolic_extrema returns for the triplets around the
     maxima (model: Extrema.parabolic_vertex per column). The prominence filter is opaque too: [prom_keep y l] =
     the maxima l of y whose prominence (peak_prominences, wlen=3) exceeds peak_prom_thresh *)
  Variable parab_locs parab_mags : list Z -> list nat -> val.
  Variable prom_keep : list Z -> list nat -> list nat.

  Definition thresh_val (th : bool) : val := if th then VOpaque "thresh" [] else VNone.

  Definition fe_table : list (string * handler V) :=
    [ ("np.greater", fun args kw => match args, kw with [], [] => Ok (VOpaque "np.greater" []) | _, _ => Bad end);
      (* scipy.signal.argrelextrema(X, np.greater, order=1): a 1-tuple of index arrays = find_maxima *)
      ("signal.argrelextrema",
        fun args kw => match args, kw with
                       | [VSig (XZ y); g], [(k, VNat 1)] =>
                           if String.eqb k "order" && is_opaque0 g "np.greater"
                           then Ok (VList [vz (map Z.of_nat (find_maxima y))]) else Bad
                       | _, _ => Bad end);
      ("len", fun args kw => match args, kw with [VSig (XZ l)], [] => Ok (VNat (length l)) | _, _ => Bad end);
      ("np.array", fun args kw => match args, kw with [VList []], [] => Ok (vz []) | _, _ => Bad end);
      (* prom, _, _ = peak_prominences(X, ext_locs, wlen=3); keeps = np.where(prom > thresh)[0]; ext_locs[keeps] *)
      ("signal._peak_finding.peak_prominences",
        fun args kw => match args, kw with
                       | [VSig (XZ y); VSig (XZ l)], [(k, VNat 3)] =>
                           if String.eqb k "wlen" then Ok (VList [VOpaque "prom" [vz y; vz l]; VNone; VNone]) else Bad
                       | _, _ => Bad end);
      (">", fun args kw => match args, kw with
                           | [VOpaque t [VSig (XZ y); VSig (XZ l)]; th], [] =>
                               if String.eqb t "prom" && is_opaque0 th "thresh"
                               then Ok (VOpaque "prom>thresh" [vz y; vz l]) else Bad
                           | _, _ => Bad end);
      ("np.where", fun args kw => match args, kw with
                                  | [VOpaque t [VSig (XZ y); VSig (XZ l)]], [] =>
                                      if String.eqb t "prom>thresh" then Ok (VList [VOpaque "keeps" [vz y; vz l]]) else Bad
                                  | _, _ => Bad end);
      (* ext_locs[keeps] ; X[ext_locs] *)
      ("getitem", fun args kw => match args, kw with
                                 | [VSig (XZ _); VOpaque t [VSig (XZ y); VSig (XZ l)]], [] =>
                                     if String.eqb t "keeps" then Ok (vz (map Z.of_nat (prom_keep y (map Z.to_nat l)))) else Bad
                                 | [VSig (XZ y); VSig (XZ locs)], [] => Ok (vz (take y locs))
                                 | _, _ => Bad end);
      ("np.c_[X[ext_locs - 1], X[ext_locs], X[ext_locs + 1]].T",
        fun args kw => match args, kw with
                       | [VSig (XZ y); VSig (XZ locs)], [] => Ok (VOpaque "triplets" [vz y; vz locs])
                       | _, _ => Bad end);
      ("compute_parabolic_extrema",
        fun args kw => match args, kw with
                       | [VOpaque t [VSig (XZ y); VSig (XZ _)]; VSig (XZ l)], [] =>
                           if String.eqb t "triplets"
                           then Ok (VList [parab_locs y (map Z.to_nat l); parab_mags y (map Z.to_nat l)]) else Bad
                       | _, _ => Bad end) ].
  Definition fe_prims : prims V := prims_of fe_table.

  Definition fe_names : list string := Eval cbv in assigned prog_find_extrema params_find_extrema.

  (* _find_extrema(X, peak_prom_thresh = a threshold (th) or None, parabolic_extrema) *)
  Definition fe_env0 (y : list Z) (th parabolic : bool) : env V :=
    frame params_find_extrema fe_names [vz y; thresh_val th; VBool parabolic].

  (* no maxima: two empty arrays, at once; otherwise the (filtered) maxima, refined or with their values *)
  Definition fe_render (y : list Z) (th parabolic : bool) : outcome V :=
    match find_maxima y with
    | [] => Return (VList [vz []; vz []])
    | l0 => let l := if th then prom_keep y l0 else l0 in
            if parabolic then Return (VList [parab_locs y l; parab_mags y l])
            else Return (VList [vz (map Z.of_nat l); vz (map (fun i => nth i y 0%Z) l)])
    end.

  (* ================================================================================================ *)
  (* 2. interp_envelope                                                                               *)
  (* ================================================================================================ *)
  (* the interpolant through the knots (locs, mags) evaluated at t, one oracle per interp_method *)
  Variable interp_of : imeth -> list Z -> list Z -> Z -> A.

  (* extrema_opts: None | {} | {'pad_width': p, 'loc_pad_opts': .., 'mag_pad_opts': ..} with default pad options *)
  Definition ext_dict (p : nat) : val := VOpaque "extrema_opts" [VNat p].
  Definition ext_opt_val (o : ext_opt) : val :=
    match o with EoNone => VNone | EoEmpty => empty_dict | EoPad p => ext_dict p end.
  Definition ext_pad (o : ext_opt) : nat := match o with EoPad p => p | _ => 2%nat end.

  Definition ie_table : list (string * handler V) :=
    [ ("bool", fun args kw => match args, kw with
                              | [VOpaque t []], [] => if String.eqb t "{}" then Ok (VBool false) else Bad
                              | [VOpaque t [VNat _]], [] => if String.eqb t "extrema_opts" then Ok (VBool true) else Bad
                              | _, _ => Bad end);
      ("{'pad_width': 2, 'loc_pad_opts': None, 'mag_pad_opts': None}",
        fun args kw => match args, kw with [], [] => Ok (ext_dict 2) | _, _ => Bad end);
      ("extrema_opts.copy()", fun args kw => match args, kw with
                                             | [VOpaque t [VNat p]], [] =>
                                                 if String.eqb t "extrema_opts" then Ok (ext_dict p) else Bad
                                             | _, _ => Bad end);
      ("interp_method not in ['splrep', 'mono_pchip', 'pchip']",
        fun args kw => match args, kw with
                       | [VStr s], [] => Ok (VBool (negb (String.eqb s "splrep" || String.eqb s "mono_pchip"
                                                          || String.eqb s "pchip")))
                       | [m], [] => if is_opaque0 m "bad_method" then Ok (VBool true) else Bad
                       | _, _ => Bad end);
      ("==", fun args kw => match args, kw with
                            | [m; VStr _], [] => if is_opaque0 m "bad_mode" then Ok (VBool false) else Bad
                            | _, _ => Bad end);
      (* get_padded_extrema(X, mode=.., **extrema_opts): what tie 1 proves the translated body returns *)
      ("get_padded_extrema",
        fun args kw => match args, kw with
                       | [VSig (XZ x)], [(k1, VStr md); (k2, VOpaque t [VNat p])] =>
                           if String.eqb k1 "mode" && String.eqb k2 "**" && String.eqb t "extrema_opts" then
                             if String.eqb md "peaks" then gpe_value (get_padded_extrema x p Peaks)
                             else if String.eqb md "troughs" then gpe_value (get_padded_extrema x p Troughs)
                             else if String.eqb md "abs_peaks" then gpe_value (get_padded_extrema x p AbsPeaks)
                             else Bad
                           else Bad
                       | _, _ => Bad end);
      (* locs[0] ; env[tinds] *)
      ("getitem", fun args kw => match args, kw with
                                 | [VSig (XZ []); VNat 0], [] => Exc "IndexError"
                                 | [VSig (XZ l); VNat 0], [] => Ok (vint (hd 0%Z l))
                                 | [VSig (XA e); VSig (XB m)], [] => Ok (va (select e m))
                                 | _, _ => Bad end);
      ("locs[-1]", fun args kw => match args, kw with
                                  | [VSig (XZ [])], [] => Exc "IndexError"
                                  | [VSig (XZ l)], [] => Ok (vint (last l 0%Z))
                                  | _, _ => Bad end);
      (* integer locations: ceil is the identity *)
      ("np.ceil", fun args kw => match args, kw with
                                 | [VOpaque t [VSig (XZ [z])]], [] => if String.eqb t "int" then Ok (vint z) else Bad
                                 | _, _ => Bad end);
      ("np.arange", fun args kw => match args, kw with
                                   | [VOpaque t1 [VSig (XZ [a])]; VOpaque t2 [VSig (XZ [b])]], [] =>
                                       if String.eqb t1 "int" && String.eqb t2 "int" then Ok (vz (zrange a b)) else Bad
                                   | _, _ => Bad end);
      ("interp.splrep", fun args kw => match args, kw with
                                       | [VSig (XZ L); VSig (XZ M)], [] => Ok (VOpaque "tck" [vz L; vz M])
                                       | _, _ => Bad end);
      ("interp.splev", fun args kw => match args, kw with
                                      | [VSig (XZ t); VOpaque tg [VSig (XZ L); VSig (XZ M)]], [] =>
                                          if String.eqb tg "tck" then Ok (va (map (interp_of Splrep L M) t)) else Bad
                                      | _, _ => Bad end);
      ("interp.PchipInterpolator", fun args kw => match args, kw with
                                                  | [VSig (XZ L); VSig (XZ M)], [] =>
                                                      Ok (VOpaque "PchipInterpolator" [vz L; vz M])
                                                  | _, _ => Bad end);
      ("interp.pchip", fun args kw => match args, kw with
                                      | [VSig (XZ L); VSig (XZ M)], [] => Ok (VOpaque "pchip" [vz L; vz M])
                                      | _, _ => Bad end);
      (* N16: `pchip(t)` receives the LOCAL callable `pchip`: the interpolant evaluated is the one BUILT from
         (locs, pks) by interp.PchipInterpolator ('mono_pchip') or interp.pchip ('pchip') *)
      ("pchip(t)", fun args kw => match args, kw with
                                  | [VOpaque tg [VSig (XZ L); VSig (XZ M)]; VSig (XZ t)], [] =>
                                      if String.eqb tg "PchipInterpolator" then Ok (va (map (interp_of MonoPchip L M) t))
                                      else if String.eqb tg "pchip" then Ok (va (map (interp_of Pchip L M) t))
                                      else Bad
                                  | _, _ => Bad end);
      (* t_max >= 0 ; t_max < X.shape[0] : elementwise *)
      (">=", fun args kw => match args, kw with
                            | [VSig (XZ t); VNat n], [] => Ok (vb (map (fun v => Z.of_nat n <=? v)%Z t))
                            | _, _ => Bad end);
      ("<", fun args kw => match args, kw with
                           | [VSig (XZ t); VNat n], [] => Ok (vb (map (fun v => v <? Z.of_nat n)%Z t))
                           | _, _ => Bad end);
      ("X.shape", fun args kw => match args, kw with [VSig (XZ x)], [] => Ok (VList [VNat (length x)]) | _, _ => Bad end);
      ("np.logical_and", fun args kw => match args, kw with
                                        | [VSig (XB a); VSig (XB b)], [] => Ok (vb (and_list a b))
                                        | _, _ => Bad end);
      ("np.array", fun args kw => match args, kw with [VSig (XA e)], [] => Ok (va e) | _, _ => Bad end);
      ("env.shape", fun args kw => match args, kw with [VSig (XA e)], [] => Ok (VList [VNat (length e)]) | _, _ => Bad end);
      ("str.format", fun args kw => match args, kw with [VStr _; VNat _; VNat _], [] => Ok (VStr "") | _, _ => Bad end) ].
  Definition ie_prims : prims V := prims_of ie_table.

  Definition ie_names : list string := Eval cbv in assigned prog_interp_envelope params_interp_envelope.

  (* interp_envelope(X, mode, interp_method, extrema_opts, ret_extrema) *)
  Definition ie_env0 (x : list Z) (md im : val) (eo : ext_opt) (re : bool) : env V :=
    frame params_interp_envelope ie_names [vz x; md; im; ext_opt_val eo; VBool re].

  (* the outcome of interp_envelope, finer than Envelope.envelope (which merges `return None` and the ValueError of
     the length check into None): [ie_outcome_envelope] relates the two *)
  Definition ie_outcome (x : list Z) (p : nat) (m : emode) (im : imeth) (re : bool) : outcome V :=
    match get_padded_extrema x p m with
    | Padded L M =>
        match env_grid L (Z.of_nat (length x)) with
        | Some g =>
            let e := va (map (interp_of im L M) g) in
            Return (if re then VList [e; VList [vz L; vz M]] else e)
        | None => Raise "ValueError"
        end
    | NoExtrema => Return VNone
    | PadOutOfFuel => Stuck
    end.

  (* what Envelope.envelope says about an outcome *)
  Definition envelope_of_outcome (re : bool) (o : outcome V) : option (list A) :=
    match o with
    | Return (VSig (XA e)) => if re then None else Some e
    | Return (VList [VSig (XA e); _]) => if re then Some e else None
    | _ => None
    end.
End Values.
