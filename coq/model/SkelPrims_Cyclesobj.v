(* Control-skeleton tie of emd/cycles.py get_subset_vector / get_chain_vector (property C16) and of the methods
   of class Cycles (property C15); notes/TIE_CYCLESOBJ.md.
   THE REVIEWABLE PART: the value universe, the primitive mapping tables for the translated programs of
   gen/Gen_Skel_Cyclesobj.v, the initial environments and the rendering of model results. Definitions only; the
   proofs are in proofs/SkelFacts_Cyclesobj.v, the statements in props/Prop_Tie_Cyclesobj.v.

   PART 1 (C16): get_subset_vector, get_chain_vector <-> model/CycleMaps.v.
   PART 2 (C15): Cycles.pick_cycle_subset, get_matching_cycles, _parse_condition, add_cycle_metric,
   _safe_add_metric <-> model/CyclesObj.v.

   THE OBJECT.  The mini language has no objects.  `self` is an ordinary variable holding ONE value [CSelf st],
   st : CyclesObj.cstate.  The translator already emits attribute reads as primitives "self.attr" [self] and
   attribute stores as `self = "self.attr =" [self; v]` (N7 / N11), i.e. in state-passing form.  Method calls
   written as EXPRESSION STATEMENTS (`self.add_cycle_metric(..)`, `self._safe_add_metric(..)`) mutate the object and
   drop their value; [thread_self] (below, 15 lines) rewrites exactly those statements, for the primitive names listed
   in [writers], into `self = <call>`: the writer's row returns the NEW object.  Nothing else is changed
   ([erase_self (thread_self p) = p] is checked in the proofs file).  Method calls in value position
   (`self.get_matching_cycles(conditions)`, `self._parse_condition(c)`) are readers: plain primitives.
   The state a method leaves behind is read off the variable "self" in [final_env] (the environment in which
   the execution stopped - also after a Return or a Raise): this is what makes the ATOMICITY of pick_cycle_subset
   a statement about the translated code.
   The model state has ghost fields (s_valids, s_clock, s_pick_clock, m_prov, m_stamp) that no Python
   attribute corresponds to.  The attribute-store rows leave them alone; the theorems compare states through
   [pyview] (every non-ghost field).

   ONE CALL IS NOT EXPRESSIBLE by the translator as it stands: `func(self.metrics[name], val)` in
   get_matching_cycles calls a LOCAL VARIABLE; N6 emits `ECall "func" [..]` without the value of func, so a pure
   primitive could not know which comparator is meant.  [callvar] (below) rewrites `ECall "func" args` into
   `ECall "call" (EVar "func" :: args)`; again the inverse is checked. *)
From Coq Require Import String Ascii List Bool Arith ZArith QArith Lia.
From EmdV Require Import lib.NpLite model.CycleMaps model.CyclesObj.
From EmdV Require Import lib.PyLoop lib.PyLoopTools gen.Gen_Skel_Cyclesobj.
Import ListNotations.
Open Scope string_scope.
(* name clashes: [res Ok] and [CEq CNe CLt CGt CLe CGe] below are those of lib/PyLoop.v; the model's are written
   CyclesObj.Ok / CyclesObj.Err / CyclesObj.CEq ... *)

(* ================================================================================================ *)
(* 0. the value universe: what a `VSig` is in these programs                                          *)
(* ================================================================================================ *)
Inductive cval :=
| CBools (l : list bool)            (* a boolean ndarray: valids, vect > -1, one comparison result *)
| CVec (l : list Z)                 (* an integer ndarray: subset_vect, chain_vect, dchain_inds, np.arange *)
| CIdx (l : list nat)               (* an index array: np.where(mask)[0] *)
| CInt (z : Z)                      (* an integer scalar that may be negative: -1, an element, .max() *)
| CArr (l : list (option Z))        (* a per-cycle value array, nan = None *)
| CMat (n : nat) (cols : list (list bool))   (* the n x k array `out` of get_matching_cycles, by columns *)
| CSelf (st : cstate)               (* the Cycles object *)
| CMetrics (ms : list metric)       (* the dict self.metrics *)
| CCmp (c : CyclesObj.cmp)          (* np.equal / np.not_equal / ... *)
| CLit (q : Q)                      (* a float literal *)
| CChars (l : list ascii).          (* a str handled character-wise (comp in _parse_condition) *)

Definition set_nth {A : Type} (i : nat) (v : A) (l : list A) : list A := (firstn i l ++ v :: skipn (S i) l)%list.

Definition res_outcome {V : Type} (r : res (val V)) : outcome V :=
  match r with Ok v => Return v | Exc x => Raise x | Bad => Stuck end.

Local Notation V := cval.
Local Notation val := (PyLoop.val cval).

Definition vbools (l : list bool) : val := VSig (CBools l).
Definition vvec (l : list Z) : val := VSig (CVec l).
Definition vidx (l : list nat) : val := VSig (CIdx l).
Definition vint (z : Z) : val := VSig (CInt z).
Definition varr (l : list (option Z)) : val := VSig (CArr l).
Definition vself (st : cstate) : val := VSig (CSelf st).

(* an integer: a Python int >= 0 (literal, range element, the counter) or a possibly negative scalar *)
Definition as_int (v : val) : option Z :=
  match v with
  | VNat n => Some (Z.of_nat n)
  | VSig (CInt z) => Some z
  | _ => None
  end.

(* wrappers that the evaluator of the proofs does not unfold *)
Definition bool_at (l : list bool) (i : nat) : option bool := nth_error l i.
Definition z_at (l : list Z) (i : nat) : option Z := nth_error l i.
Definition store_z (l : list Z) (i : nat) (z : Z) : option (list Z) :=
  if (i <? length l)%nat then Some (set_nth i z l) else None.
Definition minus1 (l : list Z) : list Z := map (fun x => (x - 1)%Z) l.
Definition zeros {A : Type} (l : list A) : list Z := map (fun _ => 0%Z) l.
Definition gt_mask (l : list Z) (z : Z) : list bool := map (fun x => Z.ltb z x) l.
Definition where_true (m : list bool) : list nat := positions (fun b => b) m.
Definition r1_diff (inds : list nat) : list Z := (1 :: zdiffs (map Z.of_nat inds))%Z.

(* ================================================================================================ *)
(* PART 1. get_subset_vector / get_chain_vector                                                       *)
(* ================================================================================================ *)
Definition h_len : handler V :=
  fun args kw => match args, kw with
                 | [VSig (CBools l)], [] => Ok (VNat (length l))
                 | [VSig (CIdx l)], [] => Ok (VNat (length l))
                 | [VSig (CArr l)], [] => Ok (VNat (length l))
                 | [VList l], [] => Ok (VNat (length l))
                 | _, _ => Bad
                 end.

(* N11 store vect[ii] = v : the new value of vect; IndexError when ii is out of range *)
Definition h_store_z : handler V :=
  fun args kw => match args, kw with
                 | [VSig (CVec l); VNat i; v], [] =>
                     match as_int v with
                     | Some z => match store_z l i z with Some l' => Ok (vvec l') | None => Exc "IndexError" end
                     | None => Bad
                     end
                 | _, _ => Bad
                 end.

Definition vectors_table : list (string * handler V) :=
  [ (* np.zeros_like(x) [.astype(int)] : one 0 per element *)
    ("np.zeros_like(valids).astype(int)",
      fun args kw => match args, kw with [VSig (CBools l)], [] => Ok (vvec (zeros l)) | _, _ => Bad end);
    ("np.zeros_like",
      fun args kw => match args, kw with [VSig (CIdx l)], [] => Ok (vvec (zeros l)) | _, _ => Bad end);
    (* array - 1, elementwise *)
    ("-", fun args kw => match args, kw with [VSig (CVec l); VNat 1], [] => Ok (vvec (minus1 l)) | _, _ => Bad end);
    (* the literal -1 (unary minus is an opaque form, N7) *)
    ("-1", fun args kw => match args, kw with [], [] => Ok (vint (-1)) | _, _ => Bad end);
    ("len", h_len);
    ("range", range_handler);
    (* valids[ii] (a bool), dchain_inds[ii] (an integer): IndexError out of range *)
    ("getitem", fun args kw => match args, kw with
                               | [VSig (CBools l); VNat i], [] =>
                                   match bool_at l i with Some b => Ok (VBool b) | None => Exc "IndexError" end
                               | [VSig (CVec l); VNat i], [] =>
                                   match z_at l i with Some z => Ok (vint z) | None => Exc "IndexError" end
                               | _, _ => Bad
                               end);
    (* valids[ii] == 0 on a bool; dchain_inds[ii] == 1 on an integer *)
    ("==", fun args kw => match args, kw with
                          | [VBool b; VNat 0], [] => Ok (VBool (negb b))
                          | [VSig (CInt z); VNat n], [] => Ok (VBool (Z.eqb z (Z.of_nat n)))
                          | _, _ => Bad
                          end);
    (* subset_vect > -1 (elementwise); dchain_inds[ii] > 1 *)
    (">", fun args kw => match args, kw with
                         | [VSig (CVec l); VSig (CInt z)], [] => Ok (vbools (gt_mask l z))
                         | [VSig (CInt z); VNat n], [] => Ok (VBool (Z.ltb (Z.of_nat n) z))
                         | _, _ => Bad
                         end);
    (* np.where(mask) : a 1-tuple holding the positions of the True elements *)
    ("np.where", fun args kw => match args, kw with
                                | [VSig (CBools m)], [] => Ok (VList [vidx (where_true m)])
                                | _, _ => Bad
                                end);
    (* np.r_[1, np.diff(chain_inds)] *)
    ("np.r_[1, np.diff(chain_inds)]",
      fun args kw => match args, kw with [VSig (CIdx l)], [] => Ok (vvec (r1_diff l)) | _, _ => Bad end);
    ("subset_vect[ii] =", h_store_z);
    ("chainv[ii] =", h_store_z) ].
Definition vectors_prims : prims V := prims_of vectors_table.

Definition names_get_subset_vector : list string :=
  Eval cbv in assigned prog_get_subset_vector params_get_subset_vector.
Definition names_get_chain_vector : list string :=
  Eval cbv in assigned prog_get_chain_vector params_get_chain_vector.
Definition env0_get_subset_vector (valids : list bool) : env V :=
  frame params_get_subset_vector names_get_subset_vector [vbools valids].
Definition env0_get_chain_vector (sv : list Z) : env V :=
  frame params_get_chain_vector names_get_chain_vector [vvec sv].

(* a model vector at the Python level *)
Definition vec_outcome (l : list Z) : outcome V := Return (vvec l).

(* ================================================================================================ *)
(* PART 2. class Cycles                                                                               *)
(* ================================================================================================ *)
(* ---- 2.0 the two program transformations (see the header) ---------------------------------------- *)
Definition mem (x : string) (l : list string) : bool := existsb (String.eqb x) l.
Definition is_self (e : expr) : bool := match e with EVar x => String.eqb x "self" | _ => false end.

Section Thread.
  Variable writers : list string.             (* primitive names, as emitted by the translator *)

  (* `w(self, ..)` as an expression statement, w a writer  ->  `self = w(self, ..)` *)
  Fixpoint thread_self (s : stmt) : stmt :=
    match s with
    | SExpr (ECall f (a :: args) kw) =>
        if mem f writers && is_self a then SAssign "self" (ECall f (a :: args) kw) else s
    | SSeq a b => SSeq (thread_self a) (thread_self b)
    | SIf c a b => SIf c (thread_self a) (thread_self b)
    | SWhile c b => SWhile c (thread_self b)
    | SFor x it b => SFor x it (thread_self b)
    | STry b hs f => STry (thread_self b) (map (fun nh => (fst nh, thread_self (snd nh))) hs) (thread_self f)
    | _ => s
    end.

  Fixpoint erase_self (s : stmt) : stmt :=
    match s with
    | SAssign x (ECall f (a :: args) kw) =>
        if String.eqb x "self" && mem f writers && is_self a then SExpr (ECall f (a :: args) kw) else s
    | SSeq a b => SSeq (erase_self a) (erase_self b)
    | SIf c a b => SIf c (erase_self a) (erase_self b)
    | SWhile c b => SWhile c (erase_self b)
    | SFor x it b => SFor x it (erase_self b)
    | STry b hs f => STry (erase_self b) (map (fun nh => (fst nh, erase_self (snd nh))) hs) (erase_self f)
    | _ => s
    end.
End Thread.

Section CallVar.
  Variable fv : string.                       (* a local variable that is called *)

  (* `fv(args)` -> `call(fv, args)` *)
  Fixpoint cexpr (e : expr) : expr :=
    match e with
    | ECall f args kw =>
        let args' := map cexpr args in
        let kw' := map (fun ka => (fst ka, cexpr (snd ka))) kw in
        if String.eqb f fv then ECall "call" (EVar fv :: args') kw' else ECall f args' kw'
    | EIsNone a => EIsNone (cexpr a)
    | ENot a => ENot (cexpr a)
    | EOr a b => EOr (cexpr a) (cexpr b)
    | EAnd a b => EAnd (cexpr a) (cexpr b)
    | ECmp op a b => ECmp op (cexpr a) (cexpr b)
    | EArith op a b => EArith op (cexpr a) (cexpr b)
    | EList es => EList (map cexpr es)
    | EIndex a i => EIndex (cexpr a) (cexpr i)
    | EVar _ | ENone | EBool _ | ENat _ | EStr _ => e
    end.

  Fixpoint callvar (s : stmt) : stmt :=
    match s with
    | SAssign x e => SAssign x (cexpr e)
    | SUnpack xs e => SUnpack xs (cexpr e)
    | SExpr e => SExpr (cexpr e)
    | SSeq a b => SSeq (callvar a) (callvar b)
    | SIf c a b => SIf (cexpr c) (callvar a) (callvar b)
    | SWhile c b => SWhile (cexpr c) (callvar b)
    | SRaise exn args => SRaise exn (map cexpr args)
    | SReturn e => SReturn (cexpr e)
    | SFor x it b => SFor x (cexpr it) (callvar b)
    | STry b hs f => STry (callvar b) (map (fun nh => (fst nh, callvar (snd nh))) hs) (callvar f)
    | SSkip | SContinue => s
    end.

  Definition is_fv (e : expr) : bool := match e with EVar x => String.eqb x fv | _ => false end.

  Fixpoint uexpr (e : expr) : expr :=
    match e with
    | ECall f args kw =>
        let args' := map uexpr args in
        let kw' := map (fun ka => (fst ka, uexpr (snd ka))) kw in
        match args' with
        | a :: t => if String.eqb f "call" && is_fv a then ECall fv t kw' else ECall f args' kw'
        | [] => ECall f args' kw'
        end
    | EIsNone a => EIsNone (uexpr a)
    | ENot a => ENot (uexpr a)
    | EOr a b => EOr (uexpr a) (uexpr b)
    | EAnd a b => EAnd (uexpr a) (uexpr b)
    | ECmp op a b => ECmp op (uexpr a) (uexpr b)
    | EArith op a b => EArith op (uexpr a) (uexpr b)
    | EList es => EList (map uexpr es)
    | EIndex a i => EIndex (uexpr a) (uexpr i)
    | EVar _ | ENone | EBool _ | ENat _ | EStr _ => e
    end.

  Fixpoint uncallvar (s : stmt) : stmt :=
    match s with
    | SAssign x e => SAssign x (uexpr e)
    | SUnpack xs e => SUnpack xs (uexpr e)
    | SExpr e => SExpr (uexpr e)
    | SSeq a b => SSeq (uncallvar a) (uncallvar b)
    | SIf c a b => SIf (uexpr c) (uncallvar a) (uncallvar b)
    | SWhile c b => SWhile (uexpr c) (uncallvar b)
    | SRaise exn args => SRaise exn (map uexpr args)
    | SReturn e => SReturn (uexpr e)
    | SFor x it b => SFor x (uexpr it) (uncallvar b)
    | STry b hs f => STry (uncallvar b) (map (fun nh => (fst nh, uncallvar (snd nh))) hs) (uncallvar f)
    | SSkip | SContinue => s
    end.
End CallVar.

(* the writers: method calls that mutate self, written as expression statements *)
Definition writers : list string :=
  [ "self.add_cycle_metric('chain_ind', vals, dtype=int)";      (* in pick_cycle_subset *)
    "self._safe_add_metric(name, cycle_vals)" ].                (* in add_cycle_metric *)

(* the programs the theorems are about: CLOSED terms, recomputed from the generated programs at every build *)
Definition tprog_pick_cycle_subset : stmt := Eval cbv in thread_self writers prog_Cycles_pick_cycle_subset.
Definition tprog_add_cycle_metric : stmt := Eval cbv in thread_self writers prog_Cycles_add_cycle_metric.
Definition tprog_get_matching_cycles : stmt := Eval cbv in callvar "func" prog_Cycles_get_matching_cycles.
(* _parse_condition and _safe_add_metric are used as generated *)

(* ---- 2.1 the object ----------------------------------------------------------------------------- *)
(* attribute stores: ONE non-ghost field changes *)
Definition set_conds (st : cstate) (cs : list string) : cstate :=
  {| s_P := s_P st; s_trough := s_trough st; s_ph := s_ph st; s_cv := s_cv st; s_cache := s_cache st;
     s_metrics := s_metrics st; s_subset := s_subset st; s_chain := s_chain st; s_conds := Some cs;
     s_valids := s_valids st; s_clock := s_clock st; s_pick_clock := s_pick_clock st |}.
Definition set_subv (st : cstate) (sv : list Z) : cstate :=
  {| s_P := s_P st; s_trough := s_trough st; s_ph := s_ph st; s_cv := s_cv st; s_cache := s_cache st;
     s_metrics := s_metrics st; s_subset := Some sv; s_chain := s_chain st; s_conds := s_conds st;
     s_valids := s_valids st; s_clock := s_clock st; s_pick_clock := s_pick_clock st |}.
Definition set_chainv (st : cstate) (chv : list Z) : cstate :=
  {| s_P := s_P st; s_trough := s_trough st; s_ph := s_ph st; s_cv := s_cv st; s_cache := s_cache st;
     s_metrics := s_metrics st; s_subset := s_subset st; s_chain := Some chv; s_conds := s_conds st;
     s_valids := s_valids st; s_clock := s_clock st; s_pick_clock := s_pick_clock st |}.

(* what Python can see of a state: every field that is not a ghost *)
Definition pyview (st : cstate) :=
  (s_P st, s_trough st, s_ph st, s_cv st, s_cache st,
   map (fun m => (m_name m, m_vals m)) (s_metrics st), s_subset st, s_chain st, s_conds st).

(* self.metrics[name] = vals : the dict store of the model (an existing key keeps its position) *)
Definition put_metric (st : cstate) (name : string) (vals : list (option Z)) : cstate :=
  set_metrics st (upd_metric {| m_name := name; m_vals := vals; m_prov := PAdded; m_stamp := S (s_clock st) |}
                             (s_metrics st)) (S (s_clock st)).

(* a method call seen from outside: falling off the end returns None *)
Definition as_call (o : outcome V) : outcome V :=
  match o with Normal _ | Continue _ => Return VNone | o' => o' end.

(* ---- 2.2 Python values of the model's data -------------------------------------------------------- *)
Fixpoint strs_of (l : list val) : option (list string) :=
  match l with
  | [] => Some []
  | VStr s :: t => match strs_of t with Some r => Some (s :: r) | None => None end
  | _ => None
  end.
(* `conditions`: a list of str, or one str *)
Definition conds_of (v : val) : option (list string) :=
  match v with VStr s => Some [s] | VList l => strs_of l | _ => None end.
Definition vconds (cs : list string) : val := VList (map VStr cs).

Definition metric_vals (name : string) (ms : list metric) : option (list (option Z)) :=
  option_map m_vals (find_metric name ms).
Definition cmp_col (c : CyclesObj.cmp) (vals : list (option Z)) (q : Q) : list bool :=
  map (fun v => eval_cmp c v q) vals.
Definition zero_cols (n k : nat) : list (list bool) := repeat (repeat false n) k.
(* out[:, idx] = col, col of the full length (broadcasting of shorter arrays is not modelled) *)
Definition store_col (n : nat) (cols : list (list bool)) (i : nat) (col : list bool) : option (list (list bool)) :=
  if (i <? length cols)%nat && (length col =? n)%nat then Some (set_nth i col cols) else None.
(* np.all(out, axis=1) *)
Definition all_rows (n : nat) (cols : list (list bool)) : list bool :=
  map (fun i => forallb (fun col => nth i col false) cols) (seq 0 n).
Fixpoint enum_vals (i : nat) (l : list val) : list val :=
  match l with [] => [] | v :: t => VList [VNat i; v] :: enum_vals (S i) t end.
(* vect.max(): ValueError on an empty array *)
Definition vec_max (l : list Z) : option Z := match l with [] => None | x :: t => Some (zmax_list x t) end.
Definition str_is (l : list ascii) (s : string) : bool := String.eqb (unchars l) s.
Definition drop_name (s nm : string) : list ascii := skipn (String.length nm) (chars s).

(* ---- 2.3 Cycles._parse_condition ------------------------------------------------------------------ *)
Definition vcond (c : cond) : val := VList [VStr (c_name c); VSig (CCmp (c_cmp c)); VSig (CLit (c_lit c))].

(* what the code does with a string the model rejects (parse_cond = None): comp[0] of an empty string is an
   IndexError; float() of the rest a ValueError; with a comparator that none of the six tests recognises and a
   good literal, `func` is unbound at the return (UnboundLocalError): the mini language has no such outcome, an
   unbound name is Stuck *)
Definition parse_fail (s : string) : res val :=
  match snd (span_name (chars s)) with
  | [] => Exc "IndexError"
  | comp => match parse_float (lstrip_ops comp) with None => Exc "ValueError" | Some _ => Bad end
  end.
Definition parse_row (s : string) : res val :=
  match parse_cond s with Some c => Ok (vcond c) | None => parse_fail s end.

Definition h_cmp (c : CyclesObj.cmp) : handler V :=
  fun args kw => match args, kw with [], [] => Ok (VSig (CCmp c)) | _, _ => Bad end.

Definition parse_table : list (string * handler V) :=
  [ (* re.split(r'[=<>!]', cond): only element 0 is modelled - the text before the first of = < > ! *)
    ("re.split", fun args kw => match args, kw with
                                | [VStr p; VStr s], [] =>
                                    if String.eqb p "[=<>!]"
                                    then Ok (VList [VStr (unchars (fst (span_name (chars s))))]) else Bad
                                | _, _ => Bad
                                end);
    ("cond[len(name):]", fun args kw => match args, kw with
                                        | [VStr s; VStr nm], [] => Ok (VSig (CChars (drop_name s nm)))
                                        | _, _ => Bad
                                        end);
    ("comp[:2]", fun args kw => match args, kw with
                                | [VSig (CChars l)], [] => Ok (VSig (CChars (firstn 2 l)))
                                | _, _ => Bad
                                end);
    (* comp[0]: IndexError on the empty string *)
    ("getitem", fun args kw => match args, kw with
                               | [VSig (CChars l); VNat 0], [] =>
                                   match l with [] => Exc "IndexError" | a :: _ => Ok (VSig (CChars [a])) end
                               | _, _ => Bad
                               end);
    (* str == literal *)
    ("==", fun args kw => match args, kw with
                          | [VSig (CChars l); VStr s], [] => Ok (VBool (str_is l s))
                          | _, _ => Bad
                          end);
    ("np.equal", h_cmp CyclesObj.CEq);
    ("np.not_equal", h_cmp CyclesObj.CNe);
    ("np.less_equal", h_cmp CyclesObj.CLe);
    ("np.greater_equal", h_cmp CyclesObj.CGe);
    ("np.less", h_cmp CyclesObj.CLt);
    ("np.greater", h_cmp CyclesObj.CGt);
    ("print", fun args kw => match args, kw with [VStr _], [] => Ok VNone | _, _ => Bad end);
    ("comp.lstrip('!=<>')", fun args kw => match args, kw with
                                           | [VSig (CChars l)], [] => Ok (VSig (CChars (lstrip_ops l)))
                                           | _, _ => Bad
                                           end);
    (* float(text): the model's parse_float (the decimal literals; see the notes for what Python accepts beyond) *)
    ("float", fun args kw => match args, kw with
                             | [VSig (CChars l)], [] =>
                                 match parse_float l with Some q => Ok (VSig (CLit q)) | None => Exc "ValueError" end
                             | _, _ => Bad
                             end) ].
Definition parse_prims : prims V := prims_of parse_table.

Definition names_parse_condition : list string :=
  Eval cbv in assigned prog_Cycles__parse_condition params_Cycles__parse_condition.
Definition env0_parse_condition (self : val) (s : string) : env V :=
  frame params_Cycles__parse_condition names_parse_condition [self; VStr s].

(* ---- 2.4 the table of the methods ----------------------------------------------------------------- *)
(* the callee rows: what the theorem about each callee proves of its own translated program *)
(* get_matching_cycles on a failure: the exception of the FIRST condition that fails, in the order given -
   its parse failure, or the KeyError of self.metrics[name] *)
Fixpoint gm_err (ms : list metric) (cs : list string) : res val :=
  match cs with
  | [] => Bad
  | s :: t =>
      match parse_cond s with
      | None => parse_fail s
      | Some c => match find_metric (c_name c) ms with None => Exc "KeyError" | Some _ => gm_err ms t end
      end
  end.
Definition gm_row (st : cstate) (cs : list string) : res val :=
  match get_matching st cs with
  | CyclesObj.Ok v => Ok (vbools v)
  | Err _ => match find_metric "is_good" (s_metrics st) with
             | None => Exc "KeyError"
             | Some _ => gm_err (s_metrics st) cs
             end
  end.
(* _safe_add_metric: the length guard raises *)
Definition safe_add_row (st : cstate) (name : string) (vals : list (option Z)) : res val :=
  if (length vals =? ncyc st)%nat then Ok (vself (put_metric st name vals)) else Exc "ValueError".

Definition cycles_table : list (string * handler V) :=
  [ (* ---- pick_cycle_subset ---- *)
    ("self.get_matching_cycles(conditions)",
      fun args kw => match args, kw with
                     | [VSig (CSelf st); c], [] => match conds_of c with Some cs => gm_row st cs | None => Bad end
                     | _, _ => Bad
                     end);
    ("get_subset_vector",
      fun args kw => match args, kw with [VSig (CBools v)], [] => Ok (vvec (get_subset_vector v)) | _, _ => Bad end);
    ("get_chain_vector",
      fun args kw => match args, kw with [VSig (CVec sv)], [] => Ok (vvec (get_chain_vector sv)) | _, _ => Bad end);
    ("chain_vect.max()",
      fun args kw => match args, kw with
                     | [VSig (CVec l)], [] => match vec_max l with Some z => Ok (vint z) | None => Exc "ValueError" end
                     | _, _ => Bad
                     end);
    ("+", fun args kw => match args, kw with
                         | [VSig (CInt z); VNat n], [] => Ok (vint (z + Z.of_nat n))
                         | _, _ => Bad
                         end);
    ("np.arange", fun args kw => match args, kw with
                                 | [VSig (CInt z)], [] => Ok (vvec (arange (Z.to_nat z)))
                                 | _, _ => Bad
                                 end);
    ("_cycles_support.project_chain_to_cycles",
      fun args kw => match args, kw with
                     | [VSig (CVec vals); VSig (CVec chv); VSig (CVec sv)], [] =>
                         Ok (varr (project_chain_to_cycles vals chv sv))
                     | _, _ => Bad
                     end);
    ("self.mask_conditions =",
      fun args kw => match args, kw with
                     | [VSig (CSelf st); VList l], [] =>
                         match strs_of l with Some cs => Ok (vself (set_conds st cs)) | None => Bad end
                     | _, _ => Bad
                     end);
    ("self.subset_vect =",
      fun args kw => match args, kw with
                     | [VSig (CSelf st); VSig (CVec sv)], [] => Ok (vself (set_subv st sv))
                     | _, _ => Bad
                     end);
    ("self.chain_vect =",
      fun args kw => match args, kw with
                     | [VSig (CSelf st); VSig (CVec chv)], [] => Ok (vself (set_chainv st chv))
                     | _, _ => Bad
                     end);
    (* WRITER, callee row of add_cycle_metric with dtype=int (nan -> -1) *)
    ("self.add_cycle_metric('chain_ind', vals, dtype=int)",
      fun args kw => match args, kw with
                     | [VSig (CSelf st); VSig (CArr vals)], [] =>
                         Ok (vself (fst (add_metric st "chain_ind" PChainInd (nan_to_m1 vals))))
                     | _, _ => Bad
                     end);
    (* ---- get_matching_cycles ---- *)
    ("str", fun args kw => match args, kw with [], [] => Ok (VOpaque "str" []) | _, _ => Bad end);
    ("isinstance", fun args kw => match args, kw with
                                  | [v; t], [] => if is_opaque0 t "str"
                                                  then Ok (VBool (match v with VStr _ => true | _ => false end))
                                                  else Bad
                                  | _, _ => Bad
                                  end);
    ("self.metrics['is_good']",
      fun args kw => match args, kw with
                     | [VSig (CSelf st)], [] =>
                         match metric_vals "is_good" (s_metrics st) with
                         | Some v => Ok (varr v) | None => Exc "KeyError"
                         end
                     | _, _ => Bad
                     end);
    ("len", h_len);
    ("np.zeros", fun args kw => match args, kw with
                                | [VList [VNat n; VNat k]], [] => Ok (VSig (CMat n (zero_cols n k)))
                                | _, _ => Bad
                                end);
    ("enumerate", fun args kw => match args, kw with [VList l], [] => Ok (VList (enum_vals 0 l)) | _, _ => Bad end);
    (* callee row of _parse_condition *)
    ("self._parse_condition(c)",
      fun args kw => match args, kw with [VSig (CSelf _); VStr s], [] => parse_row s | _, _ => Bad end);
    ("self.metrics", fun args kw => match args, kw with
                                    | [VSig (CSelf st)], [] => Ok (VSig (CMetrics (s_metrics st)))
                                    | _, _ => Bad
                                    end);
    ("getitem", fun args kw => match args, kw with
                               | [VSig (CMetrics ms); VStr name], [] =>
                                   match metric_vals name ms with Some v => Ok (varr v) | None => Exc "KeyError" end
                               | _, _ => Bad
                               end);
    (* func(values, literal), func the comparator that _parse_condition returned (callvar) *)
    ("call", fun args kw => match args, kw with
                            | [VSig (CCmp c); VSig (CArr vals); VSig (CLit q)], [] => Ok (vbools (cmp_col c vals q))
                            | _, _ => Bad
                            end);
    ("out[:, idx] =", fun args kw => match args, kw with
                                     | [VSig (CMat n cols); VNat i; VSig (CBools col)], [] =>
                                         match store_col n cols i col with
                                         | Some cols' => Ok (VSig (CMat n cols')) | None => Bad
                                         end
                                     | _, _ => Bad
                                     end);
    ("np.all", fun args kw => match args, kw with
                              | [VSig (CMat n cols)], [(k, VNat 1)] =>
                                  if String.eqb k "axis" then Ok (vbools (all_rows n cols)) else Bad
                              | _, _ => Bad
                              end);
    (* ---- add_cycle_metric / _safe_add_metric ---- *)
    ("self.ncycles", fun args kw => match args, kw with
                                    | [VSig (CSelf st)], [] => Ok (VNat (ncyc st))
                                    | _, _ => Bad
                                    end);
    ("msg.format(cycle_vals.shape, self.ncycles)",
      fun args kw => match args, kw with
                     | [VStr _; VSig (CArr _); VSig (CSelf _)], [] => Ok (VOpaque "message" [])
                     | _, _ => Bad
                     end);
    ("ValueError", fun args kw => match args, kw with [m], [] => Ok (VOpaque "ValueError" [m]) | _, _ => Bad end);
    ("dtype is int", fun args kw => match args, kw with [d], [] => Ok (VBool (is_opaque0 d "int")) | _, _ => Bad end);
    ("-1", fun args kw => match args, kw with [], [] => Ok (vint (-1)) | _, _ => Bad end);
    ("cycle_vals[np.isnan(cycle_vals)] =",
      fun args kw => match args, kw with
                     | [VSig (CArr l); VSig (CInt (Zneg xH))], [] => Ok (varr (nan_to_m1 l))
                     | _, _ => Bad
                     end);
    (* astype(int) of values that are integers already (nan has been replaced) *)
    ("cycle_vals.astype(dtype)",
      fun args kw => match args, kw with
                     | [VSig (CArr l); d], [] => if is_opaque0 d "int" then Ok (varr l) else Bad
                     | _, _ => Bad
                     end);
    (* WRITER, callee row of _safe_add_metric *)
    ("self._safe_add_metric(name, cycle_vals)",
      fun args kw => match args, kw with
                     | [VSig (CSelf st); VStr name; VSig (CArr vals)], [] => safe_add_row st name vals
                     | _, _ => Bad
                     end);
    ("self.metrics[name] =",
      fun args kw => match args, kw with
                     | [VSig (CSelf st); VStr name; VSig (CArr vals)], [] => Ok (vself (put_metric st name vals))
                     | _, _ => Bad
                     end) ].
Definition cycles_prims : prims V := prims_of cycles_table.

(* ---- 2.5 initial environments ---------------------------------------------------------------------- *)
Definition names_pick_cycle_subset : list string :=
  Eval cbv in assigned tprog_pick_cycle_subset params_Cycles_pick_cycle_subset.
Definition names_get_matching_cycles : list string :=
  Eval cbv in assigned tprog_get_matching_cycles params_Cycles_get_matching_cycles.
Definition names_add_cycle_metric : list string :=
  Eval cbv in assigned tprog_add_cycle_metric params_Cycles_add_cycle_metric.
Definition names_safe_add_metric : list string :=
  Eval cbv in assigned prog_Cycles__safe_add_metric params_Cycles__safe_add_metric.

Definition env0_pick_cycle_subset (st : cstate) (cs : list string) : env V :=
  frame params_Cycles_pick_cycle_subset names_pick_cycle_subset [vself st; vconds cs].
Definition env0_get_matching_cycles (st : cstate) (conditions : val) (ret_separate : bool) : env V :=
  frame params_Cycles_get_matching_cycles names_get_matching_cycles [vself st; conditions; VBool ret_separate].
(* dtype: None, or int *)
Definition vdtype (as_int : bool) : val := if as_int then VOpaque "int" [] else VNone.
Definition env0_add_cycle_metric (st : cstate) (name : string) (vals : list (option Z)) (as_int : bool) : env V :=
  frame params_Cycles_add_cycle_metric names_add_cycle_metric [vself st; VStr name; varr vals; vdtype as_int].
Definition env0_safe_add_metric (st : cstate) (name : string) (vals : list (option Z)) : env V :=
  frame params_Cycles__safe_add_metric names_safe_add_metric [vself st; VStr name; varr vals].

(* ---- 2.6 rendering of model results ------------------------------------------------------------------ *)
(* the outcome of pick_cycle_subset: None, or the exception (get_matching_cycles' own, or the ValueError of
   chain_vect.max() on an empty selection) *)
Definition pick_outcome (st : cstate) (cs : list string) : outcome V :=
  match gm_row st cs with
  | Ok (VSig (CBools valids)) =>
      match get_chain_vector (get_subset_vector valids) with [] => Raise "ValueError" | _ => Return VNone end
  | r => res_outcome r
  end.
(* add_cycle_metric RETURNS a ValueError object on a length mismatch *)
Definition add_outcome (stored : bool) : outcome V :=
  if stored then Return VNone else Return (VOpaque "ValueError" [VOpaque "message" []]).

(* hypothesis of the get_matching_cycles theorem: every metric has one value per cycle, like 'is_good'
   (part of the invariant of C15: CyclesObj.metric_ok). Without it numpy's broadcasting rules decide
   (a shorter metric raises ValueError or, with one element, is broadcast), which is not modelled. *)
Definition metrics_aligned (st : cstate) : Prop :=
  forall g, find_metric "is_good" (s_metrics st) = Some g ->
            Forall (fun m => length (m_vals m) = length (m_vals g)) (s_metrics st).
