(* Model of the array-layout validation of emd/support.py (property C19):
   ensure_vector 116-164, ensure_1d_with_singleton 167-220, ensure_2d 223-254,
   ensure_equal_dims 76-113, and of how each public entry point uses them.
   An array is represented by its shape only ([list nat], rank = length); every
   normalisation below is a C-order reshape (np.newaxis / [:, 0] on a singleton
   axis / np.squeeze), so the data are untouched -- the harness checks that on
   the implementation, and [shape_size] preservation is a theorem.
   Python exceptions are values: [Err IndexErr] / [Err ValueErr].
   Definitions only; lemmas in proofs/ShapesFacts.v. *)
From Coq Require Import ZArith List Bool Arith Lia.
Import ListNotations.

Definition shape := list nat.

Inductive err := IndexErr | ValueErr.
Inductive result (A : Type) : Type :=
| Ok (a : A)
| Err (e : err).
Arguments Ok {A} a.
Arguments Err {A} e.

Definition shape_size (s : shape) : nat := fold_right Nat.mul 1%nat s.

(* ---- numpy primitives on shapes ----------------------------------------------------- *)

(* np.all(xx.shape[1:] == np.ones_like(xx.shape[1:])) *)
Definition all_ones (s : shape) : bool := forallb (Nat.eqb 1) s.

(* np.squeeze(xx): every axis of length one is removed, the first one included *)
Definition squeeze (s : shape) : shape := filter (fun d => negb (Nat.eqb d 1)) s.

(* xx[:, np.newaxis]: IndexError ("too many indices") on a 0-d array *)
Definition add_axis1 (s : shape) : result shape :=
  match s with
  | [] => Err IndexErr
  | n :: t => Ok (n :: 1 :: t)
  end.

(* xx[:, 0]: drops axis 1 *)
Definition drop_axis1 (s : shape) : result shape :=
  match s with
  | n :: m :: t => if (m =? 0)%nat then Err IndexErr else Ok (n :: t)
  | _ => Err IndexErr
  end.

(* ---- ensure_1d_with_singleton (one array), the branches in source order ---------------
     if ndim > 2 and trailing all ones:      np.squeeze(xx)[:, np.newaxis]
     if ndim > 2 and not trailing all ones:  raise ValueError
     elif ndim == 2 and shape[1] != 1:       raise ValueError        <- the repair (C19)
     elif ndim == 1:                         xx[:, np.newaxis]
     (anything else passes through)                                                        *)
Definition e1d_one (s : shape) : result shape :=
  let nd := length s in
  if (2 <? nd)%nat && all_ones (tl s) then add_axis1 (squeeze s)
  else if (2 <? nd)%nat then Err ValueErr
  else if (nd =? 2)%nat && negb (nth 1 s 0 =? 1)%nat then Err ValueErr
  else if (nd =? 1)%nat then add_axis1 s
  else Ok s.

(* the code before the repair: no branch at all for 2-d input *)
Definition e1d_one_v0 (s : shape) : result shape :=
  let nd := length s in
  if (2 <? nd)%nat && all_ones (tl s) then add_axis1 (squeeze s)
  else if (2 <? nd)%nat then Err ValueErr
  else if (nd =? 1)%nat then add_axis1 s
  else Ok s.

(* ---- ensure_vector (one array), in source order (after the repair of C19) ---------------
     if ndim > 2:                      raise ValueError
     elif ndim > 1 and shape[1] == 1:  xx[:, 0]
     elif ndim > 1 and shape[1] != 1:  raise ValueError                                      *)
Definition ev_one (s : shape) : result shape :=
  let nd := length s in
  if (2 <? nd)%nat then Err ValueErr
  else if (1 <? nd)%nat && (nth 1 s 0 =? 1)%nat then drop_axis1 s
  else if (1 <? nd)%nat then Err ValueErr
  else Ok s.

(* the code before the repair tested `ndim > 2` LAST, where it is shadowed by the two tests above it:
   a rank-3 array with a singleton second axis was trimmed to a 2-d array and accepted *)
Definition ev_one_v0 (s : shape) : result shape :=
  let nd := length s in
  if (1 <? nd)%nat && (nth 1 s 0 =? 1)%nat then drop_axis1 s
  else if (1 <? nd)%nat then Err ValueErr
  else if (2 <? nd)%nat then Err ValueErr
  else Ok s.

(* ---- ensure_2d (one array): only 1-d input is touched ------------------------------------ *)
Definition e2d_one (s : shape) : result shape :=
  if (length s =? 1)%nat then add_axis1 s else Ok s.

(* ---- the loop over to_check: arrays are processed in order, the first failure raises ------ *)
Fixpoint map_result {A B} (f : A -> result B) (l : list A) : result (list B) :=
  match l with
  | [] => Ok []
  | a :: t =>
    match f a with
    | Err e => Err e
    | Ok b => match map_result f t with
              | Err e => Err e
              | Ok bs => Ok (b :: bs)
              end
    end
  end.

Definition ensure_1d_with_singleton (l : list shape) : result (list shape) := map_result e1d_one l.
Definition ensure_1d_with_singleton_v0 (l : list shape) : result (list shape) := map_result e1d_one_v0 l.
Definition ensure_vector (l : list shape) : result (list shape) := map_result ev_one l.
Definition ensure_vector_v0 (l : list shape) : result (list shape) := map_result ev_one_v0 l.
Definition ensure_2d (l : list shape) : result (list shape) := map_result e2d_one l.

(* ---- ensure_equal_dims (to_check, dim) ---------------------------------------------------
     dim None:  dim = np.arange(to_check[0].ndim)   -> the leading rank(first) axes of every array
     dim d:     [d]                                 -> axis d of every array
     all_dims = [tuple(np.array(x.shape)[dim]) for x in to_check]   (IndexError when an axis is missing,
                                                                    raised before any comparison)
     ValueError unless every all_dims[i] equals all_dims[0]                                   *)
Definition compared_dims (dim : option nat) (r0 : nat) (s : shape) : result (list nat) :=
  match dim with
  | None => if (r0 <=? length s)%nat then Ok (firstn r0 s) else Err IndexErr
  | Some d => match nth_error s d with
              | Some v => Ok [v]
              | None => Err IndexErr
              end
  end.

Definition dims_eqb (a b : list nat) : bool :=
  if list_eq_dec Nat.eq_dec a b then true else false.

Definition all_same (ds : list (list nat)) : bool :=
  match ds with
  | [] => true
  | d0 :: t => forallb (dims_eqb d0) t
  end.

Definition ensure_equal_dims (l : list shape) (dim : option nat) : result unit :=
  match dim, l with
  | None, [] => Err IndexErr                      (* to_check[0] *)
  | _, _ =>
    match map_result (compared_dims dim (length (hd [] l))) l with
    | Err e => Err e
    | Ok ds => if all_same ds then Ok tt else Err ValueErr
    end
  end.

(* ---- how the public entry points validate their array arguments ------------------------- *)
Definition bind {A B} (r : result A) (f : A -> result B) : result B :=
  match r with Ok a => f a | Err e => Err e end.

(* the single-signal sift routines: sift 455, ensemble_sift 633, complete_ensemble_sift 725,
   mask_sift 1029, get_next_imf 115, get_next_imf_mask 835 -- all call
   ensure_1d_with_singleton([X]) first and work on its result *)
Inductive sift_entry := Sift | EnsembleSift | CompleteEnsembleSift | MaskSift | GetNextImf | GetNextImfMask.
Definition sift_entry_layout (e : sift_entry) (s : shape) : result shape := e1d_one s.
Definition sift_entry_layout_v0 (e : sift_entry) (s : shape) : result shape := e1d_one_v0 s.

(* get_padded_extrema 1244 (hence interp_envelope): `if X.ndim == 2: X = X[:, 0]`, nothing else *)
Definition extrema_view (s : shape) : result shape :=
  if (length s =? 2)%nat then drop_axis1 s else Ok s.

(* frequency_transform 94, get_cycle_vector 135 (no mask), is_imf, normalised_waveform: ensure_2d([x]) *)
Definition transform_layout (s : shape) : result shape := e2d_one s.

(* get_cycle_stat 401 (values), _ensure_cycle_inputs 1039 (cycles), Cycles 1165, get_control_points 751: ensure_vector([x]) *)
Definition cycle_input_layout (s : shape) : result shape := ev_one s.

(* hilberthuang 587-588: ensure_2d([infr, inam]); ensure_equal_dims(.., dim=None) *)
Definition hilberthuang_validate (infr inam : shape) : result (list shape) :=
  bind (ensure_2d [infr; inam]) (fun l => bind (ensure_equal_dims l None) (fun _ => Ok l)).

(* holospectrum 482-485: ensure_2d of the three; equal along axis 0; equal along axis 1 *)
Definition holospectrum_validate (infr infr2 inam2 : shape) : result (list shape) :=
  bind (ensure_2d [infr; infr2; inam2]) (fun l =>
  bind (ensure_equal_dims l (Some 0%nat)) (fun _ =>
  bind (ensure_equal_dims l (Some 1%nat)) (fun _ => Ok l))).

(* phase_align 494-496: ensure_vector((ip, x)); ensure_equal_dims(.., dim=None) *)
Definition phase_align_validate (ip x : shape) : result (list shape) :=
  bind (ensure_vector [ip; x]) (fun l => bind (ensure_equal_dims l None) (fun _ => Ok l)).

(* bin_by_phase 612-617: ip through ensure_vector, x as given, weights (optional) through
   ensure_1d_with_singleton; equal along axis 0 *)
Definition bin_by_phase_validate (ip x : shape) (weights : option shape) : result (list shape) :=
  bind (ensure_vector [ip]) (fun lip =>
  match weights with
  | None => let l := lip ++ [x] in bind (ensure_equal_dims l (Some 0%nat)) (fun _ => Ok l)
  | Some w => bind (ensure_1d_with_singleton [w]) (fun lw =>
              let l := lip ++ [x] ++ lw in bind (ensure_equal_dims l (Some 0%nat)) (fun _ => Ok l))
  end).

(* get_cycle_vector 132-133 with a mask: ensure_2d([phase, mask]); equal along axis 0 *)
Definition cycle_vector_mask_validate (phase mask : shape) : result (list shape) :=
  bind (ensure_2d [phase; mask]) (fun l => bind (ensure_equal_dims l (Some 0%nat)) (fun _ => Ok l)).

(* ---- specification vocabulary ------------------------------------------------------------ *)
(* the layouts of ONE signal of n samples: (n,), (n,1), (n,1,1), ... *)
Definition single_signal_layout (s : shape) : Prop := exists n k, s = n :: repeat 1%nat k.

(* ---- rendering for the correspondence harness (DESIGN A.3) -------------------------------- *)
Open Scope Z_scope.
Definition err_code (e : err) : Z := match e with IndexErr => -1 | ValueErr => -2 end.

(* a shape as [rank; d0; d1; ...] *)
Definition render_shape (s : shape) : list Z := Z.of_nat (length s) :: map Z.of_nat s.

Definition render_shapes (r : result (list shape)) : list Z :=
  match r with
  | Err e => [err_code e]
  | Ok l => Z.of_nat (length l) :: flat_map render_shape l
  end.

Definition render_unit (r : result unit) : list Z :=
  match r with Err e => [err_code e] | Ok _ => [0] end.

(* which: 0 ensure_vector | 1 ensure_1d_with_singleton | 2 ensure_2d | 3 / 4: ensure_1d_with_singleton / ensure_vector before the repair *)
Definition run_ensure (which : Z) (l : list shape) : list Z :=
  render_shapes
    (if which =? 0 then ensure_vector l
     else if which =? 1 then ensure_1d_with_singleton l
     else if which =? 2 then ensure_2d l
     else if which =? 3 then ensure_1d_with_singleton_v0 l
     else ensure_vector_v0 l).

(* dim: -1 = None, d >= 0 = axis d *)
Definition dim_of_Z (d : Z) : option nat := if d <? 0 then None else Some (Z.to_nat d).
Definition run_equal_dims (d : Z) (l : list shape) : list Z := render_unit (ensure_equal_dims l (dim_of_Z d)).

(* every shape of rank <= 3 over a dimension alphabet, rank 0 first *)
Definition shapes_upto3 (alpha : list nat) : list shape :=
  [[]] ++ map (fun a => [a]) alpha
  ++ flat_map (fun a => map (fun b => [a; b]) alpha) alpha
  ++ flat_map (fun a => flat_map (fun b => map (fun c => [a; b; c]) alpha) alpha) alpha.

(* the composite validators, for the entry-point correspondence: which = 0 hilberthuang | 1 phase_align |
   2 bin_by_phase (no weights) | 3 get_cycle_vector with mask | 4 bin_by_phase with weights = third shape *)
Definition run_validate (which : Z) (a b w : shape) : list Z :=
  render_shapes
    (if which =? 0 then hilberthuang_validate a b
     else if which =? 1 then phase_align_validate a b
     else if which =? 2 then bin_by_phase_validate a b None
     else if which =? 3 then cycle_vector_mask_validate a b
     else bin_by_phase_validate a b (Some w)).

(* ---- specification vocabulary for ensure_equal_dims ----------------------------------------
   r0 = rank of the first array.  [has_dims]: the array has every axis that is looked at;
   [dims_of]: the lengths of those axes.                                                      *)
Definition has_dims (dim : option nat) (r0 : nat) (s : shape) : Prop :=
  match dim with
  | None => (r0 <= length s)%nat
  | Some d => (d < length s)%nat
  end.

Definition dims_of (dim : option nat) (r0 : nat) (s : shape) : list nat :=
  match dim with
  | None => firstn r0 s
  | Some d => [nth d s 0%nat]
  end.
