(* Symmetries of the sift (property C02): rescaling, sign flip, time reversal.
   Definitions only; lemmas in proofs/SymmetryFacts.v.

   Abstract part (any signal type V): the action of a symmetry on extraction results and on the
   envelope pair, and the masked extraction get_next_imf_mask / mask_sift (emd/sift.py 796-873,
   927-1103) with the mask family, the cosine and the standard deviation as oracles.

   Concrete part (integer lists, reusing model/Extrema.v and model/Toys.v): the envelope stage
   interp_envelope (1380-1446) = get_padded_extrema + an INTERPOLANT ORACLE evaluated on the sample
   grid.  To stay inside Z (no division) the interpolant oracle returns HALF the envelope value, so
   that the mean envelope np.mean([upper, lower]) is the exact sum of the two half-envelopes; every
   law used below is invariant under this reparametrisation (over Q it is the identity up to the
   factor 2), and the stopping rules are scale free. *)
From Coq Require Import ZArith List Bool Lia.
From EmdV Require Import lib.NpLite model.Extrema model.SiftCore model.Toys.
Import ListNotations.

(* ---- action of a symmetry s on what the extraction returns ---------------------------------- *)
Definition map_result {V : Type} (s : V -> V) (r : gni_result V) : gni_result V :=
  match r with
  | Imf x f n => Imf (s x) f n
  | ConvergeError n => ConvergeError n
  | GniOutOfFuel => GniOutOfFuel
  end.

(* ... and on the envelope pair (upper, lower): rescaling by c > 0 and time reversal keep the roles,
   multiplication by c < 0 swaps them: upper(c x) = c lower(x) *)
Definition env_same {V : Type} (s : V -> V) (p : V * V) : V * V := (s (fst p), s (snd p)).
Definition env_swap {V : Type} (s : V -> V) (p : V * V) : V * V := (s (snd p), s (fst p)).

(* ---- get_next_imf_mask (lines 839-873) --------------------------------------------------------
   one extraction per mask m_j on X + m_j, mask removed, mean over the phases; the continue flag is
   np.any of the members' flags; an exception in any member propagates (ConvergeError).
   The iteration count is not defined for a masked extraction (0). *)
Section Masked.
  Variable V : Type.
  Variable vadd vsub : V -> V -> V.
  Variable vmean : list V -> V.                    (* imfs.mean(axis=1) over the phases *)
  Variable gni : V -> gni_result V.                (* get_next_imf with the caller's imf_opts *)

  Definition member_ok (X m : V) : bool :=
    match gni (vadd X m) with Imf _ _ _ => true | _ => false end.
  Definition member_out (X m : V) : V :=
    match gni (vadd X m) with Imf p _ _ => vsub p m | _ => X end.
  Definition member_flag (X m : V) : bool :=
    match gni (vadd X m) with Imf _ f _ => f | _ => false end.

  Definition gni_mask (masks : list V) (X : V) : gni_result V :=
    if forallb (member_ok X) masks
    then Imf (vmean (map (member_out X) masks)) (existsb (member_flag X) masks) 0
    else ConvergeError 0.
End Masked.

(* ---- the mask family of mask_sift (lines 1044-1065, 846-852) ---------------------------------
   m_j = amp * cos(2 pi z_layer t + 2 pi j / nphases), j = 0..nphases-1, with
   amp = mask_amp[layer] * sd,  sd = X.std() (ratio_sig; ratio_imf on the first layer) or the
   previous IMF's std (ratio_imf, later layers).  cos and std are oracles. *)
Inductive amp_mode := RatioSig | RatioImf.

Section MaskFamily.
  Variables V S : Type.
  Variable vscal : S -> V -> V.                    (* amp * unit-amplitude mask *)
  Variable cosv : nat -> nat -> nat -> V.          (* cosv nphases layer j *)
  Variable std : V -> S.
  Variable amp_mul : nat -> S -> S.                (* mask_amp[layer] * sd *)

  Definition mask_sd (mode : amp_mode) (X : V) (acc : list V) : S :=
    match mode, acc with
    | RatioImf, _ :: _ => std (last acc X)
    | _, _ => std X
    end.

  Definition masks_of (mode : amp_mode) (nphases : nat) (X : V) (layer : nat) (acc : list V) : list V :=
    map (fun j => vscal (amp_mul layer (mask_sd mode X acc)) (cosv nphases layer j)) (seq 0 nphases).
End MaskFamily.

(* mask_sift's loop is SiftCore.peel_loop with this per-layer extraction *)
Definition mask_extract (V S : Type) (vadd vsub : V -> V -> V) (vmean : list V -> V) (gni : V -> gni_result V)
           (vscal : S -> V -> V) (cosv : nat -> nat -> nat -> V) (std : V -> S) (amp_mul : nat -> S -> S)
           (mode : amp_mode) (nphases : nat) (X : V) (layer : nat) (acc : list V) (r : V) : gni_result V :=
  gni_mask V vadd vsub vmean gni (masks_of V S vscal cosv std amp_mul mode nphases X layer acc) r.

(* ============================ concrete layer: integer lists ================================== *)
Open Scope Z_scope.

Definition zscale (c : Z) (x : list Z) : list Z := map (Z.mul c) x.
Definition zneg (x : list Z) : list Z := map Z.opp x.

(* locations of the time-reversed signal: t |-> K - t (K = N - 1), order restored *)
Definition mirror (K : Z) (l : list Z) : list Z := rev (map (fun v => K - v) l).
Definition mirror_nat (N : nat) (l : list nat) : list nat := rev (map (fun i => (N - 1 - i)%nat) l).

(* c < 0 exchanges the roles of peaks and troughs *)
Definition other (m : emode) : emode := match m with Peaks => Troughs | Troughs => Peaks | AbsPeaks => AbsPeaks end.

(* the per-sample decisions of the Rilling rule *)
Definition ril_flags (tn td : Z) (u l : list Z) : list bool :=
  map (fun ul => ril_exceeds tn td (fst ul) (snd ul)) (combine u l).

Definition scale_pad (c : Z) (r : pad_result) : pad_result :=
  match r with Padded L M => Padded L (zscale c M) | r => r end.
Definition mirror_pad (K : Z) (r : pad_result) : pad_result :=
  match r with Padded L M => Padded (mirror K L) (rev M) | r => r end.

(* interp_envelope for integer extrema locations: (half) the interpolant through the padded extrema,
   evaluated on the sample grid; None when there are fewer than two extrema (or, pad_width 0 only,
   when the grid does not cover the signal - the implementation raises ValueError there) *)
Definition envelope (hinterp : list Z -> list Z -> Z -> Z) (pad : nat) (m : emode) (x : list Z) : option (list Z) :=
  match get_padded_extrema x pad m with
  | Padded L M =>
      match env_grid L (Z.of_nat (length x)) with
      | Some g => Some (map (hinterp L M) g)
      | None => None
      end
  | _ => None
  end.

Definition envs_c (hinterp : list Z -> list Z -> Z -> Z) (pad : nat) (x : list Z) : option (list Z * list Z) :=
  match envelope hinterp pad Peaks x, envelope hinterp pad Troughs x with
  | Some u, Some l => Some (u, l)
  | _, _ => None
  end.

(* the mean envelope of two half-envelopes *)
Definition vavg_h (u l : list Z) : list Z := zip_with Z.add u l.

(* single-IMF extraction and the classic sift over integer lists with the real extrema / padding /
   stopping-rule models and the interpolant oracle; thresholds as in Toys.v
   thr = [sd_num; sd_den; r1n; r1d; r2n; r2d; rtn; rtd], integer step multiplier *)
Definition gni_c (hinterp : list Z -> list Z -> Z -> Z) (pad : nat) (step : Z) (thr : list Z)
           (method : stop_method) (max_iters : nat) (use_energy v0 : bool) (X : list Z) : gni_result (list Z) :=
  get_next_imf_gen (list Z) Toys.vsub (zscale step) vavg_h (envs_c hinterp pad)
                   (sd_stop (cg thr 0) (cg thr 1))
                   (rilling_stop (cg thr 2) (cg thr 3) (cg thr 4) (cg thr 5) (cg thr 6) (cg thr 7))
                   energy_fires method max_iters use_energy v0 X.

Definition sift_c (hinterp : list Z -> list Z -> Z -> Z) (pad : nat) (step : Z) (thr : list Z)
           (method : stop_method) (max_iters : nat) (use_energy : bool) (thresh2 : Z)
           (fuel : nat) (cap : option nat) (X : list Z) : list (list Z) * exit_flags :=
  peel_loop (list Z) (Toys.vzero (length X)) Toys.vadd Toys.vsub (small thresh2)
            (fun _ _ => gni_c hinterp pad step thr method max_iters use_energy false) fuel cap X [].

(* ---- an executable instance: a toy interpolant that meets the oracle contract ------------------
   (half-)envelope = first + last padded magnitude, constant in t: homogeneous of degree one in the
   magnitudes and symmetric under reflection of the knots *)
Definition toy_hinterp (L M : list Z) (t : Z) : Z := hd 0 M + last M 0.

(* masks for the executable instance: cos(pi t / 2) = 1, 0, -1, 0, 1, ... (z = 1/4), cos(pi t / 2 + pi) its
   negation; "std" = max |x| (meets std (c x) = |c| std x); mean over phases replaced by the sum (exact) *)
Definition alt_mask (N : nat) : list Z :=
  map (fun i => match Nat.modulo i 4 with O => 1 | 2%nat => -1 | _ => 0 end) (seq 0 N).
Definition toy_cosv (N : nat) (nphases layer j : nat) : list Z :=
  if Nat.even j then alt_mask N else zneg (alt_mask N).
Definition vsum_z (N : nat) (l : list (list Z)) : list Z := fold_left Toys.vadd l (Toys.vzero N).

Definition toy_gni_c : list Z -> gni_result (list Z) :=
  gni_c toy_hinterp 2 1 [1; 8; 1; 16; 1; 2; 1; 16] Fixed 2 false false.

Definition toy_gni_mask (nphases : nat) (X : list Z) : gni_result (list Z) :=
  mask_extract (list Z) Z Toys.vadd Toys.vsub (vsum_z (length X)) toy_gni_c
               zscale (toy_cosv (length X)) maxabs (fun _ s => s) RatioSig nphases X 0 [] X.

Definition render_gni_c (r : gni_result (list Z)) : list Z := render_gni r.

(* ---- rendering for the correspondence check: what the real stages must return on c x and on rev x,
   PREDICTED from x alone through the symmetry ------------------------------------------------------ *)
Definition render_nats (l : list nat) : list Z := map Z.of_nat l.

Definition run_sym_stages (c : Z) (pads : list nat) (x : list Z) : list Z :=
  let N := length x in
  let mo := fun m => if 0 <? c then m else other m in
  render_nats (if 0 <? c then find_maxima x else find_maxima (zneg x)) ++ [-99996] ++
  render_nats (mirror_nat N (find_maxima x)) ++ [-99996] ++
  flat_map (fun p => flat_map (fun m =>
      render_pad (scale_pad c (get_padded_extrema x p (mo m))) ++ [-99998] ++
      render_pad (mirror_pad (Z.of_nat N - 1) (get_padded_extrema x p m)) ++ [-99997]) [Peaks; Troughs]) pads.

(* the stop rules on (a, b): the value every transformed call must reproduce *)
Definition run_sym_stops (p : list Z) (a b : list Z) : list Z :=
  [b2z (sd_stop (cg p 0) (cg p 1) a b);
   b2z (rilling_stop (cg p 2) (cg p 3) (cg p 4) (cg p 5) (cg p 6) (cg p 7) a b)].
