(* Model of emd/cycles.py get_cycle_vector and is_good (properties C12, C13),
   and of the per-cycle quality flag the Cycles container stores.
   Definitions only; lemmas live in proofs/CycleVecFacts.v.

   Phases are integers (fixed-point codes of the float phases: the harness uses
   dyadic phase values k/8 so every comparison the code makes is exact).
   Thresholds are integers in the same unit:
     step   : a wrap is |ph[i+1]-ph[i]| > step
     e_lo   : a good cycle starts at 0 <= first <= e_lo          (phase_edge)
     e_hi   : a good cycle ends   at e_hi <= last <= twopi       (2pi - phase_edge)
*)
From Coq Require Import ZArith List Bool Lia.
From EmdV Require Import lib.NpLite model.CycleMaps.
Import ListNotations.
Open Scope Z_scope.

Record cv_params := { step : Z; e_lo : Z; e_hi : Z; twopi : Z }.

(* ---- wraps and boundaries (cycles.py 151-163) ------------------------------ *)
Definition is_wrap (P : cv_params) (d : Z) : bool := step P <? Z.abs d.

(* inds = np.where(np.abs(np.diff(phase)) > phase_step)[0] + 1 *)
Definition wrap_hits (P : cv_params) (ph : list Z) : list nat :=
  map S (positions (is_wrap P) (zdiffs ph)).

(* repaired form: the boundary list is closed with N (one past the last sample) *)
Definition boundaries (P : cv_params) (ph : list Z) : list nat :=
  0%nat :: wrap_hits P ph ++ [length ph].

(* the code before the repair closed it with N-1 *)
Definition boundaries_v0 (P : cv_params) (ph : list Z) : list nat :=
  0%nat :: wrap_hits P ph ++ [(length ph - 1)%nat].

Fixpoint adj (l : list nat) : list (nat * nat) :=
  match l with
  | a :: (b :: _) as t => (a, b) :: adj t
  | _ => []
  end.

Definition slice {A} (l : list A) (a b : nat) : list A := firstn (b - a) (skipn a l).

(* ---- is_good (cycles.py 292-363), waveform=None, mode='cycle' --------------- *)
Fixpoint strictly_increasing (l : list Z) : bool :=
  match l with
  | a :: (b :: _) as t => (a <? b) && strictly_increasing t
  | _ => true
  end.

(* None = IndexError: phase[0] on an empty segment *)
Definition is_good (P : cv_params) (seg : list Z) : option bool :=
  match seg with
  | [] => None
  | first :: _ =>
      let lst := last seg first in
      Some (strictly_increasing seg
            && ((0 <=? first) && (first <=? e_lo P))
            && ((lst <=? twopi P) && (e_hi P <=? lst)))
  end.

(* ---- acceptance of one segment (cycles.py 166-182) --------------------------- *)
Definition mask_ok (mask : option (list bool)) (a b : nat) : bool :=
  match mask with
  | None => true
  | Some m => forallb (fun x => x) (slice m a b)
  end.

(* None = the call raises *)
Definition seg_accept (P : cv_params) (ret_good : bool) (mask : option (list bool)) (ph : list Z)
           (ab : nat * nat) : option bool :=
  let '(a, b) := ab in
  if negb (mask_ok mask a b) then Some false
  else if ret_good then is_good P (slice ph a b)
  else Some true.

Fixpoint all_some {A} (l : list (option A)) : option (list A) :=
  match l with
  | [] => Some []
  | None :: _ => None
  | Some x :: t => match all_some t with None => None | Some r => Some (x :: r) end
  end.

Fixpoint expand (segs : list (nat * nat)) (labels : list Z) : list Z :=
  match segs, labels with
  | (a, b) :: ts, l :: tl => repeat l (b - a) ++ expand ts tl
  | _, _ => []
  end.

(* ---- get_cycle_vector, one column ------------------------------------------- *)
(* accepted segments are numbered exactly as get_subset_vector numbers its
   selected entries (count starts at 0 and grows by one per accepted segment) *)
Definition get_cycle_vector (P : cv_params) (ret_good : bool) (mask : option (list bool))
           (ph : list Z) : option (list Z) :=
  match wrap_hits P ph with
  | [] => Some (repeat (-1) (length ph))
  | _ =>
      let segs := adj (boundaries P ph) in
      match all_some (map (seg_accept P ret_good mask ph) segs) with
      | None => None
      | Some goods => Some (expand segs (get_subset_vector goods))
      end
  end.

(* the code before the repair: last boundary N-1, so the final sample is never
   labelled, and a wrap on the final sample gives an empty segment *)
Definition get_cycle_vector_v0 (P : cv_params) (ret_good : bool) (mask : option (list bool))
           (ph : list Z) : option (list Z) :=
  match wrap_hits P ph with
  | [] => Some (repeat (-1) (length ph))
  | _ =>
      let segs := adj (boundaries_v0 P ph) in
      match all_some (map (seg_accept P ret_good mask ph) segs) with
      | None => None
      | Some goods => Some (expand segs (get_subset_vector goods) ++ [-1])
      end
  end.

(* ---- the per-cycle quality flag of the Cycles container ---------------------- *)
(* Cycles.__init__: cycle_vect = get_cycle_vector(return_good=False), then
   metrics['is_good'][k] = is_good(phase[samples of cycle k], phase_edge)  (repaired:
   with the container's own phase_edge) *)
Definition select_cycle (cv : list Z) (vals : list Z) (k : Z) : list Z :=
  map (fun i => nth i vals 0) (map_cycle_to_samples cv k).

Definition ncycles (cv : list Z) : nat := Z.to_nat (zmax_list (-1) cv + 1).

Definition container_is_good (P : cv_params) (ph : list Z) : option (list (option bool)) :=
  match get_cycle_vector P false None ph with
  | None => None
  | Some cv => Some (map (fun k => is_good P (select_cycle cv ph (Z.of_nat k))) (seq 0 (ncycles cv)))
  end.

(* ---- rendering ---------------------------------------------------------------- *)
Definition render_ov (o : option (list Z)) : list Z :=
  match o with None => [-2] | Some l => 0 :: l end.

Definition render_flags (o : option (list (option bool))) : list Z :=
  match o with
  | None => [-2]
  | Some l => 0 :: map (fun f => match f with None => -2 | Some true => 1 | Some false => 0 end) l
  end.

Definition mk_params (c : list Z) : cv_params :=
  {| step := nth 0 c 0; e_lo := nth 1 c 0; e_hi := nth 2 c 0; twopi := nth 3 c 0 |}.

(* one phase series through a list of configurations [step; e_lo; e_hi; twopi]:
   all-cycles vector, good-cycles vector, container flags *)
Definition run_cv (cfgs : list (list Z)) (mask : option (list bool)) (ph : list Z) : list Z :=
  flat_map (fun c =>
      let P := mk_params c in
      render_ov (get_cycle_vector P false mask ph) ++ [-9]
      ++ render_ov (get_cycle_vector P true mask ph) ++ [-9]
      ++ render_flags (container_is_good P ph) ++ [-9]) cfgs.


(* ---- specification vocabulary used by the theorems --------------------------- *)
(* a phase wrap between samples i-1 and i *)
Definition wrap_at (P : cv_params) (ph : list Z) (i : nat) : Prop :=
  (1 <= i)%nat /\ exists a b, nth_error ph (i - 1) = Some a /\ nth_error ph i = Some b /\ step P < Z.abs (b - a).

(* the documented criteria for a good cycle, on one segment *)
Definition meets_criteria (P : cv_params) (mask : option (list bool)) (ph : list Z) (a b : nat) : Prop :=
  let seg := slice ph a b in
  strictly_increasing seg = true /\
  0 <= hd 0 seg <= e_lo P /\
  e_hi P <= last seg 0 <= twopi P /\
  mask_ok mask a b = true.

(* the container before the repair: criteria evaluated with the default edge Pd,
   whatever phase_edge the container was built with *)
Definition container_is_good_v0 (Pd P : cv_params) (ph : list Z) : option (list (option bool)) :=
  match get_cycle_vector P false None ph with
  | None => None
  | Some cv => Some (map (fun k => is_good Pd (select_cycle cv ph (Z.of_nat k))) (seq 0 (ncycles cv)))
  end.
