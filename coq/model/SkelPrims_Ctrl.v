(* Control-skeleton tie "ctrl" (notes/TIE_CTRL.md): the control-point functions of emd/cycles.py -
     cf_start_value, cf_end_value, cf_peak_sample, cf_peak_value, cf_trough_sample, cf_trough_value,
     cf_descending_zero_sample, cf_ascending_zero_sample, get_control_point_metrics(_aug), normalised_waveform
     (get_control_points is not tied yet: notes/TIE_CTRL.md).
   THE REVIEWABLE PART: the value universe, the list-level models, the primitive mapping tables, the initial
   environments and the rendering of the model results. Definitions only; the proofs are in
   proofs/SkelFacts_Ctrl.v, the statements in props/Prop_Tie_Ctrl.v.

   gen/Gen_Skel_Ctrl.v (regenerated from /repo on every run by harness/gen_skel_ctrl.py) holds the eleven bodies
   as programs of lib/PyLoop.v. Every numpy call / operator of a formula is its own primitive (N18) and gets its
   LITERAL numpy meaning on a small exact universe: cycles are INTEGER arrays (every sign / comparison the code
   makes is then exact, as in model/Extrema.v), floats are exact rationals (Coq's Q, never normalised) with
   nan / inf where a division can produce them.
   What "exact" leaves out: float rounding (np.linspace, the divisions), int64 overflow, RuntimeWarnings, the
   dtype of the arrays (get_control_points returns an OBJECT array when a None was replaced by nan - see notes). *)
From Coq Require Import String List Bool Arith ZArith QArith Qabs.
From EmdV Require Import lib.NpLite model.Extrema lib.PyLoop lib.PyLoopTools gen.Gen_Skel_Ctrl.
Import ListNotations.
Open Scope string_scope.

(* ================================================================================================ *)
(* 1. The value universe                                                                             *)
(* ================================================================================================ *)
(* a float that may be nan / inf (a cell of the control point table, a metric) *)
Inductive xr := XQ (q : Q) | XPInf | XNInf | XNan.

(* a cell of np.array(ctrl) BEFORE `ctrl[ctrl == None] = np.nan`: None or a number *)
Inductive cell := KNone | KX (x : xr).

Inductive cnum :=
| CVec (l : list Z)                 (* a 1-D integer array: the signal x, one cycle x[cycle_inds] *)
| CInt (z : Z)                      (* a numpy integer scalar: x[0], x[desc] *)
| CIdx (l : list nat)               (* an index array: np.where(..)[0], cycle_inds *)
| CBvec (l : list bool)             (* a 1-D bool array *)
| CQvec (l : list Q)                (* a 1-D float array of finite values: locs, pks, np.linspace(..) *)
| CQ (q : Q)                        (* a finite float scalar *)
| CXvec (l : list xr)               (* a 1-D float array with nan / inf: ctrl[:, k], p2t, a2d *)
| CTab (rows : list (list cell)).   (* a 2-D array: the argument of the metrics functions *)

Local Notation val := (val cnum).

(* ---- float arithmetic with nan / inf (IEEE 754 without signed zeros) ----------------------------- *)
Definition xadd (x y : xr) : xr :=
  match x, y with
  | XNan, _ | _, XNan => XNan
  | XQ p, XQ q => XQ (p + q)
  | XPInf, XNInf | XNInf, XPInf => XNan
  | XPInf, _ | _, XPInf => XPInf
  | XNInf, _ | _, XNInf => XNInf
  end.
Definition xopp (x : xr) : xr :=
  match x with XQ q => XQ (- q) | XPInf => XNInf | XNInf => XPInf | XNan => XNan end.
Definition xsub (x y : xr) : xr := xadd x (xopp y).
(* true division: x/0 = +-inf by the sign of x, 0/0 = nan *)
Definition xdiv (x y : xr) : xr :=
  match x, y with
  | XNan, _ | _, XNan => XNan
  | XQ p, XQ q =>
      if Qeq_bool q 0 then (if Qeq_bool p 0 then XNan else if Qle_bool 0 p then XPInf else XNInf)
      else XQ (p / q)
  | XQ _, _ => XQ 0
  | XPInf, XQ q => if Qle_bool 0 q then XPInf else XNInf
  | XNInf, XQ q => if Qle_bool 0 q then XNInf else XPInf
  | _, _ => XNan
  end.

Fixpoint zipx (f : xr -> xr -> xr) (a b : list xr) : list xr :=
  match a, b with
  | x :: ta, y :: tb => f x y :: zipx f ta tb
  | _, _ => []
  end.
(* elementwise on arrays of EQUAL length (all are columns of one table); broadcasting is not modelled *)
Definition xvec_bin (f : xr -> xr -> xr) (a b : list xr) : res val :=
  if (length a =? length b)%nat then Ok (VSig (CXvec (zipx f a b))) else Bad.

(* ---- numpy on 1-D arrays ------------------------------------------------------------------------- *)
(* np.diff *)
Fixpoint cdiffs (l : list Z) : list Z :=
  match l with
  | a :: ((b :: _) as t) => (b - a)%Z :: cdiffs t
  | _ => []
  end.

(* np.argmax / np.argmin of a non-empty float array: the FIRST index of the maximum / minimum *)
Fixpoint argmax_q (l : list Q) : nat :=
  match l with
  | [] => 0
  | x :: t => match t with
              | [] => 0
              | _ :: _ => if Qle_bool (nth (argmax_q t) t 0%Q) x then 0 else S (argmax_q t)
              end
  end.
Fixpoint argmin_q (l : list Q) : nat :=
  match l with
  | [] => 0
  | x :: t => match t with
              | [] => 0
              | _ :: _ => if Qle_bool x (nth (argmin_q t) t 0%Q) then 0 else S (argmin_q t)
              end
  end.

(* np.linspace(a, b, n) for INTEGER end points: element k is a + k*(b - a)/(n - 1), written as ONE fraction
   over n - 1 (so that every later comparison is an integer comparison) *)
Definition lin_elt (a b : Z) (n k : nat) : Q :=
  Qmake (a * (Z.of_nat n - 1) + Z.of_nat k * (b - a)) (Z.to_pos (Z.of_nat n - 1)).
Definition linspace_z (a b : Z) (n : nat) : list Q := map (lin_elt a b n) (seq 0 n).

(* a[i] with i >= 0 / a[-1] *)
Definition idx {A} (ret : A -> val) (l : list A) (i : nat) : res val :=
  match nth_error l i with Some a => Ok (ret a) | None => Exc "IndexError" end.
Definition last_opt {A} (l : list A) : option A := nth_error l (length l - 1).

(* ================================================================================================ *)
(* 2. The list-level models of the eight cf_ helpers                                                *)
(* ================================================================================================ *)
(* sift._find_extrema(y, parabolic_extrema=b) is an ORACLE: ANY function to (locations, magnitudes).
   [std_ext] below is what props/Prop_Tie_Extrema.v (skeleton_find_extrema) proves it returns for
   parabolic_extrema=False: the strict interior local maxima and the samples there. With
   parabolic_extrema=True the locations / magnitudes are the vertices of the fitted parabolas (tie "Parab"). *)
Definition extrema_oracle := bool -> list Z -> list Q * list Q.

Definition zq (z : Z) : Q := inject_Z z.
Definition nq (n : nat) : Q := inject_Z (Z.of_nat n).
Definition std_ext : extrema_oracle :=
  fun _ y => (map nq (find_maxima y), map (fun i => zq (nth i y 0%Z)) (find_maxima y)).

Section CfModels.
  Variable ext : extrema_oracle.

  Definition cf_start_value_model (x : list Z) : res Z :=
    match nth_error x 0 with Some a => Ok a | None => Exc "IndexError" end.
  Definition cf_end_value_model (x : list Z) : res Z :=
    match last_opt x with Some a => Ok a | None => Exc "IndexError" end.

  (* a[np.argmax(pks)] / a[np.argmin(trs)] once len(pks) > 0; Ok None = the function returns None *)
  Definition pick (arg : list Q -> nat) (a mags : list Q) : res (option Q) :=
    match mags with
    | [] => Ok None
    | _ :: _ => match nth_error a (arg mags) with Some q => Ok (Some q) | None => Exc "IndexError" end
    end.

  Definition cf_peak_sample_model (interp : bool) (x : list Z) : res (option Q) :=
    let lp := ext interp x in pick argmax_q (fst lp) (snd lp).
  Definition cf_peak_value_model (interp : bool) (x : list Z) : res (option Q) :=
    let lp := ext interp x in pick argmax_q (snd lp) (snd lp).
  (* troughs: the extrema of -x, magnitudes negated back *)
  Definition cf_trough_sample_model (interp : bool) (x : list Z) : res (option Q) :=
    let lp := ext interp (map Z.opp x) in pick argmin_q (fst lp) (map Qopp (snd lp)).
  Definition cf_trough_value_model (interp : bool) (x : list Z) : res (option Q) :=
    let lp := ext interp (map Z.opp x) in pick argmin_q (map Qopp (snd lp)) (map Qopp (snd lp)).

  (* zero crossings. The code: np.where(np.diff(np.sign(x)) == s)[0], s = -2 (descending) / 2 (ascending), then
     the first element. The model (simplest equivalent form): the first i with sign(x[i+1]) - sign(x[i]) = s,
     i.e. x[i] > 0 > x[i+1] for s = -2 and x[i] < 0 < x[i+1] for s = 2. A sample that is exactly 0 never counts. *)
  Fixpoint first_cross (s : Z) (i : nat) (l : list Z) : option nat :=
    match l with
    | a :: ((b :: _) as t) => if (Z.sgn b - Z.sgn a =? s)%Z then Some i else first_cross s (S i) t
    | _ => None
    end.

  (* interp=True: the offset inside [d, d+1] is found by GRID SEARCH, not by the closed formula a/(a-b):
     k = np.argmin(np.abs(np.linspace(x[d], x[d+1], 1000))), offset = np.linspace(0, 1, 1000)[k] = k/999 *)
  Definition grid_index (a b : Z) : nat := argmin_q (map Qabs (linspace_z a b 1000)).
  Definition grid_offset (a b : Z) : Q := nth (grid_index a b) (linspace_z 0 1 1000) 0%Q.

  Inductive zero_result :=
  | ZNone                         (* no such crossing: the function returns None *)
  | ZIdx (d : nat)                (* interp=False: the integer d (the last sample before the crossing) *)
  | ZFrac (d : nat) (off : Q).    (* interp=True: the float d + off *)

  Definition zero_sample_model (s : Z) (interp : bool) (x : list Z) : zero_result :=
    match first_cross s 0 x with
    | None => ZNone
    | Some d => if interp then ZFrac d (grid_offset (nth d x 0%Z) (nth (S d) x 0%Z)) else ZIdx d
    end.
  Definition zero_value (r : zero_result) : option Q :=
    match r with ZNone => None | ZIdx d => Some (nq d) | ZFrac d off => Some (nq d + off)%Q end.
End CfModels.

(* specification vocabulary for the zero crossings *)
(* d is the FIRST place where the sign difference of neighbours is s *)
Definition first_crossing_at (s : Z) (x : list Z) (d : nat) (a c : Z) : Prop :=
  nth_error x d = Some a /\ nth_error x (S d) = Some c /\ (Z.sgn c - Z.sgn a = s)%Z /\
  forall j a' c', (j < d)%nat -> nth_error x j = Some a' -> nth_error x (S j) = Some c' -> (Z.sgn c' - Z.sgn a' <> s)%Z.


(* ================================================================================================ *)
(* 3. The primitive mapping table of the eight cf_ helpers                                          *)
(* ================================================================================================ *)
Section CfPrims.
  Variable ext : extrema_oracle.

  Definition qv (q : Q) : val := VSig (CQ q).
  Definition pick_val (r : res (option Q)) : res val :=
    match r with Ok None => Ok VNone | Ok (Some q) => Ok (qv q) | Exc e => Exc e | Bad => Bad end.
  (* a[np.argXXX(m)]: numpy raises ValueError for an empty m (never reached: len(m) == 0 returns None first) *)
  Definition arg_index (arg : list Q -> nat) (a m : list Q) : res val :=
    match m with [] => Exc "ValueError" | _ :: _ => idx qv a (arg m) end.

  Definition cf_table : list (string * handler cnum) :=
    [ (* x[0] (EIndex on a non-list), desc[0], x[desc], np.linspace(..)[interp_ind] *)
      ("getitem", fun args kw => match args, kw with
         | [VSig (CVec l); VNat i], [] => idx (fun z => VSig (CInt z)) l i
         | [VSig (CIdx l); VNat i], [] => idx (fun n => VNat n) l i
         | [VSig (CQvec l); VNat i], [] => idx qv l i
         | _, _ => Bad end);
      ("x[-1]", fun args kw => match args, kw with
         | [VSig (CVec l)], [] => match last_opt l with Some z => Ok (VSig (CInt z)) | None => Exc "IndexError" end
         | _, _ => Bad end);
      (* THE ORACLE *)
      ("sift._find_extrema", fun args kw => match args, kw with
         | [VSig (CVec y)], [(k, VBool b)] =>
             if String.eqb k "parabolic_extrema"
             then Ok (VList [VSig (CQvec (fst (ext b y))); VSig (CQvec (snd (ext b y)))]) else Bad
         | _, _ => Bad end);
      ("len", fun args kw => match args, kw with
         | [VSig (CQvec l)], [] => Ok (VNat (length l))
         | [VSig (CIdx l)], [] => Ok (VNat (length l))
         | _, _ => Bad end);
      ("locs[np.argmax(pks)]", fun args kw => match args, kw with
         | [VSig (CQvec locs); VSig (CQvec pks)], [] => arg_index argmax_q locs pks | _, _ => Bad end);
      ("pks[np.argmax(pks)]", fun args kw => match args, kw with
         | [VSig (CQvec pks)], [] => arg_index argmax_q pks pks | _, _ => Bad end);
      ("locs[np.argmin(trs)]", fun args kw => match args, kw with
         | [VSig (CQvec locs); VSig (CQvec trs)], [] => arg_index argmin_q locs trs | _, _ => Bad end);
      ("trs[np.argmin(trs)]", fun args kw => match args, kw with
         | [VSig (CQvec trs)], [] => arg_index argmin_q trs trs | _, _ => Bad end);
      ("-x", fun args kw => match args, kw with
         | [VSig (CVec l)], [] => Ok (VSig (CVec (map Z.opp l))) | _, _ => Bad end);
      ("-trs", fun args kw => match args, kw with
         | [VSig (CQvec l)], [] => Ok (VSig (CQvec (map Qopp l))) | _, _ => Bad end);
      ("np.sign", fun args kw => match args, kw with
         | [VSig (CVec l)], [] => Ok (VSig (CVec (map Z.sgn l))) | _, _ => Bad end);
      ("np.diff", fun args kw => match args, kw with
         | [VSig (CVec l)], [] => Ok (VSig (CVec (cdiffs l))) | _, _ => Bad end);
      ("-2", fun args kw => match args, kw with [], [] => Ok (VSig (CInt (-2))) | _, _ => Bad end);
      (* integer array == integer (the literal 2 is a native int, the literal -2 is the row above) *)
      ("==", fun args kw => match args, kw with
         | [VSig (CVec l); VSig (CInt z)], [] => Ok (VSig (CBvec (map (fun d => (d =? z)%Z) l)))
         | [VSig (CVec l); VNat n], [] => Ok (VSig (CBvec (map (fun d => (d =? Z.of_nat n)%Z) l)))
         | _, _ => Bad end);
      ("np.where", fun args kw => match args, kw with
         | [VSig (CBvec l)], [] => Ok (VList [VSig (CIdx (positions (fun b => b) l))]) | _, _ => Bad end);
      ("x[desc + 1]", fun args kw => match args, kw with
         | [VSig (CVec l); VNat d], [] => idx (fun z => VSig (CInt z)) l (d + 1) | _, _ => Bad end);
      ("x[asc + 1]", fun args kw => match args, kw with
         | [VSig (CVec l); VNat d], [] => idx (fun z => VSig (CInt z)) l (d + 1) | _, _ => Bad end);
      ("np.linspace", fun args kw => match args, kw with
         | [VSig (CInt a); VSig (CInt b); VNat n], [] => Ok (VSig (CQvec (linspace_z a b n)))
         | [VNat a; VNat b; VNat n], [] => Ok (VSig (CQvec (linspace_z (Z.of_nat a) (Z.of_nat b) n)))
         | _, _ => Bad end);
      ("np.abs", fun args kw => match args, kw with
         | [VSig (CQvec l)], [] => Ok (VSig (CQvec (map Qabs l))) | _, _ => Bad end);
      ("np.argmin", fun args kw => match args, kw with
         | [VSig (CQvec l)], [] => match l with [] => Exc "ValueError" | _ :: _ => Ok (VNat (argmin_q l)) end
         | _, _ => Bad end);
      (* integer + float *)
      ("+", fun args kw => match args, kw with
         | [VNat d; VSig (CQ q)], [] => Ok (qv (nq d + q)%Q) | _, _ => Bad end) ].
  Definition cf_prims : prims cnum := prims_of cf_table.

  (* ---- initial environments: the arguments in def-line order -------------------------------------- *)
  Definition cvec (x : list Z) : val := VSig (CVec x).

  Definition start_names : list string := Eval cbv in assigned prog_cf_start_value params_cf_start_value.
  Definition start_env0 (x : list Z) : env cnum := frame params_cf_start_value start_names [cvec x].
  Definition end_names : list string := Eval cbv in assigned prog_cf_end_value params_cf_end_value.
  Definition end_env0 (x : list Z) : env cnum := frame params_cf_end_value end_names [cvec x].

  Definition pks_names : list string := Eval cbv in assigned prog_cf_peak_sample params_cf_peak_sample.
  Definition pks_env0 (x : list Z) (interp : bool) : env cnum :=
    frame params_cf_peak_sample pks_names [cvec x; VBool interp].
  Definition pkv_names : list string := Eval cbv in assigned prog_cf_peak_value params_cf_peak_value.
  Definition pkv_env0 (x : list Z) (interp : bool) : env cnum :=
    frame params_cf_peak_value pkv_names [cvec x; VBool interp].
  Definition trs_names : list string := Eval cbv in assigned prog_cf_trough_sample params_cf_trough_sample.
  Definition trs_env0 (x : list Z) (interp : bool) : env cnum :=
    frame params_cf_trough_sample trs_names [cvec x; VBool interp].
  Definition trv_names : list string := Eval cbv in assigned prog_cf_trough_value params_cf_trough_value.
  Definition trv_env0 (x : list Z) (interp : bool) : env cnum :=
    frame params_cf_trough_value trv_names [cvec x; VBool interp].
  Definition dz_names : list string :=
    Eval cbv in assigned prog_cf_descending_zero_sample params_cf_descending_zero_sample.
  Definition dz_env0 (x : list Z) (interp : bool) : env cnum :=
    frame params_cf_descending_zero_sample dz_names [cvec x; VBool interp].
  Definition az_names : list string :=
    Eval cbv in assigned prog_cf_ascending_zero_sample params_cf_ascending_zero_sample.
  Definition az_env0 (x : list Z) (interp : bool) : env cnum :=
    frame params_cf_ascending_zero_sample az_names [cvec x; VBool interp].

  (* ---- rendering ---------------------------------------------------------------------------------- *)
  Definition int_render (r : res Z) : outcome cnum :=
    match r with Ok z => Return (VSig (CInt z)) | Exc e => Raise e | Bad => Stuck end.
  Definition pick_render (r : res (option Q)) : outcome cnum :=
    match r with Ok None => Return VNone | Ok (Some q) => Return (qv q) | Exc e => Raise e | Bad => Stuck end.
  Definition zero_val (r : zero_result) : val :=
    match r with ZNone => VNone | ZIdx d => VNat d | ZFrac d off => qv (nq d + off)%Q end.
  Definition zero_render (r : zero_result) : outcome cnum := Return (zero_val r).
End CfPrims.

(* ================================================================================================ *)
(* 4. get_control_point_metrics, get_control_point_metrics_aug                                      *)
(* ================================================================================================ *)
(* ctrl[:, k]: column k of the table. A row that is too short is numpy's IndexError; a None cell would make
   the column an object array whose arithmetic raises TypeError - not modelled (Bad): get_control_points
   replaces every None by nan before it returns. *)
Fixpoint tab_col (k : nat) (rows : list (list cell)) : res (list xr) :=
  match rows with
  | [] => Ok []
  | r :: t => match nth_error r k with
              | None => Exc "IndexError"
              | Some KNone => Bad
              | Some (KX v) => match tab_col k t with Ok c => Ok (v :: c) | o => o end
              end
  end.
Definition col_handler (k : nat) : handler cnum :=
  fun args kw => match args, kw with
                 | [VSig (CTab rows)], [] => match tab_col k rows with Ok c => Ok (VSig (CXvec c)) | Exc e => Exc e | Bad => Bad end
                 | _, _ => Bad end.

Definition cpm_table : list (string * handler cnum) :=
  [ ("ctrl[:, 1]", col_handler 1); ("ctrl[:, 2]", col_handler 2); ("ctrl[:, 3]", col_handler 3);
    ("ctrl[:, 4]", col_handler 4); ("ctrl[:, 5]", col_handler 5);
    ("-", fun args kw => match args, kw with
       | [VSig (CXvec a); VSig (CXvec b)], [] => xvec_bin xsub a b | _, _ => Bad end);
    ("+", fun args kw => match args, kw with
       | [VSig (CXvec a); VSig (CXvec b)], [] => xvec_bin xadd a b | _, _ => Bad end);
    ("/", fun args kw => match args, kw with
       | [VSig (CXvec a); VSig (CXvec b)], [] => xvec_bin xdiv a b | _, _ => Bad end) ].
Definition cpm_prims : prims cnum := prims_of cpm_table.

(* a table of numbers (what get_control_points returns) *)
Definition xtab (rows : list (list xr)) : val := VSig (CTab (map (map KX) rows)).

Definition cpm_names : list string :=
  Eval cbv in assigned prog_get_control_point_metrics params_get_control_point_metrics.
Definition cpm_env0 (rows : list (list xr)) (normalise : bool) : env cnum :=
  frame params_get_control_point_metrics cpm_names [xtab rows; VBool normalise].
Definition cpa_names : list string :=
  Eval cbv in assigned prog_get_control_point_metrics_aug params_get_control_point_metrics_aug.
Definition cpa_env0 (rows : list (list xr)) : env cnum :=
  frame params_get_control_point_metrics_aug cpa_names [xtab rows].

(* the models: one value per row. Columns: (start, peak, desc, trough, end) *)
Definition cell_at (r : list xr) (k : nat) : xr := nth k r XNan.
Definition p2t_row (normalise : bool) (r : list xr) : xr :=
  let v := xsub (cell_at r 2) (xsub (cell_at r 4) (cell_at r 2)) in
  if normalise then xdiv v (cell_at r 4) else v.
Definition a2d_row (normalise : bool) (r : list xr) : xr :=
  let v := xsub (xadd (cell_at r 1) (xsub (cell_at r 4) (cell_at r 3))) (xsub (cell_at r 3) (cell_at r 1)) in
  if normalise then xdiv v (cell_at r 4) else v.
(* augmented: (start, asc, peak, desc, trough, end) *)
Definition p2t_aug_row (r : list xr) : xr :=
  xdiv (xsub (cell_at r 3) (cell_at r 1)) (xsub (cell_at r 5) (cell_at r 1)).
Definition a2d_aug_row (r : list xr) : xr := xdiv (cell_at r 2) (cell_at r 4).

Definition xvecv (l : list xr) : val := VSig (CXvec l).
Definition cpm_render (normalise : bool) (rows : list (list xr)) : outcome cnum :=
  Return (VList [xvecv (map (p2t_row normalise) rows); xvecv (map (a2d_row normalise) rows)]).
Definition cpa_render (rows : list (list xr)) : outcome cnum :=
  Return (VList [xvecv (map p2t_aug_row rows); xvecv (map a2d_aug_row rows)]).

(* ================================================================================================ *)
(* 5. normalised_waveform: floats are ABSTRACT (type F), every numeric operation is an oracle        *)
(* ================================================================================================ *)
(* Only the STRUCTURE is tied: which column goes where, the leading 0 of np.r_, the shapes. *)
Inductive wnum (F : Type) :=
| WMat (n : nat) (cols : list (list F))   (* a 2-D float array with n rows, given by its columns *)
| WVecF (l : list F)                      (* a 1-D float array *)
| WF (x : F)                              (* a float scalar *)
| WPi                                     (* np.pi *)
| W2Pi.                                   (* 2 * np.pi *)
Arguments WMat {F}. Arguments WVecF {F}. Arguments WF {F}. Arguments WPi {F}. Arguments W2Pi {F}.

Definition set_nth {A : Type} (i : nat) (v : A) (l : list A) : list A := (firstn i l ++ v :: skipn (S i) l)%list.

Section WavePrims.
  Variable F : Type.
  Variable fmean : list F -> F.          (* a.mean() *)
  Variable fmul_n : F -> nat -> F.       (* float * int (the mean times len) *)
  Variable fdiv : F -> F -> F.           (* float / float *)
  Variable f2pi : F -> F.                (* x * (2 * np.pi) *)
  Variable fadd : F -> F -> F.           (* float + float (inside np.cumsum) *)
  Variable fzero : F.                    (* 0.0: np.zeros, the literal 0 of np.r_[0, phase] *)
  Variable fsin : F -> F.                (* np.sin *)
  Variable flin : nat -> nat -> F.       (* np.linspace(0, 2*np.pi, n)[k] *)

  Local Notation wval := (PyLoop.val (wnum F)).

  (* np.cumsum: out[0] = a[0], out[i] = out[i-1] + a[i] *)
  Fixpoint cumsum_from (acc : F) (l : list F) : list F :=
    match l with [] => [] | x :: t => fadd acc x :: cumsum_from (fadd acc x) t end.
  Definition cumsum (l : list F) : list F := match l with [] => [] | x :: t => x :: cumsum_from x t end.

  Definition mcol (cols : list (list F)) (i : nat) (k : list F -> wval) : res wval :=
    match nth_error cols i with Some c => Ok (k c) | None => Exc "IndexError" end.

  Definition nw_table : list (string * handler (wnum F)) :=
    [ (* ensure_2d([infreq], ..): a 2-D array is returned as it is, a vector becomes one column *)
      ("ensure_2d", fun args kw => match args, kw with
         | [VList [VSig (WMat n cols)]; VList [VStr _]; VStr _], [] => Ok (VSig (WMat n cols))
         | [VList [VSig (WVecF l)]; VList [VStr _]; VStr _], [] => Ok (VSig (WMat (length l) [l]))
         | _, _ => Bad end);
      ("infreq.shape", fun args kw => match args, kw with
         | [VSig (WMat n cols)], [] => Ok (VList [VNat n; VNat (length cols)]) | _, _ => Bad end);
      ("np.zeros", fun args kw => match args, kw with
         | [VList [VNat r; VNat c]], [] => Ok (VSig (WMat r (repeat (repeat fzero r) c))) | _, _ => Bad end);
      ("range", range_handler);
      ("infreq[:, ii].mean()", fun args kw => match args, kw with
         | [VSig (WMat n cols); VNat i], [] => mcol cols i (fun c => VSig (WF (fmean c))) | _, _ => Bad end);
      ("infreq[:, ii]", fun args kw => match args, kw with
         | [VSig (WMat n cols); VNat i], [] => mcol cols i (fun c => VSig (WVecF c)) | _, _ => Bad end);
      ("len", fun args kw => match args, kw with
         | [VSig (WVecF l)], [] => Ok (VNat (length l)) | _, _ => Bad end);
      ("np.pi", fun args kw => match args, kw with [], [] => Ok (VSig WPi) | _, _ => Bad end);
      ("*", fun args kw => match args, kw with
         | [VSig (WF m); VNat k], [] => Ok (VSig (WF (fmul_n m k)))
         | [VNat k; VSig WPi], [] => if Nat.eqb k 2 then Ok (VSig W2Pi) else Bad
         | [VSig (WVecF l); VSig W2Pi], [] => Ok (VSig (WVecF (map f2pi l)))
         | _, _ => Bad end);
      ("/", fun args kw => match args, kw with
         | [VSig (WVecF l); VSig (WF s)], [] => Ok (VSig (WVecF (map (fun v => fdiv v s) l))) | _, _ => Bad end);
      ("np.cumsum", fun args kw => match args, kw with
         | [VSig (WVecF l)], [(k, VNat 0)] => if String.eqb k "axis" then Ok (VSig (WVecF (cumsum l))) else Bad
         | _, _ => Bad end);
      ("np.r_[0, phase]", fun args kw => match args, kw with
         | [VSig (WVecF l)], [] => Ok (VSig (WVecF (fzero :: l))) | _, _ => Bad end);
      ("np.sin", fun args kw => match args, kw with
         | [VSig (WVecF l)], [] => Ok (VSig (WVecF (map fsin l))) | _, _ => Bad end);
      (* N11 store: column ii replaced; a column of another length cannot be broadcast (ValueError) *)
      ("nw[:, ii] =", fun args kw => match args, kw with
         | [VSig (WMat r cols); VNat i; VSig (WVecF v)], [] =>
             if (length v =? r)%nat
             then (if (i <? length cols)%nat then Ok (VSig (WMat r (set_nth i v cols))) else Exc "IndexError")
             else Exc "ValueError"
         | _, _ => Bad end);
      ("np.linspace", fun args kw => match args, kw with
         | [VNat 0; VSig W2Pi; VNat n], [] => Ok (VSig (WVecF (map (flin n) (seq 0 n)))) | _, _ => Bad end) ].
  Definition nw_prims : prims (wnum F) := prims_of nw_table.

  Definition nw_names : list string := Eval cbv in assigned prog_normalised_waveform params_normalised_waveform.
  Definition nw_env0 (n : nat) (cols : list (list F)) : env (wnum F) :=
    frame params_normalised_waveform nw_names [VSig (WMat n cols)].

  (* the model: one output column per input column *)
  Definition phase_of (col : list F) : list F :=
    fzero :: cumsum (map f2pi (map (fun v => fdiv v (fmul_n (fmean col) (length col))) col)).
  Definition nw_col (col : list F) : list F := map fsin (phase_of col).
  Definition nw_render (n : nat) (cols : list (list F)) : outcome (wnum F) :=
    Return (VList [VSig (WMat (n + 1) (map nw_col cols)); VSig (WVecF (map fsin (map (flin (n + 1)) (seq 0 (n + 1)))))]).
End WavePrims.
