(* Model of emd/logger.py: set_up, set_level, get_level, disable, enable and the
   wrap_verbose decorator around a sift call (property C20).
   Definitions only; lemmas in proofs/LoggerFacts.v.

   The process-global logger is a state machine; `logging` itself is an oracle
   (a console handler holds one integer level; logging.disable is a separate flag). *)
From Coq Require Import ZArith List Bool Lia.
From EmdV Require Import lib.NpLite.
Import ListNotations.
Open Scope Z_scope.

Record lstate := { is_set_up : bool;      (* does logger 'emd' have a console handler? *)
                   console : Z;           (* its level (only meaningful when set up) *)
                   disabled : bool;       (* logging.disable(maxsize) in force *)
                   to_file : bool }.      (* a file handler is attached *)

Definition init_state : lstate :=
  {| is_set_up := false; console := 0; disabled := false; to_file := false |}.

(* outcome of the wrapped function itself, and what the caller of the decorated function sees *)
Inductive outcome := Returns | Raises.
Inductive seen := SawResult | SawFunctionError | SawOtherError.

Inductive op :=
| SetUp (level : option Z) (file : bool)   (* emd.logger.set_up(level=..., log_file=...) *)
| SetLevel (level : Z)
| Disable
| Enable
| Call (verbose : option Z) (o : outcome). (* a decorated sift call *)

(* get_level(): the console handler's level, None before set-up *)
Definition get_level (s : lstate) : option Z := if is_set_up s then Some (console s) else None.

(* set_level(): only touches an existing console handler *)
Definition set_level (s : lstate) (l : Z) : lstate :=
  if is_set_up s then {| is_set_up := true; console := l; disabled := disabled s; to_file := to_file s |} else s.

Definition INFO : Z := 20.

Definition set_up (s : lstate) (level : option Z) (file : bool) : lstate :=
  let s1 := {| is_set_up := true; console := INFO; disabled := disabled s; to_file := file |} in
  match level with Some l => set_level s1 l | None => s1 end.

(* wrap_verbose, repaired form (logger.py 226-247):
     current = None
     if verbose is not None: current = get_level(); set_level(verbose)
     try: out = func()  finally: if current is not None: set_level(name[current])        *)
Definition call (s : lstate) (verbose : option Z) (o : outcome) : lstate * seen :=
  let '(s1, current) :=
    match verbose with
    | Some v => (set_level s v, get_level s)
    | None => (s, None)
    end in
  let s2 := match current with Some l => set_level s1 l | None => s1 end in
  (s2, match o with Returns => SawResult | Raises => SawFunctionError end).

(* the code before the repair: restore only on normal return, through
   logging._levelToName[current] which is a KeyError for current = None *)
Definition call_v0 (s : lstate) (verbose : option Z) (o : outcome) : lstate * seen :=
  match verbose with
  | None => (s, match o with Returns => SawResult | Raises => SawFunctionError end)
  | Some v =>
      let s1 := set_level s v in
      match o with
      | Raises => (s1, SawFunctionError)                 (* override left in force *)
      | Returns =>
          match get_level s with
          | Some l => (set_level s1 l, SawResult)
          | None => (s1, SawOtherError)                  (* KeyError: None - the result is lost *)
          end
      end
  end.

Definition step (s : lstate) (o : op) : lstate * option seen :=
  match o with
  | SetUp l f => (set_up s l f, None)
  | SetLevel l => (set_level s l, None)
  | Disable => ({| is_set_up := is_set_up s; console := console s; disabled := true; to_file := to_file s |}, None)
  | Enable => ({| is_set_up := is_set_up s; console := console s; disabled := false; to_file := to_file s |}, None)
  | Call v oc => let '(s', r) := call s v oc in (s', Some r)
  end.

Definition run (s : lstate) (ops : list op) : lstate := fold_left (fun st o => fst (step st o)) ops s.

Definition is_call (o : op) : bool := match o with Call _ _ => true | _ => false end.

(* ---- observation trace for the harness ------------------------------------------ *)
Definition obs_level (s : lstate) : Z := match get_level s with Some l => l | None => -1 end.
Definition obs_seen (r : option seen) : Z :=
  match r with None => 0 | Some SawResult => 1 | Some SawFunctionError => 2 | Some SawOtherError => 3 end.

Fixpoint trace (s : lstate) (ops : list op) : list Z :=
  match ops with
  | [] => []
  | o :: t => let '(s', r) := step s o in obs_level s' :: obs_seen r :: trace s' t
  end.

(* op codes used by the harness: [kind; a; b] *)
Definition decode_level (z : Z) : option Z := if z =? 0 then None else Some z.
Definition decode_op (c : list Z) : op :=
  let a := nth 1 c 0 in let b := nth 2 c 0 in
  match nth 0 c 0 with
  | 0 => SetUp (decode_level a) (b =? 1)
  | 1 => SetLevel a
  | 2 => Disable
  | 3 => Enable
  | _ => Call (decode_level a) (if b =? 1 then Raises else Returns)
  end.

Definition run_trace (codes : list (list Z)) : list Z := trace init_state (map decode_op codes).

(* enumeration: the idx-th history of a given length over an op alphabet *)
Definition history_of_index (alphabet : list (list Z)) (len : nat) (idx : Z) : list (list Z) :=
  map (fun d => nth (Z.to_nat d) alphabet []) (digits (Z.of_nat (length alphabet)) len idx).
