(* Abstract layer of the sift (properties C01, C02, C03, C04): emd/sift.py get_next_imf
   (lines 115-180) and the outer loops of sift (459-487) and mask_sift (1051-1090).
   Definitions only; lemmas in proofs/SiftCoreFacts.v.

   A signal is an abstract value of type V; the numeric stages are ORACLES passed as
   parameters (envelope interpolation, the stopping metrics, the energy ratio, the
   sift-threshold test).  Executable instances: model/Toys.v (V = list Z with integer
   toy envelopes, compared bit-for-bit with the real sift run on the same toys) and the
   scripted instance at the end of this file (V = nat, used for trace conformance of
   the real numerics). *)
From Coq Require Import ZArith List Bool Lia.
Import ListNotations.

Inductive stop_method := SD | Rilling | Fixed.

Inductive gni_result (V : Type) :=
| Imf (x : V) (continue_flag : bool) (niters : nat)
| ConvergeError (niters : nat)            (* EMDSiftCovergeError *)
| GniOutOfFuel.
Arguments Imf {V}. Arguments ConvergeError {V}. Arguments GniOutOfFuel {V}.

Section Extraction.
  Variable V : Type.
  Variable vsub : V -> V -> V.
  Variable vstep : V -> V.                       (* env_step_size * v *)
  Variable vavg : V -> V -> V.                   (* np.mean([upper, lower], axis=0) *)
  Variable envs : V -> option (V * V).           (* (upper, lower); None: either envelope is None *)
  Variable stop_sd : V -> V -> bool.             (* sd_stop(proto, x1) *)
  Variable stop_ril : V -> V -> bool.            (* rilling_stop(upper, lower) *)
  Variable energy_fires : V -> V -> bool.        (* _energy_difference(X, X - imf) > energy_thresh *)

  Variable method : stop_method.
  Variable max_iters : nat.
  Variable use_energy : bool.                    (* energy_thresh is not None *)

  Definition is_fixed : bool := match method with Fixed => true | _ => false end.

  Definition stop_fires (n : nat) (proto x1 u l : V) : bool :=
    match method with
    | SD => stop_sd proto x1
    | Rilling => stop_ril u l
    | Fixed => Nat.eqb n max_iters
    end.

  (* lines 125-169, repaired form: the continue flag is cleared only when the INPUT ITSELF
     (first iteration) has too few extrema. [flag_v0 = true] gives the code before the repair,
     which cleared it whenever an iterate lost its extrema. *)
  Fixpoint gni_loop (flag_v0 : bool) (fuel niters : nat) (proto : V) : gni_result V :=
    match fuel with
    | O => GniOutOfFuel
    | S f =>
        if negb is_fixed && (max_iters <? niters)%nat then ConvergeError niters
        else
          let n := S niters in
          match envs proto with
          | None => Imf proto (if flag_v0 then false else (1 <? n)%nat) n
          | Some (u, l) =>
              let avg := vavg u l in
              let x1 := vsub proto avg in
              if stop_fires n proto x1 u l then Imf x1 true n
              else gni_loop flag_v0 f n (vsub proto (vstep avg))
          end
    end.

  (* lines 174-180: the energy option can only clear the flag *)
  Definition get_next_imf_gen (flag_v0 : bool) (X : V) : gni_result V :=
    match gni_loop flag_v0 (max_iters + 2) 0 X with
    | Imf p flag n =>
        Imf p (flag && negb (use_energy && energy_fires X (vsub X p))) n
    | r => r
    end.

  Definition get_next_imf := get_next_imf_gen false.
  Definition get_next_imf_v0 := get_next_imf_gen true.

  (* the iterate sequence the statement of C04 talks about:
     x_0 = X, x_{k+1} = x_k - step * mean_envelope(x_k) *)
  Fixpoint iterate (k : nat) (X : V) : option V :=
    match k with
    | O => Some X
    | S j =>
        match iterate j X with
        | None => None
        | Some x => match envs x with
                    | None => None
                    | Some (u, l) => Some (vsub x (vstep (vavg u l)))
                    end
        end
    end.

  (* does the rule fire at iterate x (which is the k-th, so niters = k+1)? *)
  Definition fires_at (k : nat) (x : V) : bool :=
    match envs x with
    | None => false
    | Some (u, l) => stop_fires (S k) x (vsub x (vavg u l)) u l
    end.

  (* iterates 0..k-1 all exist, have both envelopes, and the rule did not fire at any of them *)
  Definition unfired_upto (k : nat) (X : V) : Prop :=
    forall j, (j < k)%nat ->
      exists x u l, iterate j X = Some x /\ envs x = Some (u, l) /\ fires_at j x = false.
End Extraction.

(* ---- the outer loop shared by sift and mask_sift ---------------------------------------- *)
Record exit_flags := { cap_hit : bool;        (* layer == max_imfs *)
                       small_hit : bool;      (* |next_imf|.sum() < sift_thresh *)
                       flag_stop : bool;      (* the extraction cleared continue_sift *)
                       raised : bool;         (* the extraction raised *)
                       out_of_fuel : bool }.

Definition running : exit_flags :=
  {| cap_hit := false; small_hit := false; flag_stop := false; raised := false; out_of_fuel := false |}.

Section Peel.
  Variable V : Type.
  Variable vzero : V.
  Variable vadd vsub : V -> V -> V.
  Variable small : V -> bool.
  (* per-layer extraction: layer index -> residual -> result (get_next_imf, or get_next_imf_mask
     with that layer's mask frequency / amplitude) *)
  Variable extract : nat -> list V -> V -> gni_result V.

  Definition vsum (l : list V) : V := fold_left vadd l vzero.

  (* proto_imf = X.copy() before the first layer, X - imf.sum(axis=1) afterwards *)
  Definition residual (X : V) (acc : list V) : V :=
    match acc with [] => X | _ => vsub X (vsum acc) end.

  Fixpoint peel_loop (fuel : nat) (cap : option nat) (X : V) (acc : list V) : list V * exit_flags :=
    match fuel with
    | O => (acc, {| cap_hit := false; small_hit := false; flag_stop := false; raised := false; out_of_fuel := true |})
    | S f =>
        match extract (length acc) acc (residual X acc) with
        | Imf nxt flag _ =>
            let acc' := acc ++ [nxt] in
            let c := match cap with Some k => Nat.eqb (length acc') k | None => false end in
            let s := small nxt in
            if c || s || negb flag
            then (acc', {| cap_hit := c; small_hit := s; flag_stop := negb flag; raised := false; out_of_fuel := false |})
            else peel_loop f cap X acc'
        | _ => (acc, {| cap_hit := false; small_hit := false; flag_stop := false; raised := true; out_of_fuel := false |})
        end
    end.
End Peel.

(* ---- scripted instance for trace conformance ---------------------------------------------
   The signal is just the index k of the iterate; the oracles replay what the recording
   wrappers saw in the real run: has_env[k] (both envelopes defined at iterate k) and
   fired[k] (the sd / rilling rule fired at iterate k). *)
Definition scripted_gni (method : stop_method) (max_iters : nat) (flag_v0 : bool)
           (has_env fired : list bool) : gni_result nat :=
  gni_loop nat (fun p _ => S p) (fun v => v) (fun u _ => u)
           (fun k => if nth k has_env false then Some (k, k) else None)
           (fun p _ => nth p fired false) (fun u _ => nth u fired false)
           method max_iters flag_v0 (max_iters + 2) 0 0.

Definition render_gni_nat (r : gni_result nat) : list Z :=
  match r with
  | Imf x flag n => [0; Z.of_nat x; if flag then 1 else 0; Z.of_nat n]%Z
  | ConvergeError n => [5; Z.of_nat n]%Z
  | GniOutOfFuel => [6]%Z
  end.

Definition method_of (z : Z) : stop_method := if (z =? 0)%Z then SD else if (z =? 1)%Z then Rilling else Fixed.

Definition run_scripted (m max_iters : Z) (has_env fired : list bool) : list Z :=
  render_gni_nat (scripted_gni (method_of m) (Z.to_nat max_iters) false has_env fired).
