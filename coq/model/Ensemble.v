(* Noise of the ensemble sifts (property C08): emd/sift.py _sift_with_noise (497-562), ensemble_sift
   (569-659, as repaired: the member noise is drawn in the parent), complete_ensemble_sift (664-787).
   Definitions only; lemmas in proofs/EnsembleFacts.v.

   ORACLES (Section variables, never proved):
     - the random generator: an abstract state machine  draw : rng -> nat -> block * rng  (np.random.randn /
       np.random.random_sample on numpy's global state).  That two different blocks of one stream hold
       different numbers is a property of the generator (contract [blocks_differ] in the Facts/Prop files).
     - the per-member decomposition  sift_fn : cap -> signal -> option (list of columns)  (None = raised).
     - signal arithmetic (wadd, wsub, whalf, wmean, wscale).
   multiprocessing: [fork] copies the parent's generator state into every worker; a schedule is the list of
   (worker, task) events in the order the tasks start - any assignment a Pool can produce is such a list in
   which every task occurs exactly once (a worker runs its events in list order).  What the kernel's scheduler
   really does is only sampled by the harness (nprocesses 1..8).

   Not modelled: numpy broadcasting a ONE-column second decomposition in flip mode (imf += other); every
   difference in column counts is an error here and the harness discards such cases (outside the property). *)
From Coq Require Import ZArith List Bool Lia Arith.
From EmdV Require Import lib.NpLite model.Extrema model.SiftCore model.Toys model.Variants.
Import ListNotations.

Definition schedule := list (nat * nat).          (* (worker, task) in start order *)

Definition sched_valid (nworkers ntasks : nat) (sc : schedule) : Prop :=
  Forall (fun e => (fst e < nworkers)%nat) sc /\ NoDup (map snd sc) /\
  forall t, In t (map snd sc) <-> (t < ntasks)%nat.

Fixpoint nodupb (l : list nat) : bool :=
  match l with [] => true | a :: t => negb (existsb (Nat.eqb a) t) && nodupb t end.

Definition sched_validb (nworkers ntasks : nat) (sc : schedule) : bool :=
  forallb (fun e => (fst e <? nworkers)%nat) sc && nodupb (map snd sc) &&
  forallb (fun t => (t <? ntasks)%nat) (map snd sc) && (length sc =? ntasks)%nat.

Fixpoint lookup {R : Type} (t : nat) (l : list (nat * R)) : option R :=
  match l with
  | [] => None
  | (t', r) :: rest => if Nat.eqb t' t then Some r else lookup t rest
  end.

Inductive noise_mode := Single | Flip.

Fixpoint map2 {A : Type} (f : A -> A -> A) (a b : list A) : list A :=
  match a, b with
  | x :: ta, y :: tb => f x y :: map2 f ta tb
  | _, _ => []
  end.

Definition all_some {A : Type} (l : list (option A)) : option (list A) := map_opt (fun x => x) l.

(* ---- 1. generator, fork, Pool.starmap ------------------------------------------------------------- *)
Section Rng.
  Variable rng B : Type.
  Variable draw : rng -> nat -> B * rng.          (* n samples as one block, and the new state *)

  (* the stream cut into blocks of n samples: state before block i, and block i *)
  Fixpoint stream_state (s : rng) (n i : nat) : rng :=
    match i with O => s | S j => snd (draw (stream_state s n j) n) end.
  Definition stream_block (s : rng) (n i : nat) : B := fst (draw (stream_state s n i) n).

  (* k successive draws of n samples by ONE process (the parent, in member order) *)
  Fixpoint draw_blocks (s : rng) (n k : nat) : list B * rng :=
    match k with
    | O => ([], s)
    | S j => let (b, s1) := draw s n in
             let (bs, s2) := draw_blocks s1 n j in (b :: bs, s2)
    end.

  Definition fork (s : rng) : nat -> rng := fun _ => s.          (* every worker starts from the parent's state *)

  Variable A R : Type.
  (* the task body run in a worker whose copy of the generator is in state s *)
  Variable code : A -> rng -> R * rng.

  Fixpoint exec (tasks : list A) (sc : schedule) (ws : nat -> rng) : list (nat * R) :=
    match sc with
    | [] => []
    | (w, t) :: rest =>
        match nth_error tasks t with
        | None => exec tasks rest ws
        | Some a => let (r, s') := code a (ws w) in
                    (t, r) :: exec tasks rest (fun v => if Nat.eqb v w then s' else ws v)
        end
    end.

  (* Pool(nprocesses) forked from a parent in state s0, starmap over the task list, results in task order *)
  Definition starmap (tasks : list A) (sc : schedule) (s0 : rng) : option (list R) :=
    map_opt (fun t => lookup t (exec tasks sc (fork s0))) (seq 0 (length tasks)).

  (* the two task bodies: the noise is drawn inside the worker (before the repair) / the task only uses
     its arguments, the generator copy of the worker is left alone (repaired) *)
  Definition worker_draws (f : B -> R) (n : nat) : A -> rng -> R * rng :=
    fun _ s => let (b, s') := draw s n in (f b, s').
  Definition uses_args (f : A -> R) : A -> rng -> R * rng := fun a s => (f a, s).

  (* rank of task t's event among the earlier events of its own worker *)
  Fixpoint worker_rank (sc : schedule) (cnt : nat -> nat) (t : nat) : option nat :=
    match sc with
    | [] => None
    | (w, t') :: rest =>
        if Nat.eqb t' t then Some (cnt w)
        else worker_rank rest (fun v => if Nat.eqb v w then S (cnt v) else cnt v) t
    end.
End Rng.

(* ---- 2. the noise each member receives ---------------------------------------------------------------- *)
Section MemberNoise.
  Variable rng B : Type.
  Variable draw : rng -> nat -> B * rng.

  (* the code before the repair: noise=None in the task arguments, np.random.randn of X.shape inside the worker *)
  Definition noises_v0 (n nens : nat) (sc : schedule) (s0 : rng) : option (list B) :=
    starmap rng unit B (worker_draws rng B draw unit B (fun b => b) n) (repeat tt nens) sc s0.

  (* repaired: the parent draws one block per member, in member order, and passes it in the arguments *)
  Definition noises (n nens : nat) (sc : schedule) (s0 : rng) : option (list B) :=
    starmap rng B B (uses_args rng B B (fun b => b)) (fst (draw_blocks rng B draw s0 n nens)) sc s0.
End MemberNoise.

(* ---- 3. _sift_with_noise, ensemble_sift, complete_ensemble_sift ---------------------------------------- *)
Section Member.
  Variable W : Type.                                  (* a signal / one column *)
  Variable wzero : W.
  Variable wadd wsub : W -> W -> W.
  Variable whalf : W -> W.                            (* imf / 2 *)
  Variable wmean : list W -> W.                       (* np.array([...]).mean(axis=0) *)
  Variable SC : Type.
  Variable wscale : SC -> W -> W.                     (* noise * noise_scaling *)
  Variable sift_fn : option nat -> W -> option (list W).

  (* 549-550: noise * noise_scaling unless noise_scaling is None *)
  Definition scaled (s : option SC) (noise : W) : W := match s with Some k => wscale k noise | None => noise end.

  (* 546-562.  None = the call raised *)
  Definition sift_with_noise (m : noise_mode) (cap : option nat) (X : W) (s : option SC) (noise : W)
    : option (list W) :=
    let nz := scaled s noise in
    match sift_fn cap (wadd X nz) with
    | None => None
    | Some a =>
        match m with
        | Single => Some a
        | Flip => match sift_fn cap (wsub X nz) with
                  | None => None
                  | Some b => if Nat.eqb (length a) (length b) then Some (map whalf (map2 wadd a b)) else None
                  end
        end
    end.

  (* 652-657 on the list of member decompositions *)
  Definition ensemble_of_blocks (m : noise_mode) (cap : option nat) (X : W) (s : SC) (blocks : list W)
    : option (list W) :=
    match map_opt (sift_with_noise m cap X (Some s)) blocks with
    | None => None
    | Some members => ensemble_collect W wzero wmean cap members
    end.

  Variable rng : Type.
  Variable draw : rng -> nat -> W * rng.              (* randn(N, 1) *)

  (* ensemble_sift as repaired; also returns the parent's generator state afterwards *)
  Definition ensemble_sift (m : noise_mode) (cap : option nat) (X : W) (s : SC) (n nens : nat)
             (sc : schedule) (s0 : rng) : option (list W) * rng :=
    let (blocks, s1) := draw_blocks rng W draw s0 n nens in
    (match starmap rng W (option (list W)) (uses_args rng W (option (list W)) (sift_with_noise m cap X (Some s))) blocks sc s0 with
     | None => None
     | Some res => match all_some res with
                   | None => None
                   | Some members => ensemble_collect W wzero wmean cap members
                   end
     end, s1).

  (* before the repair: drawn in the worker from its forked copy; the parent's state does not move *)
  Definition ensemble_sift_v0 (m : noise_mode) (cap : option nat) (X : W) (s : SC) (n nens : nat)
             (sc : schedule) (s0 : rng) : option (list W) * rng :=
    (match starmap rng unit (option (list W))
                   (worker_draws rng W draw unit (option (list W)) (sift_with_noise m cap X (Some s)) n)
                   (repeat tt nens) sc s0 with
     | None => None
     | Some res => match all_some res with
                   | None => None
                   | Some members => ensemble_collect W wzero wmean cap members
                   end
     end, s0).

  (* ---- complete_ensemble_sift.  Signals are lifted to [option W] (None = some call raised) so that
     Variants.ceemd, which is total, carries the error as a value; the loop stops at once on an error. *)
  Definition oW := option W.
  Definition olift2 (f : W -> W -> W) (a b : oW) : oW :=
    match a, b with Some x, Some y => Some (f x y) | _, _ => None end.
  Definition omean (l : list oW) : oW :=
    match all_some l with Some xs => Some (wmean xs) | None => None end.

  Definition first_col (r : option (list W)) : oW := match r with Some (a :: _) => Some a | _ => None end.

  (* one member of one layer: first IMF of (residual + noise), max_imfs = 1 *)
  Definition first_imf (m : noise_mode) (s : option SC) (X : oW) (noise : W) : oW :=
    match X with None => None | Some x => first_col (sift_with_noise m (Some 1%nat) x s noise) end.

  Definition NSt := option (list W).                  (* the noise matrix, one column per member *)

  (* 741-745: the (already scaled) matrix columns are passed WITH noise_scaling, i.e. scaled a second time *)
  Definition ce_first (m : noise_mode) (s : SC) (X : oW) (ns : NSt) : oW :=
    match ns with None => None | Some cols => omean (map (first_imf m (Some s) X) cols) end.
  (* 760-764: noise_scaling = None *)
  Definition ce_next (m : noise_mode) (X : oW) (ns : NSt) : oW :=
    match ns with None => None | Some cols => omean (map (first_imf m None X) cols) end.
  (* 747-749, 768-771: every column minus its own first IMF *)
  Definition noise_minus_first (n : W) : option W :=
    match first_col (sift_fn (Some 1%nat) n) with Some a => Some (wsub n a) | None => None end.
  Definition ce_upd (ns : NSt) : NSt :=
    match ns with None => None | Some cols => map_opt noise_minus_first cols end.

  Variable few small_mean : W -> bool.
  Definition ofew (v : oW) : bool := match v with None => true | Some x => few x end.
  Definition osmall (v : oW) : bool := match v with None => true | Some x => small_mean x end.

  Definition ceemd_run (m : noise_mode) (s : SC) (fuel : nat) (cap : option nat) (X : W) (cols : list W)
    : list oW * NSt * bool :=
    ceemd oW (Some wzero) (olift2 wadd) (olift2 wsub) NSt (ce_first m s) (ce_next m) ce_upd ofew osmall
          fuel cap (Some X) (Some cols).

  (* the same loop when no noise is involved: every column is the first IMF of the running residual *)
  Definition first_sift (X : oW) : oW :=
    match X with None => None | Some x => first_col (sift_fn (Some 1%nat) x) end.
  Definition ceemd_plain (fuel : nat) (cap : option nat) (X : W) (cols : list W) : list oW * NSt * bool :=
    ceemd oW (Some wzero) (olift2 wadd) (olift2 wsub) NSt (fun x _ => first_sift x) (fun x _ => first_sift x)
          (fun u => u) ofew osmall fuel cap (Some X) (Some cols).

  (* 738: ONE parent draw of n*nens samples laid out as an [n x nens] matrix, times noise_scaling *)
  Variable MB : Type.
  Variable mdraw : rng -> nat -> MB * rng.            (* random_sample((N, nens)) *)
  Variable to_cols : nat -> nat -> MB -> list W.      (* the columns of the row-major matrix *)

  Definition complete_ensemble_sift (m : noise_mode) (s : SC) (fuel : nat) (cap : option nat) (X : W)
             (n nens : nat) (s0 : rng) : list oW * NSt * bool * rng :=
    let (blk, s1) := mdraw s0 (n * nens) in
    (ceemd_run m s fuel cap X (map (wscale s) (to_cols n nens blk)), s1).
End Member.

(* ---- stream positions: member i's block / column ii of the row-major [n x nens] matrix ------------------ *)
Definition block_positions (n i : nat) : list nat := seq (i * n) n.
Definition column_positions (n nens ii : nat) : list nat := map (fun r => (r * nens + ii)%nat) (seq 0 n).

(* ---- 4. executable integer instance (twin: harness/props/c08.py) -------------------------------------- *)
Open Scope Z_scope.

(* counter-based generator: the state is the stream position *)
Definition gen_core (p : nat) : Z :=
  let z := Z.of_nat p in
  let a := z * z + 1237 * z + 9973 in
  let b := (a * a) mod 1000003 in
  (b * b + z) mod 10007.
Definition gen_n (p : nat) : Z := gen_core p mod 13 - 6.          (* stands for randn *)
Definition gen_u (p : nat) : Z := gen_core p mod 8.               (* stands for random_sample *)
Definition toy_draw (g : nat -> Z) (s n : nat) : list Z * nat := (map g (seq s n), (s + n)%nat).

(* column ii of the row-major [n x nens] matrix *)
Definition toy_to_cols (n nens : nat) (blk : list Z) : list (list Z) :=
  map (fun ii => map (fun r => nth (r * nens + ii) blk 0) (seq 0 n)) (seq 0 nens).

Definition zscale (k : Z) (v : list Z) : list Z := map (Z.mul k) v.
Definition zhalf (h : Z) (v : list Z) : list Z := map (fun z => z / h) v.
(* d = 0: the plain sum (the harness multiplies the implementation's mean instead); otherwise sum / (d * members) *)
Definition zmean (N : nat) (d : Z) (l : list (list Z)) : list Z :=
  if d =? 0 then vsum_cols N l else map (fun z => z / (d * Z.of_nat (length l))) (vsum_cols N l).

Definition mode_of (z : Z) : noise_mode := if z =? 1 then Flip else Single.

(* par = [mode (0 single, 1 flip); nens; k (noise_scaling); h (divisor in whalf); d (see zmean)] *)
Definition pg (par : list Z) (i : nat) : Z := nth i par 0.

Definition toy_ensemble_noise (c par : list Z) (sc : schedule) (X : list Z) : option (list (list Z)) * nat :=
  let N := length X in
  ensemble_sift (list Z) (Toys.vzero N) Toys.vadd Toys.vsub (zhalf (pg par 3)) (zmean N (pg par 4)) Z zscale
                (toy_sift_cols c) nat (toy_draw gen_n)
                (mode_of (pg par 0)) (opt_cap (cg c 15)) X (pg par 2) N (Z.to_nat (pg par 1)) sc 0%nat.

Definition toy_ensemble_noise_v0 (c par : list Z) (sc : schedule) (X : list Z) : option (list (list Z)) * nat :=
  let N := length X in
  ensemble_sift_v0 (list Z) (Toys.vzero N) Toys.vadd Toys.vsub (zhalf (pg par 3)) (zmean N (pg par 4)) Z zscale
                (toy_sift_cols c) nat (toy_draw gen_n)
                (mode_of (pg par 0)) (opt_cap (cg c 15)) X (pg par 2) N (Z.to_nat (pg par 1)) sc 0%nat.

Definition toy_noises (v0 : bool) (N nens : nat) (sc : schedule) : option (list (list Z)) :=
  if v0 then noises_v0 nat (list Z) (toy_draw gen_n) N nens sc 0%nat
  else noises nat (list Z) (toy_draw gen_n) N nens sc 0%nat.

Definition toy_few (v : list Z) : bool := (nmaxima v <? 2)%nat.
Definition toy_small_mean (t2 : Z) (N : nat) (v : list Z) : bool := 2 * sumabs v <? t2 * Z.of_nat N.

Definition toy_ceemd_noise (c par : list Z) (X : list Z) : list (option (list Z)) * option (list (list Z)) * bool * nat :=
  let N := length X in
  complete_ensemble_sift (list Z) (Toys.vzero N) Toys.vadd Toys.vsub (zhalf (pg par 3)) (zmean N (pg par 4)) Z zscale
                (toy_sift_cols c) nat (toy_few) (toy_small_mean (cg c 14) N) (list Z) (toy_draw gen_u) toy_to_cols
                (mode_of (pg par 0)) (pg par 2) 60 (opt_cap (cg c 15)) X N (Z.to_nat (pg par 1)) 0%nat.

(* ---- rendering ------------------------------------------------------------------------------------------ *)
Definition sched_of (l : list (Z * Z)) : schedule := map (fun e => (Z.to_nat (fst e), Z.to_nat (snd e))) l.

(* [noise blocks of the members, times k] ++ [-77777] ++ result ([-1] = raised) ++ [-88888; parent's final position] *)
Definition run_toy_ens (c par : list Z) (sc : list (Z * Z)) (X : list Z) : list Z :=
  let s := sched_of sc in
  let nens := Z.to_nat (pg par 1) in
  let r := toy_ensemble_noise c par s X in
  (match toy_noises false (length X) nens s with
   | None => [-2]
   | Some bl => render_cols (map (zscale (pg par 2)) bl)
   end) ++ [-77777] ++ render_ocols (fst r) ++ [-88888; Z.of_nat (snd r)].

(* the code before the repair, for the schedule observed by the harness *)
Definition run_toy_ens_v0 (c par : list Z) (sc : list (Z * Z)) (X : list Z) : list Z :=
  let s := sched_of sc in
  let nens := Z.to_nat (pg par 1) in
  let r := toy_ensemble_noise_v0 c par s X in
  (match toy_noises true (length X) nens s with
   | None => [-2]
   | Some bl => render_cols (map (zscale (pg par 2)) bl)
   end) ++ [-77777] ++ render_ocols (fst r) ++ [-88888; Z.of_nat (snd r)].

(* [layer-0 noise columns (matrix times k)] ++ [-77777] ++ columns ([-1] raised, [-6] out of fuel) *)
Definition run_toy_ceemd_noise (c par : list Z) (X : list Z) : list Z :=
  let N := length X in
  let nens := Z.to_nat (pg par 1) in
  let '(imf, ns, oof, pos) := toy_ceemd_noise c par X in
  render_cols (map (zscale (pg par 2)) (toy_to_cols N nens (fst (toy_draw gen_u 0 (N * nens)))))
  ++ [-77777] ++
  (if oof then [-6]
   else match all_some imf, ns with
        | Some cols, Some _ => 0 :: render_cols cols
        | _, _ => [-1]
        end) ++ [-88888; Z.of_nat pos].

(* a concrete configuration / signal used by the examples of props/Prop_C08.v *)
Definition c08_cfg : list Z := [0; 0; 20; 1; 1; 0; 1; 8; 1; 16; 1; 2; 1; 16; 1; 2; 0].
Definition c08_sig : list Z := [0; 40; -36; 44; -28; 36; -40; 32; -20; 12; 0; 24; -16; 8; 28; -32; 16; -4; 36; -24].
