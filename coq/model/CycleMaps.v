(* Model of emd/_cycles_support.py map_* / project_* and of
   emd/cycles.py get_subset_vector / get_chain_vector (property C16).
   Definitions only; lemmas live in proofs/CycleMapsFacts.v.

   cycle_vect  : list Z over samples   (label of the cycle, -1 = none)
   subset_vect : list Z over cycles    (index in the subset, -1 = not selected)
   chain_vect  : list Z over subset    (chain index)
   positions are [nat]; a per-item value that is "missing" (numpy nan) is [None]. *)
From Coq Require Import ZArith List Bool Lia.
From EmdV Require Import lib.NpLite.
Import ListNotations.
Open Scope Z_scope.

(* result of a forward (many-to-one) map: Python None, a value, or an exception *)
Inductive fwd := FNone | FVal (z : Z) | FErr.

Definition fwd_render (f : fwd) : list Z :=
  match f with FNone => [-1] | FVal z => [0; z] | FErr => [-2] end.

(* cycle labels of the samples are -1 (none) or an existing cycle *)
Definition wf_labels (cv : list Z) (ncyc : nat) : Prop :=
  Forall (fun c => -1 <= c < Z.of_nat ncyc) cv.

(* ---- emd.cycles.get_subset_vector (192-215) -------------------------------- *)
Fixpoint subset_from (valids : list bool) (count : Z) : list Z :=
  match valids with
  | [] => []
  | b :: t => if b then count :: subset_from t (count + 1) else -1 :: subset_from t count
  end.
Definition get_subset_vector (valids : list bool) : list Z := subset_from valids 0.

(* ---- emd.cycles.get_chain_vector (218-244) --------------------------------- *)
Fixpoint zdiffs (l : list Z) : list Z :=
  match l with
  | a :: (b :: _) as t => (b - a) :: zdiffs t
  | _ => []
  end.

Fixpoint chain_loop (d : list Z) (count : Z) : list Z :=
  match d with
  | [] => []
  | x :: t =>
      if x =? 1 then count :: chain_loop t count
      else if 1 <? x then (count + 1) :: chain_loop t (count + 1)
      else -1 :: chain_loop t count
  end.

Definition selected_cycles (sv : list Z) : list nat := positions (fun x => -1 <? x) sv.

Definition get_chain_vector (sv : list Z) : list Z :=
  match selected_cycles sv with
  | [] => []
  | inds => chain_loop (1 :: zdiffs (map Z.of_nat inds)) 0
  end.

(* ---- backward (one-to-many) maps ------------------------------------------- *)
Definition map_cycle_to_samples (cv : list Z) (k : Z) : list nat := positions (Z.eqb k) cv.
Definition map_subset_to_cycle (sv : list Z) (j : Z) : list nat := positions (Z.eqb j) sv.
Definition map_chain_to_subset (chv : list Z) (c : Z) : list nat := positions (Z.eqb c) chv.

(* [cycle_vect == array(ks)] broadcasts only for a single cycle index *)
Definition map_subset_to_sample (sv cv : list Z) (j : Z) : option (list nat) :=
  match map_subset_to_cycle sv j with
  | [k] => Some (map_cycle_to_samples cv (Z.of_nat k))
  | _ => None
  end.

(* repaired form (np.hstack): defined for singleton chains too *)
Definition map_chain_to_cycle (chv sv : list Z) (c : Z) : list nat :=
  flat_map (fun j => map_subset_to_cycle sv (Z.of_nat j)) (map_chain_to_subset chv c).

Fixpoint concat_opt {A} (l : list (option (list A))) : option (list A) :=
  match l with
  | [] => Some []
  | None :: _ => None
  | Some x :: t => match concat_opt t with None => None | Some r => Some (x ++ r) end
  end.

Definition map_chain_to_samples (chv sv cv : list Z) (c : Z) : option (list nat) :=
  concat_opt (map (fun j => map_subset_to_sample sv cv (Z.of_nat j)) (map_chain_to_subset chv c)).

(* ---- forward (many-to-one) maps -------------------------------------------- *)
Definition map_sample_to_cycle (cv : list Z) (i : nat) : fwd :=
  match nth_error cv i with None => FErr | Some c => FVal c end.

Definition map_cycle_to_subset (sv : list Z) (k : Z) : fwd :=
  match py_index sv k with
  | None => FErr
  | Some s => if -1 <? s then FVal s else FNone
  end.

(* repaired form: an unlabelled sample (-1) is answered None *)
Definition map_sample_to_subset (sv cv : list Z) (i : nat) : fwd :=
  match nth_error cv i with
  | None => FErr
  | Some c => if c <? 0 then FNone else map_cycle_to_subset sv c
  end.

(* the form before the repair: -1 is used as a Python index (wraps to the last cycle) *)
Definition map_sample_to_subset_v0 (sv cv : list Z) (i : nat) : fwd :=
  match nth_error cv i with
  | None => FErr
  | Some c => map_cycle_to_subset sv c
  end.

Definition map_subset_to_chain (chv : list Z) (j : Z) : fwd :=
  match py_index chv j with None => FErr | Some c => FVal c end.

Definition map_cycle_to_chain (chv sv : list Z) (k : Z) : fwd :=
  match map_cycle_to_subset sv k with
  | FVal s => map_subset_to_chain chv s
  | other => other
  end.

Definition map_sample_to_chain (chv sv cv : list Z) (i : nat) : fwd :=
  match map_sample_to_subset sv cv i with
  | FVal s => map_subset_to_chain chv s
  | other => other
  end.

(* ---- projections ------------------------------------------------------------ *)
(* out = nan everywhere; for ii in range(len(vals)): out[where(vect == ii)] = vals[ii] *)
Fixpoint assign_at {A} (out : list A) (inds : list nat) (v : A) (i : nat) : list A :=
  match out with
  | [] => []
  | x :: t => (if existsb (Nat.eqb i) inds then v else x) :: assign_at t inds v (S i)
  end.

Fixpoint project_loop {A} (vect : list Z) (vals : list A) (ii : nat) (out : list (option A))
  : list (option A) :=
  match vals with
  | [] => out
  | v :: t => project_loop vect t (S ii)
                (assign_at out (positions (Z.eqb (Z.of_nat ii)) vect) (Some v) 0)
  end.

Definition project_by {A} (vect : list Z) (vals : list A) : list (option A) :=
  project_loop vect vals 0 (map (fun _ => None) vect).

Definition project_cycles_to_samples {A} (vals : list A) cv := project_by cv vals.
Definition project_subset_to_cycles {A} (vals : list A) sv := project_by sv vals.
Definition project_chain_to_subset {A} (vals : list A) chv := project_by chv vals.

(* the composed projections feed the (option-valued) intermediate result on;
   numpy carries nan through as an ordinary value *)
Definition join_opt {A} (l : list (option (option A))) : list (option A) :=
  map (fun o => match o with Some (Some x) => Some x | _ => None end) l.

Definition project_subset_to_samples {A} (vals : list A) sv cv : list (option A) :=
  join_opt (project_by cv (project_subset_to_cycles vals sv)).
Definition project_chain_to_cycles {A} (vals : list A) chv sv : list (option A) :=
  join_opt (project_by sv (project_chain_to_subset vals chv)).
Definition project_chain_to_samples {A} (vals : list A) chv sv cv : list (option A) :=
  join_opt (project_by cv (project_chain_to_cycles vals chv sv)).

(* ---- rendering for the harness ---------------------------------------------- *)
Definition render_nats (l : list nat) : list Z := map Z.of_nat l.
Definition render_onats (o : option (list nat)) : list Z :=
  match o with None => [-2] | Some l => 0 :: render_nats l end.
Definition render_proj (l : list (option Z)) : list Z :=
  flat_map (fun o => match o with None => [0] | Some v => [1; v] end) l.

(* everything the twelve maps and six projections say about one structure:
   cv = cycle vector, valids = selection over cycles; values projected are
   10+index so they are recognisable. *)
Definition run_maps (cv : list Z) (valids : list bool) : list Z :=
  let sv := get_subset_vector valids in
  let chv := get_chain_vector sv in
  let ncyc := length valids in
  let nsub := length chv in
  let nch := Z.to_nat (zmax_list (-1) chv + 1) in
  let samples := seq 0 (length cv) in
  let cycles := seq 0 ncyc in
  let subs := seq 0 nsub in
  let chains := seq 0 nch in
  let vals n := map (fun i => 10 + Z.of_nat i) (seq 0 n) in
  sv ++ [-7] ++ chv ++ [-7]
  ++ flat_map (fun i => fwd_render (map_sample_to_cycle cv i)) samples ++ [-7]
  ++ flat_map (fun i => fwd_render (map_sample_to_subset sv cv i)) samples ++ [-7]
  ++ flat_map (fun i => fwd_render (map_sample_to_chain chv sv cv i)) samples ++ [-7]
  ++ flat_map (fun k => fwd_render (map_cycle_to_subset sv (Z.of_nat k))) cycles ++ [-7]
  ++ flat_map (fun k => fwd_render (map_cycle_to_chain chv sv (Z.of_nat k))) cycles ++ [-7]
  ++ flat_map (fun j => fwd_render (map_subset_to_chain chv (Z.of_nat j))) subs ++ [-7]
  ++ flat_map (fun k => render_nats (map_cycle_to_samples cv (Z.of_nat k)) ++ [-8]) cycles ++ [-7]
  ++ flat_map (fun j => render_nats (map_subset_to_cycle sv (Z.of_nat j)) ++ [-8]) subs ++ [-7]
  ++ flat_map (fun j => render_onats (map_subset_to_sample sv cv (Z.of_nat j)) ++ [-8]) subs ++ [-7]
  ++ flat_map (fun c => render_nats (map_chain_to_subset chv (Z.of_nat c)) ++ [-8]) chains ++ [-7]
  ++ flat_map (fun c => render_nats (map_chain_to_cycle chv sv (Z.of_nat c)) ++ [-8]) chains ++ [-7]
  ++ flat_map (fun c => render_onats (map_chain_to_samples chv sv cv (Z.of_nat c)) ++ [-8]) chains ++ [-7]
  ++ render_proj (project_cycles_to_samples (vals ncyc) cv) ++ [-7]
  ++ render_proj (project_subset_to_cycles (vals nsub) sv) ++ [-7]
  ++ render_proj (project_subset_to_samples (vals nsub) sv cv) ++ [-7]
  ++ render_proj (project_chain_to_subset (vals nch) chv) ++ [-7]
  ++ render_proj (project_chain_to_cycles (vals nch) chv sv) ++ [-7]
  ++ render_proj (project_chain_to_samples (vals nch) chv sv cv).
