(* Control-skeleton tie of the instantaneous phase / frequency / amplitude code (property C09) to model/Freq.v:
     emd/spectra.py  frequency_transform, phase_from_complex_signal, freq_from_phase, phase_from_freq   (gen/Gen_Skel_Freq.v)
     emd/utils.py    wrap_phase, amplitude_normalise                                                    (gen/Gen_Skel_Frequtils.v)
   THE REVIEWABLE PART: the universe of numpy values, ONE table that gives every primitive name the translator
   emitted its meaning (an operation of model/Freq.v applied column by column, or one of the model's oracles),
   the initial environments and the rendering of the model's results. Definitions only; proofs in
   proofs/SkelFacts_Freq.v, statements in props/Prop_Tie_Freq.v, prose in notes/TIE_FREQ.md.

   Conventions. A 2-D array (samples x columns) is the list of its columns; every numpy call with axis=0 is the
   model's list operation mapped over the columns. Numbers are the model's canonical rationals; arithmetic is
   exact except the float remainder `%`, which goes through the model's explicit rounding function [rnd].
   np.pi is [tau / q2] (the model only has tau = 2 pi; 2 * pi and pi / 2 are exact in binary floating point too).
   Calls of functions that are themselves tied (freq_from_phase, utils.wrap_phase, phase_from_complex_signal,
   utils.amplitude_normalise called from frequency_transform) are mapped to the [*_spec] function that the
   callee's own theorem proves the callee's program computes: the linking is literal.
   Not modelled: logging, dtype, numpy's broadcasting / shape-mismatch errors (elementwise operations truncate
   to the shorter operand; columns are never checked to have equal lengths), inputs that are not 2-D,
   the 'ctrl' method, aliasing (X[:, i, j] is a view in numpy, a value here). *)
From Coq Require Import String List Bool Arith ZArith QArith Qcanon.
From EmdV Require Import lib.NpLite lib.PyLoop lib.PyLoopTools model.Freq gen.Gen_Skel_Freq gen.Gen_Skel_Frequtils.
Import ListNotations.
Close Scope Q_scope.
Close Scope Z_scope.
Open Scope nat_scope.
Open Scope string_scope.

(* ---- the numpy values ---------------------------------------------------------------------------- *)
Inductive npv :=
| Scal (x : Qc)                              (* a float scalar *)
| Col (c : list Qc)                          (* 1-D real array *)
| Arr (a : list (list Qc))                   (* 2-D real array, as the list of its columns *)
| Arr3 (a : list (list Qc))                  (* a[:, :, None]: the same with a trailing axis of length 1 *)
| BArr (b : list (list bool))                (* 2-D boolean array *)
| CArr (a : list (list (Qc * Qc)))           (* 2-D complex array *)
| Amp (a : list (option (list Qc)))          (* 2-D real array whose columns may be all-NaN (None): the amplitudes *)
| Amp3 (a : list (option (list Qc))).        (* the same with a trailing axis of length 1 *)

Definition map2 {A B} (f : A -> B) : list (list A) -> list (list B) := map (map f).
(* elementwise binary operation on two 2-D arrays of the same shape *)
Definition zip2 {A B C} (f : A -> B -> C) : list (list A) -> list (list B) -> list (list C) := zipw (zipw f).
(* l[i] as an option (own name: the evaluator of the proofs unfolds nth_error) *)
Definition col_at {A} (l : list A) (i : nat) : option A := nth_error l i.
Definition set_nth {A} (i : nat) (v : A) (l : list A) : list A := (firstn i l ++ v :: skipn (S i) l)%list.

(* some column has fewer than 2 samples (own name, never unfolded by the evaluator) *)
Definition short_col (a : list (list Qc)) : bool := existsb (fun c => Nat.ltb (length c) 2) a.

Definition res_outcome {V} (r : res (val V)) : outcome V :=
  match r with Ok v => Return v | Exc x => Raise x | Bad => Stuck end.

(* ---- mode strings ----------------------------------------------------------------------------------- *)
Inductive wmode := W2pi | Wpm.
Definition wmode_str (m : wmode) : string := match m with W2pi => "2pi" | Wpm => "-pi2pi" end.
Definition method_str (m : method) : string := match m with Hilbert => "hilbert" | Nht => "nht" | Quad => "quad" end.
(* own name, never unfolded by the evaluator: used on arbitrary strings *)
Definition mode_known (s : string) : bool := String.eqb s "2pi" || String.eqb s "-pi2pi".
(* smooth_phase / smoothing: None or a window length (the code only tests `is not None`; the window is always 5) *)
Definition smooth_val (s : option nat) : val npv := match s with Some k => VNat k | None => VNone end.
Definition is_smooth (s : option nat) : bool := match s with Some _ => true | None => false end.

Section FreqPrims.
  Variable tau : Qc.                                      (* 2 pi *)
  Variable rnd : Qc -> Qc.                                (* rounding of the float remainder *)
  Variable analytic : list Qc -> list (Qc * Qc).          (* signal.hilbert *)
  Variable angle : Qc * Qc -> Qc.                         (* np.angle *)
  Variable cabs : Qc * Qc -> Qc.                          (* np.abs of a complex number *)
  Variable qsqrt : Qc -> Qc.
  Variable env_upper : list Qc -> option (list Qc).       (* interp_envelope(mode='upper') *)
  Variable env_comb : list Qc -> option (list Qc).        (* interp_envelope(mode='combined') *)
  Variable thresh : Qc.

  Definition pi_ : Qc := (tau / q2)%Qc.
  (* ncycles * 2 * np.pi, as the code computes it *)
  Definition period_of (n : nat) : Qc := (qn (n * 2) * pi_)%Qc.

  (* ================= what the tied functions compute (specifications in terms of model/Freq.v) ============= *)
  (* utils.wrap_phase(IP, ncycles=n, mode='2pi') : the model's wrap with period n * 2 pi, entry by entry *)
  Definition wrap_spec (n : nat) (a : list (list Qc)) : res (val npv) :=
    Ok (VSig (Arr (map2 (wrap (period_of n) rnd) a))).
  (* mode='-pi2pi' (not in model/Freq.v): shift by half a period, wrap, shift back *)
  Definition wrap_pm (n : nat) (x : Qc) : Qc := (wrap (period_of n) rnd (x + pi_ * qn n) - pi_ * qn n)%Qc.
  Definition wrap_pm_spec (n : nat) (a : list (list Qc)) : res (val npv) := Ok (VSig (Arr (map2 (wrap_pm n) a))).

  (* spectra.freq_from_phase : the model's freq_from_phase on every column; np.gradient's ValueError if a column
     has fewer than 2 samples *)
  Definition ffp_spec (a : list (list Qc)) (sr : Qc) : res (val npv) :=
    match all_some (map (fun c => freq_from_phase tau c sr) a) with
    | Some f => Ok (VSig (Arr f))
    | None => Exc "ValueError"
    end.

  (* spectra.phase_from_freq *)
  Definition pff_spec (a : list (list Qc)) (sr ps : Qc) : res (val npv) :=
    Ok (VSig (Arr (map (fun c => phase_from_freq tau c sr ps) a))).

  (* spectra.phase_from_complex_signal(cs, smoothing=s, ret_phase='unwrapped') (phase_jump='ascending') *)
  Definition pfcs_spec (s : option nat) (a : list (list (Qc * Qc))) : res (val npv) :=
    Ok (VSig (Arr (map (fun c => unwrapped_phase tau (is_smooth s) (map angle c)) a))).

  (* utils.amplitude_normalise(X, thresh, clip, interp_method, max_iters = k), one column and the array *)
  Definition normalise_col (k : nat) (x : list Qc) : list Qc :=
    match env_comb x with None => x | Some e => normalise_loop env_comb thresh k x e end.
  Definition an_spec (k : nat) (clip : bool) (a : list (list Qc)) : res (val npv) :=
    Ok (VSig (Arr (map (fun c => (if clip then map clip1 else (fun l => l)) (normalise_col k c)) a))).

  (* ================= handlers ============================================================================= *)
  Definition h_pi : handler npv :=
    fun args kw => match args, kw with [], [] => Ok (VSig (Scal pi_)) | _, _ => Bad end.

  (* a * b *)
  Definition h_mul : handler npv :=
    fun args kw =>
      match args, kw with
      | [VNat k; VSig (Scal p)], [] => Ok (VSig (Scal (qn k * p)%Qc))
      | [VSig (Scal p); VNat k], [] => Ok (VSig (Scal (p * qn k)%Qc))
      | [VSig (Scal p); VSig (BArr b)], [] => Ok (VSig (Arr (map2 (fun t : bool => if t then p else 0%Qc) b)))
      | [VSig (Arr a); VSig (Scal s)], [] => Ok (VSig (Arr (map2 (fun v => (v * s)%Qc) a)))
      | _, _ => Bad
      end.
  (* a - b *)
  Definition h_sub : handler npv :=
    fun args kw =>
      match args, kw with
      | [VSig (Arr a); VSig (Arr b)], [] => Ok (VSig (Arr (zip2 Qcminus a b)))
      | [VSig (Arr a); VSig (Scal s)], [] => Ok (VSig (Arr (map2 (fun v => (v - s)%Qc) a)))
      | [VSig (Scal s); VNat k], [] => Ok (VSig (Scal (s - qn k)%Qc))
      | _, _ => Bad
      end.
  (* a + b *)
  Definition h_add : handler npv :=
    fun args kw =>
      match args, kw with
      | [VSig (Scal s); VSig (Arr a)], [] => Ok (VSig (Arr (map2 (fun v => (s + v)%Qc) a)))
      | [VSig (Arr a); VSig (Scal s)], [] => Ok (VSig (Arr (map2 (fun v => (v + s)%Qc) a)))
      | _, _ => Bad
      end.
  (* a >= b *)
  Definition h_ge : handler npv :=
    fun args kw =>
      match args, kw with
      | [VSig (Arr a); VSig (Scal p)], [] => Ok (VSig (BArr (map2 (fun v => qleb p v) a)))
      | _, _ => Bad
      end.
  (* a < b on scalars *)
  Definition h_lt : handler npv :=
    fun args kw =>
      match args, kw with
      | [VSig (Scal a); VSig (Scal b)], [] => Ok (VBool (qltb a b))
      | _, _ => Bad
      end.

  Definition h_mode_not_in : handler npv :=
    fun args kw => match args, kw with [VStr s], [] => Ok (VBool (negb (mode_known s))) | _, _ => Bad end.
  (* IP % period : numpy's float remainder, rounded *)
  Definition h_mod : handler npv :=
    fun args kw =>
      match args, kw with
      | [VSig (Arr a); VSig (Scal p)], [] => Ok (VSig (Arr (map2 (fun x => rnd (qmod x p)) a)))
      | _, _ => Bad
      end.
  (* (IP + np.pi * ncycles) % period *)
  Definition h_mod_shift : handler npv :=
    fun args kw =>
      match args, kw with
      | [VSig (Arr a); VNat n; VSig (Scal p)], [] => Ok (VSig (Arr (map2 (fun x => rnd (qmod (x + pi_ * qn n)%Qc p)) a)))
      | _, _ => Bad
      end.

  Definition axis0 (kw : list (string * val npv)) : bool :=
    match kw with [(k, VNat 0)] => String.eqb k "axis" | _ => false end.

  Definition h_gradient : handler npv :=
    fun args kw =>
      match args with
      | [VSig (Arr a)] =>
          if axis0 kw then
            match all_some (map gradient a) with Some g => Ok (VSig (Arr g)) | None => Exc "ValueError" end
          else Bad
      | _ => Bad
      end.
  (* iphase / (2.0 * np.pi) *)
  Definition h_div_tau : handler npv :=
    fun args kw => match args, kw with
                   | [VSig (Arr a)], [] => Ok (VSig (Arr (map2 (fun g => (g / tau)%Qc) a)))
                   | _, _ => Bad end.
  (* ifrequency / sample_rate *)
  Definition h_div_scal : handler npv :=
    fun args kw => match args, kw with
                   | [VSig (Arr a); VSig (Scal s)], [] => Ok (VSig (Arr (map2 (fun v => (v / s)%Qc) a)))
                   | _, _ => Bad end.
  Definition h_cumsum : handler npv :=
    fun args kw => match args with
                   | [VSig (Arr a)] => if axis0 kw then Ok (VSig (Arr (map cumsum a))) else Bad
                   | _ => Bad end.

  (* np.angle, np.unwrap(., axis=0), signal.medfilt(col, 5), np.pi / 2 *)
  Definition h_angle : handler npv :=
    fun args kw => match args, kw with [VSig (CArr a)], [] => Ok (VSig (Arr (map2 angle a))) | _, _ => Bad end.
  Definition h_unwrap : handler npv :=
    fun args kw => match args with
                   | [VSig (Arr a)] => if axis0 kw then Ok (VSig (Arr (map (unwrap tau) a))) else Bad
                   | _ => Bad end.
  Definition h_medfilt : handler npv :=
    fun args kw => match args, kw with [VSig (Col c); VNat 5], [] => Ok (VSig (Col (medfilt5 c))) | _, _ => Bad end.
  Definition h_half_pi : handler npv :=
    fun args kw => match args, kw with [], [] => Ok (VSig (Scal (tau / q4)%Qc)) | _, _ => Bad end.

  (* x.ndim, x[:, :, None], x.shape (of a 3-D value), x[:, i, j], x[:, i, j] = col, x[:, :, 0], x.copy() *)
  Definition h_ndim : handler npv :=
    fun args kw => match args, kw with
                   | [VSig (Arr _)], [] => Ok (VNat 2)
                   | [VSig (Arr3 _)], [] => Ok (VNat 3)
                   | _, _ => Bad end.
  Definition h_newaxis : handler npv :=
    fun args kw => match args, kw with [VSig (Arr a)], [] => Ok (VSig (Arr3 a)) | _, _ => Bad end.
  Definition h_shape : handler npv :=
    fun args kw => match args, kw with
                   | [VSig (Arr3 a)], [] => Ok (VList [VOpaque "nsamples" []; VNat (length a); VNat 1])
                   | [VSig (Col c)], [] => Ok (VList [VNat (length c)])
                   | _, _ => Bad end.
  Definition h_getcol : handler npv :=
    fun args kw => match args, kw with
                   | [VSig (Arr3 a); VNat i; VNat 0], [] =>
                       match col_at a i with Some c => Ok (VSig (Col c)) | None => Exc "IndexError" end
                   | _, _ => Bad end.
  Definition h_setcol : handler npv :=
    fun args kw => match args, kw with
                   | [VSig (Arr3 a); VNat i; VNat 0; VSig (Col c)], [] =>
                       match col_at a i with Some _ => Ok (VSig (Arr3 (set_nth i c a))) | None => Exc "IndexError" end
                   | _, _ => Bad end.
  Definition h_squeeze : handler npv :=
    fun args kw => match args, kw with
                   | [VSig (Arr3 a)], [] => Ok (VSig (Arr a))
                   | [VSig (Amp3 a)], [] => Ok (VSig (Amp a))
                   | _, _ => Bad end.
  Definition h_copy : handler npv :=
    fun args kw => match args, kw with [VSig (Arr a)], [] => Ok (VSig (Arr a)) | _, _ => Bad end.

  (* the amplitude array: np.zeros_like(imf), iamp[:, i, j] = <envelope or None>; None makes the column NaN *)
  (* the bare name `float` is translated as a nullary opaque; `dtype=float` makes the buffer float whatever the dtype of imf -
     the model's arrays are exact rationals, so both spellings denote the same zero array *)
  Definition h_float : handler npv :=
    fun args kw => match args, kw with [], [] => Ok (VOpaque "float" []) | _, _ => Bad end.
  Definition is_dtype_float (kw : list (string * val npv)) : bool :=
    match kw with
    | [] => true
    | [(k, VOpaque t [])] => (String.eqb k "dtype" && String.eqb t "float")%bool
    | _ => false
    end.
  Definition h_zeros_like : handler npv :=
    fun args kw => match args with
                   | [VSig (Arr3 a)] => if is_dtype_float kw then Ok (VSig (Amp3 (map (fun c => Some (map (fun _ => 0%Qc) c)) a))) else Bad
                   | _ => Bad end.
  (* `np.array(X, dtype=float)`: a fresh float copy *)
  Definition h_array_float : handler npv :=
    fun args kw => match args, kw with
                   | [VSig (Arr a)], [(k, VOpaque t [])] => if (String.eqb k "dtype" && String.eqb t "float")%bool then Ok (VSig (Arr a)) else Bad
                   | _, _ => Bad end.
  Definition opt_col (v : val npv) : option (option (list Qc)) :=
    match v with VSig (Col c) => Some (Some c) | VNone => Some None | _ => None end.
  Definition h_setamp : handler npv :=
    fun args kw => match args, kw with
                   | [VSig (Amp3 a); VNat i; VNat 0; v], [] =>
                       match opt_col v, col_at a i with
                       | Some oc, Some _ => Ok (VSig (Amp3 (set_nth i oc a)))
                       | Some _, None => Exc "IndexError"
                       | None, _ => Bad
                       end
                   | _, _ => Bad end.
  Definition col_val (o : option (list Qc)) : val npv := match o with Some e => VSig (Col e) | None => VNone end.
  (* utils.interp_envelope(col, mode='upper') *)
  Definition h_env_upper : handler npv :=
    fun args kw => match args, kw with
                   | [VSig (Col c)], [(k, VStr m)] =>
                       if String.eqb k "mode" && String.eqb m "upper" then Ok (col_val (env_upper c)) else Bad
                   | _, _ => Bad end.
  (* interp_envelope(col, mode='combined', interp_method=...) *)
  Definition h_env_comb : handler npv :=
    fun args kw => match args, kw with
                   | [VSig (Col c)], [(k, VStr m); (k2, _)] =>
                       if String.eqb k "mode" && String.eqb m "combined" && String.eqb k2 "interp_method"
                       then Ok (col_val (env_comb c)) else Bad
                   | _, _ => Bad end.
  (* X[:, i, j] / env *)
  Definition h_div_env : handler npv :=
    fun args kw => match args, kw with
                   | [VSig (Arr3 a); VNat i; VNat 0; VSig (Col e)], [] =>
                       match col_at a i with Some c => Ok (VSig (Col (zipw Qcdiv c e))) | None => Exc "IndexError" end
                   | _, _ => Bad end.
  Definition h_sum : handler npv :=
    fun args kw => match args, kw with [VSig (Col e)], [] => Ok (VSig (Scal (qsum e))) | _, _ => Bad end.
  Definition h_abs : handler npv :=
    fun args kw => match args, kw with
                   | [VSig (Scal x)], [] => Ok (VSig (Scal (qabs x)))
                   | [VSig (CArr a)], [] => Ok (VSig (Amp (map (fun c => Some (map cabs c)) a)))
                   | _, _ => Bad end.
  Definition h_neg1 : handler npv :=
    fun args kw => match args, kw with [], [] => Ok (VSig (Scal (Qcopp 1))) | _, _ => Bad end.
  (* np.clip(X, -1, 1) *)
  Definition h_clip : handler npv :=
    fun args kw => match args, kw with
                   | [VSig (Arr3 a); VSig (Scal lo); VNat 1], [] =>
                       if Qc_eq_bool lo (Qcopp 1) then Ok (VSig (Arr3 (map2 clip1 a))) else Bad
                   | _, _ => Bad end.

  (* frequency_transform's own calls *)
  Definition h_ensure_2d : handler npv :=
    fun args kw => match args, kw with
                   | [VList [VSig (Arr a)]; VList [VStr _]; VStr _], [] => Ok (VSig (Arr a))
                   | _, _ => Bad end.
  Definition h_hilbert : handler npv :=
    fun args kw => match args with
                   | [VSig (Arr a)] => if axis0 kw then Ok (VSig (CArr (map analytic a))) else Bad
                   | _ => Bad end.
  (* quadrature_transform (NOT tied itself): the model's quadrature on every column - except that the code indexes
     mask[-1] of np.diff(nX, axis=0), an IndexError when there are fewer than 2 samples, where the model's
     quad_mask is total *)
  Definition h_quadrature : handler npv :=
    fun args kw => match args, kw with
                   | [VSig (Arr a)], [] =>
                       if short_col a then Exc "IndexError"
                       else Ok (VSig (CArr (map (quadrature qsqrt env_comb thresh) a)))
                   | _, _ => Bad end.
  (* tied callees: their specifications with the callee's default arguments filled in *)
  Definition h_call_normalise : handler npv :=
    fun args kw => match args, kw with [VSig (Arr a)], [] => an_spec 3 false a | _, _ => Bad end.
  Definition h_call_pfcs : handler npv :=
    fun args kw => match args, kw with
                   | [VSig (CArr a)], [(k1, s); (k2, VStr r)] =>
                       if String.eqb k1 "smoothing" && String.eqb k2 "ret_phase" && String.eqb r "unwrapped" then
                         match s with
                         | VNone => pfcs_spec None a
                         | VNat k => pfcs_spec (Some k) a
                         | _ => Bad
                         end
                       else Bad
                   | _, _ => Bad end.
  Definition h_call_ffp : handler npv :=
    fun args kw => match args, kw with [VSig (Arr a); VSig (Scal sr)], [] => ffp_spec a sr | _, _ => Bad end.
  Definition h_call_wrap : handler npv :=
    fun args kw => match args, kw with [VSig (Arr a)], [] => wrap_spec 1 a | _, _ => Bad end.
  Definition h_format : handler npv :=
    fun args kw => match args, kw with [VStr _; _], [] => Ok (VStr "message") | _, _ => Bad end.

  (* ================= THE TABLE: primitive name as emitted -> meaning ====================================== *)
  Definition freq_table : list (string * handler npv) :=
    [ (* operators (dispatched by EArith / ECmp on non-integers) *)
      ("*", h_mul); ("-", h_sub); ("+", h_add); (">=", h_ge); ("<", h_lt);
      ("range", range_handler);
      (* utils.wrap_phase *)
      ("mode not in ['2pi', '-pi2pi']", h_mode_not_in);
      ("np.pi", h_pi);
      ("IP % period", h_mod);
      ("(IP + np.pi * ncycles) % period", h_mod_shift);
      (* spectra.freq_from_phase / phase_from_freq *)
      ("np.gradient", h_gradient);
      ("iphase / (2.0 * np.pi)", h_div_tau);
      ("ifrequency / sample_rate", h_div_scal);
      ("np.cumsum", h_cumsum);
      (* spectra.phase_from_complex_signal *)
      ("np.angle", h_angle);
      ("np.unwrap", h_unwrap);
      ("iphase.ndim", h_ndim);
      ("iphase[:, :, None]", h_newaxis);
      ("iphase.shape", h_shape);
      ("iphase[:, ii, jj]", h_getcol);
      ("signal.medfilt", h_medfilt);
      ("iphase[:, ii, jj] =", h_setcol);
      ("iphase[:, :, 0]", h_squeeze);
      ("np.pi / 2", h_half_pi);
      (* utils.amplitude_normalise *)
      ("X.ndim", h_ndim);
      ("np.array", h_array_float);
      ("float", h_float);
      ("X[:, :, None]", h_newaxis);
      ("X.shape", h_shape);
      ("X[:, iimf, jimf]", h_getcol);
      ("interp_envelope", h_env_comb);
      ("X[:, iimf, jimf] / env", h_div_env);
      ("X[:, iimf, jimf] =", h_setcol);
      ("env.sum()", h_sum);
      ("env.shape", h_shape);
      ("np.abs", h_abs);
      ("-1", h_neg1);
      ("np.clip", h_clip);
      ("X[:, :, 0]", h_squeeze);
      (* spectra.frequency_transform *)
      ("ensure_2d", h_ensure_2d);
      ("signal.hilbert", h_hilbert);
      ("utils.amplitude_normalise", h_call_normalise);
      ("quadrature_transform", h_quadrature);
      ("imf.ndim", h_ndim);
      ("imf[:, :, None]", h_newaxis);
      ("np.zeros_like", h_zeros_like);
      ("imf.shape", h_shape);
      ("imf[:, ii, jj]", h_getcol);
      ("utils.interp_envelope", h_env_upper);
      ("iamp[:, ii, jj] =", h_setamp);
      ("iamp[:, :, 0]", h_squeeze);
      ("phase_from_complex_signal", h_call_pfcs);
      ("freq_from_phase", h_call_ffp);
      ("utils.wrap_phase", h_call_wrap);
      ("str.format", h_format) ].
  Definition freq_prims : prims npv := prims_of freq_table.

  (* ================= initial environments ================================================================= *)
  Definition wp_names : list string := Eval cbv in assigned prog_wrap_phase params_wrap_phase.
  Definition wp_env0 (a : list (list Qc)) (n : nat) (mode : string) : env npv :=
    frame params_wrap_phase wp_names [VSig (Arr a); VNat n; VStr mode].

  Definition ffp_names : list string := Eval cbv in assigned prog_freq_from_phase params_freq_from_phase.
  Definition ffp_env0 (a : list (list Qc)) (sr : Qc) : env npv :=
    frame params_freq_from_phase ffp_names [VSig (Arr a); VSig (Scal sr)].

  Definition pff_names : list string := Eval cbv in assigned prog_phase_from_freq params_phase_from_freq.
  Definition pff_env0 (a : list (list Qc)) (sr ps : Qc) : env npv :=
    frame params_phase_from_freq pff_names [VSig (Arr a); VSig (Scal sr); VSig (Scal ps)].

  Definition pfcs_names : list string :=
    Eval cbv in assigned prog_phase_from_complex_signal params_phase_from_complex_signal.
  Definition pfcs_env0 (a : list (list (Qc * Qc))) (s : option nat) : env npv :=
    frame params_phase_from_complex_signal pfcs_names
          [VSig (CArr a); smooth_val s; VStr "unwrapped"; VStr "ascending"].

  Definition an_names : list string := Eval cbv in assigned prog_amplitude_normalise params_amplitude_normalise.
  (* interp_method is only passed on *)
  Definition an_env0 (a : list (list Qc)) (clip : bool) (interp_method : val npv) (k : nat) : env npv :=
    frame params_amplitude_normalise an_names [VSig (Arr a); VSig (Scal thresh); VBool clip; interp_method; VNat k].

  Definition ft_names : list string := Eval cbv in assigned prog_frequency_transform params_frequency_transform.
  Definition ft_env0 (a : list (list Qc)) (sr : Qc) (method : string) (s : option nat) : env npv :=
    frame params_frequency_transform ft_names [VSig (Arr a); VSig (Scal sr); VStr method; smooth_val s].

  (* ================= rendering of the model's frequency_transform ========================================= *)
  (* (IP, IF, IA) as three arrays; the model's None (a column with fewer than 2 samples) is np.gradient's ValueError *)
  Definition ft_render (o : option (list ft_out)) : outcome npv :=
    match o with
    | Some outs => Return (VList [VSig (Arr (map IP outs)); VSig (Arr (map IFq outs)); VSig (Amp (map IA outs))])
    | None => Raise "ValueError"
    end.
End FreqPrims.
