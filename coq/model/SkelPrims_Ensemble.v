(* The PRIMITIVE MAPPING TABLES of the control-skeleton tie of the ensemble variants (notes/TIE_ENSEMBLE.md) - the
   reviewable part. gen/Gen_Skel_Ensemble.v (regenerated from emd/sift.py by harness/gen_skel_ensemble.py on every
   run) calls opaque primitives by their SOURCE-LEVEL names; the tables below say which oracle of model/Variants.v
   (complete_ensemble_sift, sift_second_layer, the collation of ensemble_sift) and model/Ensemble.v
   (_sift_with_noise, the member list of ensemble_sift) stands for which name, with which argument shapes. Any
   other name or shape is [Bad]: the program is Stuck and the theorems of proofs/SkelFacts_Ensemble.v fail.
   Also here: the initial environments (the parameters in the order of the def line) and how a model result shows
   at the Python level. Definitions only.
   Primitives are pure: the Pool, the random generator (numpy.random) and logging are NOT modelled - the values
   drawn are inputs of the theorems (model/Ensemble.v has the generator / fork model of C08). *)
From Coq Require Import String List Bool Arith.
(* model.Ensemble also defines [exec] / [lookup] (its Pool model): PyLoop is imported after it on purpose *)
From EmdV Require Import model.SiftCore model.Variants model.Ensemble.
From EmdV Require Import lib.PyLoop lib.PyLoopTools gen.Gen_Skel_Ensemble.
Import ListNotations.
Local Open Scope nat_scope.
Open Scope string_scope.

(* ---- generic helpers ---------------------------------------------------------------------------------- *)
(* [nsamples x k] arrays: one column is the signal itself (what a mean over members / sift(.., max_imfs=1) gives),
   more are an opaque "matrix" of columns - the same convention as the first tie (model/SkeletonPrims.v) *)
Fixpoint sigs {U : Type} (l : list (val U)) : option (list U) :=
  match l with
  | [] => Some []
  | VSig x :: t => match sigs t with Some r => Some (x :: r) | None => None end
  | _ => None
  end.

Definition cap_val {U : Type} (cap : option nat) : val U := match cap with Some k => VNat k | None => VNone end.

Definition ensure_handler {U : Type} : handler U :=
  fun args kw => match args, kw with
                 | [VList [x]; VList [VStr _]; VStr _], [] => Ok x
                 | _, _ => Bad
                 end.

(* ============================================================================================== *)
(* 1. complete_ensemble_sift (whole body)  <->  Variants.ceemd                                     *)
(* ============================================================================================== *)
Section CeemdPrims.
  Variable V : Type.                           (* a signal = one column *)
  Variable NS : Type.                          (* an [nsamples x nensembles] matrix (the noise) *)
  Variable vzero : V.
  Variable vadd vsub : V -> V -> V.
  Variable first_layer : V -> NS -> V.         (* mean over members of the first IMF of X + noise_scaling*noise_i *)
  Variable next_layer : V -> NS -> V.          (* mean over members of the first IMF of residual + noise_i *)
  Variable nfirst : NS -> NS.                  (* np.array([sift(noise_i, max_imfs=1)[:, 0] for i]).T *)
  Variable nsub : NS -> NS -> NS.              (* matrix subtraction *)
  Variable few_peaks : V -> bool.              (* len(_find_extrema(col)[0]) < 2 *)
  Variable small_mean : V -> bool.             (* np.abs(col).mean() < sift_thresh *)
  Variable noise0 : NS.                        (* np.random.random_sample((N, nensembles)) * noise_scaling, as drawn *)

  (* the interpreter's "signal" type: columns and noise matrices *)
  Definition CU : Type := (V + NS)%type.
  Definition vcol (x : V) : val CU := VSig (inl x).
  Definition vmat (n : NS) : val CU := VSig (inr n).

  (* Variants.ceemd's [upd]: noise = noise - np.array([r[:, 0] for r in res]).T *)
  Definition ce_upd_of (ns : NS) : NS := nsub ns (nfirst ns).

  Fixpoint csigs (l : list (val CU)) : option (list V) :=
    match l with
    | [] => Some []
    | VSig (inl x) :: t => match csigs t with Some r => Some (x :: r) | None => None end
    | _ => None
    end.
  Definition ccols_of (v : val CU) : option (list V) :=
    match v with
    | VSig (inl x) => Some [x]
    | VOpaque t l => if String.eqb t "matrix" then csigs l else None
    | _ => None
    end.
  Definition cmat_val (l : list V) : val CU :=
    match l with [x] => vcol x | _ => VOpaque "matrix" (map vcol l) end.

  Definition ceemd_table : list (string * handler CU) :=
    [ ("mp.Pool", fun args kw => match args, kw with [], [(_, _)] => Ok (VOpaque "pool" []) | _, _ => Bad end);
      ("ensure_1d_with_singleton", ensure_handler);
      ("X.shape", fun args kw => match args, kw with
                                 | [VSig (inl _)], [] => Ok (VList [VOpaque "nsamples" []; VNat 1])
                                 | _, _ => Bad
                                 end);
      ("_nsamples_warn", fun args kw => match args, kw with [_; _], [] => Ok VNone | _, _ => Bad end);   (* only warns *)
      ("X.std()", fun args kw => match args, kw with
                                 | [VSig (inl x)], [] => Ok (VOpaque "std" [vcol x])
                                 | _, _ => Bad
                                 end);
      ("np.random.random_sample",
        fun args kw => match args, kw with
                       | [VList [n; _]], [] => if is_opaque0 n "nsamples" then Ok (VOpaque "random_sample" []) else Bad
                       | _, _ => Bad
                       end);
      (* X.std() * ensemble_noise = noise_scaling;  random_sample(..) * noise_scaling = the noise matrix *)
      ("*", fun args kw =>
              match args, kw with
              | [VOpaque t l; b], [] =>
                  if String.eqb t "std" then Ok (VOpaque "noise_scaling" [])
                  else if String.eqb t "random_sample" && is_opaque0 b "noise_scaling" then Ok (vmat noise0)
                  else Bad
              | _, _ => Bad
              end);
      (* the three argument lists (one tuple per member), kept with their provenance *)
      ("[(X, noise_scaling, noise[:, ii, None], noise_mode, sift_thresh, 1, ii, imf_opts, envelope_opts, extrema_opts) for ii in range(nensembles)]",
        fun args kw =>
          match args, kw with
          | [VSig (inl x); sc; VSig (inr ns); _; th; _; _; _; _], [] =>
              if is_opaque0 sc "noise_scaling" && is_opaque0 th "sift_thresh"
              then Ok (VOpaque "args_first" [vcol x; vmat ns]) else Bad
          | _, _ => Bad
          end);
      ("[(proto_imf, None, noise[:, ii, None], noise_mode, sift_thresh, 1, ii, imf_opts, envelope_opts, extrema_opts) for ii in range(nensembles)]",
        fun args kw =>
          match args, kw with
          | [VSig (inl r); VSig (inr ns); _; th; _; _; _; _], [] =>
              if is_opaque0 th "sift_thresh" then Ok (VOpaque "args_next" [vcol r; vmat ns]) else Bad
          | _, _ => Bad
          end);
      ("[(noise[:, ii, None], sift_thresh, 1, None, imf_opts, envelope_opts, extrema_opts) for ii in range(nensembles)]",
        fun args kw =>
          match args, kw with
          | [VSig (inr ns); th; _; _; _; _], [] =>
              if is_opaque0 th "sift_thresh" then Ok (VOpaque "args_noise" [vmat ns]) else Bad
          | _, _ => Bad
          end);
      ("p.starmap(_sift_with_noise, args)",
        fun args kw =>
          match args, kw with
          | [p; VOpaque t l], [] =>
              if is_opaque0 p "pool" then
                if String.eqb t "args_first" then Ok (VOpaque "res_first" l)
                else if String.eqb t "args_next" then Ok (VOpaque "res_next" l)
                else Bad
              else Bad
          | _, _ => Bad
          end);
      ("p.starmap(sift, args)",
        fun args kw =>
          match args, kw with
          | [p; VOpaque t l], [] =>
              if is_opaque0 p "pool" && String.eqb t "args_noise" then Ok (VOpaque "res_noise" l) else Bad
          | _, _ => Bad
          end);
      (* THE ORACLES first_layer / next_layer: build the member arguments, run the pool, average *)
      ("np.array([r for r in res]).mean(axis=0)",
        fun args kw =>
          match args, kw with
          | [VOpaque t [VSig (inl x); VSig (inr ns)]], [] =>
              if String.eqb t "res_first" then Ok (vcol (first_layer x ns))
              else if String.eqb t "res_next" then Ok (vcol (next_layer x ns))
              else Bad
          | _, _ => Bad
          end);
      ("np.array([r[:, 0] for r in res]).T",
        fun args kw =>
          match args, kw with
          | [VOpaque t [VSig (inr ns)]], [] => if String.eqb t "res_noise" then Ok (vmat (nfirst ns)) else Bad
          | _, _ => Bad
          end);
      ("-", fun args kw =>
              match args, kw with
              | [VSig (inl a); VSig (inl b)], [] => Ok (vcol (vsub a b))
              | [VSig (inr a); VSig (inr b)], [] => Ok (vmat (nsub a b))
              | _, _ => Bad
              end);
      ("imf.sum(axis=1)[:, None]",
        fun args kw => match args, kw with
                       | [m], [] => match ccols_of m with
                                    | Some l => Ok (vcol (vsum V vzero vadd l))
                                    | None => Bad
                                    end
                       | _, _ => Bad
                       end);
      ("np.concatenate",
        fun args kw =>
          match args, kw with
          | [VList [a; b]], [(k, VNat 1)] =>
              if String.eqb k "axis" then
                match ccols_of a, ccols_of b with
                | Some la, Some lb => Ok (VOpaque "matrix" (map vcol (la ++ lb)))
                | _, _ => Bad
                end
              else Bad
          | _, _ => Bad
          end);
      ("imf[:, -1]",                            (* the last column *)
        fun args kw => match args, kw with
                       | [m], [] => match ccols_of m with
                                    | Some l => match rev l with c :: _ => Ok (vcol c) | [] => Exc "IndexError" end
                                    | None => Bad
                                    end
                       | _, _ => Bad
                       end);
      ("_find_extrema",
        fun args kw => match args, kw with
                       | [VSig (inl c)], [] => Ok (VList [VOpaque "peak_locs" [vcol c]; VOpaque "peak_vals" [vcol c]])
                       | _, _ => Bad
                       end);
      ("len", fun args kw => match args, kw with
                             | [VOpaque t [VSig (inl c)]], [] =>
                                 if String.eqb t "peak_locs" then Ok (VOpaque "npeaks" [vcol c]) else Bad
                             | _, _ => Bad
                             end);
      ("np.abs(next_imf).mean()",
        fun args kw => match args, kw with
                       | [VSig (inl x)], [] => Ok (VOpaque "abs_mean" [vcol x])
                       | _, _ => Bad
                       end);
      (* THE ORACLES few_peaks / small_mean *)
      ("<", fun args kw =>
              match args, kw with
              | [VOpaque t [VSig (inl x)]; b], [] =>
                  if String.eqb t "npeaks" then
                    match b with VNat 2 => Ok (VBool (few_peaks x)) | _ => Bad end
                  else if String.eqb t "abs_mean" && is_opaque0 b "sift_thresh" then Ok (VBool (small_mean x))
                  else Bad
              | _, _ => Bad
              end);
      ("p.close()", fun args kw => match args, kw with
                                   | [p], [] => if is_opaque0 p "pool" then Ok VNone else Bad
                                   | _, _ => Bad
                                   end) ].

  Definition ceemd_prims : prims CU := prims_of ceemd_table.

  (* the parameters of complete_ensemble_sift, in the order of the def line *)
  Definition ceemd_args (cap : option nat) (X : V) (nens en nm np vb io eo xo : val CU) : list (val CU) :=
    [ vcol X;                          (* X *)
      nens;                            (* nensembles: any value (only handed to the opaque forms) *)
      en;                              (* ensemble_noise: any value *)
      nm;                              (* noise_mode: any value *)
      np;                              (* nprocesses: any value *)
      VOpaque "sift_thresh" [];        (* sift_thresh *)
      cap_val cap;                     (* max_imfs: None or an int *)
      vb;                              (* verbose: any value (consumed by the decorator) *)
      io; eo; xo ].                    (* imf_opts, envelope_opts, extrema_opts: any values *)

  Definition ceemd_names : list string :=
    Eval cbv in assigned prog_complete_ensemble_sift params_complete_ensemble_sift.

  Definition ceemd_env0 cap X nens en nm np vb io eo xo : env CU :=
    frame params_complete_ensemble_sift ceemd_names (ceemd_args cap X nens en nm np vb io eo xo).

  (* a result of Variants.ceemd (columns, noise, out-of-fuel flag) at the Python level: `return imf, noise` *)
  Definition ceemd_render (r : list V * NS * bool) : outcome CU :=
    let '(imf, ns, oof) := r in
    if oof then OutOfFuel else Return (VList [cmat_val imf; vmat ns]).
End CeemdPrims.

(* ============================================================================================== *)
(* 2. sift_second_layer (whole body)  <->  Variants.second_layer / place                           *)
(* ============================================================================================== *)
(* list helpers of the tables (kept folded by the symbolic evaluator of the proofs) *)
Definition pick {A : Type} (l : list A) (i : nat) : option A := nth_error l i.
Definition set_nth {A : Type} (i : nat) (v : A) (l : list A) : list A := (firstn i l ++ v :: skipn (S i) l)%list.

(* `blk[:, :w] = new` on a block of columns, w = the width of [shape_of]: the slice is clipped to the block, the
   value must have exactly the width of the slice (numpy: "could not broadcast" ValueError otherwise) *)
Definition store_block {A : Type} (blk shape_of new : list A) : option (list A) :=
  let w := Nat.min (List.length shape_of) (List.length blk) in
  if Nat.eqb (List.length new) w then Some (new ++ skipn w blk)%list else None.

Section SecondPrims.
  Variable V : Type.
  Variable vzero : V.
  Variable sift_fn : option nat -> V -> option (list V).     (* sift_func(col, max_imfs=..); None = it raised *)

  (* values: a 2-D array is VOpaque "matrix" [columns]; the 3-D result is VOpaque "array3" [one "block" of columns
     per first-level component]; the options dictionary is VOpaque "dict" [its 'max_imfs' entry (None = absent or
     None)] - its other entries are not looked at by the code *)
  Definition block_val (b : list V) : val V := VOpaque "block" (map VSig b).
  Definition zero_block (k : nat) : val V := VOpaque "block" (repeat (VSig vzero) k).

  Definition second_table : list (string * handler V) :=
    [ ("ensure_2d", ensure_handler);
      ("{} if sift_args is None else dict(sift_args)",          (* a fresh dictionary / a copy *)
        fun args kw => match args, kw with
                       | [VNone], [] => Ok (VOpaque "dict" [VNone])
                       | [VOpaque t [c]], [] => if String.eqb t "dict" then Ok (VOpaque "dict" [c]) else Bad
                       | _, _ => Bad
                       end);
      ("sift_args.get('max_imfs')",
        fun args kw => match args, kw with
                       | [VOpaque t [c]], [] => if String.eqb t "dict" then Ok c else Bad
                       | _, _ => Bad
                       end);
      ("IA.shape",
        fun args kw => match args, kw with
                       | [VOpaque t l], [] =>
                           if String.eqb t "matrix" then Ok (VList [VOpaque "nsamples" []; VNat (List.length l)]) else Bad
                       | _, _ => Bad
                       end);
      ("sift_args['max_imfs'] =",                               (* N11: returns the new dictionary *)
        fun args kw => match args, kw with
                       | [VOpaque t [_]; v], [] => if String.eqb t "dict" then Ok (VOpaque "dict" [v]) else Bad
                       | _, _ => Bad
                       end);
      ("sift_args['max_imfs']",
        fun args kw => match args, kw with
                       | [VOpaque t [c]], [] => if String.eqb t "dict" then Ok c else Bad
                       | _, _ => Bad
                       end);
      ("np.zeros",
        fun args kw => match args, kw with
                       | [VList [n; VNat m; VNat k]], [] =>
                           if is_opaque0 n "nsamples" then Ok (VOpaque "array3" (repeat (zero_block k) m)) else Bad
                       | _, _ => Bad
                       end);
      ("range", range_handler);
      ("IA[:, ii]",
        fun args kw => match args, kw with
                       | [VOpaque t l; VNat i], [] =>
                           if String.eqb t "matrix" then
                             match pick l i with
                             | Some (VSig c) => Ok (VSig c)
                             | Some _ => Bad
                             | None => Exc "IndexError"
                             end
                           else Bad
                       | _, _ => Bad
                       end);
      (* THE ORACLE sift_fn: sift_func(col, **sift_args) with the dictionary's max_imfs *)
      ("sift_func",
        fun args kw => match args, kw with
                       | [VSig col], [(k, VOpaque t [c])] =>
                           if String.eqb k "**" && String.eqb t "dict" then
                             match (match c with VNat n => Some (Some n) | VNone => Some None | _ => None end) with
                             | Some cap => match sift_fn cap col with
                                           | Some tmp => Ok (VOpaque "matrix" (map VSig tmp))
                                           | None => Exc "SiftError"
                                           end
                             | None => Bad
                             end
                           else Bad
                       | _, _ => Bad
                       end);
      (* N11 store: imf2[:, ii, :tmp.shape[1]] = tmp (arguments: the free variables imf2, ii, tmp of the target,
         then the value) - returns the new imf2 *)
      ("imf2[:, ii, :tmp.shape[1]] =",
        fun args kw => match args, kw with
                       | [VOpaque t bl; VNat i; VOpaque t1 l1; VOpaque t2 l2], [] =>
                           if String.eqb t "array3" && String.eqb t1 "matrix" && String.eqb t2 "matrix" then
                             match pick bl i with
                             | Some (VOpaque tb b) =>
                                 if String.eqb tb "block" then
                                   match store_block b l1 l2 with
                                   | Some nb => Ok (VOpaque "array3" (set_nth i (VOpaque "block" nb) bl))
                                   | None => Exc "ValueError"
                                   end
                                 else Bad
                             | Some _ => Bad
                             | None => Exc "IndexError"
                             end
                           else Bad
                       | _, _ => Bad
                       end) ].

  Definition second_prims : prims V := prims_of second_table.

  (* sift_args as passed by the caller: None, or a dictionary whose 'max_imfs' entry is absent / None / an int *)
  Definition sift_args_val (sa : option (option nat)) : val V :=
    match sa with None => VNone | Some c => VOpaque "dict" [cap_val c] end.
  Definition cap_arg_of (sa : option (option nat)) : option nat :=
    match sa with None => None | Some c => c end.

  Definition second_names : list string := Eval cbv in assigned prog_sift_second_layer params_sift_second_layer.

  (* parameters in the order of the def line: IA, sift_func (any value: it is called by name), sift_args *)
  Definition second_env0 (IA : list V) (sf : val V) (sa : option (option nat)) : env V :=
    frame params_sift_second_layer second_names [VOpaque "matrix" (map VSig IA); sf; sift_args_val sa].

  (* the model returns the blocks, or None when a call raised (the inner sift, or numpy's store when the inner
     decomposition is wider than the block) *)
  Definition second_agrees (o : outcome V) (r : option (list (list V))) : Prop :=
    match r with
    | Some blocks => o = Return (VOpaque "array3" (map block_val blocks))
    | None => o = Raise "SiftError" \/ o = Raise "ValueError"
    end.
End SecondPrims.

(* ============================================================================================== *)
(* 3. _sift_with_noise (whole body)  <->  Ensemble.sift_with_noise                                 *)
(* ============================================================================================== *)
Definition nm_str (m : noise_mode) : string := match m with Single => "single" | Flip => "flip" end.

Section MemberPrims.
  Variable W : Type.                           (* a signal / one column *)
  Variable wadd wsub : W -> W -> W.
  Variable whalf : W -> W.                     (* imf / 2 *)
  Variable SC : Type.                          (* the type of noise_scaling *)
  Variable wscale : SC -> W -> W.              (* noise * noise_scaling *)
  Variable sift_fn : option nat -> W -> option (list W).     (* sift(x, max_imfs=cap, ..); None = it raised *)
  Variable drawn : W.                          (* what np.random.randn( *X.shape) returns when noise is None *)

  (* the interpreter's "signal" type: signals and the scaling factor *)
  Definition MU : Type := (W + SC)%type.
  Definition wsig (x : W) : val MU := VSig (inl x).
  Definition wsc (k : SC) : val MU := VSig (inr k).
  (* a decomposition [nsamples x k] is always VOpaque "matrix" [columns] here (sift returns a 2-D array) *)
  Definition wmat (l : list W) : val MU := VOpaque "matrix" (map wsig l).
  Fixpoint wsigs (l : list (val MU)) : option (list W) :=
    match l with
    | [] => Some []
    | VSig (inl x) :: t => match wsigs t with Some r => Some (x :: r) | None => None end
    | _ => None
    end.
  Definition cap_of_val (c : val MU) : option (option nat) :=
    match c with VNat n => Some (Some n) | VNone => Some None | _ => None end.

  Definition sift_call : handler MU :=
    fun args kw =>
      match args, kw with
      | [VSig (inl x)], [(_, th); (_, c); (_, _); (_, _); (_, _)] =>
          if keys_are kw ["sift_thresh"; "max_imfs"; "imf_opts"; "envelope_opts"; "extrema_opts"]
             && is_opaque0 th "sift_thresh" then
            match cap_of_val c with
            | Some cap => match sift_fn cap x with
                          | Some cols => Ok (wmat cols)
                          | None => Exc "SiftError"
                          end
            | None => Bad
            end
          else Bad
      | _, _ => Bad
      end.

  Definition member_table : list (string * handler MU) :=
    [ ("mp.current_process", fun args kw => match args, kw with [], [] => Ok (VOpaque "process" []) | _, _ => Bad end);
      ("np.random.randn(*X.shape)",
        fun args kw => match args, kw with [VSig (inl _)], [] => Ok (wsig drawn) | _, _ => Bad end);
      ("*", fun args kw => match args, kw with
                           | [VSig (inl n); VSig (inr k)], [] => Ok (wsig (wscale k n))
                           | _, _ => Bad
                           end);
      ("X.copy()", fun args kw => match args, kw with [VSig (inl x)], [] => Ok (wsig x) | _, _ => Bad end);
      (* X.copy() + noise on signals;  imf += sift(..) on decompositions: numpy adds column by column, a
         different number of columns is an error as in Ensemble.sift_with_noise (the broadcast of a ONE-column
         right-hand side is not modelled there either - see the header of model/Ensemble.v) *)
      ("+", fun args kw =>
              match args, kw with
              | [VSig (inl a); VSig (inl b)], [] => Ok (wsig (wadd a b))
              | [VOpaque ta la; VOpaque tb lb], [] =>
                  if String.eqb ta "matrix" && String.eqb tb "matrix" then
                    match wsigs la, wsigs lb with
                    | Some a, Some b =>
                        if Nat.eqb (List.length a) (List.length b) then Ok (wmat (map2 wadd a b)) else Exc "ValueError"
                    | _, _ => Bad
                    end
                  else Bad
              | _, _ => Bad
              end);
      ("-", fun args kw => match args, kw with
                           | [VSig (inl a); VSig (inl b)], [] => Ok (wsig (wsub a b))
                           | _, _ => Bad
                           end);
      ("sift", sift_call);
      ("imf / 2", fun args kw =>
                    match args, kw with
                    | [VOpaque t l], [] =>
                        if String.eqb t "matrix" then
                          match wsigs l with Some a => Ok (wmat (map whalf a)) | None => Bad end
                        else Bad
                    | _, _ => Bad
                    end) ].

  Definition member_prims : prims MU := prims_of member_table.

  Definition opt_val {A : Type} (f : A -> val MU) (o : option A) : val MU :=
    match o with Some a => f a | None => VNone end.

  (* the parameters of _sift_with_noise, in the order of the def line *)
  Definition member_args (X : W) (s : option SC) (noise : option W) (m : noise_mode) (cap : option nat)
             (ji : option nat) (io eo xo : val MU) : list (val MU) :=
    [ wsig X;                          (* X *)
      opt_val wsc s;                   (* noise_scaling: None or a factor *)
      opt_val wsig noise;              (* noise: None (drawn here) or an array *)
      VStr (nm_str m);                 (* noise_mode: 'single' / 'flip' (ensemble_sift rejects anything else) *)
      VOpaque "sift_thresh" [];        (* sift_thresh *)
      cap_val cap;                     (* max_imfs *)
      opt_val VNat ji;                 (* job_ind: None or an int *)
      io; eo; xo ].                    (* imf_opts, envelope_opts, extrema_opts: any values *)

  Definition member_names : list string := Eval cbv in assigned prog_sift_with_noise params_sift_with_noise.

  Definition member_env0 X s noise m cap ji io eo xo : env MU :=
    frame params_sift_with_noise member_names (member_args X s noise m cap ji io eo xo).

  (* the model returns the decomposition, or None when a call raised (sift, or the addition of two
     decompositions with different numbers of columns) *)
  Definition member_agrees (o : outcome MU) (r : option (list W)) : Prop :=
    match r with
    | Some cols => o = Return (wmat cols)
    | None => o = Raise "SiftError" \/ o = Raise "ValueError"
    end.
End MemberPrims.

(* ============================================================================================== *)
(* 4. ensemble_sift (whole body)  <->  Ensemble.ensemble_of_blocks (members + Variants.ensemble_collect) *)
(* ============================================================================================== *)
Section EnsemblePrims.
  Variable W : Type.
  Variable wzero : W.
  Variable wadd wsub : W -> W -> W.
  Variable whalf : W -> W.
  Variable wmean : list W -> W.                (* np.array([...]).mean(axis=0) over the members *)
  Variable SC : Type.
  Variable wscale : SC -> W -> W.
  Variable sift_fn : option nat -> W -> option (list W).
  Variable scale : SC.                         (* noise_scaling = X.std() * ensemble_noise *)
  Variable blocks : list W.                    (* np.random.randn( *X.shape), drawn in the PARENT once per member, in
                                                  member order (Ensemble.draw_blocks) *)

  Local Notation U := (MU W SC).
  Local Notation wsig := (wsig W SC).
  Local Notation wsc := (wsc W SC).
  Local Notation wmat := (wmat W SC).

  Definition wcols_of (v : val U) : option (list W) :=
    match v with VOpaque t l => if String.eqb t "matrix" then wsigs W SC l else None | _ => None end.
  Definition members_of (l : list (val U)) : option (list (list W)) := map_opt wcols_of l.
  Definition mode_of_val (v : val U) : option noise_mode :=
    match v with
    | VStr t => if String.eqb t "single" then Some Single else if String.eqb t "flip" then Some Flip else None
    | _ => None
    end.
  Definition bad_mode (v : val U) : bool := match mode_of_val v with Some _ => false | None => true end.

  Definition ensemble_table : list (string * handler U) :=
    [ ("noise_mode not in ['single', 'flip']",
        fun args kw => match args, kw with [v], [] => Ok (VBool (bad_mode v)) | _, _ => Bad end);
      ("str.format", fun args kw => match args, kw with [VStr _; _], [] => Ok (VStr "message") | _, _ => Bad end);
      ("ensure_1d_with_singleton", ensure_handler);
      ("X.shape", fun args kw => match args, kw with
                                 | [VSig (inl _)], [] => Ok (VList [VOpaque "nsamples" []; VNat 1])
                                 | _, _ => Bad
                                 end);
      ("_nsamples_warn", fun args kw => match args, kw with [_; _], [] => Ok VNone | _, _ => Bad end);
      ("X.std()", fun args kw => match args, kw with
                                 | [VSig (inl x)], [] => Ok (VOpaque "std" [wsig x])
                                 | _, _ => Bad
                                 end);
      ("*", fun args kw => match args, kw with
                           | [VOpaque t _; _], [] => if String.eqb t "std" then Ok (wsc scale) else Bad
                           | _, _ => Bad
                           end);
      ("mp.Pool", fun args kw => match args, kw with [], [(_, _)] => Ok (VOpaque "pool" []) | _, _ => Bad end);
      (* the member argument tuples: the noise is drawn HERE, in the parent, one block per member *)
      ("[(X, noise_scaling, np.random.randn(*X.shape), noise_mode, sift_thresh, max_imfs, ii, imf_opts, envelope_opts, extrema_opts) for ii in range(nensembles)]",
        fun args kw =>
          match args, kw with
          | [VSig (inl x); VSig (inr k); nm; th; c; _; _; _; VNat n], [] =>
              if is_opaque0 th "sift_thresh" && Nat.eqb (List.length blocks) n
              then Ok (VOpaque "member_args" [wsig x; wsc k; nm; c; VOpaque "noise_blocks" (map wsig blocks)])
              else Bad
          | _, _ => Bad
          end);
      (* THE ORACLE: one _sift_with_noise call per tuple (Ensemble.sift_with_noise, tied to the source by part 3);
         an exception in a member is re-raised by starmap *)
      ("p.starmap(_sift_with_noise, args)",
        fun args kw =>
          match args, kw with
          | [p; VOpaque t [VSig (inl x); VSig (inr k); nm; c; VOpaque tb bl]], [] =>
              if is_opaque0 p "pool" && String.eqb t "member_args" && String.eqb tb "noise_blocks" then
                match mode_of_val nm, cap_of_val W SC c, wsigs W SC bl with
                | Some m, Some cap, Some bs =>
                    match map_opt (sift_with_noise W wadd wsub whalf SC wscale sift_fn m cap x (Some k)) bs with
                    | Some members => Ok (VOpaque "results" (map wmat members))
                    | None => Exc "MemberError"
                    end
                | _, _, _ => Bad
                end
              else Bad
          | _, _ => Bad
          end);
      ("p.close()", fun args kw => match args, kw with
                                   | [p], [] => if is_opaque0 p "pool" then Ok VNone else Bad
                                   | _, _ => Bad
                                   end);
      ("res[0].shape",
        fun args kw => match args, kw with
                       | [VOpaque t l], [] =>
                           if String.eqb t "results" then
                             match l with
                             | r0 :: _ => match wcols_of r0 with
                                          | Some c => Ok (VList [VOpaque "nsamples" []; VNat (List.length c)])
                                          | None => Bad
                                          end
                             | [] => Exc "IndexError"
                             end
                           else Bad
                       | _, _ => Bad
                       end);
      ("np.zeros", fun args kw => match args, kw with
                                  | [VList [n; VNat k]], [] =>
                                      if is_opaque0 n "nsamples" then Ok (VOpaque "matrix" (repeat (wsig wzero) k)) else Bad
                                  | _, _ => Bad
                                  end);
      ("range", range_handler);
      (* THE ORACLE wmean over column ii of every member; IndexError when a member has no column ii *)
      ("np.array([r[:, ii] for r in res]).mean(axis=0)",
        fun args kw =>
          match args, kw with
          | [VNat i; VOpaque t l], [] =>
              if String.eqb t "results" then
                match members_of l with
                | Some members =>
                    if forallb (fun r => Nat.ltb i (List.length r)) members
                    then Ok (wsig (wmean (map (fun r => nth i r wzero) members)))
                    else Exc "IndexError"
                | None => Bad
                end
              else Bad
          | _, _ => Bad
          end);
      ("imfs[:, ii] =",                          (* N11 store: returns the new imfs *)
        fun args kw => match args, kw with
                       | [VOpaque t l; VNat i; VSig (inl v)], [] =>
                           if String.eqb t "matrix" then
                             if Nat.ltb i (List.length l) then Ok (VOpaque "matrix" (set_nth i (wsig v) l))
                             else Exc "IndexError"
                           else Bad
                       | _, _ => Bad
                       end) ].

  Definition ensemble_prims : prims U := prims_of ensemble_table.

  (* the parameters of ensemble_sift, in the order of the def line *)
  Definition ensemble_args (X : W) (nens : nat) (en : val U) (m : noise_mode) (np : val U) (cap : option nat)
             (vb io eo xo : val U) : list (val U) :=
    [ wsig X;                          (* X *)
      VNat nens;                       (* nensembles *)
      en;                              (* ensemble_noise: any value *)
      VStr (nm_str m);                 (* noise_mode *)
      np;                              (* nprocesses: any value *)
      VOpaque "sift_thresh" [];        (* sift_thresh *)
      cap_val cap;                     (* max_imfs *)
      vb; io; eo; xo ].                (* verbose, imf_opts, envelope_opts, extrema_opts: any values *)

  Definition ensemble_names : list string := Eval cbv in assigned prog_ensemble_sift params_ensemble_sift.

  Definition ensemble_env0 X nens en m np cap vb io eo xo : env U :=
    frame params_ensemble_sift ensemble_names (ensemble_args X nens en m np cap vb io eo xo).

  (* the model returns the mean columns, or None when a member raised or a member has too few columns *)
  Definition ensemble_agrees (o : outcome U) (r : option (list W)) : Prop :=
    match r with
    | Some cols => o = Return (wmat cols)
    | None => o = Raise "MemberError" \/ o = Raise "IndexError"
    end.
End EnsemblePrims.
