(* Control-skeleton tie of the per-cycle statistics (properties C14 / C15; notes/TIE_CYCLESTAT.md).
   THE REVIEWABLE PART: the value universe, the primitive mapping tables, the initial environments and the
   rendering of model results for the translated programs of gen/Gen_Skel_Cyclestat.v (emd/cycles.py:
   get_cycle_stat, bin_by_phase, phase_align) and gen/Gen_Skel_Cyclestatsupport.v (emd/_cycles_support.py:
   get_cycle_stat_from_samples, get_augmented_cycle_stat_from_samples, get_slice_stat_from_samples,
   make_slice_cache, augment_slice, make_aug_slice_cache). Definitions only; the proofs are in
   proofs/SkelFacts_Cyclestat.v, the statements in props/Prop_Tie_Cyclestat.v.

   The numpy expressions of the source are opaque primitives of the translated programs; each is mapped here
   to the list operation that model/CycleStat.v / model/CyclesObj.v are written with. `func` - "any function" -
   is the abstract oracle [f] (resp. [fn] for a tuple of value vectors): the theorems hold for every f. *)
From Coq Require Import String List Bool Arith ZArith Lia.
(* model/CyclesObj.v has its own [res] / [Ok]: lib/PyLoop.v is imported after it, so that these names are PyLoop's *)
From EmdV Require Import lib.NpLite model.CycleMaps model.CycleVec model.Spectra model.CycleStat model.CyclesObj.
From EmdV Require Import lib.PyLoop lib.PyLoopTools gen.Gen_Skel_Cyclestat gen.Gen_Skel_Cyclestatsupport.
Import ListNotations.
Open Scope string_scope.

(* ---- the value universe: what a `VSig` is in these programs ------------------------------------- *)
(* an element of a float result array: the zero np.zeros put there, nan, or a value of type B *)
Inductive cell (B : Type) := CZero | CNan | CVal (b : B).
Arguments CZero {B}. Arguments CNan {B}. Arguments CVal {B}.

Inductive sval (B : Type) :=
| YVec (l : list Z)                          (* a 1-D ndarray of exact numbers: cycle_vect, values, phase, edges *)
| YInt (z : Z)                               (* a numpy integer scalar (np.max(cycle_vect) may be -1) *)
| YMask (m : list bool)                      (* a boolean ndarray *)
| YIdx (l : list nat)                        (* an index array (np.where(..)[0], np.digitize(..)) *)
| YArr (l : list (cell B))                   (* a float result ndarray *)
| YVal (b : B)                               (* what func returned *)
| YObj (cv : list Z) (ph : option (list Z))  (* an IterateCycles object: its cycle_vect and phase *)
| YSlc (a b : nat).                          (* slice(a, b) *)
Arguments YVec {B}. Arguments YInt {B}. Arguments YMask {B}. Arguments YIdx {B}. Arguments YArr {B}.
Arguments YVal {B}. Arguments YObj {B}. Arguments YSlc {B}.

(* how an outcome of a primitive shows as the outcome of a function that returns it *)
Definition res_outcome {V : Type} (r : res (val V)) : outcome V :=
  match r with Ok v => Return v | Exc x => Raise x | Bad => Stuck end.

Definition set_nth {A : Type} (i : nat) (v : A) (l : list A) : list A := (firstn i l ++ v :: skipn (S i) l)%list.

(* np.max of an integer vector: ValueError on the empty vector *)
Definition np_max (l : list Z) : option Z := match l with [] => None | a :: t => Some (zmax_list a t) end.

(* every index is inside an array of length n (numpy raises IndexError otherwise) *)
Definition in_range (n : nat) (inds : list nat) : bool := forallb (fun k => (k <? n)%nat) inds.

(* mode / out / variance_metric arguments: enums, so that no symbolic string is ever compared *)
Inductive cs_mode := CMcycle | CMaug | CMother.
Definition mode_str (m : cs_mode) : string :=
  match m with CMcycle => "cycle" | CMaug => "augmented" | CMother => "compressed" end.
Inductive cs_out := ONone | OSamples | OOther.
Definition out_val {V : Type} (o : cs_out) : val V :=
  match o with ONone => VNone | OSamples => VStr "samples" | OOther => VStr "cycles" end.

(* elementwise masks of make_slice_cache *)
Definition gt_mask (l : list Z) (k : Z) : list bool := map (fun c => (k <? c)%Z) l.
Definition ne_mask (a b : list Z) : list bool := map (fun xy => negb (fst xy =? snd xy)%Z) (combine a b).
Definition and_mask (a b : list bool) : list bool := map (fun xy => andb (fst xy) (snd xy)) (combine a b).
(* np.r_[-1, cv[:-1]] and np.r_[cv[1:], -1] *)
Definition shift_right (cv : list Z) : list Z := (-1)%Z :: removelast cv.
Definition shift_left (cv : list Z) : list Z := (tl cv ++ [(-1)%Z])%list.

(* ================================================================================================= *)
(* 1. per-cycle statistics: get_cycle_stat_from_samples, get_augmented_cycle_stat_from_samples,        *)
(*    get_cycle_stat                                                                                   *)
(* ================================================================================================= *)
Section StatPrims.
  Variable B : Type.
  Variable f : list Z -> B.                   (* func, applied to ONE vector of selected samples *)
  Variable fn : list (list Z) -> B.           (* func, applied to the selections of a TUPLE of value vectors *)
  Variable trough : Z.                        (* the threshold 1.5*pi of map_cycle_to_samples_augmented *)
  Local Notation V := (sval B).
  Local Notation val := (val V).

  Definition yvec (l : list Z) : val := VSig (YVec l).
  Definition yarr (l : list (cell B)) : val := VSig (YArr l).
  Definition func_tag : val := VOpaque "func" [].

  (* what may be stored into out: a value func returned, or np.nan *)
  Definition cell_of (v : val) : option (cell B) :=
    match v with
    | VSig (YVal b) => Some (CVal b)
    | VOpaque t [] => if String.eqb t "nan" then Some CNan else None
    | _ => None
    end.

  (* a tuple of value vectors *)
  Fixpoint vecs_of (l : list val) : option (list (list Z)) :=
    match l with
    | [] => Some []
    | VSig (YVec x) :: t => match vecs_of t with Some r => Some (x :: r) | None => None end
    | _ => None
    end.

  (* ---- the results of the tied functions, as their callers see them (callee rows) ----------------- *)
  (* get_cycle_stat_from_samples(vals, cycle_vect, func): ValueError for an empty cycle_vect (np.max) or a
     maximum below -1 (np.zeros of a negative size); not modelled (Bad) when vals is shorter than cycle_vect
     (IndexError in some cycle or other); otherwise the model, model/CycleStat.v cycle_stat *)
  Definition cells_of (l : list B) : list (cell B) := map CVal l.
  Definition ocell (o : option B) : cell B := match o with Some b => CVal b | None => CNan end.
  Definition call_cycle_stat (vals cv : list Z) : res val :=
    match np_max cv with
    | None => Exc "ValueError"
    | Some m => if (m + 1 <? 0)%Z then Exc "ValueError"
                else if (length cv <=? length vals)%nat then Ok (yarr (cells_of (cycle_stat f cv vals)))
                else Bad
    end.
  (* get_augmented_cycle_stat_from_samples: model/CyclesObj.v aug_label_stat for any result type B
     (aug_stat_is_aug_label_stat: the same term when B = Z); None = nan *)
  Definition aug_stat (cv ph vals : list Z) : list (option B) :=
    map (fun k => option_map (fun inds => f (take_inds vals inds))
                             (map_cycle_to_samples_aug trough cv ph (Z.of_nat k)))
        (seq 0 (ncycles cv)).
  Definition call_aug_stat (vals cv ph : list Z) : res val :=
    match np_max cv with
    | None => Exc "ValueError"
    | Some m => if (m + 1 <? 0)%Z then Exc "ValueError"
                else if (length cv <=? length vals)%nat then Ok (yarr (map ocell (aug_stat cv ph vals)))
                else Bad
    end.
  (* a projection: the cell of the sample's cycle, nan for a sample outside every cycle *)
  Definition flat (o : option (cell B)) : cell B := match o with Some c => c | None => CNan end.
  Definition call_project (cells : list (cell B)) (cv : list Z) : res val :=
    Ok (yarr (map flat (project_by cv cells))).

  (* a slice cache as a Python list: slice objects, None for a cycle that cannot be augmented *)
  Definition slc_val (o : option (nat * nat)) : val :=
    match o with Some (a, b) => VSig (YSlc a b) | None => VNone end.
  Fixpoint slcs_of (l : list val) : option (list (option (nat * nat))) :=
    match l with
    | [] => Some []
    | VSig (YSlc a b) :: t => match slcs_of t with Some r => Some (Some (a, b) :: r) | None => None end
    | VNone :: t => match slcs_of t with Some r => Some (None :: r) | None => None end
    | _ => None
    end.
  Fixpoint cells_of_vals (l : list val) : option (list (cell B)) :=
    match l with
    | [] => Some []
    | v :: t => match cell_of v, cells_of_vals t with Some c, Some r => Some (c :: r) | _, _ => None end
    end.
  (* func(vals[s]) if s is not None else np.nan - a Python slice clamps, as CycleVec.slice does *)
  Definition slice_stat_val (vals : list Z) (o : option (nat * nat)) : val :=
    match o with Some (a, b) => VSig (YVal (f (slice vals a b))) | None => VOpaque "nan" [] end.

  (* ---- THE TABLE ------------------------------------------------------------------------------- *)
  Definition stat_table : list (string * handler V) :=
    [ ("np.max", fun args kw => match args, kw with
                                | [VSig (YVec l)], [] =>
                                    match np_max l with Some m => Ok (VSig (YInt m)) | None => Exc "ValueError" end
                                | _, _ => Bad
                                end);
      (* np.max(cycle_vect) + 1 *)
      ("+", fun args kw => match args, kw with
                           | [VSig (YInt z); VNat n], [] => Ok (VSig (YInt (z + Z.of_nat n)))
                           (* np.where(..)[0] + 1 *)
                           | [VSig (YIdx l); VNat n], [] => Ok (VSig (YIdx (map (fun k => (k + n)%nat) l)))
                           | _, _ => Bad
                           end);
      (* np.zeros((ncycles,)) *)
      ("np.zeros", fun args kw => match args, kw with
                                  | [VList [VSig (YInt n)]], [] =>
                                      if (n <? 0)%Z then Exc "ValueError"
                                      else Ok (yarr (repeat CZero (Z.to_nat n)))
                                  | _, _ => Bad
                                  end);
      (* range(ncycles), ncycles a numpy integer *)
      ("range", fun args kw => match args, kw with
                               | [VSig (YInt n)], [] => Ok (range_val 0 (Z.to_nat n))
                               | _, _ => Bad
                               end);
      (* callee, tied in props/Prop_Tie_Maps.v (row_map_cycle_to_samples): np.where(cycle_vect == ii)[0] *)
      ("map_cycle_to_samples", fun args kw => match args, kw with
                                              | [VSig (YVec cv); VNat k], [] =>
                                                  Ok (VSig (YIdx (map_cycle_to_samples cv (Z.of_nat k))))
                                              | _, _ => Bad
                                              end);
      (* callee, not translated: model/CyclesObj.v map_cycle_to_samples_aug; None = Python None *)
      ("map_cycle_to_samples_augmented",
        fun args kw => match args, kw with
                       | [VSig (YVec cv); VNat k; VSig (YVec ph)], [] =>
                           match map_cycle_to_samples_aug trough cv ph (Z.of_nat k) with
                           | Some l => Ok (VSig (YIdx l))
                           | None => Ok VNone
                           end
                       | _, _ => Bad
                       end);
      (* isinstance(vals, tuple): an ndarray is not a tuple; a tuple of ndarrays is a VList of vectors *)
      ("tuple", fun args kw => match args, kw with [], [] => Ok (VOpaque "tuple" []) | _, _ => Bad end);
      ("isinstance", fun args kw => match args, kw with
                                    | [v; t], [] =>
                                        if is_opaque0 t "tuple" then
                                          match v with
                                          | VSig (YVec _) => Ok (VBool false)
                                          | VList l => match vecs_of l with Some _ => Ok (VBool true) | None => Bad end
                                          | _ => Bad
                                          end
                                        else Bad
                                    | _, _ => Bad
                                    end);
      (* vals[inds], inds an index array: the selected samples; IndexError when an index is out of range *)
      ("getitem", fun args kw => match args, kw with
                                 | [VSig (YVec vals); VSig (YIdx inds)], [] =>
                                     if in_range (length vals) inds then Ok (yvec (take_inds vals inds))
                                     else Exc "IndexError"
                                 | _, _ => Bad
                                 end);
      (* args = [v[inds] for v in vals], vals a tuple of vectors *)
      ("[v[inds] for v in vals]",
        fun args kw => match args, kw with
                       | [VSig (YIdx inds); VList l], [] =>
                           match vecs_of l with
                           | Some vs => if forallb (fun v => in_range (length v) inds) vs
                                        then Ok (VList (map (fun v => yvec (take_inds v inds)) vs))
                                        else Exc "IndexError"
                           | None => Bad
                           end
                       | _, _ => Bad
                       end);
      (* func(vals[inds]): THE oracle f, applied to the vector it is given and to nothing else.
         (a call of a parameter is emitted under the parameter's name, N6: this row IS the argument `func`) *)
      ("func", fun args kw => match args, kw with
                              | [VSig (YVec l)], [] => Ok (VSig (YVal (f l)))
                              | _, _ => Bad
                              end);
      (* func( *args ): the oracle fn on the list of selections *)
      ("func(*args)", fun args kw => match args, kw with
                                     | [fv; VList l], [] =>
                                         if is_opaque0 fv "func" then
                                           match vecs_of l with Some vs => Ok (VSig (YVal (fn vs))) | None => Bad end
                                         else Bad
                                     | _, _ => Bad
                                     end);
      ("np.nan", fun args kw => match args, kw with [], [] => Ok (VOpaque "nan" []) | _, _ => Bad end);
      (* N11 store out[ii] = v : the new value of out; IndexError when ii is out of range *)
      ("out[ii] =", fun args kw => match args, kw with
                                   | [VSig (YArr out); VNat i; v], [] =>
                                       match cell_of v with
                                       | Some c => if (i <? length out)%nat then Ok (yarr (set_nth i c out))
                                                   else Exc "IndexError"
                                       | None => Bad
                                       end
                                   | _, _ => Bad
                                   end);
      (* ---- get_slice_stat_from_samples (vals an ndarray): the whole comprehension is ONE primitive (N7) ---- *)
      ("[func(vals[s]) if s is not None else np.nan for s in slices]",
        fun args kw => match args, kw with
                       | [fv; VSig (YVec vals); VList sl], [] =>
                           if is_opaque0 fv "func" then
                             match slcs_of sl with
                             | Some asl => Ok (VList (map (slice_stat_val vals) asl))
                             | None => Bad
                             end
                           else Bad
                       | _, _ => Bad
                       end);
      ("np.array", fun args kw => match args, kw with
                                  | [VList l], [] => match cells_of_vals l with Some cs => Ok (yarr cs) | None => Bad end
                                  | _, _ => Bad
                                  end);
      (* ---- make_slice_cache ---- *)
      (* the first column of the vector seen as a column: the vector *)
      ("np.reshape(cycle_vect, (len(cycle_vect), -1))[:, 0]",
        fun args kw => match args, kw with [VSig (YVec cv)], [] => Ok (yvec cv) | _, _ => Bad end);
      ("-1", fun args kw => match args, kw with [], [] => Ok (VSig (YInt (-1))) | _, _ => Bad end);
      (* in_cycle = cv > -1 *)
      (">", fun args kw => match args, kw with
                           | [VSig (YVec l); VSig (YInt k)], [] => Ok (VSig (YMask (gt_mask l k)))
                           | _, _ => Bad
                           end);
      ("in_cycle & (cv != np.r_[-1, cv[:-1]])",
        fun args kw => match args, kw with
                       | [VSig (YMask m); VSig (YVec cv)], [] =>
                           if (length m =? length cv)%nat
                           then Ok (VSig (YMask (and_mask m (ne_mask cv (shift_right cv))))) else Bad
                       | _, _ => Bad
                       end);
      ("in_cycle & (cv != np.r_[cv[1:], -1])",
        fun args kw => match args, kw with
                       | [VSig (YMask m); VSig (YVec cv)], [] =>
                           if (length m =? length cv)%nat
                           then Ok (VSig (YMask (and_mask m (ne_mask cv (shift_left cv))))) else Bad
                       | _, _ => Bad
                       end);
      (* np.where(mask): a 1-tuple holding the positions of the True elements *)
      ("np.where", fun args kw => match args, kw with
                                  | [VSig (YMask m)], [] => Ok (VList [VSig (YIdx (positions (fun b => b) m))])
                                  | _, _ => Bad
                                  end);
      (* one slice per start; stops[ii] raises IndexError when there are fewer stops than starts *)
      ("[slice(starts[ii], stops[ii]) for ii in range(len(starts))]",
        fun args kw => match args, kw with
                       | [VSig (YIdx st); VSig (YIdx sp)], [] =>
                           if (length st <=? length sp)%nat
                           then Ok (VList (map (fun ab => slc_val (Some ab)) (combine st sp)))
                           else Exc "IndexError"
                       | _, _ => Bad
                       end);
      (* ---- get_cycle_stat ---- *)
      (* ensure_vector([values], ['values'], ..) : a 1-D array is returned as it is (tied in Prop_Tie_Support.v) *)
      ("ensure_vector", fun args kw => match args, kw with
                                       | [VList [VSig (YVec l)]; VList [VStr _]; VStr _], [] => Ok (yvec l)
                                       | _, _ => Bad
                                       end);
      (* _ensure_cycle_inputs: a cycle vector is wrapped into IterateCycles(cycle_vect=..) - its __init__ takes
         cycle_vect.max(), ValueError when empty -; an iterator object is returned as it is *)
      ("_ensure_cycle_inputs", fun args kw => match args, kw with
                                              | [VSig (YVec cv)], [] =>
                                                  match cv with [] => Exc "ValueError" | _ => Ok (VSig (YObj cv None)) end
                                              | [VSig (YObj cv ph)], [] => Ok (VSig (YObj cv ph))
                                              | _, _ => Bad
                                              end);
      (* cycles.mode = mode (N11: the new value of cycles; the attribute is not read by these programs) *)
      ("cycles.mode =", fun args kw => match args, kw with
                                       | [VSig (YObj cv ph); VStr _], [] => Ok (VSig (YObj cv ph))
                                       | _, _ => Bad
                                       end);
      ("cycles.nsamples", fun args kw => match args, kw with
                                         | [VSig (YObj cv _)], [] => Ok (VNat (length cv))
                                         | _, _ => Bad
                                         end);
      ("values.shape", fun args kw => match args, kw with
                                      | [VSig (YVec l)], [] => Ok (VList [VNat (length l)])
                                      | _, _ => Bad
                                      end);
      ("cycles.cycle_vect", fun args kw => match args, kw with
                                           | [VSig (YObj cv _)], [] => Ok (yvec cv)
                                           | _, _ => Bad
                                           end);
      ("cycles.phase", fun args kw => match args, kw with
                                      | [VSig (YObj _ ph)], [] => Ok (match ph with Some p => yvec p | None => VNone end)
                                      | _, _ => Bad
                                      end);
      (* out == 'samples' when out is None *)
      ("==", fun args kw => match args, kw with
                            | [VNone; VStr _], [] => Ok (VBool false)
                            | _, _ => Bad
                            end);
      (* callee rows: the functions tied below (skeleton_get_cycle_stat_from_samples shows that the translated
         callee computes exactly this row) *)
      ("_cycles_support.get_cycle_stat_from_samples",
        fun args kw => match args, kw with
                       | [VSig (YVec vals); VSig (YVec cv)], [(k, fv)] =>
                           if String.eqb k "func" && is_opaque0 fv "func" then call_cycle_stat vals cv else Bad
                       | _, _ => Bad
                       end);
      (* phase None (a bare cycle vector was given): phase[prev] raises TypeError in the callee *)
      ("_cycles_support.get_augmented_cycle_stat_from_samples",
        fun args kw => match args, kw with
                       | [VSig (YVec vals); VSig (YVec cv); ph], [(k, fv)] =>
                           if String.eqb k "func" && is_opaque0 fv "func" then
                             match ph with
                             | VSig (YVec p) => call_aug_stat vals cv p
                             | VNone => Exc "TypeError"
                             | _ => Bad
                             end
                           else Bad
                       | _, _ => Bad
                       end);
      (* callee row, tied in props/Prop_Tie_Maps.v (skeleton_project_cycles_to_samples_cells) *)
      ("_cycles_support.project_cycles_to_samples",
        fun args kw => match args, kw with
                       | [VSig (YArr cells); VSig (YVec cv)], [] => call_project cells cv
                       | _, _ => Bad
                       end) ].
  Definition stat_prims : prims V := prims_of stat_table.

  (* ---- initial environments: the parameters in def-line order -------------------------------------- *)
  Definition names_gcsfs : list string :=
    Eval cbv in assigned prog_get_cycle_stat_from_samples params_get_cycle_stat_from_samples.
  (* (vals, cycle_vect, func) *)
  Definition env0_gcsfs (vals : val) (cv : list Z) : env V :=
    frame params_get_cycle_stat_from_samples names_gcsfs [vals; yvec cv; func_tag].

  Definition names_gacsfs : list string :=
    Eval cbv in assigned prog_get_augmented_cycle_stat_from_samples params_get_augmented_cycle_stat_from_samples.
  (* (vals, cycle_vect, phase, func) *)
  Definition env0_gacsfs (vals : val) (cv ph : list Z) : env V :=
    frame params_get_augmented_cycle_stat_from_samples names_gacsfs [vals; yvec cv; yvec ph; func_tag].

  Definition names_gssfs : list string :=
    Eval cbv in assigned prog_get_slice_stat_from_samples params_get_slice_stat_from_samples.
  (* (vals, slices, func): slices a (possibly augmented) slice cache *)
  Definition env0_gssfs (vals : list Z) (asl : list (option (nat * nat))) : env V :=
    frame params_get_slice_stat_from_samples names_gssfs [yvec vals; VList (map slc_val asl); func_tag].

  Definition names_msc : list string := Eval cbv in assigned prog_make_slice_cache params_make_slice_cache.
  Definition env0_msc (cv : list Z) : env V := frame params_make_slice_cache names_msc [yvec cv].
  (* a slice cache of model/CyclesObj.v as the list make_slice_cache returns *)
  Definition slices_outcome (sl : list (nat * nat)) : outcome V :=
    Return (VList (map (fun ab => slc_val (Some ab)) sl)).

  Definition names_gcs : list string := Eval cbv in assigned prog_get_cycle_stat params_get_cycle_stat.
  (* (cycles, values, mode, out, func): cycles a cycle vector or an iterator object *)
  Definition env0_gcs (cycles : val) (values : list Z) (m : cs_mode) (o : cs_out) : env V :=
    frame params_get_cycle_stat names_gcs [cycles; yvec values; VStr (mode_str m); out_val o; func_tag].

  (* the `cycles` argument: a cycle vector or an iterator object (its cycle_vect and phase) *)
  Definition cycles_in (v : val) : option (list Z * option (list Z)) :=
    match v with
    | VSig (YVec cv) => Some (cv, None)
    | VSig (YObj cv ph) => Some (cv, ph)
    | _ => None
    end.

  (* ---- rendering of model results ------------------------------------------------------------------ *)
  (* the per-cycle values of model/CycleStat.v cycle_stat *)
  Definition stat_outcome (l : list B) : outcome V := Return (yarr (cells_of l)).
  (* per-cycle or per-sample values with nan = None (aug_label_stat, cycle_stat_samples) *)
  Definition ostat_outcome (l : list (option B)) : outcome V := Return (yarr (map ocell l)).
  (* get_slice_stat_from_samples over a (possibly augmented) slice cache, for any result type B:
     model/CyclesObj.v aug_slice_stat (and slice_stat on map Some) when B = Z *)
  Definition opt_slice_stat (asl : list (option (nat * nat))) (vals : list Z) : list (option B) :=
    map (option_map (fun ab => f (slice vals (fst ab) (snd ab)))) asl.
  (* the tuple variant of the model: func receives the selection of every vector of the tuple *)
  Definition cycle_stat_tuple (cv : list Z) (vs : list (list Z)) : list B :=
    map (fun k => fn (map (fun v => select_cycle cv v (Z.of_nat k)) vs)) (seq 0 (ncycles cv)).
End StatPrims.
Arguments yvec {B}. Arguments yarr {B}. Arguments func_tag {B}.

(* ================================================================================================= *)
(* 2. bin_by_phase (weights=None)                                                                      *)
(* ================================================================================================= *)
Inductive vmetric := VMvar | VMstd | VMsem | VMother.
Definition vm_str (m : vmetric) : string :=
  match m with VMvar => "variance" | VMstd => "std" | VMsem => "sem" | VMother => "none" end.

(* what the two result arrays of bin_by_phase hold: the mean of a bin as (sum, count) - model/CycleStat.v
   bin_mean -, and the variance metric of bin number k (1-based, as in the loop), which is not modelled *)
Inductive binres := RMean (s n : Z) | RVar (m : vmetric) (k : nat).

(* x[mask]: the elements of x where the mask is True *)
Definition mask_select {A : Type} (m : list bool) (x : list A) : list A := map snd (filter fst (combine m x)).
(* bin_inds == ii *)
Definition eq_mask (l : list nat) (k : nat) : list bool := map (fun d => Nat.eqb d k) l.
(* np.digitize(ip, edges) *)
Definition digitize_all (ip edges : list Z) : list nat := map (fun p => digitize p edges) ip.
(* np.digitize accepts monotonic bins only; the model's digitize is np.digitize for INCREASING edges *)
Fixpoint zincreasing (l : list Z) : bool :=
  match l with
  | a :: (b :: _) as t => (a <? b)%Z && zincreasing t
  | _ => true
  end.

Section BinPrims.
  Variable hist_edges : nat -> list Z.        (* the edges spectra.define_hist_bins(0, 2*pi, nbins) returns *)
  Local Notation V := (sval binres).
  Local Notation val := (val V).

  (* np.average(x[inds, ...], axis=0): nan for an empty selection, else the mean as (sum, count) *)
  Definition average_of (sel : list Z) : val :=
    match sel with
    | [] => VOpaque "nan" []
    | _ => VSig (YVal (RMean (zsum sel) (Z.of_nat (length sel))))
    end.
  Definition mean_cell_of (v : val) : option (cell binres) :=
    match v with
    | VSig (YVal b) => Some (CVal b)
    | VOpaque t [] => if String.eqb t "nan" then Some CNan else None
    | _ => None
    end.
  (* the variance metric values are opaque, tagged with the bin they were computed for *)
  Definition var_cell_of (v : val) : option (cell binres) :=
    match v with
    | VOpaque t [VNat k] =>
        if String.eqb t "variance" then Some (CVal (RVar VMvar k))
        else if String.eqb t "std" then Some (CVal (RVar VMstd k))
        else if String.eqb t "sem" then Some (CVal (RVar VMsem k))
        else None
    | _ => None
    end.
  (* a[ii - 1, ...] = c with ii >= 1 (ii = 0 would address the LAST row: not modelled, not reachable) *)
  Definition store_row (a : list (cell binres)) (ii : nat) (c : option (cell binres)) : res val :=
    match ii, c with
    | S j, Some c => if (j <? length a)%nat then Ok (yarr (set_nth j c a)) else Exc "IndexError"
    | _, _ => Bad
    end.

  Definition bin_table : list (string * handler V) :=
    [ ("ensure_vector", fun args kw => match args, kw with
                                       | [VList [VSig (YVec l)]; VList [VStr _]; VStr _], [] => Ok (yvec l)
                                       | _, _ => Bad
                                       end);
      (* ensure_equal_dims((ip, x), .., dim=0): ValueError when the lengths differ (Prop_Tie_Support.v) *)
      ("ensure_equal_dims", fun args kw => match args, kw with
                                           | [VList [VSig (YVec a); VSig (YVec b)]; VList [VStr _; VStr _]; VStr _],
                                             [(k, VNat 0)] =>
                                               if String.eqb k "dim" then
                                                 if (length a =? length b)%nat then Ok VNone else Exc "ValueError"
                                               else Bad
                                           | _, _ => Bad
                                           end);
      ("len", fun args kw => match args, kw with [VSig (YVec l)], [] => Ok (VNat (length l)) | _, _ => Bad end);
      (* the bin centres are not modelled: opaque, with their provenance *)
      ("bin_edges[:-1]", fun args kw => match args, kw with
                                        | [VSig (YVec l)], [] => Ok (VOpaque "edges[:-1]" [yvec l])
                                        | _, _ => Bad
                                        end);
      ("np.diff(bin_edges) / 2", fun args kw => match args, kw with
                                                | [VSig (YVec l)], [] => Ok (VOpaque "halfwidths" [yvec l])
                                                | _, _ => Bad
                                                end);
      ("+", fun args kw => match args, kw with
                           | [VOpaque a [e]; VOpaque b [_]], [] =>
                               if String.eqb a "edges[:-1]" && String.eqb b "halfwidths"
                               then Ok (VOpaque "centres" [e]) else Bad
                           | _, _ => Bad
                           end);
      ("np.pi", fun args kw => match args, kw with [], [] => Ok (VOpaque "pi" []) | _, _ => Bad end);
      ("np.nan", fun args kw => match args, kw with [], [] => Ok (VOpaque "nan" []) | _, _ => Bad end);
      (* 2 * np.pi ; np.zeros(out_dims) * np.nan = nbins nan cells *)
      ("*", fun args kw => match args, kw with
                           | [VNat 2; p], [] => if is_opaque0 p "pi" then Ok (VOpaque "2pi" []) else Bad
                           | [VOpaque t [VNat n]; p], [] =>
                               if String.eqb t "zeros" && is_opaque0 p "nan" then Ok (yarr (repeat CNan n)) else Bad
                           | _, _ => Bad
                           end);
      ("spectra.define_hist_bins",
        fun args kw => match args, kw with
                       | [VNat 0; p; VNat nb], [] =>
                           if is_opaque0 p "2pi" then Ok (VList [yvec (hist_edges nb); VOpaque "hist_centres" [VNat nb]])
                           else Bad
                       | _, _ => Bad
                       end);
      (* np.digitize(ip, bin_edges), increasing edges (anything else: not modelled) *)
      ("np.digitize", fun args kw => match args, kw with
                                     | [VSig (YVec ip); VSig (YVec edges)], [] =>
                                         if zincreasing edges then Ok (VSig (YIdx (digitize_all ip edges))) else Bad
                                     | _, _ => Bad
                                     end);
      (* out_dims = list((nbins, *x.shape[1:])), x a vector *)
      ("(nbins, *x.shape[1:])", fun args kw => match args, kw with
                                               | [VNat n; VSig (YVec _)], [] => Ok (VList [VNat n])
                                               | _, _ => Bad
                                               end);
      ("list", fun args kw => match args, kw with [VList l], [] => Ok (VList l) | _, _ => Bad end);
      ("np.zeros", fun args kw => match args, kw with
                                  | [VList [VNat n]], [] => Ok (VOpaque "zeros" [VNat n])
                                  | _, _ => Bad
                                  end);
      ("range", range_handler);
      (* inds = bin_inds == ii *)
      ("==", fun args kw => match args, kw with
                            | [VSig (YIdx l); VNat k], [] => Ok (VSig (YMask (eq_mask l k)))
                            | _, _ => Bad
                            end);
      (* x[inds, ...] with a boolean mask: IndexError unless the mask has the length of x *)
      ("x[inds, ...]", fun args kw => match args, kw with
                                      | [VSig (YVec x); VSig (YMask m)], [] =>
                                          if (length m =? length x)%nat then Ok (yvec (mask_select m x))
                                          else Exc "IndexError"
                                      | _, _ => Bad
                                      end);
      (* np.average(.., axis=0): of the selected values (the mean), of the squared deviations (opaque) *)
      ("np.average", fun args kw => match args, kw with
                                    | [VSig (YVec sel)], [(k, VNat 0)] =>
                                        if String.eqb k "axis" then Ok (average_of sel) else Bad
                                    | [VOpaque t [VNat ii]], [(k, VNat 0)] =>
                                        if String.eqb k "axis" && String.eqb t "sqdev"
                                        then Ok (VOpaque "variance" [VNat ii]) else Bad
                                    | _, _ => Bad
                                    end);
      ("(x[inds, ...] - np.repeat(avg[None, ii - 1, ...], np.sum(inds), axis=0)) ** 2",
        fun args kw => match args, kw with
                       | [VSig (YVec _); VSig (YMask _); VSig (YArr _); VNat ii], [] => Ok (VOpaque "sqdev" [VNat ii])
                       | _, _ => Bad
                       end);
      ("np.sqrt", fun args kw => match args, kw with
                                 | [VOpaque t [VNat ii]], [] =>
                                     if String.eqb t "variance" then Ok (VOpaque "std" [VNat ii]) else Bad
                                 | _, _ => Bad
                                 end);
      ("np.sqrt(v) / np.repeat(np.sqrt(inds.sum()[None, ...]), x.shape[0], axis=0)",
        fun args kw => match args, kw with
                       | [VOpaque t [VNat ii]; VSig (YMask _); VSig (YVec _)], [] =>
                           if String.eqb t "variance" then Ok (VOpaque "sem" [VNat ii]) else Bad
                       | _, _ => Bad
                       end);
      (* N11 stores: the new value of the array *)
      ("avg[ii - 1, ...] =", fun args kw => match args, kw with
                                            | [VSig (YArr a); VNat ii; v], [] => store_row a ii (mean_cell_of v)
                                            | _, _ => Bad
                                            end);
      ("var[ii - 1, ...] =", fun args kw => match args, kw with
                                            | [VSig (YArr a); VNat ii; v], [] => store_row a ii (var_cell_of v)
                                            | _, _ => Bad
                                            end) ].
  Definition bin_prims : prims V := prims_of bin_table.

  Definition names_bin : list string := Eval cbv in assigned prog_bin_by_phase params_bin_by_phase.
  (* (ip, x, nbins, weights=None, variance_metric, bin_edges): bin_edges a vector or None *)
  Definition env0_bin (ip x : list Z) (nbins : nat) (vm : vmetric) (bin_edges : val) : env V :=
    frame params_bin_by_phase names_bin [yvec ip; yvec x; VNat nbins; VNone; VStr (vm_str vm); bin_edges].

  (* ---- rendering: (avg, var, bin_centres) ------------------------------------------------------------ *)
  Definition mean_cell (o : option (Z * Z)) : cell binres :=
    match o with None => CNan | Some (s, n) => CVal (RMean s n) end.
  (* row b (0-based) of var: the metric of bin b+1; untouched (nan) for an unknown variance_metric *)
  Definition var_cell (vm : vmetric) (b : nat) : cell binres :=
    match vm with VMother => CNan | _ => CVal (RVar vm (S b)) end.
  Definition bin_outcome (means : list (option (Z * Z))) (vm : vmetric) (centres : val) : outcome V :=
    Return (VList [yarr (map mean_cell means); yarr (map (var_cell vm) (seq 0 (length means))); centres]).
End BinPrims.
