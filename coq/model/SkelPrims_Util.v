(* Control-skeleton tie `Util` (notes/TIE_UTIL.md): the small functions of emd/spectra.py and emd/utils.py that no
   other tie covers.
     emd/spectra.py  phase_angle, direct_quadrature, phase_from_control_points, frequency_stats   (gen/Gen_Skel_Util.v)
     emd/utils.py    est_orthogonality, apply_epochs, find_extrema_locked_epochs                   (gen/Gen_Skel_Utilutils.v)
   THE REVIEWABLE PART: the universe of numpy values, the list-level models (style of model/Freq.v: canonical
   rationals, exact arithmetic, oracles for arctan / sqrt / scipy's interp1d / the extrema detector / np.percentile),
   ONE table that gives every primitive name the translator emitted its meaning, the initial environments and the
   renderings. Definitions only; proofs in proofs/SkelFacts_Util.v, statements in props/Prop_Tie_Util.v.

   Conventions (as in SkelPrims_Freq.v). A 2-D array (samples x columns) is the list of its COLUMNS, except the
   control-point table `ctrl` ([ncycles x 5]) and the orthogonality matrix, which are lists of ROWS, and `trls`
   ([ntrials x 2]) which is the list of its (start, stop) rows. A float that may be NaN is an [option Qc]
   (None = NaN); a float that may also be infinite is an [xq]. Division is numpy's: x/0 = +-inf, 0/0 = nan
   (no signed zero). np.pi is tau / 2.
   Every handler body is written with the NAMED list functions of this file (the evaluator of the proofs never
   unfolds them), so the statement "the program computes the model" is literal.
   Not modelled: logging, warnings (side effects), dtype (complex results of np.lib.scimath.sqrt for |x| > 1 are
   OUTSIDE the table: [in_domain]), shape-mismatch errors between operands that the code derives from one another,
   arrays without columns (the list of columns forgets the sample count), negative slice bounds, aliasing. *)
From Coq Require Import String List Bool Arith ZArith QArith Qcanon Qround.
From EmdV Require Import lib.NpLite lib.PyLoop lib.PyLoopTools model.Freq gen.Gen_Skel_Util gen.Gen_Skel_Utilutils.
Import ListNotations.
Close Scope Q_scope.
Close Scope Z_scope.
Open Scope nat_scope.
Open Scope string_scope.

(* ---- floats ------------------------------------------------------------------------------------------ *)
Inductive xq := XF (q : Qc) | XPInf | XNInf | XNan.

(* numpy's float division of two finite numbers *)
Definition qdivx (a b : Qc) : xq :=
  if Qc_eq_bool b 0 then (if Qc_eq_bool a 0 then XNan else if qltb 0 a then XPInf else XNInf)
  else XF (a / b)%Qc.
(* ... of two floats that may be NaN *)
Definition odivx (a b : option Qc) : xq := match a, b with Some x, Some y => qdivx x y | _, _ => XNan end.
Definition is_none {A} (o : option A) : bool := match o with None => true | Some _ => false end.
Definition oadd (a b : option Qc) : option Qc := match a, b with Some x, Some y => Some (x + y)%Qc | _, _ => None end.
Definition ohalf (a : option Qc) : option Qc := option_map (fun v => (v / q2)%Qc) a.

(* ---- list helpers (own names: the evaluator unfolds nth_error / fst / snd) ---------------------------- *)
Definition map2 {A B} (f : A -> B) : list (list A) -> list (list B) := map (map f).
Definition zip2 {A B C} (f : A -> B -> C) : list (list A) -> list (list B) -> list (list C) := zipw (zipw f).
Definition forall2b {A} (p : A -> bool) (a : list (list A)) : bool := forallb (forallb p) a.
Definition col_at {A} (l : list A) (i : nat) : option A := nth_error l i.
Definition set_nth {A} (i : nat) (v : A) (l : list A) : list A := (firstn i l ++ v :: skipn (S i) l)%list.
(* number of rows of a 2-D array given by its columns (0 when there is no column: see "Not modelled") *)
Definition nrows {A} (a : list (list A)) : nat := length (hd [] a).
Definition anyb (b : list bool) : bool := existsb (fun x => x) b.
(* a[m] for a boolean mask m *)
Fixpoint mask_sel {A} (m : list bool) (l : list A) : list A :=
  match m, l with
  | b :: mt, x :: lt => if b then x :: mask_sel mt lt else mask_sel mt lt
  | _, _ => []
  end.
(* a[m == False] *)
Definition drop_true {A} (m : list bool) (l : list A) : list A := mask_sel (map negb m) l.

Definition res_outcome {V} (r : res (val V)) : outcome V :=
  match r with Ok v => Return v | Exc x => Raise x | Bad => Stuck end.
Definition res_map {A B} (f : A -> B) (r : res A) : res B :=
  match r with Ok a => Ok (f a) | Exc x => Exc x | Bad => Bad end.

(* ---- the numpy values ---------------------------------------------------------------------------------- *)
Inductive uv :=
| UArr (a : list (list (option Qc)))        (* 2-D float array (columns), entries may be NaN *)
| UX (a : list (list xq))                   (* 2-D float array (columns), entries may be infinite: fm / sqrt(..) *)
| UB (b : list (list bool))                 (* 2-D bool array (columns) *)
| UIdx (l : list (nat * nat))               (* np.argwhere of a 2-D array: (row, column) pairs *)
| UCtrl (rows : list (list (option Qc)))    (* the control-point table, list of ROWS *)
| UVec (v : list (option Qc))               (* 1-D float array, entries may be NaN: one row of ctrl *)
| UQvec (v : list Qc)                       (* 1-D finite float array *)
| UNvec (v : list nat)                      (* 1-D non-negative int array: cycle vector, extrema locations *)
| UBvec (b : list bool)                     (* 1-D bool array *)
| UZvec (z : list Z)                        (* 1-D int array *)
| UScal (q : Qc)                            (* finite float scalar *)
| UXScal (x : xq)                           (* float scalar *)
| UMat (rows : list (list xq))              (* the orthogonality matrix, list of ROWS *)
| UCols (a : list (list Qc))                (* 2-D finite float array (columns): imf, X *)
| UCol (c : list Qc)                        (* one column / a 1-D time series *)
| UTrl (t : list (nat * nat))               (* trls [ntrials x 2], non-negative: (start, stop) rows *)
| UTrlZ (t : list (Z * Z))                  (* trls as find_extrema_locked_epochs builds it: starts may be negative *)
| UEp (L nc : nat) (eps : list (list (list Qc))).   (* Y [L x nc x ntrials]: per trial, the nc columns of length L *)

(* ================================================================================================== *)
(* models                                                                                             *)
(* ================================================================================================== *)

(* ---- np.argwhere, row gathers, row stores (direct_quadrature) ----------------------------------- *)
Definition isnan2 (a : list (list (option Qc))) : list (list bool) := map2 is_none a.
Definition isnan1 (r : list (option Qc)) : list bool := map is_none r.
(* (row, column) of the True entries, in row-major order *)
Definition argwhere (b : list (list bool)) : list (nat * nat) :=
  flat_map (fun r => flat_map (fun c => if nth r (nth c b []) false then [(r, c)] else []) (seq 0 (length b)))
           (seq 0 (nrows b)).
(* inds[:, 0] *)
Definition idx_rows (inds : list (nat * nat)) : list nat := map fst inds.
(* python's a[r - 1], a[r + 1], a[r] on an axis of length n, r >= 0: -1 is the LAST row; None = IndexError *)
Definition prev_idx (n r : nat) : option nat :=
  match r with
  | O => if Nat.eqb n 0 then None else Some (n - 1)
  | S r' => if Nat.ltb r' n then Some r' else None
  end.
Definition next_idx (n r : nat) : option nat := if Nat.ltb (S r) n then Some (S r) else None.
Definition same_idx (n r : nat) : option nat := if Nat.ltb r n then Some r else None.
(* ph[<index array>, :] : the listed rows of every column *)
Definition gather_rows (idx : nat -> nat -> option nat) (ph : list (list (option Qc))) (inds : list (nat * nat))
  : option (list (list (option Qc))) :=
  match all_some (map (idx (nrows ph)) (idx_rows inds)) with
  | Some rs => Some (map (fun c => map (fun r => nth r c None) rs) ph)
  | None => None
  end.
(* c[rs] = vs, one store after the other (repeated indices: the last one wins) *)
Fixpoint assign_col (rs : list nat) (vs c : list (option Qc)) : list (option Qc) :=
  match rs, vs with
  | r :: rt, v :: vt => assign_col rt vt (set_nth r v c)
  | _, _ => c
  end.
(* ph[inds[:, 0]] = vals : WHOLE ROWS are stored, in every column *)
Definition assign_rows (ph : list (list (option Qc))) (inds : list (nat * nat)) (vals : list (list (option Qc)))
  : option (list (list (option Qc))) :=
  match all_some (map (same_idx (nrows ph)) (idx_rows inds)) with
  | Some rs => Some (zipw (assign_col rs) vals ph)
  | None => None
  end.

(* ---- masks (phase_from_control_points) ------------------------------------------------------------ *)
Definition mask_count (c : list nat) (jj : nat) : nat := length (filter (Nat.eqb jj) c).
(* ip[c == jj] = ph, ph consumed in order *)
Fixpoint mask_put (ip : list Qc) (c : list nat) (jj : nat) (ph : list Qc) : list Qc :=
  match ip, c with
  | x :: it, k :: ct =>
      if Nat.eqb k jj then match ph with
                      | v :: pt => v :: mask_put it ct jj pt
                      | [] => x :: mask_put it ct jj []
                      end
      else x :: mask_put it ct jj ph
  | _, _ => ip
  end.
(* numpy: the value must have as many entries as the mask has True (or exactly one: broadcast); None = ValueError *)
Definition mask_assign (ip : list Qc) (c : list nat) (jj : nat) (ph : list Qc) : option (list Qc) :=
  let k := mask_count c jj in
  if Nat.eqb (length ph) k then Some (mask_put ip c jj ph)
  else if Nat.eqb (length ph) 1 then Some (mask_put ip c jj (repeat (hd 0%Qc ph) k))
  else None.
Definition has_nan (r : list (option Qc)) : bool := existsb is_none r.
Definition strip (r : list (option Qc)) : list Qc := map (fun o => match o with Some q => q | None => 0%Qc end) r.
Definition len5 {A} (r : list A) : bool := Nat.eqb (length r) 5.
Definition qceil (x : Qc) : Z := Qceiling x.
(* np.arange(0, stop) for a float stop *)
Definition arange_to (stop : Qc) : list Qc := map qn (seq 0 (Z.to_nat (qceil stop))).
(* row[-1] of a float row: IndexError when empty; np.arange(0, nan + 1) is a ValueError *)
Definition row_last (row : list (option Qc)) : res Qc :=
  match rev row with
  | [] => Exc "IndexError"
  | None :: _ => Exc "ValueError"
  | Some l :: _ => Ok l
  end.

(* ---- epochs (apply_epochs) ---------------------------------------------------------------------------- *)
(* c[s:e] for 0 <= s, e (python clamps to the length) *)
Definition slice (s e : nat) (c : list Qc) : list Qc := firstn (e - s) (skipn s c).
Definition slice_tr (tr : nat * nat) (c : list Qc) : list Qc := slice (fst tr) (snd tr) c.
(* storing a column of some length into a column of length L: equal lengths, or numpy BROADCASTS a single row;
   None = ValueError (could not broadcast) *)
Definition fit_col (L : nat) (c : list Qc) : option (list Qc) :=
  if Nat.eqb (length c) L then Some c else if Nat.eqb (length c) 1 then Some (repeat (hd 0%Qc c) L) else None.
Definition fit_epoch (L : nat) (s : list (list Qc)) : option (list (list Qc)) := all_some (map (fit_col L) s).
Definition ae_epoch (L : nat) (X : list (list Qc)) (tr : nat * nat) : option (list (list Qc)) :=
  fit_epoch L (map (slice_tr tr) X).
Definition zero_epochs (L nc k : nat) : list (list (list Qc)) := repeat (repeat (repeat 0%Qc L) nc) k.
Definition trl_start (tr : nat * nat) : nat := fst tr.
Definition trl_stop (tr : nat * nat) : nat := snd tr.

(* ---- windows (find_extrema_locked_epochs) ------------------------------------------------------------- *)
Definition half (w : nat) : nat := w / 2.                                    (* int(winsize / 2) *)
Definition windows (ws : nat) (locs : list nat) : list (Z * Z) :=
  map (fun l => (Z.of_nat l - Z.of_nat ws, Z.of_nat l + Z.of_nat ws)%Z) locs.
Definition col0 (t : list (Z * Z)) : list Z := map fst t.
Definition col1 (t : list (Z * Z)) : list Z := map snd t.
Definition zlt_vec (z : list Z) (k : nat) : list bool := map (fun v => (v <? Z.of_nat k)%Z) z.
Definition zgt_vec (z : list Z) (k : nat) : list bool := map (fun v => (Z.of_nat k <? v)%Z) z.
Definition above (t : Qc) (p : list Qc) : list bool := map (qltb t) p.          (* p > t *)

Inductive lockmode := LPeaks | LTroughs | LCombined.
Definition lock_str (m : lockmode) : string :=
  match m with LPeaks => "peaks" | LTroughs => "troughs" | LCombined => "combined" end.
(* own name, never unfolded by the evaluator: used on arbitrary strings *)
Definition lock_known (s : string) : bool :=
  String.eqb s "peaks" || String.eqb s "troughs" || String.eqb s "combined".

(* the text frequency_stats passes to warnings.warn and to the logger *)
Definition deprecation_msg : string :=
  "WARNING: 'emd.spectra.frequency_stats' is deprecated and will be removed in a future version of EMD. Please change to use 'emd.spectra.frequency_transform' to remove this warning and future-proof your code".

(* ---- orthogonality matrix ------------------------------------------------------------------------- *)
Definition dot (a b : list Qc) : Qc := qsum (zipw Qcmult a b).
Definition colq (a : list (list Qc)) (i : nat) : list Qc := nth i a [].
Definition ones_mat (n m : nat) : list (list xq) := repeat (repeat (XF 1%Qc) m) n.
Definition nan_like (m : list (list xq)) : list (list xq) := map2 (fun _ => XNan) m.
(* m[i, j] = x ; None = IndexError *)
Definition mat_set (m : list (list xq)) (i j : nat) (x : xq) : option (list (list xq)) :=
  match col_at m i with
  | Some row => if Nat.ltb j (length row) then Some (set_nth i (set_nth j x row) m) else None
  | None => None
  end.

Section UtilPrims.
  Variable tau : Qc.                                              (* 2 pi *)
  Variable qsqrt : Qc -> Qc.                                      (* np.sqrt / np.lib.scimath.sqrt on x >= 0 *)
  Variable atan : Qc -> Qc.                                       (* np.arctan on a finite number *)
  (* scipy interp1d(xs, ys, kind='linear')(query): None = ValueError (a query point outside [xs[0], xs[-1]]) *)
  Variable interp_eval : list Qc -> list Qc -> list Qc -> option (list Qc).
  (* sift.get_padded_extrema(X, pad_width=0, mode='peaks' / 'troughs'): (locs, pks); None = it returns (None, None) *)
  Variable extrema : lockmode -> list Qc -> option (list nat * list Qc).
  Variable pctl : list Qc -> Qc -> Qc.                            (* np.percentile *)
  (* spectra.frequency_transform called with the positional / keyword arguments it is given *)
  Variable ft_call : val uv -> val uv -> res (val uv).

  Definition pi_ : Qc := (tau / q2)%Qc.

  (* ================= spectra.phase_angle: arctan(fm / sqrt(1 - fm^2)), entry by entry =================== *)
  Definition sq_opt (x : option Qc) : option Qc := option_map (fun v => (v * v)%Qc) x.
  Definition one_minus (x : option Qc) : option Qc := option_map (fun v => (1 - v)%Qc) x.
  Definition sqrt_opt (x : option Qc) : option Qc := option_map qsqrt x.
  Definition nonneg_opt (x : option Qc) : bool := match x with Some v => qleb 0 v | None => true end.
  (* arctan(+-inf) = +-pi/2 *)
  Definition xatan (x : xq) : option Qc :=
    match x with
    | XF q => Some (atan q)
    | XPInf => Some (tau / q4)%Qc
    | XNInf => Some (- (tau / q4))%Qc
    | XNan => None
    end.
  Definition pa_entry (x : option Qc) : option Qc := xatan (odivx x (sqrt_opt (one_minus (sq_opt x)))).
  Definition phase_angle_model (a : list (list (option Qc))) : list (list (option Qc)) := map2 pa_entry a.
  (* every entry is NaN or has 1 - x^2 >= 0: otherwise np.lib.scimath.sqrt switches to complex numbers *)
  Definition in_domain (a : list (list (option Qc))) : bool := forall2b (fun x => nonneg_opt (one_minus (sq_opt x))) a.
  Definition pa_spec (a : list (list (option Qc))) : res (val uv) :=
    if in_domain a then Ok (VSig (UArr (phase_angle_model a))) else Bad.

  (* ================= spectra.direct_quadrature ========================================================== *)
  (* the phase angle; then every ROW that holds a NaN in some column is replaced, in ALL columns, by the mean of
     the rows before and after it as they were before the repair (row -1 = the last row; a NaN in the last row
     is an IndexError) *)
  Definition dq_model (a : list (list (option Qc))) : res (list (list (option Qc))) :=
    let ph := phase_angle_model a in
    let inds := argwhere (isnan2 ph) in
    match gather_rows prev_idx ph inds with
    | None => Exc "IndexError"
    | Some p =>
        match gather_rows next_idx ph inds with
        | None => Exc "IndexError"
        | Some q =>
            match assign_rows ph inds (map2 ohalf (zip2 oadd p q)) with
            | None => Exc "IndexError"
            | Some r => Ok r
            end
        end
    end.
  Definition arr_val (a : list (list (option Qc))) : val uv := VSig (UArr a).

  (* ================= spectra.phase_from_control_points ================================================== *)
  (* phase_y, as the code computes it *)
  Definition phase_y : list Qc := [0; pi_ / qn 2; pi_; (qn 3 * pi_) / qn 2; qn 2 * pi_]%Qc.
  (* f(np.arange(0, row[-1] + 1)) for f = interp1d(xrow, y) *)
  Definition interp_call (xrow : list (option Qc)) (y : list Qc) (row : list (option Qc)) : res (list Qc) :=
    match row_last row with
    | Ok l => match interp_eval (strip xrow) y (arange_to (l + 1)%Qc) with Some ph => Ok ph | None => Exc "ValueError" end
    | Exc x => Exc x
    | Bad => Bad
    end.
  (* one cycle jj >= 1: skipped when its control points hold a NaN *)
  Definition pfcp_step (ctrl : list (list (option Qc))) (c : list nat) (ip : list Qc) (jj : nat) : res (list Qc) :=
    match jj with
    | O => Bad
    | S j =>
        match col_at ctrl j with
        | None => Exc "IndexError"
        | Some row =>
            if has_nan row then Ok ip
            else if len5 row then
                   match interp_call row phase_y row with
                   | Ok ph => match mask_assign ip c jj ph with Some ip' => Ok ip' | None => Exc "ValueError" end
                   | Exc x => Exc x
                   | Bad => Bad
                   end
                 else Exc "ValueError"
        end
    end.
  Fixpoint pfcp_fold (ctrl : list (list (option Qc))) (c : list nat) (ip : list Qc) (js : list nat) : res (list Qc) :=
    match js with
    | [] => Ok ip
    | j :: t => match pfcp_step ctrl c ip j with Ok ip' => pfcp_fold ctrl c ip' t | e => e end
    end.
  Definition zerosq (n : nat) : list Qc := repeat 0%Qc n.
  (* cycles.max() of an empty vector is a ValueError *)
  Definition pfcp_model (ctrl : list (list (option Qc))) (c : list nat) : res (list Qc) :=
    match c with
    | [] => Exc "ValueError"
    | _ => pfcp_fold ctrl c (zerosq (length c)) (seq 1 (list_max c))
    end.

  (* ================= utils.est_orthogonality =========================================================== *)
  Definition ortho_entry (a : list (list Qc)) (i j : nat) : xq :=
    qdivx (qabs (dot (colq a i) (colq a j)))
          (qsqrt (dot (colq a j) (colq a j)) * qsqrt (dot (colq a i) (colq a i)))%Qc.
  Definition est_orth_model (a : list (list Qc)) : list (list xq) :=
    map (fun i => map (ortho_entry a i) (seq 0 (length a))) (seq 0 (length a)).

  (* ================= utils.apply_epochs ================================================================= *)
  (* Y[:, :, k] = X[start_k : stop_k, :], all of the length of the FIRST trial *)
  Definition ae_model (X : list (list Qc)) (trls : list (nat * nat)) : res (val uv) :=
    match trls with
    | [] => Exc "IndexError"
    | tr0 :: _ =>
        let L := trl_stop tr0 - trl_start tr0 in
        match all_some (map (ae_epoch L X) trls) with
        | Some eps => Ok (VSig (UEp L (length X) eps))
        | None => Exc "ValueError"
        end
    end.

  (* ================= utils.find_extrema_locked_epochs =================================================== *)
  Definition fele_model (mode : lockmode) (x : list Qc) (w : nat) (pct : option Qc) : res (list (Z * Z)) :=
    match mode with
    | LCombined => Exc "ValueError"        (* get_padded_extrema does not know the mode 'combined' *)
    | _ =>
        match extrema mode x with
        | None => Exc "TypeError"          (* (None, None): None - int *)
        | Some (locs, pks) =>
            let locs' := match pct with
                         | Some p => mask_sel (above (pctl pks p) pks) locs
                         | None => locs
                         end in
            let t0 := windows (half w) locs' in
            let t1 := drop_true (zlt_vec (col0 t0) 0) t0 in
            Ok (drop_true (zgt_vec (col1 t1) (length x)) t1)
        end
    end.
  Definition gpe_val (o : option (list nat * list Qc)) : val uv :=
    match o with
    | Some (l, p) => VList [VSig (UNvec l); VSig (UQvec p)]
    | None => VList [VNone; VNone]
    end.
  Definition pct_val (p : option Qc) : val uv := match p with Some q => VSig (UScal q) | None => VNone end.

  (* ================= THE TABLE: primitive name as emitted -> meaning ==================================== *)
  Definition util_table : list (string * handler uv) :=
    [ (* ---- operators (dispatched by EArith / ECmp on non-integers) ---- *)
      ("-", fun args kw => match args, kw with
              | [VNat 1; VSig (UArr a)], [] => Ok (VSig (UArr (map2 one_minus a)))
              | _, _ => Bad end);
      ("+", fun args kw => match args, kw with
              | [VSig (UArr a); VSig (UArr b)], [] => Ok (VSig (UArr (zip2 oadd a b)))
              | [VStr a; VStr b], [] => Ok (VStr (a ++ b))
              | _, _ => Bad end);
      ("*", fun args kw => match args, kw with
              | [VNat k; VSig (UScal p)], [] => Ok (VSig (UScal (qn k * p)%Qc))
              | [VSig (UMat m); VSig (UXScal XNan)], [] => Ok (VSig (UMat (nan_like m)))
              | [VSig (UCol a); VSig (UCol b)], [] => Ok (VSig (UCol (zipw Qcmult a b)))
              | [VSig (UScal a); VSig (UScal b)], [] => Ok (VSig (UScal (a * b)%Qc))
              | _, _ => Bad end);
      ("/", fun args kw => match args, kw with
              | [VSig (UArr a); VSig (UArr b)], [] => Ok (VSig (UX (zip2 odivx a b)))
              | [VSig (UArr a); VNat 2], [] => Ok (VSig (UArr (map2 ohalf a)))
              | [VSig (UScal p); VNat k], [] => Ok (VSig (UScal (p / qn k)%Qc))
              | [VSig (UScal a); VSig (UScal b)], [] => Ok (VSig (UXScal (qdivx a b)))
              | [VNat w; VNat 2], [] => Ok (VOpaque "truediv" [VNat w; VNat 2])
              | _, _ => Bad end);
      ("<", fun args kw => match args, kw with
              | [VSig (UZvec z); VNat k], [] => Ok (VSig (UBvec (zlt_vec z k)))
              | _, _ => Bad end);
      (">", fun args kw => match args, kw with
              | [VSig (UZvec z); VNat k], [] => Ok (VSig (UBvec (zgt_vec z k)))
              | _, _ => Bad end);
      ("range", range_handler);
      (* ---- spectra.phase_angle ---- *)
      ("np.power", fun args kw => match args, kw with
              | [VSig (UArr a); VNat 2], [] => Ok (VSig (UArr (map2 sq_opt a)))
              | _, _ => Bad end);
      ("np.lib.scimath.sqrt", fun args kw => match args, kw with
              | [VSig (UArr a)], [] => if forall2b nonneg_opt a then Ok (VSig (UArr (map2 sqrt_opt a))) else Bad
              | _, _ => Bad end);
      ("np.arctan", fun args kw => match args, kw with
              | [VSig (UX a)], [] => Ok (VSig (UArr (map2 xatan a)))
              | _, _ => Bad end);
      (* ---- spectra.direct_quadrature ---- *)
      ("phase_angle", fun args kw => match args, kw with         (* tied callee: its specification *)
              | [VSig (UArr a)], [] => pa_spec a
              | _, _ => Bad end);
      ("np.isnan", fun args kw => match args, kw with
              | [VSig (UArr a)], [] => Ok (VSig (UB (isnan2 a)))
              | [VSig (UVec r)], [] => Ok (VSig (UBvec (isnan1 r)))
              | _, _ => Bad end);
      ("np.argwhere", fun args kw => match args, kw with
              | [VSig (UB b)], [] => Ok (VSig (UIdx (argwhere b)))
              | _, _ => Bad end);
      ("ph[inds[:, 0] - 1, :]", fun args kw => match args, kw with
              | [VSig (UArr ph); VSig (UIdx inds)], [] =>
                  match gather_rows prev_idx ph inds with Some r => Ok (VSig (UArr r)) | None => Exc "IndexError" end
              | _, _ => Bad end);
      ("ph[inds[:, 0] + 1, :]", fun args kw => match args, kw with
              | [VSig (UArr ph); VSig (UIdx inds)], [] =>
                  match gather_rows next_idx ph inds with Some r => Ok (VSig (UArr r)) | None => Exc "IndexError" end
              | _, _ => Bad end);
      ("ph[inds[:, 0]] =", fun args kw => match args, kw with
              | [VSig (UArr ph); VSig (UIdx inds); VSig (UArr vals)], [] =>
                  match assign_rows ph inds vals with Some r => Ok (VSig (UArr r)) | None => Exc "IndexError" end
              | _, _ => Bad end);
      (* ---- spectra.phase_from_control_points ---- *)
      ("ensure_vector", fun args kw => match args, kw with        (* a 1-D vector is returned as it is *)
              | [VList [VSig (UNvec c)]; VList [VStr _]; VStr _], [] => Ok (VSig (UNvec c))
              | _, _ => Bad end);
      ("float", fun args kw => match args, kw with [], [] => Ok (VOpaque "float" []) | _, _ => Bad end);
      ("np.zeros_like", fun args kw => match args, kw with
              | [VSig (UNvec c)], [(k, d)] =>
                  if String.eqb k "dtype" && is_opaque0 d "float" then Ok (VSig (UQvec (zerosq (length c)))) else Bad
              | _, _ => Bad end);
      ("np.pi", fun args kw => match args, kw with [], [] => Ok (VSig (UScal pi_)) | _, _ => Bad end);
      ("np.array", fun args kw => match args, kw with
              | [VList [VNat 0; VSig (UScal a); VSig (UScal b); VSig (UScal c); VSig (UScal d)]], [] =>
                  Ok (VSig (UQvec [0%Qc; a; b; c; d]))
              | _, _ => Bad end);
      ("cycles.max()", fun args kw => match args, kw with
              | [VSig (UNvec c)], [] => match c with [] => Exc "ValueError" | _ => Ok (VNat (list_max c)) end
              | _, _ => Bad end);
      ("ctrl[jj - 1, :]", fun args kw => match args, kw with
              | [VSig (UCtrl rows); VNat (S j)], [] =>
                  match col_at rows j with Some r => Ok (VSig (UVec r)) | None => Exc "IndexError" end
              | _, _ => Bad end);
      ("np.any", fun args kw => match args, kw with
              | [VSig (UBvec b)], [] => Ok (VBool (anyb b))
              | _, _ => Bad end);
      ("interp.interp1d", fun args kw => match args, kw with
              | [VSig (UVec r); VSig (UQvec y)], [(k, VStr kind)] =>
                  if String.eqb k "kind" && String.eqb kind "linear" then
                    if len5 r then Ok (VOpaque "interp1d" [VSig (UVec r); VSig (UQvec y)])
                    else Exc "ValueError"                        (* x and y must have the same length: y has 5 entries *)
                  else Bad
              | _, _ => Bad end);
      ("f(np.arange(0, ctrl[jj - 1, -1] + 1))", fun args kw => match args, kw with
              | [VOpaque t [VSig (UVec r); VSig (UQvec y)]; VSig (UCtrl rows); VNat (S j)], [] =>
                  if String.eqb t "interp1d" then
                    match col_at rows j with
                    | Some row => res_map (fun ph => VSig (UQvec ph)) (interp_call r y row)
                    | None => Exc "IndexError"
                    end
                  else Bad
              | _, _ => Bad end);
      ("ip[cycles == jj] =", fun args kw => match args, kw with
              | [VSig (UQvec ip); VSig (UNvec c); VNat jj; VSig (UQvec ph)], [] =>
                  match mask_assign ip c jj ph with Some r => Ok (VSig (UQvec r)) | None => Exc "ValueError" end
              | _, _ => Bad end);
      (* ---- spectra.frequency_stats ---- *)
      ("warnings.warn", fun args kw => match args, kw with
              | [VStr s], [] => if String.eqb s deprecation_msg then Ok VNone else Bad
              | _, _ => Bad end);
      ("frequency_transform(*args, **kwargs)", fun args kw => match args, kw with
              | [a; k], [] => ft_call a k
              | _, _ => Bad end);
      (* ---- utils.est_orthogonality ---- *)
      ("imf.shape", fun args kw => match args, kw with
              | [VSig (UCols a)], [] => Ok (VList [VOpaque "nsamples" []; VNat (length a)])
              | _, _ => Bad end);
      ("np.ones", fun args kw => match args, kw with
              | [VList [VNat n; VNat m]], [] => Ok (VSig (UMat (ones_mat n m)))
              | _, _ => Bad end);
      ("np.nan", fun args kw => match args, kw with [], [] => Ok (VSig (UXScal XNan)) | _, _ => Bad end);
      ("imf[:, ii]", fun args kw => match args, kw with
              | [VSig (UCols a); VNat i], [] =>
                  match col_at a i with Some c => Ok (VSig (UCol c)) | None => Exc "IndexError" end
              | _, _ => Bad end);
      ("imf[:, jj]", fun args kw => match args, kw with
              | [VSig (UCols a); VNat i], [] =>
                  match col_at a i with Some c => Ok (VSig (UCol c)) | None => Exc "IndexError" end
              | _, _ => Bad end);
      ("np.sum", fun args kw => match args, kw with
              | [VSig (UCol c)], [] => Ok (VSig (UScal (qsum c)))
              | _, _ => Bad end);
      ("np.abs", fun args kw => match args, kw with
              | [VSig (UScal s)], [] => Ok (VSig (UScal (qabs s)))
              | _, _ => Bad end);
      (* the arguments are sums of squares (>= 0: SkelFacts_Util.dot_self_nonneg); np.sqrt of a negative number
         (nan) is not reachable *)
      ("np.sqrt", fun args kw => match args, kw with
              | [VSig (UScal s)], [] => Ok (VSig (UScal (qsqrt s)))
              | _, _ => Bad end);
      ("ortho[ii, jj] =", fun args kw => match args, kw with
              | [VSig (UMat m); VNat i; VNat j; VSig (UXScal x)], [] =>
                  match mat_set m i j x with Some m' => Ok (VSig (UMat m')) | None => Exc "IndexError" end
              | _, _ => Bad end);
      (* ---- utils.apply_epochs ---- *)
      ("trls[0, 1]", fun args kw => match args, kw with
              | [VSig (UTrl t)], [] => match col_at t 0 with Some tr => Ok (VNat (trl_stop tr)) | None => Exc "IndexError" end
              | _, _ => Bad end);
      ("trls[0, 0]", fun args kw => match args, kw with
              | [VSig (UTrl t)], [] => match col_at t 0 with Some tr => Ok (VNat (trl_start tr)) | None => Exc "IndexError" end
              | _, _ => Bad end);
      ("X.shape", fun args kw => match args, kw with
              | [VSig (UCols a)], [] => Ok (VList [VOpaque "nsamples" []; VNat (length a)])
              | [VSig (UCol x)], [] => Ok (VList [VNat (length x)])
              | _, _ => Bad end);
      ("trls.shape", fun args kw => match args, kw with
              | [VSig (UTrl t)], [] => Ok (VList [VNat (length t); VNat 2])
              | _, _ => Bad end);
      ("np.zeros", fun args kw => match args, kw with
              | [VList [VNat L; VNat nc; VNat k]], [] => Ok (VSig (UEp L nc (zero_epochs L nc k)))
              | _, _ => Bad end);
      ("np.arange", fun args kw => match args, kw with
              | [VNat k], [] => Ok (range_val 0 k)
              | _, _ => Bad end);
      ("X[trls[ii, 0]:trls[ii, 1], :]", fun args kw => match args, kw with
              | [VSig (UCols a); VSig (UTrl t); VNat i], [] =>
                  match col_at t i with Some tr => Ok (VSig (UCols (map (slice_tr tr) a))) | None => Exc "IndexError" end
              | _, _ => Bad end);
      ("Y[:, :, ii] =", fun args kw => match args, kw with
              | [VSig (UEp L nc eps); VNat i; VSig (UCols s)], [] =>
                  match fit_epoch L s with
                  | Some s' => if Nat.ltb i (length eps) then Ok (VSig (UEp L nc (set_nth i s' eps))) else Exc "IndexError"
                  | None => Exc "ValueError"
                  end
              | _, _ => Bad end);
      (* ---- utils.find_extrema_locked_epochs ---- *)
      ("lock_to not in ['peaks', 'troughs', 'combined']", fun args kw => match args, kw with
              | [VStr s], [] => Ok (VBool (negb (lock_known s)))
              | _, _ => Bad end);
      ("get_padded_extrema", fun args kw => match args, kw with
              | [VSig (UCol x)], [(k1, VNat 0); (k2, VStr m)] =>
                  if String.eqb k1 "pad_width" && String.eqb k2 "mode" then
                    if String.eqb m "peaks" then Ok (gpe_val (extrema LPeaks x))
                    else if String.eqb m "troughs" then Ok (gpe_val (extrema LTroughs x))
                    else if String.eqb m "combined" then Exc "ValueError"   (* 'Mode combined not recognised' *)
                    else Bad
                  else Bad
              | _, _ => Bad end);
      ("np.percentile", fun args kw => match args, kw with
              | [VSig (UQvec p); VSig (UScal q)], [] => Ok (VSig (UScal (pctl p q)))
              | [VNone; VSig (UScal q)], [] => Exc "TypeError"
              | _, _ => Bad end);
      ("locs[pks > thresh]", fun args kw => match args, kw with
              | [VSig (UNvec l); VSig (UQvec p); VSig (UScal t)], [] => Ok (VSig (UNvec (mask_sel (above t p) l)))
              | _, _ => Bad end);
      ("pks[pks > thresh]", fun args kw => match args, kw with
              | [VSig (UQvec p); VSig (UScal t)], [] => Ok (VSig (UQvec (mask_sel (above t p) p)))
              | _, _ => Bad end);
      ("int", fun args kw => match args, kw with
              | [VOpaque t [VNat w; VNat 2]], [] => if String.eqb t "truediv" then Ok (VNat (half w)) else Bad
              | _, _ => Bad end);
      ("np.r_[np.atleast_2d(locs - winstep), np.atleast_2d(locs + winstep)].T", fun args kw => match args, kw with
              | [VSig (UNvec l); VNat ws], [] => Ok (VSig (UTrlZ (windows ws l)))
              | [VNone; VNat ws], [] => Exc "TypeError"
              | _, _ => Bad end);
      ("trls[:, 0]", fun args kw => match args, kw with
              | [VSig (UTrlZ t)], [] => Ok (VSig (UZvec (col0 t)))
              | _, _ => Bad end);
      ("trls[:, 1]", fun args kw => match args, kw with
              | [VSig (UTrlZ t)], [] => Ok (VSig (UZvec (col1 t)))
              | _, _ => Bad end);
      ("trls[inds == False, :]", fun args kw => match args, kw with
              | [VSig (UTrlZ t); VSig (UBvec b)], [] => Ok (VSig (UTrlZ (drop_true b t)))
              | _, _ => Bad end) ].
  Definition util_prims : prims uv := prims_of util_table.

  (* ================= initial environments =============================================================== *)
  Definition pa_names : list string := Eval cbv in assigned prog_phase_angle params_phase_angle.
  Definition pa_env0 (a : list (list (option Qc))) : env uv := frame params_phase_angle pa_names [VSig (UArr a)].

  Definition dq_names : list string := Eval cbv in assigned prog_direct_quadrature params_direct_quadrature.
  Definition dq_env0 (a : list (list (option Qc))) : env uv :=
    frame params_direct_quadrature dq_names [VSig (UArr a)].

  Definition pfcp_names : list string :=
    Eval cbv in assigned prog_phase_from_control_points params_phase_from_control_points.
  Definition pfcp_env0 (ctrl : list (list (option Qc))) (c : list nat) : env uv :=
    frame params_phase_from_control_points pfcp_names [VSig (UCtrl ctrl); VSig (UNvec c)].

  Definition fs_names : list string := Eval cbv in assigned prog_frequency_stats params_frequency_stats.
  Definition fs_env0 (args kwargs : val uv) : env uv := frame params_frequency_stats fs_names [args; kwargs].

  Definition eo_names : list string := Eval cbv in assigned prog_est_orthogonality params_est_orthogonality.
  Definition eo_env0 (a : list (list Qc)) : env uv := frame params_est_orthogonality eo_names [VSig (UCols a)].

  Definition ae_names : list string := Eval cbv in assigned prog_apply_epochs params_apply_epochs.
  Definition ae_env0 (X : list (list Qc)) (trls : list (nat * nat)) : env uv :=
    frame params_apply_epochs ae_names [VSig (UCols X); VSig (UTrl trls)].

  Definition fele_names : list string :=
    Eval cbv in assigned prog_find_extrema_locked_epochs params_find_extrema_locked_epochs.
  Definition fele_env0 (x : list Qc) (w : nat) (lock_to : string) (pct : option Qc) : env uv :=
    frame params_find_extrema_locked_epochs fele_names [VSig (UCol x); VNat w; VStr lock_to; pct_val pct].

  (* ================= renderings ========================================================================= *)
  Definition dq_render (r : res (list (list (option Qc)))) : outcome uv := res_outcome (res_map arr_val r).
  Definition pfcp_render (r : res (list Qc)) : outcome uv := res_outcome (res_map (fun ip => VSig (UQvec ip)) r).
  Definition eo_render (m : list (list xq)) : outcome uv := Return (VSig (UMat m)).
  Definition fele_render (r : res (list (Z * Z))) : outcome uv := res_outcome (res_map (fun t => VSig (UTrlZ t)) r).
End UtilPrims.
